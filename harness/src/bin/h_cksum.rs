//! Stream `cksum` and oracles for property C08 (Internet checksums).
//!
//! Correspondence case format (`be` = endianness of this machine, `dbg` = overflow checks on):
//!   case <id> be=<0|1> dbg=<0|1>
//!   pc <u32>                                   checksum::combine-style fold of one u32 (via combine of two halves)
//!   data <off> <hex>                           checksum::data(&buf[off..off+len]) (off = sub-slice alignment)
//!   comb <u16> ...                             checksum::combine
//!   ph4|ph6 <src> <dst> <proto> <len>          checksum::pseudo_header_v4/_v6
//!   ph <fam> <src> <fam> <dst> <proto> <len>   checksum::pseudo_header (mixed families panic)
//!   ip4v|ic4v <hex>                            Packet::verify_checksum
//!   ip4f|ic4f <hex>                            Packet::fill_checksum -> bytes
//!   ic6v|ic6f <src> <dst> <hex>
//!   tcpv|tcpf|udpv|udpf <4|6> <src> <dst> <hex>
//!   <x>p <rx> ...                              checksum gate of Repr::parse with caps.<x> = Rx/None (1 = passes)
//!   <x>e <tx> ...                              Repr::parse(ignored) then Repr::emit with caps.<x> = Tx/None -> bytes
//! Observations: `r ok <int|hex>` / `r panic`.
//!
//! Oracles (on the implementation only):
//!   oracle        emitted packets (Repr::emit, all five protocols + 6LoWPAN NHC-UDP, both pseudo headers,
//!                 adversarial payloads whose checksum computes to 0) verify under an independent RFC 1071
//!   oracle-iface  enforcement: a live Interface (Medium::Ip / Ethernet / Ieee802154, IPv4 and IPv6, UDP/TCP/ICMP
//!                 sockets); every single-bit corruption (and sampled double flips) of a valid frame must have no
//!                 effect at all (socket state, emitted frames) unless the corrupted packet still verifies
//!                 under the independent implementation; every frame the stack emits is verified as well.
//!   oracle-lowpan 6LoWPAN egress (Medium::Ieee802154, short/extended addresses; ICMPv6 from a socket and automatic
//!                 echo replies, NHC-UDP, TCP; single-frame and fragmented): emitted frames reassembled and decompressed
//!                 by an independent decoder, transport checksum verified with the independent RFC 1071
//!   oracle-frag   fragmented IPv4 egress (UDP / ICMP / raw socket sends and an oversized echo request's reply at
//!                 IP MTUs 68..576 on Medium::Ip and Ethernet): the IPv4 header checksum of every emitted
//!                 fragment, and the transport checksum after independent reassembly
use smoltcp::iface::{Config, Interface, SocketHandle, SocketSet};
use smoltcp::phy::{Checksum, ChecksumCapabilities, Medium};
use smoltcp::socket::{dhcpv4, icmp, tcp, udp};
use smoltcp::time::Instant;
use smoltcp::wire::*;
use std::collections::BTreeMap;
use std::io::Write;
use std::panic::{catch_unwind, AssertUnwindSafe};
use svh::dev::QDev;
use svh::*;

// ------------------------------------------------------------------------------------------
// independent RFC 1071 implementation (word-by-word one's-complement addition, end-around carry)
// ------------------------------------------------------------------------------------------

fn oc_add(a: u16, b: u16) -> u16 {
    let (s, carry) = a.overflowing_add(b);
    if carry {
        s + 1
    } else {
        s
    }
}

/// one's-complement sum of the big-endian 16-bit words of the concatenation of `parts`
/// (every part but the last must have even length; an odd tail is padded with a zero octet)
fn rfc_sum(parts: &[&[u8]]) -> u16 {
    let mut acc = 0u16;
    let n = parts.len();
    for (k, p) in parts.iter().enumerate() {
        assert!(k + 1 == n || p.len() % 2 == 0);
        let mut i = 0;
        while i + 1 < p.len() {
            acc = oc_add(acc, ((p[i] as u16) << 8) | p[i + 1] as u16);
            i += 2;
        }
        if i < p.len() {
            acc = oc_add(acc, (p[i] as u16) << 8);
        }
    }
    acc
}

fn pseudo(src: &[u8], dst: &[u8], proto: u8, len: usize) -> Vec<u8> {
    let mut v = vec![];
    v.extend_from_slice(src);
    v.extend_from_slice(dst);
    if src.len() == 4 {
        v.extend_from_slice(&[0, proto, (len >> 8) as u8, len as u8]);
    } else {
        // RFC 8200: 32-bit upper-layer length, 3 zero octets, next header
        v.extend_from_slice(&[(len >> 24) as u8, (len >> 16) as u8, (len >> 8) as u8, len as u8, 0, 0, 0, proto]);
    }
    v
}

#[derive(Debug, Clone, Copy, PartialEq, Eq)]
enum Verdict {
    Valid,
    Invalid(&'static str),
    DontCare(&'static str),
}

/// Independent judgement of an IP packet: do all checksums the property talks about verify?
fn indep_check_ip(p: &[u8]) -> Verdict {
    use Verdict::*;
    if p.is_empty() {
        return DontCare("empty");
    }
    match p[0] >> 4 {
        4 => {
            if p.len() < 20 {
                return DontCare("short");
            }
            let hl = ((p[0] & 0xf) as usize) * 4;
            let tl = ((p[2] as usize) << 8) | p[3] as usize;
            if hl < 20 || hl > p.len() || tl < hl || tl > p.len() {
                return DontCare("malformed-ipv4");
            }
            if rfc_sum(&[&p[..hl]]) != 0xffff {
                return Invalid("ipv4-header");
            }
            let frag = (((p[6] as u16) << 8) | p[7] as u16) & 0x3fff;
            if frag != 0 {
                return DontCare("fragment");
            }
            indep_check_l4(&p[12..16], &p[16..20], p[9], &p[hl..tl])
        }
        6 => {
            if p.len() < 40 {
                return DontCare("short");
            }
            let pl = ((p[4] as usize) << 8) | p[5] as usize;
            if 40 + pl > p.len() {
                return DontCare("malformed-ipv6");
            }
            indep_check_l4(&p[8..24], &p[24..40], p[6], &p[40..40 + pl])
        }
        _ => DontCare("version"),
    }
}

fn indep_check_l4(src: &[u8], dst: &[u8], proto: u8, pl: &[u8]) -> Verdict {
    use Verdict::*;
    let v4 = src.len() == 4;
    match (proto, v4) {
        (1, true) => {
            if pl.len() < 4 {
                return DontCare("short-icmp");
            }
            if rfc_sum(&[pl]) == 0xffff {
                Valid
            } else {
                Invalid("icmpv4")
            }
        }
        (58, false) => {
            if pl.len() < 4 {
                return DontCare("short-icmp");
            }
            if rfc_sum(&[&pseudo(src, dst, 58, pl.len()), pl]) == 0xffff {
                Valid
            } else {
                Invalid("icmpv6")
            }
        }
        (6, _) => {
            if pl.len() < 20 {
                return DontCare("short-tcp");
            }
            if rfc_sum(&[&pseudo(src, dst, 6, pl.len()), pl]) == 0xffff {
                Valid
            } else {
                Invalid("tcp")
            }
        }
        (17, _) => {
            if pl.len() < 8 {
                return DontCare("short-udp");
            }
            let ul = ((pl[4] as usize) << 8) | pl[5] as usize;
            if ul < 8 || ul > pl.len() {
                return DontCare("malformed-udp");
            }
            let ck = ((pl[6] as u16) << 8) | pl[7] as u16;
            if ck == 0 {
                // the one exception of the property: "no checksum" is legal over IPv4 only
                return if v4 { Valid } else { Invalid("udp6-zero-checksum") };
            }
            if rfc_sum(&[&pseudo(src, dst, 17, ul), &pl[..ul]]) == 0xffff {
                Valid
            } else {
                Invalid("udp")
            }
        }
        _ => DontCare("other-protocol"),
    }
}

// ------------------------------------------------------------------------------------------
// helpers
// ------------------------------------------------------------------------------------------

fn overflow_checks_on() -> bool {
    let x: u32 = std::hint::black_box(u32::MAX);
    catch_unwind(|| std::hint::black_box(x + std::hint::black_box(1))).is_err()
}

fn ip_of(fam: &str, h: &str) -> IpAddress {
    let b = unhex(h);
    if fam == "4" {
        IpAddress::Ipv4(Ipv4Address::from_octets(b[..4].try_into().unwrap()))
    } else {
        IpAddress::Ipv6(Ipv6Address::from_octets(b[..16].try_into().unwrap()))
    }
}
fn v4_of(h: &str) -> Ipv4Address {
    Ipv4Address::from_octets(unhex(h)[..4].try_into().unwrap())
}
fn v6_of(h: &str) -> Ipv6Address {
    Ipv6Address::from_octets(unhex(h)[..16].try_into().unwrap())
}

fn caps_with(rx: bool, tx: bool) -> ChecksumCapabilities {
    let c = match (rx, tx) {
        (true, true) => Checksum::Both,
        (true, false) => Checksum::Rx,
        (false, true) => Checksum::Tx,
        (false, false) => Checksum::None,
    };
    let mut caps = ChecksumCapabilities::default();
    caps.ipv4 = c;
    caps.udp = c;
    caps.tcp = c;
    caps.icmpv4 = c;
    caps.icmpv6 = c;
    caps
}

fn ok_b(r: Option<bool>) -> String {
    match r {
        Some(b) => format!("ok {}", b as u8),
        None => "panic".into(),
    }
}
fn ok_l(r: Option<Vec<u8>>) -> String {
    match r {
        Some(b) => format!("ok {}", hex(&b)),
        None => "panic".into(),
    }
}
fn ok_z(r: Option<u16>) -> String {
    match r {
        Some(b) => format!("ok {}", b),
        None => "panic".into(),
    }
}

// ------------------------------------------------------------------------------------------
// correspondence: implementation side
// ------------------------------------------------------------------------------------------

fn run_op(op: &str) -> String {
    let t: Vec<&str> = op.split_whitespace().collect();
    match t[0] {
        "pc" => {
            // propagate_carries is private: combine(&[hi, lo]) folds hi + lo, which for w = hi*65536 + lo is
            // congruent to w; the model's propagate_carries(w) is compared with combine([w>>16, w&0xffff])
            let w: u32 = t[1].parse().unwrap();
            ok_z(catch(move || checksum::combine(&[(w >> 16) as u16, w as u16])))
        }
        "data" => {
            let off: usize = t[1].parse().unwrap();
            let d = unhex(t[2]);
            let mut buf = vec![0x5au8; off + d.len() + 3];
            buf[off..off + d.len()].copy_from_slice(&d);
            let n = d.len();
            ok_z(catch(move || checksum::data(&buf[off..off + n])))
        }
        "comb" => {
            let ws: Vec<u16> = t[1..].iter().map(|x| x.parse().unwrap()).collect();
            ok_z(catch(move || checksum::combine(&ws)))
        }
        "ph4" => {
            let (s, d) = (v4_of(t[1]), v4_of(t[2]));
            let (nh, len): (u8, u32) = (t[3].parse().unwrap(), t[4].parse().unwrap());
            ok_z(catch(move || checksum::pseudo_header_v4(&s, &d, IpProtocol::from(nh), len)))
        }
        "ph6" => {
            let (s, d) = (v6_of(t[1]), v6_of(t[2]));
            let (nh, len): (u8, u32) = (t[3].parse().unwrap(), t[4].parse().unwrap());
            ok_z(catch(move || checksum::pseudo_header_v6(&s, &d, IpProtocol::from(nh), len)))
        }
        "ph" => {
            let (s, d) = (ip_of(t[1], t[2]), ip_of(t[3], t[4]));
            let (nh, len): (u8, u32) = (t[5].parse().unwrap(), t[6].parse().unwrap());
            ok_z(catch(move || checksum::pseudo_header(&s, &d, IpProtocol::from(nh), len)))
        }
        "ip4v" => {
            let b = unhex(t[1]);
            ok_b(catch(move || Ipv4Packet::new_unchecked(&b[..]).verify_checksum()))
        }
        "ip4f" => {
            let mut b = unhex(t[1]);
            ok_l(catch(move || {
                Ipv4Packet::new_unchecked(&mut b[..]).fill_checksum();
                b
            }))
        }
        "ip4p" => {
            let rx = t[1] != "0";
            let b = unhex(t[2]);
            ok_b(catch(move || Ipv4Repr::parse(&Ipv4Packet::new_unchecked(&b[..]), &caps_with(rx, false)).is_ok()))
        }
        "ip4e" => {
            let tx = t[1] != "0";
            let b = unhex(t[2]);
            ok_l(catch(move || {
                let r = Ipv4Repr::parse(&Ipv4Packet::new_unchecked(&b[..]), &ChecksumCapabilities::ignored()).unwrap();
                let mut o = vec![0xa5u8; b.len()];
                o[20..].copy_from_slice(&b[20..]);
                r.emit(&mut Ipv4Packet::new_unchecked(&mut o[..]), &caps_with(false, tx));
                o
            }))
        }
        "ic4v" => {
            let b = unhex(t[1]);
            ok_b(catch(move || Icmpv4Packet::new_unchecked(&b[..]).verify_checksum()))
        }
        "ic4f" => {
            let mut b = unhex(t[1]);
            ok_l(catch(move || {
                Icmpv4Packet::new_unchecked(&mut b[..]).fill_checksum();
                b
            }))
        }
        "ic4p" => {
            let rx = t[1] != "0";
            let b = unhex(t[2]);
            ok_b(catch(move || Icmpv4Repr::parse(&Icmpv4Packet::new_unchecked(&b[..]), &caps_with(rx, false)).is_ok()))
        }
        "ic4e" => {
            let tx = t[1] != "0";
            let b = unhex(t[2]);
            ok_l(catch(move || {
                let r = Icmpv4Repr::parse(&Icmpv4Packet::new_unchecked(&b[..]), &ChecksumCapabilities::ignored()).unwrap();
                let mut o = vec![0xa5u8; r.buffer_len()];
                r.emit(&mut Icmpv4Packet::new_unchecked(&mut o[..]), &caps_with(false, tx));
                o
            }))
        }
        "ic6v" => {
            let (s, d, b) = (v6_of(t[1]), v6_of(t[2]), unhex(t[3]));
            ok_b(catch(move || Icmpv6Packet::new_unchecked(&b[..]).verify_checksum(&s, &d)))
        }
        "ic6f" => {
            let (s, d, mut b) = (v6_of(t[1]), v6_of(t[2]), unhex(t[3]));
            ok_l(catch(move || {
                Icmpv6Packet::new_unchecked(&mut b[..]).fill_checksum(&s, &d);
                b
            }))
        }
        "ic6p" => {
            let rx = t[1] != "0";
            let (s, d, b) = (v6_of(t[2]), v6_of(t[3]), unhex(t[4]));
            ok_b(catch(move || Icmpv6Repr::parse(&s, &d, &Icmpv6Packet::new_unchecked(&b[..]), &caps_with(rx, false)).is_ok()))
        }
        "ic6e" => {
            let tx = t[1] != "0";
            let (s, d, b) = (v6_of(t[2]), v6_of(t[3]), unhex(t[4]));
            ok_l(catch(move || {
                let r = Icmpv6Repr::parse(&s, &d, &Icmpv6Packet::new_unchecked(&b[..]), &ChecksumCapabilities::ignored()).unwrap();
                let mut o = vec![0xa5u8; r.buffer_len()];
                r.emit(&s, &d, &mut Icmpv6Packet::new_unchecked(&mut o[..]), &caps_with(false, tx));
                o
            }))
        }
        "tcpv" => {
            let (s, d, b) = (ip_of(t[1], t[2]), ip_of(t[1], t[3]), unhex(t[4]));
            ok_b(catch(move || TcpPacket::new_unchecked(&b[..]).verify_checksum(&s, &d)))
        }
        "tcpf" => {
            let (s, d, mut b) = (ip_of(t[1], t[2]), ip_of(t[1], t[3]), unhex(t[4]));
            ok_l(catch(move || {
                TcpPacket::new_unchecked(&mut b[..]).fill_checksum(&s, &d);
                b
            }))
        }
        "tcpp" => {
            let rx = t[1] != "0";
            let (s, d, b) = (ip_of(t[2], t[3]), ip_of(t[2], t[4]), unhex(t[5]));
            ok_b(catch(move || TcpRepr::parse(&TcpPacket::new_unchecked(&b[..]), &s, &d, &caps_with(rx, false)).is_ok()))
        }
        "tcpe" => {
            let tx = t[1] != "0";
            let (s, d, b) = (ip_of(t[2], t[3]), ip_of(t[2], t[4]), unhex(t[5]));
            ok_l(catch(move || {
                let r = TcpRepr::parse(&TcpPacket::new_unchecked(&b[..]), &s, &d, &ChecksumCapabilities::ignored()).unwrap();
                let mut o = vec![0xa5u8; r.buffer_len()];
                r.emit(&mut TcpPacket::new_unchecked(&mut o[..]), &s, &d, &caps_with(false, tx));
                o
            }))
        }
        "udpv" => {
            let (s, d, b) = (ip_of(t[1], t[2]), ip_of(t[1], t[3]), unhex(t[4]));
            ok_b(catch(move || UdpPacket::new_unchecked(&b[..]).verify_checksum(&s, &d)))
        }
        "udpf" => {
            let (s, d, mut b) = (ip_of(t[1], t[2]), ip_of(t[1], t[3]), unhex(t[4]));
            ok_l(catch(move || {
                UdpPacket::new_unchecked(&mut b[..]).fill_checksum(&s, &d);
                b
            }))
        }
        "udpp" => {
            let rx = t[1] != "0";
            let (s, d, b) = (ip_of(t[2], t[3]), ip_of(t[2], t[4]), unhex(t[5]));
            ok_b(catch(move || UdpRepr::parse(&UdpPacket::new_unchecked(&b[..]), &s, &d, &caps_with(rx, false)).is_ok()))
        }
        "udpe" => {
            let tx = t[1] != "0";
            let (s, d, mut b) = (ip_of(t[2], t[3]), ip_of(t[2], t[4]), unhex(t[5]));
            ok_l(catch(move || {
                let r = UdpRepr::parse(&UdpPacket::new_unchecked(&b[..]), &s, &d, &ChecksumCapabilities::ignored()).unwrap();
                let n = b.len() - 8;
                r.emit(&mut UdpPacket::new_unchecked(&mut b[..]), &s, &d, n, |_| {}, &caps_with(false, tx));
                b
            }))
        }
        x => panic!("bad op {}", x),
    }
}

fn run_case(c: &Case, out: &mut dyn Write) {
    writeln!(out, "case {}", c.id).unwrap();
    if c.get("kind").is_some() {
        return; // an oracle replay case (kind=emit|iface): nothing to compare with the model
    }
    for op in &c.ops {
        writeln!(out, "r {}", run_op(op)).unwrap();
    }
}

// ------------------------------------------------------------------------------------------
// correspondence: generator
// ------------------------------------------------------------------------------------------

/// structured byte-string contents
fn content(rng: &mut Rng, len: usize) -> (Vec<u8>, &'static str) {
    match rng.below(12) {
        0 | 1 | 2 | 3 => (rng.bytes(len), "random"),
        4 => (vec![0xff; len], "all-ff"),
        5 => (vec![0; len], "all-zero"),
        6 => {
            // all-ones words with a single 0x0001 word: one carry ripples through the whole fold
            let mut v = vec![0xff; len];
            if len >= 2 {
                let j = rng.below((len / 2) as u64) as usize * 2;
                v[j] = 0;
                v[j + 1] = 1;
            }
            (v, "carry-at")
        }
        7 => {
            let mut v = vec![0; len];
            if len > 0 {
                let j = rng.below(len as u64) as usize;
                v[j] = *rng.pick(&[1u8, 0x80, 0xff, 0x01]);
            }
            (v, "single-byte")
        }
        8 => ((0..len).map(|i| if i % 2 == 0 { 0xff } else { 0x00 }).collect(), "ff00"),
        9 => ((0..len).map(|i| if i % 2 == 0 { 0x00 } else { 0xff }).collect(), "00ff"),
        10 => {
            let mut v = rng.bytes(len);
            for (i, b) in v.iter_mut().enumerate() {
                if i % 2 == 0 {
                    *b |= 0xf0;
                }
            }
            (v, "high-words")
        }
        _ => {
            // sum tuned to fold to exactly 0xffff or 0x0000+carry
            let mut v = rng.bytes(len);
            if len >= 2 {
                v[len - 2] = 0;
                v[len - 1] = 0;
                let s = rfc_sum(&[&v]);
                let w = if rng.chance(1, 2) { 0xffff - s } else { 0xffffu16.wrapping_sub(s).wrapping_add(1) };
                let k = (len - 2) & !1;
                v[k] = (w >> 8) as u8;
                v[k + 1] = w as u8;
            }
            (v, "tuned")
        }
    }
}

fn gen_addrs(rng: &mut Rng, v4: bool) -> (Vec<u8>, Vec<u8>) {
    let n = if v4 { 4 } else { 16 };
    match rng.below(4) {
        0 => (vec![0xff; n], vec![0xff; n]),
        1 => (vec![0; n], vec![0; n]),
        _ => (rng.bytes(n), rng.bytes(n)),
    }
}

fn set16(b: &mut [u8], off: usize, v: u16) {
    if off + 2 <= b.len() {
        b[off] = (v >> 8) as u8;
        b[off + 1] = v as u8;
    }
}

fn gen_len(rng: &mut Rng, min_ok: usize) -> usize {
    match rng.below(20) {
        0 => rng.below(min_ok as u64 + 1) as usize, // too short: panic paths
        1 => min_ok,
        2 => min_ok + 1,
        3 => rng.range(1400, 1500) as usize,
        4 => rng.range(min_ok as i64, 600) as usize,
        _ => rng.range(min_ok as i64, 96) as usize,
    }
}

/// mutate a valid packet for the verify ops
fn perturb(rng: &mut Rng, b: &mut Vec<u8>, ck_off: usize) -> &'static str {
    match rng.below(10) {
        0..=3 => "valid",
        4 | 5 => {
            if !b.is_empty() {
                let i = rng.below(b.len() as u64) as usize;
                b[i] ^= 1 << rng.below(8);
            }
            "flip1"
        }
        6 => {
            for _ in 0..2 {
                if !b.is_empty() {
                    let i = rng.below(b.len() as u64) as usize;
                    b[i] ^= 1 << rng.below(8);
                }
            }
            "flip2"
        }
        7 => {
            set16(b, ck_off, rng.next() as u16);
            "random-ck"
        }
        8 => {
            set16(b, ck_off, 0);
            "zero-ck"
        }
        _ => {
            set16(b, ck_off, 0xffff);
            "ffff-ck"
        }
    }
}

fn gen_proto_op(rng: &mut Rng, stats: &mut BTreeMap<String, u64>) -> String {
    let v4 = rng.chance(1, 2);
    let fam = if v4 { "4" } else { "6" };
    let (s, d) = gen_addrs(rng, v4);
    let mut note = |k: String| *stats.entry(k).or_default() += 1;
    match rng.below(26) {
        0 => format!("pc {}", match rng.below(4) { 0 => 0u32, 1 => u32::MAX, 2 => rng.next() as u32 & 0x1ffff, _ => rng.next() as u32 }),
        1 | 2 => {
            let n = rng.below(7) as usize;
            let ws: Vec<String> = (0..n).map(|_| (match rng.below(4) { 0 => 0xffffu16, 1 => 0, _ => rng.next() as u16 }).to_string()).collect();
            format!("comb {}", ws.join(" ")).trim_end().to_string()
        }
        3 => {
            let (s, d) = gen_addrs(rng, true);
            format!("ph4 {} {} {} {}", hex(&s), hex(&d), rng.below(256), if rng.chance(1, 4) { rng.next() as u32 as u64 } else { rng.below(70000) })
        }
        4 => {
            let (s, d) = gen_addrs(rng, false);
            format!("ph6 {} {} {} {}", hex(&s), hex(&d), rng.below(256), if rng.chance(1, 4) { rng.next() as u32 as u64 } else { rng.below(70000) })
        }
        5 => {
            // pseudo_header dispatcher, sometimes with mixed families (unreachable!())
            let fs = rng.chance(1, 2);
            let fd = if rng.chance(1, 5) { !fs } else { fs };
            let (s, _) = gen_addrs(rng, fs);
            let (d, _) = gen_addrs(rng, fd);
            format!("ph {} {} {} {} {} {}", if fs { 4 } else { 6 }, hex(&s), if fd { 4 } else { 6 }, hex(&d), rng.below(256), rng.below(70000))
        }
        // ---- IPv4 header ----
        6 | 7 | 8 => {
            let ihl = match rng.below(10) { 0 => rng.below(5), 1 => rng.range(6, 15) as u64, _ => 5 } as usize;
            let extra = rng.below(24) as usize;
            let mut len = (ihl * 4).max(if rng.chance(1, 8) { rng.below(24) as usize } else { 20 }) + extra;
            if rng.chance(1, 10) {
                len = rng.below(24) as usize; // possibly shorter than the header: panic paths
            }
            let mut b = rng.bytes(len);
            if len > 0 {
                b[0] = 0x40 | ihl as u8;
            }
            if len >= 4 {
                let tl = (len as u16).max((ihl * 4) as u16);
                set16(&mut b, 2, tl);
            }
            if ihl * 4 <= len && ihl * 4 >= 12 {
                set16(&mut b, 10, 0);
                let c = !rfc_sum(&[&b[..ihl * 4]]);
                set16(&mut b, 10, c);
            }
            let k = rng.below(3);
            if k == 0 {
                note("ip4f".into());
                set16(&mut b, 10, rng.next() as u16);
                format!("ip4f {}", hex(&b))
            } else if k == 1 {
                let how = perturb(rng, &mut b, 10);
                note(format!("ip4v:{}", how));
                format!("ip4v {}", hex(&b))
            } else if ihl == 5 && len >= 20 {
                // parse gate: structurally valid header (version 4, lengths consistent, no fragment)
                b[6] &= 0x40;
                b[7] = 0;
                set16(&mut b, 10, 0);
                let c = !rfc_sum(&[&b[..20]]);
                set16(&mut b, 10, c);
                let how = perturb_field_only(rng, &mut b, 10, 20, &[0, 2, 3, 6, 7]);
                note(format!("ip4p:{}", how));
                format!("ip4p {} {}", rng.below(2), hex(&b))
            } else {
                note("ip4f".into());
                format!("ip4f {}", hex(&b))
            }
        }
        9 => {
            // Ipv4Repr::emit with tx on/off (normal form produced by emit itself)
            let r = Ipv4Repr {
                src_addr: Ipv4Address::from_octets(rng.bytes(4)[..].try_into().unwrap()),
                dst_addr: Ipv4Address::from_octets(rng.bytes(4)[..].try_into().unwrap()),
                next_header: IpProtocol::from(rng.next() as u8),
                payload_len: rng.below(1481) as usize,
                hop_limit: rng.next() as u8,
            };
            let mut b = vec![0xa5u8; 20 + r.payload_len];
            r.emit(&mut Ipv4Packet::new_unchecked(&mut b[..]), &ChecksumCapabilities::ignored());
            set16(&mut b, 10, rng.next() as u16);
            note("ip4e".into());
            format!("ip4e {} {}", rng.below(2), hex(&b))
        }
        // ---- ICMPv4 ----
        10 | 11 | 12 => {
            let len = gen_len(rng, 4);
            let (mut b, _) = content(rng, len);
            if len >= 4 {
                set16(&mut b, 2, 0);
                let c = !rfc_sum(&[&b]);
                set16(&mut b, 2, c);
            }
            match rng.below(4) {
                0 => {
                    set16(&mut b, 2, rng.next() as u16);
                    note("ic4f".into());
                    format!("ic4f {}", hex(&b))
                }
                1 | 2 => {
                    let how = perturb(rng, &mut b, 2);
                    note(format!("ic4v:{}", how));
                    format!("ic4v {}", hex(&b))
                }
                _ => {
                    // echo request / reply through Repr::parse and Repr::emit
                    let dl = rng.below(64) as usize;
                    let data = rng.bytes(dl);
                    let r = if rng.chance(1, 2) {
                        Icmpv4Repr::EchoRequest { ident: rng.next() as u16, seq_no: rng.next() as u16, data: &data }
                    } else {
                        Icmpv4Repr::EchoReply { ident: rng.next() as u16, seq_no: rng.next() as u16, data: &data }
                    };
                    let mut b = vec![0xa5u8; r.buffer_len()];
                    r.emit(&mut Icmpv4Packet::new_unchecked(&mut b[..]), &ChecksumCapabilities::default());
                    if rng.chance(1, 2) {
                        set16(&mut b, 2, rng.next() as u16);
                        note("ic4e".into());
                        format!("ic4e {} {}", rng.below(2), hex(&b))
                    } else {
                        let how = perturb_field_only(rng, &mut b, 2, 8, &[0, 1]);
                        note(format!("ic4p:{}", how));
                        format!("ic4p {} {}", rng.below(2), hex(&b))
                    }
                }
            }
        }
        // ---- ICMPv6 ----
        13 | 14 | 15 => {
            let (s, d) = gen_addrs(rng, false);
            let len = gen_len(rng, 4);
            let (mut b, _) = content(rng, len);
            if len >= 4 {
                set16(&mut b, 2, 0);
                let c = !rfc_sum(&[&pseudo(&s, &d, 58, len), &b]);
                set16(&mut b, 2, c);
            }
            match rng.below(4) {
                0 => {
                    set16(&mut b, 2, rng.next() as u16);
                    note("ic6f".into());
                    format!("ic6f {} {} {}", hex(&s), hex(&d), hex(&b))
                }
                1 | 2 => {
                    let how = perturb(rng, &mut b, 2);
                    note(format!("ic6v:{}", how));
                    format!("ic6v {} {} {}", hex(&s), hex(&d), hex(&b))
                }
                _ => {
                    let (sa, da) = (Ipv6Address::from_octets(s[..].try_into().unwrap()), Ipv6Address::from_octets(d[..].try_into().unwrap()));
                    let dl = rng.below(64) as usize;
                    let data = rng.bytes(dl);
                    let r = if rng.chance(1, 2) {
                        Icmpv6Repr::EchoRequest { ident: rng.next() as u16, seq_no: rng.next() as u16, data: &data }
                    } else {
                        Icmpv6Repr::EchoReply { ident: rng.next() as u16, seq_no: rng.next() as u16, data: &data }
                    };
                    let mut b = vec![0xa5u8; r.buffer_len()];
                    r.emit(&sa, &da, &mut Icmpv6Packet::new_unchecked(&mut b[..]), &ChecksumCapabilities::default());
                    if rng.chance(1, 2) {
                        set16(&mut b, 2, rng.next() as u16);
                        note("ic6e".into());
                        format!("ic6e {} {} {} {}", rng.below(2), hex(&s), hex(&d), hex(&b))
                    } else {
                        let how = perturb_field_only(rng, &mut b, 2, 8, &[0, 1]);
                        note(format!("ic6p:{}", how));
                        format!("ic6p {} {} {} {}", rng.below(2), hex(&s), hex(&d), hex(&b))
                    }
                }
            }
        }
        // ---- TCP ----
        16 | 17 | 18 | 19 => {
            let len = gen_len(rng, 18);
            let (mut b, _) = content(rng, len);
            if len >= 18 {
                set16(&mut b, 16, 0);
                let c = !rfc_sum(&[&pseudo(&s, &d, 6, len), &b]);
                set16(&mut b, 16, c);
            }
            match rng.below(5) {
                0 => {
                    set16(&mut b, 16, rng.next() as u16);
                    note(format!("tcpf{}", fam));
                    format!("tcpf {} {} {} {}", fam, hex(&s), hex(&d), hex(&b))
                }
                1 | 2 => {
                    let how = perturb(rng, &mut b, 16);
                    note(format!("tcpv{}:{}", fam, how));
                    format!("tcpv {} {} {} {}", fam, hex(&s), hex(&d), hex(&b))
                }
                _ => {
                    // well-formed segment through Repr::parse / Repr::emit
                    let pl_len = rng.below(80) as usize;
                    let payload = rng.bytes(pl_len);
                    let syn = rng.chance(1, 3);
                    let r = TcpRepr {
                        src_port: rng.range(1, 65535) as u16,
                        dst_port: rng.range(1, 65535) as u16,
                        control: if syn { TcpControl::Syn } else { *rng.pick(&[TcpControl::None, TcpControl::Psh, TcpControl::Fin, TcpControl::Rst]) },
                        seq_number: TcpSeqNumber(rng.next() as i32),
                        ack_number: if syn && rng.chance(1, 2) { None } else { Some(TcpSeqNumber(rng.next() as i32)) },
                        window_len: rng.next() as u16,
                        window_scale: if syn && rng.chance(1, 2) { Some(rng.below(15) as u8) } else { None },
                        max_seg_size: if syn && rng.chance(1, 2) { Some(rng.range(1, 65535) as u16) } else { None },
                        sack_permitted: syn && rng.chance(1, 2),
                        sack_ranges: [None, None, None],
                        timestamp: None,
                        payload: &payload,
                    };
                    let (sa, da) = (ip_of(fam, &hex(&s)), ip_of(fam, &hex(&d)));
                    let mut b = vec![0xa5u8; r.buffer_len()];
                    r.emit(&mut TcpPacket::new_unchecked(&mut b[..]), &sa, &da, &ChecksumCapabilities::default());
                    if rng.chance(1, 2) {
                        set16(&mut b, 16, rng.next() as u16);
                        note(format!("tcpe{}", fam));
                        format!("tcpe {} {} {} {} {}", rng.below(2), fam, hex(&s), hex(&d), hex(&b))
                    } else {
                        // flips only where they cannot make the segment structurally invalid:
                        // not in ports, data offset, flags or the options
                        let hl = (b[12] >> 4) as usize * 4;
                        let mut keep: Vec<usize> = vec![0, 1, 2, 3, 12, 13];
                        keep.extend(20..hl);
                        let n = b.len();
                        let how = perturb_field_only(rng, &mut b, 16, n, &keep);
                        note(format!("tcpp{}:{}", fam, how));
                        format!("tcpp {} {} {} {} {}", rng.below(2), fam, hex(&s), hex(&d), hex(&b))
                    }
                }
            }
        }
        // ---- UDP ----
        _ => {
            let len = gen_len(rng, 8);
            let (mut b, _) = content(rng, len);
            // length field: usually the whole buffer, sometimes shorter (trailing bytes) or inconsistent
            let ul = match rng.below(10) {
                0 => rng.below(len as u64 + 4) as usize,
                1 => len.saturating_sub(rng.below(5) as usize).max(8.min(len)),
                _ => len,
            };
            set16(&mut b, 4, ul as u16);
            if len >= 8 && ul >= 8 && ul <= len {
                set16(&mut b, 6, 0);
                let mut c = !rfc_sum(&[&pseudo(&s, &d, 17, ul), &b[..ul]]);
                if c == 0 {
                    c = 0xffff;
                }
                set16(&mut b, 6, c);
            }
            match rng.below(6) {
                0 => {
                    set16(&mut b, 6, rng.next() as u16);
                    // sometimes tune the payload so that the computed checksum is exactly 0 (0 -> 0xffff rule)
                    if ul == len && len >= 10 && rng.chance(1, 2) {
                        set16(&mut b, 6, 0);
                        set16(&mut b, 8, 0);
                        let sum = rfc_sum(&[&pseudo(&s, &d, 17, ul), &b[..ul]]);
                        set16(&mut b, 8, 0xffff - sum);
                        note(format!("udpf{}:computes-zero", fam));
                    } else {
                        note(format!("udpf{}", fam));
                    }
                    format!("udpf {} {} {} {}", fam, hex(&s), hex(&d), hex(&b))
                }
                1 | 2 => {
                    let how = perturb(rng, &mut b, 6);
                    note(format!("udpv{}:{}", fam, how));
                    format!("udpv {} {} {} {}", fam, hex(&s), hex(&d), hex(&b))
                }
                3 | 4 => {
                    // parse gate: structurally valid (check_len ok, dst port != 0)
                    if len < 8 || ul < 8 || ul > len {
                        note(format!("udpv{}:malformed", fam));
                        return format!("udpv {} {} {} {}", fam, hex(&s), hex(&d), hex(&b));
                    }
                    if b[2] == 0 && b[3] == 0 {
                        b[3] = 7;
                        set16(&mut b, 6, 0);
                        let mut c = !rfc_sum(&[&pseudo(&s, &d, 17, ul), &b[..ul]]);
                        if c == 0 {
                            c = 0xffff;
                        }
                        set16(&mut b, 6, c);
                    }
                    let how = perturb_field_only(rng, &mut b, 6, ul, &[2, 3, 4, 5]);
                    note(format!("udpp{}:{}", fam, how));
                    format!("udpp {} {} {} {} {}", rng.below(2), fam, hex(&s), hex(&d), hex(&b))
                }
                _ => {
                    if len < 8 || (b[2] == 0 && b[3] == 0) {
                        note(format!("udpf{}", fam));
                        return format!("udpf {} {} {} {}", fam, hex(&s), hex(&d), hex(&b));
                    }
                    set16(&mut b, 4, len as u16);
                    set16(&mut b, 6, rng.next() as u16);
                    note(format!("udpe{}", fam));
                    format!("udpe {} {} {} {} {}", rng.below(2), fam, hex(&s), hex(&d), hex(&b))
                }
            }
        }
    }
}

/// perturbation for the parse-gate ops: only touches bytes that cannot make the packet structurally
/// invalid (`keep` = offsets that must stay as they are), so that parse fails only through the checksum
fn perturb_field_only(rng: &mut Rng, b: &mut Vec<u8>, ck_off: usize, region: usize, keep: &[usize]) -> &'static str {
    match rng.below(8) {
        0..=2 => "valid",
        3 | 4 => {
            for _ in 0..50 {
                let i = rng.below(region.min(b.len()).max(1) as u64) as usize;
                if i < b.len() && !keep.contains(&i) {
                    b[i] ^= 1 << rng.below(8);
                    break;
                }
            }
            "flip1"
        }
        5 => {
            set16(b, ck_off, rng.next() as u16);
            "random-ck"
        }
        6 => {
            set16(b, ck_off, 0);
            "zero-ck"
        }
        _ => {
            set16(b, ck_off, 0xffff);
            "ffff-ck"
        }
    }
}

fn gen_cases(seed: u64, n: usize, tier: &str, out: &mut dyn Write, stats: &mut BTreeMap<String, u64>) {
    let mut rng = Rng::new(seed);
    let be = cfg!(target_endian = "big") as u8;
    let dbg = overflow_checks_on() as u8;
    // quick: the 8 shards (seed % 1000 = 0..7) partition the lengths 0..=4096 by residue;
    // thorough: every shard sweeps all lengths with its own contents
    let (stride, first) = if tier == "thorough" { (1usize, 0usize) } else { (8, (seed % 1000) as usize % 8) };
    for i in 0..n {
        let mut ops = vec![];
        let len = (first + stride * i) % 4097;
        let (d, pat) = content(&mut rng, len);
        *stats.entry(format!("data:{}", pat)).or_default() += 1;
        ops.push(format!("data {} {}", rng.below(4), hex(&d)));
        if i == 0 {
            // the largest IP payload, and the accumulator bound (see C08_bound_sharp)
            let (d, _) = content(&mut rng, 65535);
            ops.push(format!("data {} {}", rng.below(4), hex(&d)));
            if (seed % 1000) % 8 == 0 {
                ops.push(format!("data 0 {}", hex(&vec![0xffu8; 131074])));
                ops.push(format!("data 1 {}", hex(&vec![0xffu8; 131076])));
                ops.push(format!("data 0 {}", hex(&rng.bytes(140001))));
                *stats.entry("data:beyond-bound".into()).or_default() += 3;
            }
        }
        for _ in 0..rng.range(2, 6) {
            ops.push(gen_proto_op(&mut rng, stats));
        }
        let c = Case { id: format!("s{}-{}", seed, i), cfg: vec![("be".into(), be.to_string()), ("dbg".into(), dbg.to_string())], ops };
        c.write(out);
    }
}

include!("h_cksum_inc/oracles.rs");
include!("h_cksum_inc/lowpan.rs");

fn main() {
    quiet_panics();
    let (sub, seed, n, tier) = args();
    let stdout = std::io::stdout();
    let mut out = std::io::BufWriter::new(stdout.lock());
    match sub.as_str() {
        "gen" => {
            let mut stats = BTreeMap::new();
            gen_cases(seed, n, &tier, &mut out, &mut stats);
        }
        "gen-stats" => {
            let mut stats = BTreeMap::new();
            let mut sink = std::io::sink();
            gen_cases(seed, n, &tier, &mut sink, &mut stats);
            for (k, v) in stats {
                writeln!(out, "{} {}", k, v).unwrap();
            }
        }
        "run" => {
            for c in stdin_cases() {
                run_case(&c, &mut out);
            }
        }
        "oracle" => oracle_emit(seed, n, &tier, &mut out),
        "oracle-iface" => oracle_iface(seed, n, &tier, &mut out),
        "oracle-frag" => oracle_frag(seed, n, &tier, &mut out),
        "oracle-lowpan" => oracle_lowpan_egress(seed, n, &tier, &mut out),
        "oracle-replay" => oracle_replay(&mut out),
        x => panic!("unknown subcommand {}", x),
    }
}
