//! Stream `ingress` (properties C11, C10): a real `Interface` on each medium with a configurable
//! socket set; each case performs ONE event — inject one well-formed packet (`rx`), or let a socket
//! transmit (`tx`) — and reports which sockets changed and every emitted frame reduced to
//! (kind, src, dst, link dst, ip length, first-fragment flag).
//!
//! Case format (addresses in hex: 8 digits IPv4, 32 digits IPv6, 12 Ethernet, 16 / 4 IEEE 802.15.4
//! extended / short; `-` = none):
//!   case <id> med=ip|eth|154 anyip=0|1 mtu=<device mtu>
//!   hw <ll> | pan <n|-> | addr <ip> <plen> | group <ip> | route <ip> <plen> <gw> | neigh <ip> <ll>
//!   sock tcpl <ip|-> <port> | tcpc <la> <lp> <ra> <rp> | tcpx | udp <ip|-> <port>
//!        | icmp - | icmp ident <id> | icmp udp <ip|-> <port> | icmp tcp <ip|-> <port>
//!        | raw <4|6|-> <proto|-> | dns <ip>[,<ip>..]
//!   rx <ll> <pan|-> <src> <dst> <hbh option bytes hex|-> <upper..>
//!        upper: tcp <sp> <dp> <none|psh|syn|fin|rst> <ack 0|1> <len> | udp <sp> <dp> <len>
//!               | echoreq <id> <len> | echorep <id> <len> | icmperr <type> <udp:<sp>|tcp:<sp>|other> <len>
//!               | igmp | other <proto> <len>
//!   tx udp <sock idx> <dst> <dport> <len>  |  tx connect <dst> <dport>
//!   end
//! Observations:  `chg <idx ...|->`   `tx <kind> <src> <dst> <ll|-> <iplen> <frag 0|1>`
use smoltcp::iface::{Config, Interface, Route, SocketHandle, SocketSet};
use smoltcp::phy::{ChecksumCapabilities, Medium};
use smoltcp::socket::{dns, icmp, raw, tcp, udp};
use smoltcp::time::Instant;
use smoltcp::wire::*;
use std::collections::BTreeMap;
use std::io::Write;
use svh::dev::QDev;
use svh::*;

// ------------------------------------------------------------------------------------------ types

#[derive(Clone, Copy, PartialEq, Eq, Debug)]
enum Med {
    Ip,
    Eth,
    M154,
}

#[derive(Clone, Copy, PartialEq, Eq, Debug, PartialOrd, Ord)]
enum Ip {
    V4(u32),
    V6(u128),
}

#[derive(Clone, Copy, PartialEq, Eq, Debug)]
enum Ll {
    None,
    Eth(u64),
    Short(u16),
    Ext(u64),
}

#[derive(Clone, PartialEq, Debug)]
enum IcmpBind {
    Unspec,
    Ident(u16),
    Udp(Option<Ip>, u16),
    Tcp(Option<Ip>, u16),
}

#[derive(Clone, PartialEq, Debug)]
enum SockSpec {
    TcpL(Option<Ip>, u16),
    TcpC(Ip, u16, Ip, u16),
    TcpX,
    Udp(Option<Ip>, u16),
    Icmp(IcmpBind),
    Raw(Option<u8>, Option<u8>),
    Dns(Vec<Ip>),
}

#[derive(Clone, Copy, PartialEq, Debug)]
enum Ctl {
    None,
    Psh,
    Syn,
    Fin,
    Rst,
}

#[derive(Clone, Copy, PartialEq, Debug)]
enum Quoted {
    Udp(u16),
    Tcp(u16),
    Other,
}

#[derive(Clone, PartialEq, Debug)]
enum Upper {
    Tcp { sp: u16, dp: u16, ctl: Ctl, ack: bool, len: usize },
    Udp { sp: u16, dp: u16, len: usize },
    EchoReq { id: u16, len: usize },
    EchoRep { id: u16, len: usize },
    IcmpErr { ty: u8, q: Quoted, len: usize },
    /// NDISC neighbor solicitation / advertisement: target, link-layer address option, hop limit
    Ns { tgt: Ip, ll: Ll, hl: u8 },
    Na { tgt: Ip, ll: Ll, hl: u8 },
    Igmp,
    Other { proto: u8, len: usize },
}

#[derive(Clone, Debug)]
struct Rx {
    ll: Ll,
    pan: Option<u16>,
    src: Ip,
    dst: Ip,
    hbh: Option<Vec<u8>>,
    upper: Upper,
}

#[derive(Clone, Debug)]
enum Event {
    Rx(Rx),
    TxUdp { sock: usize, dst: Ip, dport: u16, len: usize },
    TxConnect { dst: Ip, dport: u16 },
}

#[derive(Clone, Debug)]
struct Scn {
    med: Med,
    anyip: bool,
    mtu: usize,
    hw: Ll,
    pan: Option<u16>,
    addrs: Vec<(Ip, u8)>,
    groups: Vec<Ip>,
    routes: Vec<(Ip, u8, Ip)>,
    neigh: Vec<(Ip, Ll)>,
    socks: Vec<SockSpec>,
    ev: Event,
}

// ------------------------------------------------------------------------------------------ text

fn ip_s(ip: &Ip) -> String {
    match ip {
        Ip::V4(a) => format!("{:08x}", a),
        Ip::V6(a) => format!("{:032x}", a),
    }
}
fn ip_p(s: &str) -> Ip {
    if s.len() == 8 {
        Ip::V4(u32::from_str_radix(s, 16).expect("ipv4 hex"))
    } else {
        Ip::V6(u128::from_str_radix(s, 16).expect("ipv6 hex"))
    }
}
fn oip_s(ip: &Option<Ip>) -> String {
    ip.as_ref().map(ip_s).unwrap_or_else(|| "-".into())
}
fn oip_p(s: &str) -> Option<Ip> {
    if s == "-" {
        None
    } else {
        Some(ip_p(s))
    }
}
fn ll_s(l: &Ll) -> String {
    match l {
        Ll::None => "-".into(),
        Ll::Eth(a) => format!("{:012x}", a),
        Ll::Short(a) => format!("{:04x}", a),
        Ll::Ext(a) => format!("{:016x}", a),
    }
}
fn ll_p(s: &str) -> Ll {
    match s.len() {
        1 => Ll::None,
        12 => Ll::Eth(u64::from_str_radix(s, 16).unwrap()),
        4 => Ll::Short(u16::from_str_radix(s, 16).unwrap()),
        16 => Ll::Ext(u64::from_str_radix(s, 16).unwrap()),
        _ => panic!("bad ll {}", s),
    }
}
fn on_s<T: std::fmt::Display>(x: &Option<T>) -> String {
    x.as_ref().map(|v| v.to_string()).unwrap_or_else(|| "-".into())
}
fn ctl_s(c: Ctl) -> &'static str {
    match c {
        Ctl::None => "none",
        Ctl::Psh => "psh",
        Ctl::Syn => "syn",
        Ctl::Fin => "fin",
        Ctl::Rst => "rst",
    }
}
fn ctl_p(s: &str) -> Ctl {
    match s {
        "none" => Ctl::None,
        "psh" => Ctl::Psh,
        "syn" => Ctl::Syn,
        "fin" => Ctl::Fin,
        "rst" => Ctl::Rst,
        _ => panic!("ctl {}", s),
    }
}

fn upper_s(u: &Upper) -> String {
    match u {
        Upper::Tcp { sp, dp, ctl, ack, len } => format!("tcp {} {} {} {} {}", sp, dp, ctl_s(*ctl), *ack as u8, len),
        Upper::Udp { sp, dp, len } => format!("udp {} {} {}", sp, dp, len),
        Upper::EchoReq { id, len } => format!("echoreq {} {}", id, len),
        Upper::EchoRep { id, len } => format!("echorep {} {}", id, len),
        Upper::IcmpErr { ty, q, len } => format!(
            "icmperr {} {} {}",
            ty,
            match q {
                Quoted::Udp(p) => format!("udp:{}", p),
                Quoted::Tcp(p) => format!("tcp:{}", p),
                Quoted::Other => "other".into(),
            },
            len
        ),
        Upper::Ns { tgt, ll, hl } => format!("ns {} {} {}", ip_s(tgt), ll_s(ll), hl),
        Upper::Na { tgt, ll, hl } => format!("na {} {} {}", ip_s(tgt), ll_s(ll), hl),
        Upper::Igmp => "igmp".into(),
        Upper::Other { proto, len } => format!("other {} {}", proto, len),
    }
}

fn upper_p(t: &[&str]) -> Upper {
    match t[0] {
        "tcp" => Upper::Tcp { sp: t[1].parse().unwrap(), dp: t[2].parse().unwrap(), ctl: ctl_p(t[3]), ack: t[4] == "1", len: t[5].parse().unwrap() },
        "udp" => Upper::Udp { sp: t[1].parse().unwrap(), dp: t[2].parse().unwrap(), len: t[3].parse().unwrap() },
        "echoreq" => Upper::EchoReq { id: t[1].parse().unwrap(), len: t[2].parse().unwrap() },
        "echorep" => Upper::EchoRep { id: t[1].parse().unwrap(), len: t[2].parse().unwrap() },
        "icmperr" => {
            let q = if let Some(p) = t[2].strip_prefix("udp:") {
                Quoted::Udp(p.parse().unwrap())
            } else if let Some(p) = t[2].strip_prefix("tcp:") {
                Quoted::Tcp(p.parse().unwrap())
            } else {
                Quoted::Other
            };
            Upper::IcmpErr { ty: t[1].parse().unwrap(), q, len: t[3].parse().unwrap() }
        }
        "ns" => Upper::Ns { tgt: ip_p(t[1]), ll: ll_p(t[2]), hl: t[3].parse().unwrap() },
        "na" => Upper::Na { tgt: ip_p(t[1]), ll: ll_p(t[2]), hl: t[3].parse().unwrap() },
        "igmp" => Upper::Igmp,
        "other" => Upper::Other { proto: t[1].parse().unwrap(), len: t[2].parse().unwrap() },
        x => panic!("upper {}", x),
    }
}

fn sock_s(s: &SockSpec) -> String {
    match s {
        SockSpec::TcpL(a, p) => format!("sock tcpl {} {}", oip_s(a), p),
        SockSpec::TcpC(la, lp, ra, rp) => format!("sock tcpc {} {} {} {}", ip_s(la), lp, ip_s(ra), rp),
        SockSpec::TcpX => "sock tcpx".into(),
        SockSpec::Udp(a, p) => format!("sock udp {} {}", oip_s(a), p),
        SockSpec::Icmp(IcmpBind::Unspec) => "sock icmp -".into(),
        SockSpec::Icmp(IcmpBind::Ident(i)) => format!("sock icmp ident {}", i),
        SockSpec::Icmp(IcmpBind::Udp(a, p)) => format!("sock icmp udp {} {}", oip_s(a), p),
        SockSpec::Icmp(IcmpBind::Tcp(a, p)) => format!("sock icmp tcp {} {}", oip_s(a), p),
        SockSpec::Raw(v, p) => format!("sock raw {} {}", on_s(v), on_s(p)),
        SockSpec::Dns(l) => format!("sock dns {}", l.iter().map(ip_s).collect::<Vec<_>>().join(",")),
    }
}

fn scn_to_case(id: String, s: &Scn) -> Case {
    let mut ops = vec![];
    if s.hw != Ll::None {
        ops.push(format!("hw {}", ll_s(&s.hw)));
    }
    if s.med == Med::M154 {
        ops.push(format!("pan {}", on_s(&s.pan)));
    }
    for (a, p) in &s.addrs {
        ops.push(format!("addr {} {}", ip_s(a), p));
    }
    for g in &s.groups {
        ops.push(format!("group {}", ip_s(g)));
    }
    for (a, p, g) in &s.routes {
        ops.push(format!("route {} {} {}", ip_s(a), p, ip_s(g)));
    }
    for (a, l) in &s.neigh {
        ops.push(format!("neigh {} {}", ip_s(a), ll_s(l)));
    }
    for k in &s.socks {
        ops.push(sock_s(k));
    }
    ops.push(match &s.ev {
        Event::Rx(r) => format!(
            "rx {} {} {} {} {} {}",
            ll_s(&r.ll),
            on_s(&r.pan),
            ip_s(&r.src),
            ip_s(&r.dst),
            r.hbh.as_ref().map(|b| hex(b)).unwrap_or_else(|| "-".into()),
            upper_s(&r.upper)
        ),
        Event::TxUdp { sock, dst, dport, len } => format!("tx udp {} {} {} {}", sock, ip_s(dst), dport, len),
        Event::TxConnect { dst, dport } => format!("tx connect {} {}", ip_s(dst), dport),
    });
    Case {
        id,
        cfg: vec![
            ("med".into(), match s.med { Med::Ip => "ip", Med::Eth => "eth", Med::M154 => "154" }.into()),
            ("anyip".into(), (s.anyip as u8).to_string()),
            ("mtu".into(), s.mtu.to_string()),
        ],
        ops,
    }
}

fn case_to_scn(c: &Case) -> Scn {
    let med = match c.get("med").unwrap() {
        "ip" => Med::Ip,
        "eth" => Med::Eth,
        "154" => Med::M154,
        x => panic!("med {}", x),
    };
    let mut s = Scn {
        med,
        anyip: c.get_i("anyip", 0) == 1,
        mtu: c.get_i("mtu", 1500) as usize,
        hw: Ll::None,
        pan: None,
        addrs: vec![],
        groups: vec![],
        routes: vec![],
        neigh: vec![],
        socks: vec![],
        ev: Event::TxConnect { dst: Ip::V4(0), dport: 0 },
    };
    let mut have_ev = false;
    for op in &c.ops {
        let t: Vec<&str> = op.split_whitespace().collect();
        match t[0] {
            "hw" => s.hw = ll_p(t[1]),
            "pan" => s.pan = if t[1] == "-" { None } else { Some(t[1].parse().unwrap()) },
            "addr" => s.addrs.push((ip_p(t[1]), t[2].parse().unwrap())),
            "group" => s.groups.push(ip_p(t[1])),
            "route" => s.routes.push((ip_p(t[1]), t[2].parse().unwrap(), ip_p(t[3]))),
            "neigh" => s.neigh.push((ip_p(t[1]), ll_p(t[2]))),
            "sock" => s.socks.push(match t[1] {
                "tcpl" => SockSpec::TcpL(oip_p(t[2]), t[3].parse().unwrap()),
                "tcpc" => SockSpec::TcpC(ip_p(t[2]), t[3].parse().unwrap(), ip_p(t[4]), t[5].parse().unwrap()),
                "tcpx" => SockSpec::TcpX,
                "udp" => SockSpec::Udp(oip_p(t[2]), t[3].parse().unwrap()),
                "icmp" => SockSpec::Icmp(match t[2] {
                    "-" => IcmpBind::Unspec,
                    "ident" => IcmpBind::Ident(t[3].parse().unwrap()),
                    "udp" => IcmpBind::Udp(oip_p(t[3]), t[4].parse().unwrap()),
                    "tcp" => IcmpBind::Tcp(oip_p(t[3]), t[4].parse().unwrap()),
                    x => panic!("icmp bind {}", x),
                }),
                "raw" => SockSpec::Raw(
                    if t[2] == "-" { None } else { Some(t[2].parse().unwrap()) },
                    if t[3] == "-" { None } else { Some(t[3].parse().unwrap()) },
                ),
                "dns" => SockSpec::Dns(t[2].split(',').map(ip_p).collect()),
                x => panic!("sock {}", x),
            }),
            "rx" => {
                have_ev = true;
                s.ev = Event::Rx(Rx {
                    ll: ll_p(t[1]),
                    pan: if t[2] == "-" { None } else { Some(t[2].parse().unwrap()) },
                    src: ip_p(t[3]),
                    dst: ip_p(t[4]),
                    hbh: if t[5] == "-" { None } else { Some(unhex(t[5])) },
                    upper: upper_p(&t[6..]),
                })
            }
            "tx" => {
                have_ev = true;
                s.ev = match t[1] {
                    "udp" => Event::TxUdp { sock: t[2].parse().unwrap(), dst: ip_p(t[3]), dport: t[4].parse().unwrap(), len: t[5].parse().unwrap() },
                    "connect" => Event::TxConnect { dst: ip_p(t[2]), dport: t[3].parse().unwrap() },
                    x => panic!("tx {}", x),
                }
            }
            x => panic!("bad op {}", x),
        }
    }
    assert!(have_ev, "case {} has no event", c.id);
    s
}

// ------------------------------------------------------------------------------------------ smoltcp conversions

fn to_addr(ip: &Ip) -> IpAddress {
    match ip {
        Ip::V4(a) => IpAddress::Ipv4(Ipv4Address::from_bits(*a)),
        Ip::V6(a) => IpAddress::Ipv6(Ipv6Address::from_bits(*a)),
    }
}
#[allow(dead_code)]
fn from_addr(a: &IpAddress) -> Ip {
    match a {
        IpAddress::Ipv4(x) => Ip::V4(x.to_bits()),
        IpAddress::Ipv6(x) => Ip::V6(x.to_bits()),
    }
}
fn eth_of(a: u64) -> EthernetAddress {
    let b = a.to_be_bytes();
    EthernetAddress::from_bytes(&b[2..8])
}
fn ll154_of(l: &Ll) -> Option<Ieee802154Address> {
    match l {
        Ll::Short(a) => Some(Ieee802154Address::Short(a.to_be_bytes())),
        Ll::Ext(a) => Some(Ieee802154Address::Extended(a.to_be_bytes())),
        _ => None,
    }
}
fn listen_ep(a: &Option<Ip>, p: u16) -> IpListenEndpoint {
    IpListenEndpoint { addr: a.as_ref().map(to_addr), port: p }
}

const PEER_MAC: u64 = 0x0200_0000_0002;
const PEER_EXT: u64 = 0x0200_0000_0000_0002;

// ------------------------------------------------------------------------------------------ frame building

fn csum_caps() -> ChecksumCapabilities {
    ChecksumCapabilities::default()
}

/// (protocol number, upper-layer bytes)
fn build_upper(rx: &Rx) -> (u8, Vec<u8>) {
    let (src, dst) = (to_addr(&rx.src), to_addr(&rx.dst));
    let v4 = matches!(rx.src, Ip::V4(_));
    match &rx.upper {
        Upper::Tcp { sp, dp, ctl, ack, len } => {
            let data: Vec<u8> = (0..*len).map(|i| (i * 7 + 1) as u8).collect();
            let r = TcpRepr {
                src_port: *sp,
                dst_port: *dp,
                control: match ctl {
                    Ctl::None => TcpControl::None,
                    Ctl::Psh => TcpControl::Psh,
                    Ctl::Syn => TcpControl::Syn,
                    Ctl::Fin => TcpControl::Fin,
                    Ctl::Rst => TcpControl::Rst,
                },
                seq_number: TcpSeqNumber(1000),
                ack_number: if *ack { Some(TcpSeqNumber(0x5000_0000)) } else { None },
                window_len: 1024,
                window_scale: None,
                max_seg_size: None,
                sack_permitted: false,
                sack_ranges: [None, None, None],
                timestamp: None,
                payload: &data,
            };
            let mut b = vec![0u8; r.buffer_len()];
            r.emit(&mut TcpPacket::new_unchecked(&mut b[..]), &src, &dst, &csum_caps());
            (6, b)
        }
        Upper::Udp { sp, dp, len } => {
            let data: Vec<u8> = (0..*len).map(|i| (i * 3 + 5) as u8).collect();
            let r = UdpRepr { src_port: *sp, dst_port: *dp };
            let mut b = vec![0u8; r.header_len() + data.len()];
            r.emit(&mut UdpPacket::new_unchecked(&mut b[..]), &src, &dst, data.len(), |p| p.copy_from_slice(&data), &csum_caps());
            (17, b)
        }
        Upper::EchoReq { id, len } | Upper::EchoRep { id, len } => {
            let data: Vec<u8> = (0..*len).map(|i| (i + 0x30) as u8).collect();
            let is_req = matches!(rx.upper, Upper::EchoReq { .. });
            if v4 {
                let r = if is_req {
                    Icmpv4Repr::EchoRequest { ident: *id, seq_no: 7, data: &data }
                } else {
                    Icmpv4Repr::EchoReply { ident: *id, seq_no: 7, data: &data }
                };
                let mut b = vec![0u8; r.buffer_len()];
                r.emit(&mut Icmpv4Packet::new_unchecked(&mut b[..]), &csum_caps());
                (1, b)
            } else {
                let r = if is_req {
                    Icmpv6Repr::EchoRequest { ident: *id, seq_no: 7, data: &data }
                } else {
                    Icmpv6Repr::EchoReply { ident: *id, seq_no: 7, data: &data }
                };
                let (s6, d6) = (v6of(&rx.src), v6of(&rx.dst));
                let mut b = vec![0u8; r.buffer_len()];
                r.emit(&s6, &d6, &mut Icmpv6Packet::new_unchecked(&mut b[..]), &csum_caps());
                (58, b)
            }
        }
        Upper::IcmpErr { ty, q, len } => {
            // the quoted packet is one "we" sent: from the packet's destination to its source
            let (qs, qd) = (dst, src);
            let (qproto, qdata): (IpProtocol, Vec<u8>) = match q {
                Quoted::Udp(sp) => {
                    let r = UdpRepr { src_port: *sp, dst_port: 33434 };
                    let mut b = vec![0u8; 12];
                    r.emit(&mut UdpPacket::new_unchecked(&mut b[..]), &qs, &qd, 4, |p| p.copy_from_slice(&[1, 2, 3, 4]), &csum_caps());
                    (IpProtocol::Udp, b)
                }
                Quoted::Tcp(sp) => {
                    let r = TcpRepr {
                        src_port: *sp,
                        dst_port: 33434,
                        control: TcpControl::Syn,
                        seq_number: TcpSeqNumber(77),
                        ack_number: None,
                        window_len: 512,
                        window_scale: None,
                        max_seg_size: None,
                        sack_permitted: false,
                        sack_ranges: [None, None, None],
                        timestamp: None,
                        payload: &[],
                    };
                    let mut b = vec![0u8; r.buffer_len()];
                    r.emit(&mut TcpPacket::new_unchecked(&mut b[..]), &qs, &qd, &csum_caps());
                    (IpProtocol::Tcp, b)
                }
                Quoted::Other => (IpProtocol::Unknown(253), vec![9u8; 8]),
            };
            if v4 {
                let header = Ipv4Repr { src_addr: v4of(&rx.dst), dst_addr: v4of(&rx.src), next_header: qproto, payload_len: qdata.len(), hop_limit: 60 };
                let r = match ty {
                    3 => Icmpv4Repr::DstUnreachable { reason: Icmpv4DstUnreachable::PortUnreachable, header, data: &qdata },
                    11 => Icmpv4Repr::TimeExceeded { reason: Icmpv4TimeExceeded::TtlExpired, header, data: &qdata },
                    _ => panic!("icmpv4 error type {}", ty),
                };
                let mut b = vec![0u8; r.buffer_len()];
                r.emit(&mut Icmpv4Packet::new_unchecked(&mut b[..]), &csum_caps());
                assert_eq!(b.len(), *len, "icmperr len");
                (1, b)
            } else {
                let header = Ipv6Repr { src_addr: v6of(&rx.dst), dst_addr: v6of(&rx.src), next_header: qproto, payload_len: qdata.len(), hop_limit: 60 };
                let r = match ty {
                    1 => Icmpv6Repr::DstUnreachable { reason: Icmpv6DstUnreachable::PortUnreachable, header, data: &qdata },
                    2 => Icmpv6Repr::PktTooBig { mtu: 1280, header, data: &qdata },
                    3 => Icmpv6Repr::TimeExceeded { reason: Icmpv6TimeExceeded::HopLimitExceeded, header, data: &qdata },
                    4 => Icmpv6Repr::ParamProblem { reason: Icmpv6ParamProblem::ErroneousHdrField, pointer: 0, header, data: &qdata },
                    _ => panic!("icmpv6 error type {}", ty),
                };
                let (s6, d6) = (v6of(&rx.src), v6of(&rx.dst));
                let mut b = vec![0u8; r.buffer_len()];
                r.emit(&s6, &d6, &mut Icmpv6Packet::new_unchecked(&mut b[..]), &csum_caps());
                assert_eq!(b.len(), *len, "icmperr len");
                (58, b)
            }
        }
        Upper::Ns { tgt, ll, .. } | Upper::Na { tgt, ll, .. } => {
            let lladdr = match ll {
                Ll::Eth(m) => Some(RawHardwareAddress::from(HardwareAddress::Ethernet(eth_of(*m)))),
                Ll::Ext(m) => Some(RawHardwareAddress::from(HardwareAddress::Ieee802154(Ieee802154Address::Extended(m.to_be_bytes())))),
                Ll::Short(m) => Some(RawHardwareAddress::from(HardwareAddress::Ieee802154(Ieee802154Address::Short(m.to_be_bytes())))),
                Ll::None => None,
            };
            let nd = if matches!(rx.upper, Upper::Ns { .. }) {
                NdiscRepr::NeighborSolicit { target_addr: v6of(tgt), lladdr }
            } else {
                NdiscRepr::NeighborAdvert { flags: NdiscNeighborFlags::SOLICITED, target_addr: v6of(tgt), lladdr }
            };
            let r = Icmpv6Repr::Ndisc(nd);
            let (s6, d6) = (v6of(&rx.src), v6of(&rx.dst));
            let mut b = vec![0u8; r.buffer_len()];
            r.emit(&s6, &d6, &mut Icmpv6Packet::new_unchecked(&mut b[..]), &csum_caps());
            (58, b)
        }
        Upper::Igmp => {
            let r = IgmpRepr::MembershipReport { group_addr: Ipv4Address::new(224, 9, 9, 9), version: IgmpVersion::Version2 };
            let mut b = vec![0u8; r.buffer_len()];
            r.emit(&mut IgmpPacket::new_unchecked(&mut b[..]));
            (2, b)
        }
        Upper::Other { proto, len } => (*proto, (0..*len).map(|i| (i + 0x61) as u8).collect()),
    }
}

fn v4of(ip: &Ip) -> Ipv4Address {
    match ip {
        Ip::V4(a) => Ipv4Address::from_bits(*a),
        _ => panic!("not v4"),
    }
}
fn v6of(ip: &Ip) -> Ipv6Address {
    match ip {
        Ip::V6(a) => Ipv6Address::from_bits(*a),
        _ => panic!("not v6"),
    }
}

/// the IP packet (header + optional hop-by-hop header + upper layer)
fn build_ip(rx: &Rx) -> Vec<u8> {
    let (proto, up) = build_upper(rx);
    match (&rx.src, &rx.dst) {
        (Ip::V4(_), Ip::V4(_)) => {
            let r = Ipv4Repr { src_addr: v4of(&rx.src), dst_addr: v4of(&rx.dst), next_header: IpProtocol::from(proto), payload_len: up.len(), hop_limit: 64 };
            let mut b = vec![0u8; r.buffer_len() + up.len()];
            r.emit(&mut Ipv4Packet::new_unchecked(&mut b[..]), &csum_caps());
            b[20..].copy_from_slice(&up);
            b
        }
        (Ip::V6(_), Ip::V6(_)) => {
            let mut payload = vec![];
            let nh = if let Some(opts) = &rx.hbh {
                assert!((opts.len() + 2) % 8 == 0, "hbh options must fill a multiple of 8 octets");
                payload.push(proto);
                payload.push(((opts.len() + 2) / 8 - 1) as u8);
                payload.extend_from_slice(opts);
                0u8
            } else {
                proto
            };
            payload.extend_from_slice(&up);
            let hop_limit = match rx.upper {
                Upper::Ns { hl, .. } | Upper::Na { hl, .. } => hl,
                _ => 64,
            };
            let r = Ipv6Repr { src_addr: v6of(&rx.src), dst_addr: v6of(&rx.dst), next_header: IpProtocol::from(nh), payload_len: payload.len(), hop_limit };
            let mut b = vec![0u8; 40 + payload.len()];
            r.emit(&mut Ipv6Packet::new_unchecked(&mut b[..]));
            b[40..].copy_from_slice(&payload);
            b
        }
        _ => panic!("mixed families"),
    }
}

fn wrap_eth(dst: u64, src: u64, ethertype: EthernetProtocol, payload: &[u8]) -> Vec<u8> {
    let r = EthernetRepr { src_addr: eth_of(src), dst_addr: eth_of(dst), ethertype };
    let mut b = vec![0u8; 14 + payload.len()];
    r.emit(&mut EthernetFrame::new_unchecked(&mut b[..]));
    b[14..].copy_from_slice(payload);
    b
}

/// IEEE 802.15.4 data frame + LOWPAN_IPHC with everything carried inline (TF elided)
fn wrap_154(dst: &Ll, dst_pan: Option<u16>, src_ext: u64, ip6: &[u8]) -> Vec<u8> {
    let r = Ieee802154Repr {
        frame_type: Ieee802154FrameType::Data,
        security_enabled: false,
        frame_pending: false,
        ack_request: false,
        sequence_number: Some(1),
        pan_id_compression: true,
        frame_version: Ieee802154FrameVersion::Ieee802154_2003,
        dst_pan_id: dst_pan.map(Ieee802154Pan),
        dst_addr: ll154_of(dst),
        src_pan_id: dst_pan.map(Ieee802154Pan),
        src_addr: Some(Ieee802154Address::Extended(src_ext.to_be_bytes())),
    };
    let mut b = vec![0u8; r.buffer_len()];
    r.emit(&mut Ieee802154Frame::new_unchecked(&mut b[..]));
    let mcast = ip6[24] == 0xff;
    let hbh = ip6[6] == 0;
    // 011 TF=11 NH HLIM=00 | CID=0 SAC=0 SAM=00 M DAC=0 DAM=00
    // (a hop-by-hop header must be NHC-compressed: uncompressed next headers other than
    //  TCP/UDP/ICMPv6 are refused by the decompressor)
    b.push(if hbh { 0x7c } else { 0x78 });
    b.push(if mcast { 0x08 } else { 0x00 });
    if !hbh {
        b.push(ip6[6]); // next header
    }
    b.push(ip6[7]); // hop limit
    b.extend_from_slice(&ip6[8..24]);
    b.extend_from_slice(&ip6[24..40]);
    if hbh {
        let l = (ip6[41] as usize + 1) * 8;
        b.push(0xe0); // NHC extension header: EID 0 (hop-by-hop), next header carried inline
        b.push(ip6[40]); // next header
        b.push((l - 2) as u8); // length of the options
        b.extend_from_slice(&ip6[42..40 + l]);
        b.extend_from_slice(&ip6[40 + l..]);
    } else {
        b.extend_from_slice(&ip6[40..]);
    }
    b
}

fn build_frame(s: &Scn, rx: &Rx) -> Vec<u8> {
    let ip = build_ip(rx);
    match s.med {
        Med::Ip => ip,
        Med::Eth => {
            let et = if matches!(rx.src, Ip::V4(_)) { EthernetProtocol::Ipv4 } else { EthernetProtocol::Ipv6 };
            let d = match rx.ll {
                Ll::Eth(a) => a,
                _ => panic!("rx on ethernet needs an ethernet destination"),
            };
            wrap_eth(d, PEER_MAC, et, &ip)
        }
        Med::M154 => wrap_154(&rx.ll, rx.pan, PEER_EXT, &ip),
    }
}

// ------------------------------------------------------------------------------------------ emitted frames

#[derive(Clone, Debug)]
struct Em {
    kind: String,
    src: Option<Ip>,
    dst: Option<Ip>,
    ll: Ll,
    iplen: usize,
    frag: bool,
    tcp_rst: bool,
    icmp_err: bool,
    raw: Vec<u8>,
}

fn classify_l4(v4: bool, proto: u8, b: &[u8]) -> (String, bool, bool) {
    match (v4, proto) {
        (_, 6) if b.len() >= 14 => {
            let fl = b[13];
            if fl & 0x04 != 0 {
                ("rst".into(), true, false)
            } else if fl & 0x02 != 0 && fl & 0x10 == 0 {
                ("syn".into(), false, false)
            } else {
                ("tcp".into(), false, false)
            }
        }
        (_, 17) => ("udp".into(), false, false),
        (true, 1) if b.len() >= 2 => match (b[0], b[1]) {
            (0, _) => ("echorep".into(), false, false),
            (8, _) => ("echoreq".into(), false, false),
            (3, 3) => ("unreach-port".into(), false, true),
            (3, 2) => ("unreach-proto".into(), false, true),
            (t, c) => (format!("icmp4-{}-{}", t, c), false, t == 3 || t == 11 || t == 12 || t == 4 || t == 5),
        },
        (true, 2) => ("igmp".into(), false, false),
        (false, 58) if b.len() >= 2 => match (b[0], b[1]) {
            (129, _) => ("echorep".into(), false, false),
            (128, _) => ("echoreq".into(), false, false),
            (1, 4) => ("unreach-port".into(), false, true),
            (4, 1) => ("param-nxt".into(), false, true),
            (4, 2) => ("param-opt".into(), false, true),
            (135, _) => ("ns".into(), false, false),
            (136, _) => ("na".into(), false, false),
            (133, _) => ("rs".into(), false, false),
            (143, _) => ("mld".into(), false, false),
            (t, c) => (format!("icmp6-{}-{}", t, c), false, t < 128),
        },
        _ => (format!("proto{}", proto), false, false),
    }
}

fn parse_ip_frame(ip: &[u8], ll: Ll, raw: &[u8]) -> Em {
    let mut e = Em { kind: "other".into(), src: None, dst: None, ll, iplen: ip.len(), frag: false, tcp_rst: false, icmp_err: false, raw: raw.to_vec() };
    if ip.is_empty() {
        return e;
    }
    if ip[0] >> 4 == 4 && ip.len() >= 20 {
        let ihl = (ip[0] & 0xf) as usize * 4;
        e.src = Some(Ip::V4(u32::from_be_bytes([ip[12], ip[13], ip[14], ip[15]])));
        e.dst = Some(Ip::V4(u32::from_be_bytes([ip[16], ip[17], ip[18], ip[19]])));
        let ff = u16::from_be_bytes([ip[6], ip[7]]);
        let (mf, off) = (ff & 0x2000 != 0, ff & 0x1fff);
        if off != 0 {
            e.kind = "fragn".into();
            return e;
        }
        e.frag = mf;
        let (k, rst, err) = classify_l4(true, ip[9], &ip[ihl.min(ip.len())..]);
        e.kind = k;
        e.tcp_rst = rst;
        e.icmp_err = err;
    } else if ip[0] >> 4 == 6 && ip.len() >= 40 {
        e.src = Some(Ip::V6(u128::from_be_bytes(ip[8..24].try_into().unwrap())));
        e.dst = Some(Ip::V6(u128::from_be_bytes(ip[24..40].try_into().unwrap())));
        let mut nh = ip[6];
        let mut b = &ip[40..];
        while (nh == 0 || nh == 60 || nh == 43) && b.len() >= 8 {
            let l = (b[1] as usize + 1) * 8;
            nh = b[0];
            b = &b[l.min(b.len())..];
        }
        let (k, rst, err) = classify_l4(false, nh, b);
        e.kind = k;
        e.tcp_rst = rst;
        e.icmp_err = err;
    }
    e
}

fn parse_emitted(med: Med, f: &[u8]) -> Em {
    match med {
        Med::Ip => parse_ip_frame(f, Ll::None, f),
        Med::Eth => {
            if f.len() < 14 {
                return parse_ip_frame(&[], Ll::None, f);
            }
            let mut d = [0u8; 8];
            d[2..8].copy_from_slice(&f[0..6]);
            let ll = Ll::Eth(u64::from_be_bytes(d));
            match u16::from_be_bytes([f[12], f[13]]) {
                0x0806 if f.len() >= 42 => {
                    let a = &f[14..];
                    let op = u16::from_be_bytes([a[6], a[7]]);
                    let mut e = parse_ip_frame(&[], ll, f);
                    e.kind = if op == 1 { "arpreq".into() } else { "arprep".into() };
                    e.src = Some(Ip::V4(u32::from_be_bytes([a[14], a[15], a[16], a[17]])));
                    e.dst = Some(Ip::V4(u32::from_be_bytes([a[24], a[25], a[26], a[27]])));
                    e.iplen = 0;
                    e
                }
                _ => parse_ip_frame(&f[14..], ll, f),
            }
        }
        Med::M154 => {
            let mut e = parse_ip_frame(&[], Ll::None, f);
            let Ok(fr) = Ieee802154Frame::new_checked(f) else { return e };
            let Ok(rp) = Ieee802154Repr::parse(&fr) else { return e };
            e.ll = match rp.dst_addr {
                Some(Ieee802154Address::Short(a)) => Ll::Short(u16::from_be_bytes(a)),
                Some(Ieee802154Address::Extended(a)) => Ll::Ext(u64::from_be_bytes(a)),
                _ => Ll::None,
            };
            let Some(mut pl) = fr.payload() else { return e };
            let mut dgram_size = None;
            if let Ok(SixlowpanPacket::FragmentHeader) = SixlowpanPacket::dispatch(pl) {
                let Ok(fp) = SixlowpanFragPacket::new_checked(pl) else { return e };
                if !fp.is_first_fragment() {
                    e.kind = "fragn".into();
                    return e;
                }
                dgram_size = Some(fp.datagram_size() as usize);
                pl = &pl[4..];
            }
            let Ok(ip) = SixlowpanIphcPacket::new_checked(pl) else { return e };
            let Ok(ir) = SixlowpanIphcRepr::parse(&ip, rp.src_addr, rp.dst_addr, &[]) else { return e };
            e.src = Some(Ip::V6(ir.src_addr.to_bits()));
            e.dst = Some(Ip::V6(ir.dst_addr.to_bits()));
            let rest = ip.payload();
            match ir.next_header {
                SixlowpanNextHeader::Uncompressed(p) => {
                    let (k, rst, err) = classify_l4(false, u8::from(p), rest);
                    e.kind = k;
                    e.tcp_rst = rst;
                    e.icmp_err = err;
                    e.iplen = dgram_size.unwrap_or(40 + rest.len());
                }
                SixlowpanNextHeader::Compressed => {
                    // NHC: UDP (11110xxx) or an extension header (1110xxxx)
                    if !rest.is_empty() && rest[0] >> 3 == 0b11110 {
                        e.kind = "udp".into();
                        if let Ok(up) = SixlowpanUdpNhcPacket::new_checked(rest) {
                            e.iplen = dgram_size.unwrap_or(40 + 8 + up.payload().len());
                        }
                    } else {
                        e.kind = "nhc-ext".into();
                        // hop-by-hop carried MLD report etc.; length not reconstructed
                        e.iplen = dgram_size.unwrap_or(0);
                    }
                }
            }
            // 6LoWPAN fragmentation is property C20's: not reported as an IPv4-style fragment
            e.frag = false;
            e
        }
    }
}

fn em_line(e: &Em) -> String {
    let il = if e.kind == "syn" || e.kind == "arpreq" { 0 } else { e.iplen };
    format!(
        "tx {} {} {} {} {} {}",
        e.kind,
        e.src.as_ref().map(ip_s).unwrap_or_else(|| "-".into()),
        e.dst.as_ref().map(ip_s).unwrap_or_else(|| "-".into()),
        ll_s(&e.ll),
        il,
        e.frag as u8
    )
}

// ------------------------------------------------------------------------------------------ running a scenario

struct World<'a> {
    dev: QDev,
    iface: Interface,
    sockets: SocketSet<'a>,
    handles: Vec<SocketHandle>,
}

fn medium_of(m: Med) -> Medium {
    match m {
        Med::Ip => Medium::Ip,
        Med::Eth => Medium::Ethernet,
        Med::M154 => Medium::Ieee802154,
    }
}

fn tcp_new<'a>() -> tcp::Socket<'a> {
    tcp::Socket::new(tcp::SocketBuffer::new(vec![0u8; 2048]), tcp::SocketBuffer::new(vec![0u8; 2048]))
}
fn udp_new<'a>() -> udp::Socket<'a> {
    udp::Socket::new(
        udp::PacketBuffer::new(vec![udp::PacketMetadata::EMPTY; 4], vec![0u8; 4096]),
        udp::PacketBuffer::new(vec![udp::PacketMetadata::EMPTY; 4], vec![0u8; 4096]),
    )
}

const T_FLUSH: i64 = 0;
const T_EVENT: i64 = 5_000;

fn build_world<'a>(s: &Scn) -> World<'a> {
    let mut dev = QDev::new(medium_of(s.med), s.mtu);
    let hw = match (s.med, &s.hw) {
        (Med::Ip, _) => HardwareAddress::Ip,
        (Med::Eth, Ll::Eth(a)) => HardwareAddress::Ethernet(eth_of(*a)),
        (Med::M154, l) => HardwareAddress::Ieee802154(ll154_of(l).expect("154 hw")),
        _ => panic!("hardware address does not fit the medium"),
    };
    let mut cfg = Config::new(hw);
    cfg.random_seed = 0x5eed_1234_abcd_0001;
    cfg.pan_id = s.pan.map(Ieee802154Pan);
    let mut iface = Interface::new(cfg, &mut dev, Instant::from_millis(T_FLUSH));
    iface.set_any_ip(s.anyip);
    iface.update_ip_addrs(|a| {
        for (ip, pl) in &s.addrs {
            a.push(IpCidr::new(to_addr(ip), *pl)).expect("too many addresses");
        }
    });
    for g in &s.groups {
        iface.join_multicast_group(to_addr(g)).expect("join");
    }
    iface.routes_mut().update(|r| {
        for (a, pl, gw) in &s.routes {
            r.push(Route { cidr: IpCidr::new(to_addr(a), *pl), via_router: to_addr(gw), preferred_until: None, expires_at: None }).expect("route");
        }
    });
    let mut sockets = SocketSet::new(vec![]);
    let mut handles = vec![];
    for k in &s.socks {
        let h = match k {
            SockSpec::TcpL(a, p) => {
                let mut t = tcp_new();
                t.listen(listen_ep(a, *p)).expect("listen");
                sockets.add(t)
            }
            SockSpec::TcpC(la, lp, ra, rp) => {
                let mut t = tcp_new();
                t.connect(iface.context(), (to_addr(ra), *rp), (to_addr(la), *lp)).expect("connect");
                sockets.add(t)
            }
            SockSpec::TcpX => sockets.add(tcp_new()),
            SockSpec::Udp(a, p) => {
                let mut u = udp_new();
                if *p != 0 {
                    u.bind(listen_ep(a, *p)).expect("udp bind");
                }
                sockets.add(u)
            }
            SockSpec::Icmp(b) => {
                let mut i = icmp::Socket::new(
                    icmp::PacketBuffer::new(vec![icmp::PacketMetadata::EMPTY; 4], vec![0u8; 2048]),
                    icmp::PacketBuffer::new(vec![icmp::PacketMetadata::EMPTY; 4], vec![0u8; 2048]),
                );
                match b {
                    IcmpBind::Unspec => {}
                    IcmpBind::Ident(id) => i.bind(icmp::Endpoint::Ident(*id)).expect("icmp bind"),
                    IcmpBind::Udp(a, p) => i.bind(icmp::Endpoint::Udp(listen_ep(a, *p))).expect("icmp bind"),
                    IcmpBind::Tcp(a, p) => i.bind(icmp::Endpoint::Tcp(listen_ep(a, *p))).expect("icmp bind"),
                }
                sockets.add(i)
            }
            SockSpec::Raw(v, p) => sockets.add(raw::Socket::new(
                v.map(|x| if x == 4 { IpVersion::Ipv4 } else { IpVersion::Ipv6 }),
                p.map(IpProtocol::from),
                raw::PacketBuffer::new(vec![raw::PacketMetadata::EMPTY; 4], vec![0u8; 4096]),
                raw::PacketBuffer::new(vec![raw::PacketMetadata::EMPTY; 4], vec![0u8; 4096]),
            )),
            SockSpec::Dns(l) => {
                let srv: Vec<IpAddress> = l.iter().map(to_addr).collect();
                sockets.add(dns::Socket::new(&srv, vec![]))
            }
        };
        handles.push(h);
    }
    let mut w = World { dev, iface, sockets, handles };
    // neighbor cache: an ARP request / neighbor solicitation from each listed neighbor
    for (ip, ll) in &s.neigh {
        let f = neigh_fill_frame(s, ip, ll);
        if let Some(f) = f {
            w.dev.rx.push_back(f);
            w.iface.poll_ingress_single(Instant::from_millis(T_FLUSH), &mut w.dev, &mut w.sockets);
        }
    }
    // flush whatever the sockets / multicast machinery want to say initially
    for _ in 0..4 {
        w.iface.poll(Instant::from_millis(T_FLUSH), &mut w.dev, &mut w.sockets);
    }
    w
}

fn neigh_fill_frame(s: &Scn, ip: &Ip, ll: &Ll) -> Option<Vec<u8>> {
    match (s.med, ip, ll) {
        (Med::Eth, Ip::V4(a), Ll::Eth(m)) => {
            let own = s.addrs.iter().find_map(|(x, _)| if let Ip::V4(o) = x { Some(*o) } else { None })?;
            let own_hw = if let Ll::Eth(h) = s.hw { h } else { return None };
            let r = ArpRepr::EthernetIpv4 {
                operation: ArpOperation::Request,
                source_hardware_addr: eth_of(*m),
                source_protocol_addr: Ipv4Address::from_bits(*a),
                target_hardware_addr: eth_of(0),
                target_protocol_addr: Ipv4Address::from_bits(own),
            };
            let mut b = vec![0u8; r.buffer_len()];
            r.emit(&mut ArpPacket::new_unchecked(&mut b[..]));
            Some(wrap_eth(own_hw, *m, EthernetProtocol::Arp, &b))
        }
        (Med::Eth, Ip::V6(a), Ll::Eth(_)) | (Med::M154, Ip::V6(a), Ll::Ext(_)) => {
            let own = s.addrs.iter().find_map(|(x, _)| if let Ip::V6(o) = x { Some(*o) } else { None })?;
            let lladdr = match ll {
                Ll::Eth(m) => RawHardwareAddress::from(HardwareAddress::Ethernet(eth_of(*m))),
                Ll::Ext(m) => RawHardwareAddress::from(HardwareAddress::Ieee802154(Ieee802154Address::Extended(m.to_be_bytes()))),
                _ => unreachable!(),
            };
            let ns = Icmpv6Repr::Ndisc(NdiscRepr::NeighborSolicit { target_addr: Ipv6Address::from_bits(own), lladdr: Some(lladdr) });
            let (s6, d6) = (Ipv6Address::from_bits(*a), Ipv6Address::from_bits(own));
            let ipr = Ipv6Repr { src_addr: s6, dst_addr: d6, next_header: IpProtocol::Icmpv6, payload_len: ns.buffer_len(), hop_limit: 255 };
            let mut b = vec![0u8; 40 + ns.buffer_len()];
            ipr.emit(&mut Ipv6Packet::new_unchecked(&mut b[..]));
            ns.emit(&s6, &d6, &mut Icmpv6Packet::new_unchecked(&mut b[40..]), &csum_caps());
            match (s.med, ll) {
                (Med::Eth, Ll::Eth(m)) => {
                    let own_hw = if let Ll::Eth(h) = s.hw { h } else { return None };
                    Some(wrap_eth(own_hw, *m, EthernetProtocol::Ipv6, &b))
                }
                (Med::M154, Ll::Ext(m)) => Some(wrap_154(&s.hw, s.pan, *m, &b)),
                _ => None,
            }
        }
        _ => None,
    }
}

#[derive(Clone, PartialEq, Debug)]
enum Snap {
    Tcp(tcp::State, usize),
    Queue(bool, usize),
    Opaque,
}

fn snapshot(w: &mut World, s: &Scn) -> Vec<Snap> {
    let mut v = vec![];
    for (k, h) in s.socks.iter().zip(w.handles.iter()) {
        v.push(match k {
            SockSpec::TcpL(..) | SockSpec::TcpC(..) | SockSpec::TcpX => {
                let t = w.sockets.get::<tcp::Socket>(*h);
                Snap::Tcp(t.state(), t.recv_queue())
            }
            SockSpec::Udp(..) => {
                let u = w.sockets.get::<udp::Socket>(*h);
                Snap::Queue(u.can_recv(), u.recv_queue())
            }
            SockSpec::Icmp(..) => {
                let u = w.sockets.get::<icmp::Socket>(*h);
                Snap::Queue(u.can_recv(), u.recv_queue())
            }
            SockSpec::Raw(..) => {
                let u = w.sockets.get::<raw::Socket>(*h);
                Snap::Queue(u.can_recv(), u.recv_queue())
            }
            SockSpec::Dns(..) => Snap::Opaque,
        });
    }
    v
}

struct Outcome {
    changed: Vec<usize>,
    frames: Vec<Em>,
    /// TCP sockets whose state differs after a further full poll (oracle only)
    tcp_changed_after_poll: Vec<usize>,
    later_frames: Vec<Em>,
    panicked: bool,
}

fn run_scn(s: &Scn, follow_up: bool) -> Outcome {
    let mut w = build_world(s);
    w.dev.drain_tx();
    w.dev.oversize.clear();
    let before = snapshot(&mut w, s);
    let now = Instant::from_millis(T_EVENT);
    match &s.ev {
        Event::Rx(rx) => {
            w.dev.rx.push_back(build_frame(s, rx));
            w.iface.poll_ingress_single(now, &mut w.dev, &mut w.sockets);
        }
        Event::TxUdp { sock, dst, dport, len } => {
            let data: Vec<u8> = (0..*len).map(|i| (i % 251) as u8).collect();
            {
                let u = w.sockets.get_mut::<udp::Socket>(w.handles[*sock]);
                let _ = u.send_slice(&data, (to_addr(dst), *dport));
            }
            w.iface.poll_egress(now, &mut w.dev, &mut w.sockets);
        }
        Event::TxConnect { dst, dport } => {
            let mut t = tcp_new();
            let r = t.connect(w.iface.context(), (to_addr(dst), *dport), 49152);
            let h = w.sockets.add(t);
            w.handles.push(h);
            if r.is_ok() {
                w.iface.poll_egress(now, &mut w.dev, &mut w.sockets);
            }
        }
    }
    let after = snapshot(&mut w, s);
    let changed: Vec<usize> = (0..before.len()).filter(|i| before[*i] != after[*i]).collect();
    let frames: Vec<Em> = w.dev.drain_tx().iter().map(|f| parse_emitted(s.med, f)).collect();
    let mut tcp_changed_after_poll = vec![];
    let mut later_frames = vec![];
    if follow_up {
        for k in 0..3 {
            w.iface.poll(Instant::from_millis(T_EVENT + 10 * (k + 1)), &mut w.dev, &mut w.sockets);
        }
        let fin = snapshot(&mut w, s);
        for i in 0..before.len() {
            if let (Snap::Tcp(a, _), Snap::Tcp(b, _)) = (&before[i], &fin[i]) {
                if a != b {
                    tcp_changed_after_poll.push(i);
                }
            }
        }
        later_frames = w.dev.drain_tx().iter().map(|f| parse_emitted(s.med, f)).collect();
    }
    Outcome { changed, frames, tcp_changed_after_poll, later_frames, panicked: false }
}

fn run_case(c: &Case, out: &mut dyn Write) {
    writeln!(out, "case {}", c.id).unwrap();
    let s = case_to_scn(c);
    let r = catch(std::panic::AssertUnwindSafe(|| run_scn(&s, false)));
    match r {
        None => writeln!(out, "PANIC").unwrap(),
        Some(o) => {
            let l: Vec<String> = o.changed.iter().map(|i| i.to_string()).collect();
            writeln!(out, "chg {}", if l.is_empty() { "-".to_string() } else { l.join(" ") }).unwrap();
            for e in &o.frames {
                writeln!(out, "{}", em_line(e)).unwrap();
            }
        }
    }
}

include!("h_ingress_inc/gen.rs");
include!("h_ingress_inc/oracle.rs");

/// which oracle classes belong to which property ("" = all)
fn class_of_property(class: &str, prop: &str) -> bool {
    let c10 = class.starts_with("c10-") || class == "ipv6-loopback-source-fallback";
    match prop {
        "c11" => !c10,
        "c10" => c10 || class == "ingress-panicked",
        _ => true,
    }
}

fn main() {
    if std::env::var("INGRESS_LOUD").is_err() {
        quiet_panics();
    }
    let (sub, seed, n, tier) = args();
    let stdout = std::io::stdout();
    let mut out = std::io::BufWriter::new(stdout.lock());
    match sub.as_str() {
        "gen" | "gen4" => {
            for (id, s) in gen_scenarios(seed, n, &tier, "s", sub == "gen4") {
                scn_to_case(id, &s).write(&mut out);
            }
        }
        "run" => {
            for c in stdin_cases() {
                run_case(&c, &mut out);
            }
        }
        "witness" => {
            // witness <dir-prefix>: one corpus file per witness is written by the caller from this output
            for (name, s) in witnesses() {
                writeln!(out, "# witness {}", name).unwrap();
                scn_to_case(format!("w-{}", name), &s).write(&mut out);
            }
        }
        "count" => {
            writeln!(out, "{} {}", product_size(false), product_size(true)).unwrap();
        }
        "oracle" | "oracle-c11" | "oracle-c10" | "oracle4-c11" | "oracle4-c10" => {
            let wide = sub.starts_with("oracle4");
            let prop = sub.split('-').nth(1).unwrap_or("");
            let mut fails: Vec<String> = vec![];
            let mut stats: BTreeMap<String, u64> = BTreeMap::new();
            // thorough: the same exhaustive shard as the correspondence; quick: an independent sample
            let scns = gen_scenarios(if tier == "thorough" { seed } else { seed ^ 0x00c1_1c10 }, n, &tier, "o", wide);
            let total = scns.len();
            // every scenario is evaluated; at most 3 FAIL lines (with their case) are kept per class
            let mut per_class: BTreeMap<String, u64> = BTreeMap::new();
            for (id, s) in scns {
                let mut now: Vec<String> = vec![];
                oracle_scn(&id, &s, &mut now, &mut stats);
                for f in now {
                    let class = f.split("::").next().unwrap().trim().to_string();
                    if !class_of_property(&class, prop) {
                        continue;
                    }
                    let k = per_class.entry(class.clone()).or_default();
                    *k += 1;
                    *stats.entry(format!("fail_{}", class)).or_default() += 1;
                    if *k <= 3 {
                        writeln!(out, "FAILCASE").unwrap();
                        scn_to_case(id.clone(), &s).write(&mut out);
                        fails.push(f);
                    }
                }
            }
            for f in &fails {
                writeln!(out, "FAIL {}", f).unwrap();
            }
            let st: Vec<String> = stats.iter().map(|(k, v)| format!("{}:{}", jstr(k), v)).collect();
            writeln!(out, "STATS {{\"cases\":{}{}{}}}", total, if st.is_empty() { "" } else { "," }, st.join(",")).unwrap();
        }
        "oracle-replay" | "replay-c11" | "replay-c10" => {
            let prop = sub.strip_prefix("replay-").unwrap_or("");
            let mut fails = vec![];
            let mut stats = BTreeMap::new();
            for c in stdin_cases() {
                let s = case_to_scn(&c);
                oracle_scn(&c.id, &s, &mut fails, &mut stats);
            }
            for f in &fails {
                let class = f.split("::").next().unwrap().trim().to_string();
                if class_of_property(&class, prop) {
                    writeln!(out, "FAIL {}", f).unwrap();
                }
            }
        }
        x => panic!("unknown subcommand {}", x),
    }
}
