//! Streams `ring` (smoltcp::storage::RingBuffer<u8>) and `pbuf` (smoltcp::storage::PacketBuffer<u32>),
//! property C14.
//!
//! Case header: `case <id> s=ring cap=<n>` or `case <id> s=pbuf mcap=<n> pcap=<n>`.
//! Ring ops (V = byte 0..255 or `-` = callback does not write; A = 1 accept / 0 decline; HEX = bytes or `-`):
//!   enq_one V | enq_one_with V A | deq_one | deq_one_with A
//!   enq_many_with HEX K   (callback writes HEX (truncated) into the slice and returns K)
//!   enq_many SIZE HEX     (caller writes HEX (truncated) into the returned slice)
//!   enq_slice HEX | deq_many_with K | deq_many SIZE | deq_slice SIZE
//!   get_unalloc OFF SIZE HEX | wr_unalloc OFF HEX | enq_unalloc N
//!   get_alloc OFF SIZE | rd_alloc OFF SIZE | deq_alloc N | clear
//! Packet-buffer ops:
//!   enq SIZE HDR HEX | enq_inf MAX HDR HEX K | deq | deq_with A | peek
//! Observation per op: `r ok <nums…> <hex> | <status>` or `r E<code> | <status>` (1 = Full, 2 = Empty)
//! or `r PANIC` (the case stops there).  Status of a ring: len cap window contiguous_window is_empty is_full;
//! of a packet buffer: is_empty is_full packet_capacity payload_capacity payload_bytes_count.
use smoltcp::storage::{PacketBuffer, PacketMetadata, RingBuffer};
use std::collections::{BTreeMap, VecDeque};
use std::io::Write;
use std::panic::{catch_unwind, AssertUnwindSafe};
use svh::*;

/// length of the slice most recently handed to a *_many_with callback (readable after a panic)
static LAST_SLICE: std::sync::atomic::AtomicUsize = std::sync::atomic::AtomicUsize::new(0);

type Ring = RingBuffer<'static, u8>;
type PBuf = PacketBuffer<'static, u32>;

#[derive(Debug, Clone, PartialEq)]
enum Out {
    Ok(Vec<u64>, Vec<u8>),
    Err(u8),
    Panic,
}

fn pu(s: &str) -> usize {
    s.parse::<u64>().expect("usize") as usize
}
fn pv(s: &str) -> Option<u8> {
    if s == "-" {
        None
    } else {
        Some(s.parse::<u8>().expect("byte"))
    }
}
/// data buffers handed to dequeue_slice / read_allocated are bounded (cannot allocate 2^64 bytes)
fn pbufsize(s: &str) -> usize {
    pu(s).min(8192)
}
fn put(dst: &mut [u8], src: &[u8]) {
    let n = dst.len().min(src.len());
    dst[..n].copy_from_slice(&src[..n]);
}

fn new_ring(cap: usize) -> Ring {
    RingBuffer::new(vec![0u8; cap])
}
fn new_pbuf(mcap: usize, pcap: usize) -> PBuf {
    PacketBuffer::new(vec![PacketMetadata::EMPTY; mcap], vec![0u8; pcap])
}

fn ring_status(r: &Ring) -> String {
    format!(
        "{} {} {} {} {} {}",
        r.len(),
        r.capacity(),
        r.window(),
        r.contiguous_window(),
        r.is_empty() as u8,
        r.is_full() as u8
    )
}
fn pbuf_status(b: &PBuf) -> String {
    format!(
        "{} {} {} {} {}",
        b.is_empty() as u8,
        b.is_full() as u8,
        b.packet_capacity(),
        b.payload_capacity(),
        b.payload_bytes_count()
    )
}

fn ring_apply(r: &mut Ring, t: &[&str]) -> Out {
    catch_unwind(AssertUnwindSafe(|| -> Out {
        match t[0] {
            "enq_one" => {
                let v = pv(t[1]);
                match r.enqueue_one() {
                    Ok(x) => {
                        let old = *x;
                        if let Some(v) = v {
                            *x = v;
                        }
                        Out::Ok(vec![], vec![old])
                    }
                    Err(_) => Out::Err(1),
                }
            }
            "enq_one_with" => {
                let (v, acc) = (pv(t[1]), t[2] == "1");
                match r.enqueue_one_with(|x| {
                    let old = *x;
                    if let Some(v) = v {
                        *x = v;
                    }
                    if acc {
                        Ok(old)
                    } else {
                        Err(old)
                    }
                }) {
                    Err(_) => Out::Err(1),
                    Ok(Ok(old)) => Out::Ok(vec![1], vec![old]),
                    Ok(Err(old)) => Out::Ok(vec![0], vec![old]),
                }
            }
            "deq_one" => match r.dequeue_one() {
                Ok(x) => Out::Ok(vec![], vec![*x]),
                Err(_) => Out::Err(2),
            },
            "deq_one_with" => {
                let acc = t[1] == "1";
                match r.dequeue_one_with(|x| if acc { Ok(*x) } else { Err(*x) }) {
                    Err(_) => Out::Err(2),
                    Ok(Ok(v)) => Out::Ok(vec![1], vec![v]),
                    Ok(Err(v)) => Out::Ok(vec![0], vec![v]),
                }
            }
            "enq_many_with" => {
                let (w, k) = (unhex(t[1]), pu(t[2]));
                let (size, (blen, old)) = r.enqueue_many_with(|buf| {
                    LAST_SLICE.store(buf.len(), std::sync::atomic::Ordering::Relaxed);
                    let old = buf.to_vec();
                    put(buf, &w);
                    (k, (buf.len(), old))
                });
                Out::Ok(vec![blen as u64, size as u64], old)
            }
            "enq_many" => {
                let (size, w) = (pu(t[1]), unhex(t[2]));
                let buf = r.enqueue_many(size);
                let old = buf.to_vec();
                put(buf, &w);
                Out::Ok(vec![old.len() as u64], old)
            }
            "enq_slice" => {
                let n = r.enqueue_slice(&unhex(t[1]));
                Out::Ok(vec![n as u64], vec![])
            }
            "deq_many_with" => {
                let k = pu(t[1]);
                let (size, seen) = r.dequeue_many_with(|buf| {
                    LAST_SLICE.store(buf.len(), std::sync::atomic::Ordering::Relaxed);
                    (k, buf.to_vec())
                });
                Out::Ok(vec![size as u64], seen)
            }
            "deq_many" => {
                let buf = r.dequeue_many(pu(t[1]));
                Out::Ok(vec![], buf.to_vec())
            }
            "deq_slice" => {
                let mut d = vec![0u8; pbufsize(t[1])];
                let n = r.dequeue_slice(&mut d);
                Out::Ok(vec![n as u64], d[..n].to_vec())
            }
            "get_unalloc" => {
                let w = unhex(t[3]);
                let buf = r.get_unallocated(pu(t[1]), pu(t[2]));
                let old = buf.to_vec();
                put(buf, &w);
                Out::Ok(vec![], old)
            }
            "wr_unalloc" => {
                let n = r.write_unallocated(pu(t[1]), &unhex(t[2]));
                Out::Ok(vec![n as u64], vec![])
            }
            "enq_unalloc" => {
                r.enqueue_unallocated(pu(t[1]));
                Out::Ok(vec![], vec![])
            }
            "get_alloc" => Out::Ok(vec![], r.get_allocated(pu(t[1]), pu(t[2])).to_vec()),
            "rd_alloc" => {
                let mut d = vec![0u8; pbufsize(t[2])];
                let n = r.read_allocated(pu(t[1]), &mut d);
                Out::Ok(vec![n as u64], d[..n].to_vec())
            }
            "deq_alloc" => {
                r.dequeue_allocated(pu(t[1]));
                Out::Ok(vec![], vec![])
            }
            "clear" => {
                r.clear();
                Out::Ok(vec![], vec![])
            }
            x => {
                eprintln!("bad ring op {}", x);
                std::process::exit(3)
            }
        }
    }))
    .unwrap_or(Out::Panic)
}

fn pbuf_apply(b: &mut PBuf, t: &[&str]) -> Out {
    catch_unwind(AssertUnwindSafe(|| -> Out {
        match t[0] {
            "enq" => {
                let (size, hdr, w) = (pu(t[1]), t[2].parse::<u32>().unwrap(), unhex(t[3]));
                match b.enqueue(size, hdr) {
                    Ok(buf) => {
                        let old = buf.to_vec();
                        put(buf, &w);
                        Out::Ok(vec![old.len() as u64], old)
                    }
                    Err(_) => Out::Err(1),
                }
            }
            "enq_inf" => {
                let (max, hdr, w, k) = (pu(t[1]), t[2].parse::<u32>().unwrap(), unhex(t[3]), pu(t[4]));
                let mut seen: Vec<u8> = vec![];
                match b.enqueue_with_infallible(max, hdr, |buf| {
                    seen = buf.to_vec();
                    put(buf, &w);
                    k
                }) {
                    Ok(size) => Out::Ok(vec![size as u64, seen.len() as u64], seen),
                    Err(_) => Out::Err(1),
                }
            }
            "deq" => match b.dequeue() {
                Ok((h, p)) => Out::Ok(vec![h as u64], p.to_vec()),
                Err(_) => Out::Err(2),
            },
            "deq_with" => {
                let acc = t[1] == "1";
                match b.dequeue_with(|h, p| {
                    let o = (*h, p.to_vec());
                    if acc {
                        Ok(o)
                    } else {
                        Err(o)
                    }
                }) {
                    Err(_) => Out::Err(2),
                    Ok(Ok((h, p))) => Out::Ok(vec![h as u64, 1], p),
                    Ok(Err((h, p))) => Out::Ok(vec![h as u64, 0], p),
                }
            }
            "peek" => match b.peek() {
                Ok((h, p)) => Out::Ok(vec![*h as u64], p.to_vec()),
                Err(_) => Out::Err(2),
            },
            x => {
                eprintln!("bad pbuf op {}", x);
                std::process::exit(3)
            }
        }
    }))
    .unwrap_or(Out::Panic)
}

fn show(o: &Out, status: &str) -> String {
    match o {
        Out::Ok(nums, bytes) => {
            let mut s = String::from("r ok");
            for n in nums {
                s.push_str(&format!(" {}", n));
            }
            format!("{} {} | {}", s, hex(bytes), status)
        }
        Out::Err(e) => format!("r E{} | {}", e, status),
        Out::Panic => "r PANIC".to_string(),
    }
}

fn run_case(c: &Case, out: &mut dyn Write) {
    writeln!(out, "case {}", c.id).unwrap();
    match c.get("s").unwrap_or("ring") {
        "ring" => {
            let mut r = new_ring(c.get_i("cap", 4) as usize);
            for op in &c.ops {
                let t: Vec<&str> = op.split_whitespace().collect();
                let o = ring_apply(&mut r, &t);
                if o == Out::Panic {
                    writeln!(out, "{}", show(&o, "")).unwrap();
                    break;
                }
                writeln!(out, "{}", show(&o, &ring_status(&r))).unwrap();
            }
        }
        "pbuf" => {
            let mut b = new_pbuf(c.get_i("mcap", 4) as usize, c.get_i("pcap", 16) as usize);
            for op in &c.ops {
                let t: Vec<&str> = op.split_whitespace().collect();
                let o = pbuf_apply(&mut b, &t);
                if o == Out::Panic {
                    writeln!(out, "{}", show(&o, "")).unwrap();
                    break;
                }
                writeln!(out, "{}", show(&o, &pbuf_status(&b))).unwrap();
            }
        }
        x => panic!("unknown stream {}", x),
    }
}

// ------------------------------------------------------------------------------------------
// generators
// ------------------------------------------------------------------------------------------

/// a size near the interesting boundaries of the current state
fn near(rng: &mut Rng, marks: &[usize], cap: usize) -> usize {
    match rng.below(20) {
        0 => usize::MAX,
        1 => (1usize << 63) + rng.below(3) as usize,
        2 => usize::MAX - rng.below(4) as usize,
        3..=5 => rng.below(4) as usize,
        6..=8 => rng.below(cap as u64 + 3) as usize,
        _ => {
            let m = *rng.pick(marks) as i64 + rng.range(-1, 1);
            m.max(0) as usize
        }
    }
}

fn data(rng: &mut Rng, n: usize, ctr: &mut u8) -> String {
    // distinct-ish non-zero bytes so that order / duplication errors are visible
    let _ = rng;
    let v: Vec<u8> = (0..n)
        .map(|_| {
            *ctr = ctr.wrapping_add(1);
            if *ctr == 0 {
                *ctr = 1;
            }
            *ctr
        })
        .collect();
    hex(&v)
}

fn gen_ring_case(rng: &mut Rng, id: String, tier: &str) -> Case {
    let cap: usize = match rng.below(100) {
        0..=69 => rng.below(10) as usize,
        70..=81 => 16,
        82..=93 => 64,
        _ => {
            if tier == "thorough" || rng.chance(1, 4) {
                2048
            } else {
                64
            }
        }
    };
    let maxlen = if tier == "thorough" { 64 } else { 40 };
    let len = rng.range(1, maxlen) as usize;
    let mut r = new_ring(cap);
    let mut ctr = rng.below(200) as u8;
    let mut ops = vec![];
    // only one case in five uses arguments that trip the documented asserts (a panic ends the case)
    let wild = rng.chance(1, 5);
    for _ in 0..len {
        let win = r.window();
        let cw = r.contiguous_window();
        let l = r.len();
        let marks = [win, cw, l, cap, win.saturating_sub(cw), 1];
        // data lengths stay bounded by cap+3
        let dl = |rng: &mut Rng| -> usize { near(rng, &marks, cap).min(cap + 3) };
        let op = match rng.below(100) {
            0..=5 => format!("enq_one {}", 1 + rng.below(255)),
            6..=9 => format!(
                "enq_one_with {} {}",
                if rng.chance(1, 4) { "-".to_string() } else { (1 + rng.below(255)).to_string() },
                rng.below(2)
            ),
            10..=15 => "deq_one".to_string(),
            16..=19 => format!("deq_one_with {}", rng.below(2)),
            20..=27 => {
                let n = dl(rng);
                let cw = if l == 0 { cap } else { cw };
                let k = match rng.below(10) {
                    0 => 0,
                    1 if wild => near(rng, &marks, cap),
                    2 if wild => cw + 1,
                    3..=5 => cw.min(n),
                    _ => rng.below(cw as u64 + 1) as usize,
                };
                format!("enq_many_with {} {}", data(rng, n, &mut ctr), k)
            }
            28..=33 => {
                let s = near(rng, &marks, cap);
                let n = if rng.chance(1, 5) { dl(rng) } else { s.min(cap + 3) };
                format!("enq_many {} {}", s, data(rng, n, &mut ctr))
            }
            34..=45 => {
                let n = dl(rng);
                format!("enq_slice {}", data(rng, n, &mut ctr))
            }
            46..=51 => {
                let dcw = r.get_allocated(0, l).len();
                let k = match rng.below(10) {
                    0 if wild => near(rng, &marks, cap),
                    1 if wild => dcw + 1,
                    2..=4 => dcw,
                    _ => rng.below(dcw as u64 + 1) as usize,
                };
                format!("deq_many_with {}", k)
            }
            52..=57 => format!("deq_many {}", near(rng, &marks, cap)),
            58..=67 => format!("deq_slice {}", dl(rng)),
            68..=72 => {
                let off = near(rng, &marks, cap);
                let s = near(rng, &marks, cap);
                let n = if rng.chance(1, 2) { 0 } else { s.min(cap + 3) };
                format!("get_unalloc {} {} {}", off, s, data(rng, n, &mut ctr))
            }
            73..=80 => {
                let off = if rng.chance(1, 3) { 0 } else { near(rng, &marks, cap) };
                let n = dl(rng);
                format!("wr_unalloc {} {}", off, data(rng, n, &mut ctr))
            }
            81..=85 => {
                let n = match rng.below(10) {
                    0 if wild => near(rng, &marks, cap),
                    1 if wild => win + 1,
                    2 => win,
                    _ => rng.below(win as u64 + 1) as usize,
                };
                format!("enq_unalloc {}", n)
            }
            86..=89 => format!("get_alloc {} {}", near(rng, &marks, cap), near(rng, &marks, cap)),
            90..=93 => format!("rd_alloc {} {}", near(rng, &marks, cap), dl(rng)),
            94..=97 => {
                let n = match rng.below(10) {
                    0 if wild => near(rng, &marks, cap),
                    1 if wild => l + 1,
                    2 => l,
                    _ => rng.below(l as u64 + 1) as usize,
                };
                format!("deq_alloc {}", n)
            }
            _ => "clear".to_string(),
        };
        let t: Vec<&str> = op.split_whitespace().collect();
        let o = ring_apply(&mut r, &t);
        ops.push(op);
        if o == Out::Panic {
            break;
        }
    }
    Case { id, cfg: vec![("s".into(), "ring".into()), ("cap".into(), cap.to_string())], ops }
}

fn gen_pbuf_case(rng: &mut Rng, id: String, tier: &str) -> Case {
    let mcap = *rng.pick(&[0usize, 1, 1, 2, 2, 3, 3, 4, 4, 4, 8]);
    let pcap = *rng.pick(&[0usize, 1, 2, 3, 4, 5, 8, 8, 16, 16, 16, 64]);
    let maxlen = if tier == "thorough" { 64 } else { 40 };
    let len = rng.range(1, maxlen) as usize;
    let mut b = new_pbuf(mcap, pcap);
    let mut ctr = rng.below(200) as u8;
    let mut ops = vec![];
    let mut hdr = rng.below(1000) as u32;
    let wild = rng.chance(1, 5);
    for _ in 0..len {
        let win = pcap - b.payload_bytes_count();
        let size = |rng: &mut Rng| -> usize {
            match rng.below(16) {
                0 => 0,
                1 => pcap,
                2 => pcap + 1,
                3 => win,
                4 => win + 1,
                5 => win.saturating_sub(1),
                6 => usize::MAX - rng.below(2) as usize,
                7..=9 => rng.below(pcap as u64 / 2 + 2) as usize,
                10..=11 => pcap - rng.below(pcap as u64 / 4 + 1) as usize,
                _ => rng.below(pcap as u64 + 2) as usize,
            }
        };
        hdr += 1;
        let op = match rng.below(100) {
            0..=29 => {
                let s = size(rng);
                let n = if rng.chance(1, 8) { rng.below(s.min(pcap) as u64 + 1) as usize } else { s.min(pcap + 2) };
                format!("enq {} {} {}", s, hdr, data(rng, n, &mut ctr))
            }
            30..=54 => {
                let s = size(rng);
                let sm = s.min(pcap + 2);
                let k = match rng.below(12) {
                    0 => 0,
                    1 if wild => sm + 1,
                    2 if wild => sm + rng.below(4) as usize,
                    3..=5 => rng.below(sm as u64 + 1) as usize,
                    _ => sm,
                };
                let n = if rng.chance(1, 8) { rng.below(sm as u64 + 1) as usize } else { sm };
                format!("enq_inf {} {} {} {}", s, hdr, data(rng, n, &mut ctr), k)
            }
            55..=76 => "deq".to_string(),
            77..=88 => format!("deq_with {}", rng.below(2)),
            _ => "peek".to_string(),
        };
        let t: Vec<&str> = op.split_whitespace().collect();
        let o = pbuf_apply(&mut b, &t);
        ops.push(op);
        if o == Out::Panic {
            break;
        }
    }
    Case {
        id,
        cfg: vec![("s".into(), "pbuf".into()), ("mcap".into(), mcap.to_string()), ("pcap".into(), pcap.to_string())],
        ops,
    }
}

// bounded-exhaustive programs: every op sequence of length `depth` over a small alphabet, for every
// small configuration.  Program number i (0 <= i < total) decodes to (config, alphabet, digits).
fn ringx_alphabets() -> Vec<Vec<&'static str>> {
    vec![
        vec!["enq_slice @2", "enq_one @v", "deq_one", "deq_slice 2", "enq_many_with @2 1", "deq_many_with 1", "clear"],
        vec!["enq_slice @2", "deq_slice 1", "wr_unalloc 1 @1", "enq_unalloc 2", "deq_alloc 1", "rd_alloc 1 2", "enq_many 2 @2"],
    ]
}
fn pbufx_alphabet() -> Vec<&'static str> {
    vec!["enq 1 @h @1", "enq 2 @h @2", "enq_inf 2 @h @2 2", "enq_inf 3 @h @3 1", "deq", "deq_with 0", "peek"]
}
/// instantiate `@1/@2/@3` (fresh data bytes), `@v` (fresh byte value), `@h` (fresh header)
fn inst(tpl: &str, ctr: &mut u8) -> String {
    let next = |ctr: &mut u8| {
        *ctr = ctr.wrapping_add(1);
        if *ctr == 0 {
            *ctr = 1;
        }
        *ctr
    };
    tpl.split(' ')
        .map(|w| match w {
            "@1" | "@2" | "@3" => {
                let n = w[1..].parse::<usize>().unwrap();
                let v: Vec<u8> = (0..n).map(|_| next(ctr)).collect();
                hex(&v)
            }
            "@v" | "@h" => next(ctr).to_string(),
            x => x.to_string(),
        })
        .collect::<Vec<_>>()
        .join(" ")
}
fn depth_of(tier: &str) -> u32 {
    if tier == "thorough" {
        6
    } else {
        4
    }
}
fn ringx_total(tier: &str) -> usize {
    let d = depth_of(tier);
    ringx_alphabets().iter().map(|a| 4 * a.len().pow(d)).sum()
}
fn ringx_case(mut i: usize, tier: &str) -> Case {
    let d = depth_of(tier);
    let id = format!("x{}", i);
    for (ai, a) in ringx_alphabets().iter().enumerate() {
        let per = a.len().pow(d);
        if i < 4 * per {
            let cap = i / per;
            let mut k = i % per;
            let mut ctr = (16 * ai) as u8;
            let mut ops = vec![];
            for _ in 0..d {
                ops.push(inst(a[k % a.len()], &mut ctr));
                k /= a.len();
            }
            return Case { id, cfg: vec![("s".into(), "ring".into()), ("cap".into(), cap.to_string())], ops };
        }
        i -= 4 * per;
    }
    unreachable!()
}
fn pbufx_total(tier: &str) -> usize {
    16 * pbufx_alphabet().len().pow(depth_of(tier))
}
fn pbufx_case(i: usize, tier: &str) -> Case {
    let d = depth_of(tier);
    let a = pbufx_alphabet();
    let per = a.len().pow(d);
    let (cfg, mut k) = (i / per, i % per);
    let (mcap, pcap) = (cfg / 4, cfg % 4);
    let mut ctr = 0u8;
    let mut ops = vec![];
    for _ in 0..d {
        ops.push(inst(a[k % a.len()], &mut ctr));
        k /= a.len();
    }
    Case {
        id: format!("x{}", i),
        cfg: vec![("s".into(), "pbuf".into()), ("mcap".into(), mcap.to_string()), ("pcap".into(), pcap.to_string())],
        ops,
    }
}

// ------------------------------------------------------------------------------------------
// oracles: a shadow VecDeque evaluated against the implementation
// ------------------------------------------------------------------------------------------

struct Fails<'a> {
    v: &'a mut Vec<String>,
    case: String,
    k: usize,
    op: String,
}
impl<'a> Fails<'a> {
    fn add(&mut self, class: &str, why: String) {
        self.v.push(format!("{} :: case {} op#{} `{}`: {}", class, self.case, self.k, self.op, why));
    }
}

fn overlay(w: &[u8], old: &[u8]) -> Vec<u8> {
    let mut v = old.to_vec();
    put(&mut v, w);
    v
}

fn oracle_ring_case(c: &Case, fails: &mut Vec<String>, stats: &mut BTreeMap<String, u64>) {
    let cap = c.get_i("cap", 4) as usize;
    let mut r = new_ring(cap);
    let mut q: VecDeque<u8> = VecDeque::new();
    // what the caller wrote into the unallocated area, by offset past the last allocated element
    let mut scratch: Vec<Option<u8>> = vec![None; cap];
    for (k, op) in c.ops.iter().enumerate() {
        let t: Vec<&str> = op.split_whitespace().collect();
        let mut f = Fails { v: fails, case: c.id.clone(), k, op: op.clone() };
        let len0 = q.len();
        let win0 = cap - len0;
        let o = ring_apply(&mut r, &t);
        *stats.entry(format!("ring_{}", t[0])).or_default() += 1;
        let expect_panic = match t[0] {
            "enq_unalloc" => pu(t[1]) > win0,
            "deq_alloc" => pu(t[1]) > len0,
            // the documented asserts of the *_many_with callbacks fire iff the callback claims more than
            // the slice it was given (whatever length that slice had)
            "enq_many_with" => pu(t[2]) > LAST_SLICE.load(std::sync::atomic::Ordering::Relaxed),
            "deq_many_with" => pu(t[1]) > LAST_SLICE.load(std::sync::atomic::Ordering::Relaxed),
            _ => false,
        };
        let was_empty = len0 == 0;
        let reset_scratch = |s: &mut Vec<Option<u8>>| {
            for x in s.iter_mut() {
                *x = None
            }
        };
        let consume = |s: &mut Vec<Option<u8>>, n: usize| {
            s.drain(0..n.min(s.len()));
        };
        match (&o, t[0]) {
            (Out::Panic, _) => {
                if !expect_panic {
                    f.add("ring-unexpected-panic", "operation panicked".into());
                }
                *stats.entry("ring_panics".into()).or_default() += 1;
                return;
            }
            (_, _) if expect_panic => {
                f.add("ring-missing-panic", "documented assert did not fire".into());
                return;
            }
            (Out::Err(e), "enq_one") | (Out::Err(e), "enq_one_with") => {
                if *e != 1 || len0 != cap {
                    f.add("ring-error-mismatch", format!("Full reported with len {} cap {}", len0, cap));
                }
            }
            (Out::Err(e), "deq_one") | (Out::Err(e), "deq_one_with") => {
                if *e != 2 || len0 != 0 {
                    f.add("ring-error-mismatch", format!("Empty reported with len {}", len0));
                }
            }
            (Out::Err(_), _) => f.add("ring-error-mismatch", "unexpected error".into()),
            (Out::Ok(nums, bytes), opn) => match opn {
                "enq_one" | "enq_one_with" => {
                    if len0 == cap {
                        f.add("ring-capacity-exceeded", "enqueue accepted on a full ring".into());
                    }
                    if let Some(s) = scratch.first().copied().flatten() {
                        if s != bytes[0] {
                            f.add("ring-unallocated-mismatch", format!("slot holds {} but {} was written there", bytes[0], s));
                        }
                    }
                    let v = pv(t[1]).unwrap_or(bytes[0]);
                    if opn == "enq_one" || nums[0] == 1 {
                        q.push_back(v);
                        consume(&mut scratch, 1);
                    } else if !scratch.is_empty() {
                        scratch[0] = Some(v);
                    }
                }
                "deq_one" | "deq_one_with" => {
                    if q.front() != Some(&bytes[0]) {
                        f.add("ring-dequeued-wrong", format!("got {} want {:?}", bytes[0], q.front()));
                    }
                    if opn == "deq_one" || nums[0] == 1 {
                        q.pop_front();
                        scratch.push(None);
                    }
                }
                "enq_many_with" | "enq_many" => {
                    if was_empty {
                        reset_scratch(&mut scratch);
                    }
                    let (blen, took, w, want) = if opn == "enq_many_with" {
                        (nums[0] as usize, nums[1] as usize, unhex(t[1]), usize::MAX)
                    } else {
                        (nums[0] as usize, nums[0] as usize, unhex(t[2]), pu(t[1]))
                    };
                    if blen > win0 || blen > want {
                        f.add("ring-capacity-exceeded", format!("slice of {} handed out, window {} request {}", blen, win0, want));
                    }
                    if bytes.len() != blen || took > blen {
                        f.add("ring-count-mismatch", format!("took {} of {}", took, blen));
                    }
                    for (i, b) in bytes.iter().enumerate() {
                        if let Some(Some(s)) = scratch.get(i) {
                            if s != b {
                                f.add("ring-unallocated-mismatch", format!("offset {} holds {} but {} was written", i, b, s));
                            }
                        }
                    }
                    let newc = overlay(&w, bytes);
                    for (i, b) in newc.iter().enumerate() {
                        if i < scratch.len() {
                            scratch[i] = Some(*b);
                        }
                    }
                    for b in &newc[..took.min(newc.len())] {
                        q.push_back(*b);
                    }
                    consume(&mut scratch, took);
                }
                "enq_slice" => {
                    if was_empty {
                        reset_scratch(&mut scratch);
                    }
                    let d = unhex(t[1]);
                    let n = nums[0] as usize;
                    if n != d.len().min(win0) {
                        f.add("ring-count-mismatch", format!("enqueue_slice took {} of {} with window {}", n, d.len(), win0));
                    }
                    for b in &d[..n.min(d.len())] {
                        q.push_back(*b);
                    }
                    consume(&mut scratch, n);
                }
                "deq_many_with" | "deq_many" | "deq_slice" => {
                    let (n, want) = match opn {
                        "deq_many_with" => (nums[0] as usize, usize::MAX),
                        "deq_many" => (bytes.len(), pu(t[1])),
                        _ => (nums[0] as usize, pbufsize(t[1])),
                    };
                    let front: Vec<u8> = q.iter().take(bytes.len()).copied().collect();
                    if front != *bytes {
                        f.add("ring-dequeued-wrong", format!("got {} want {}", hex(bytes), hex(&front)));
                    }
                    if n > len0 || n > bytes.len() || (opn != "deq_many_with" && n > want) {
                        f.add("ring-count-mismatch", format!("dequeued {} (len {}, shown {})", n, len0, bytes.len()));
                    }
                    if opn == "deq_slice" && n != want.min(len0) {
                        f.add("ring-count-mismatch", format!("dequeue_slice gave {} of {} with len {}", n, want, len0));
                    }
                    for _ in 0..n.min(q.len()) {
                        q.pop_front();
                        scratch.push(None);
                    }
                }
                "get_unalloc" => {
                    let (off, size, w) = (pu(t[1]), pu(t[2]), unhex(t[3]));
                    let lim = if off > win0 { 0 } else { size.min(win0 - off) };
                    if bytes.len() > lim {
                        f.add("ring-capacity-exceeded", format!("slice of {} handed out, limit {}", bytes.len(), lim));
                    }
                    for (i, b) in bytes.iter().enumerate() {
                        if let Some(Some(s)) = scratch.get(off + i) {
                            if s != b {
                                f.add("ring-unallocated-mismatch", format!("offset {} holds {} but {} was written", off + i, b, s));
                            }
                        }
                    }
                    for (i, b) in overlay(&w, bytes).iter().enumerate() {
                        if off + i < scratch.len() {
                            scratch[off + i] = Some(*b);
                        }
                    }
                }
                "wr_unalloc" => {
                    let (off, d) = (pu(t[1]), unhex(t[2]));
                    let want = if off > win0 { 0 } else { d.len().min(win0 - off) };
                    if nums[0] as usize != want {
                        f.add("ring-count-mismatch", format!("write_unallocated wrote {} want {}", nums[0], want));
                    }
                    for i in 0..want {
                        scratch[off + i] = Some(d[i]);
                    }
                    // read back through get_unallocated
                    let a = r.get_unallocated(off, want).to_vec();
                    let b = r.get_unallocated(off + a.len(), want - a.len()).to_vec();
                    if [a, b].concat() != d[..want] {
                        f.add("ring-unallocated-mismatch", "write_unallocated data does not read back".into());
                    }
                }
                "enq_unalloc" => {
                    let n = pu(t[1]);
                    // what was committed: the new tail of the queue, read back through read_allocated
                    let mut commit = vec![0u8; n];
                    let got = r.read_allocated(len0, &mut commit);
                    if got != n {
                        f.add("ring-len-mismatch", format!("enqueue_unallocated({}) made {} elements readable", n, got));
                    }
                    commit.truncate(got);
                    for (i, b) in commit.iter().enumerate() {
                        if let Some(Some(s)) = scratch.get(i) {
                            if s != b {
                                f.add("ring-unallocated-mismatch", format!("offset {} holds {} but {} was written", i, b, s));
                            }
                        }
                        q.push_back(*b);
                    }
                    consume(&mut scratch, n);
                }
                "get_alloc" => {
                    let (off, size) = (pu(t[1]), pu(t[2]));
                    let lim = if off > len0 { 0 } else { size.min(len0 - off) };
                    let want: Vec<u8> = q.iter().skip(off.min(len0)).take(bytes.len()).copied().collect();
                    if bytes.len() > lim || want != *bytes {
                        f.add("ring-dequeued-wrong", format!("get_allocated got {} want prefix of {} (limit {})", hex(bytes), hex(&want), lim));
                    }
                }
                "rd_alloc" => {
                    let (off, size) = (pu(t[1]), pbufsize(t[2]));
                    let lim = if off > len0 { 0 } else { size.min(len0 - off) };
                    let want: Vec<u8> = q.iter().skip(off.min(len0)).take(lim).copied().collect();
                    if nums[0] as usize != lim || want != *bytes {
                        f.add("ring-dequeued-wrong", format!("read_allocated got {} {} want {}", nums[0], hex(bytes), hex(&want)));
                    }
                }
                "deq_alloc" => {
                    for _ in 0..pu(t[1]) {
                        q.pop_front();
                        scratch.push(None);
                    }
                }
                "clear" => {
                    q.clear();
                    scratch = vec![None; cap];
                }
                _ => unreachable!(),
            },
        }
        scratch.resize(cap - q.len().min(cap), None);
        // status against the simple queue
        if r.len() != q.len() || r.capacity() != cap || r.window() != cap - q.len().min(cap) {
            f.add("ring-len-mismatch", format!("len {} window {} cap {}; queue has {}", r.len(), r.window(), r.capacity(), q.len()));
            return;
        }
        if q.len() > cap {
            f.add("ring-capacity-exceeded", format!("{} elements in a ring of {}", q.len(), cap));
            return;
        }
        if r.is_empty() != q.is_empty() || r.is_full() != (q.len() == cap) {
            f.add("ring-len-mismatch", format!("is_empty {} is_full {} with {} of {}", r.is_empty(), r.is_full(), q.len(), cap));
        }
        if r.contiguous_window() > r.window() {
            f.add("ring-capacity-exceeded", format!("contiguous_window {} > window {}", r.contiguous_window(), r.window()));
        }
        let mut all = vec![0u8; cap];
        let n = r.read_allocated(0, &mut all);
        let want: Vec<u8> = q.iter().copied().collect();
        if all[..n] != want[..] {
            f.add("ring-contents-mismatch", format!("holds {} want {}", hex(&all[..n]), hex(&want)));
            return;
        }
    }
}

fn oracle_pbuf_case(c: &Case, fails: &mut Vec<String>, stats: &mut BTreeMap<String, u64>) {
    let (mcap, pcap) = (c.get_i("mcap", 4) as usize, c.get_i("pcap", 16) as usize);
    let mut b = new_pbuf(mcap, pcap);
    let mut q: VecDeque<(u32, Vec<Option<u8>>)> = VecDeque::new();
    let same = |p: &[u8], want: &[Option<u8>]| -> bool {
        p.len() == want.len() && p.iter().zip(want).all(|(a, w)| w.map_or(true, |w| w == *a))
    };
    for (k, op) in c.ops.iter().enumerate() {
        let t: Vec<&str> = op.split_whitespace().collect();
        let mut f = Fails { v: fails, case: c.id.clone(), k, op: op.clone() };
        let o = pbuf_apply(&mut b, &t);
        *stats.entry(format!("pbuf_{}", t[0])).or_default() += 1;
        match (&o, t[0]) {
            (Out::Panic, "enq_inf") => {
                // legitimate only when the callback claims more than the slice it was given
                if pu(t[4]) <= pu(t[1]) {
                    f.add("pb-unexpected-panic", "enqueue_with_infallible panicked although the callback stayed within its slice".into());
                }
                *stats.entry("pbuf_panics".into()).or_default() += 1;
                return;
            }
            (Out::Panic, _) => {
                f.add("pb-unexpected-panic", "operation panicked".into());
                return;
            }
            (Out::Err(_), "enq") | (Out::Err(_), "enq_inf") => {
                *stats.entry("pbuf_refused".into()).or_default() += 1;
                let size = pu(t[1]);
                if q.is_empty() && mcap >= 1 && size <= pcap {
                    *stats.entry("pbuf_refused_empty".into()).or_default() += 1;
                    f.add(
                        "pb-empty-refused",
                        format!("no packet queued, {} metadata slots, payload capacity {}, but a packet of {} was refused", mcap, pcap, size),
                    );
                }
            }
            (Out::Err(_), _) => {
                if !q.is_empty() {
                    f.add("pb-empty-mismatch", format!("Empty reported with {} packets queued", q.len()));
                }
            }
            (Out::Ok(nums, bytes), "enq") => {
                let (size, hdr, w) = (pu(t[1]), t[2].parse::<u32>().unwrap(), unhex(t[3]));
                if bytes.len() != size {
                    f.add("pb-payload-size", format!("asked {} got a slice of {}", size, bytes.len()));
                }
                let _ = nums;
                if q.is_empty() {
                    *stats.entry("pbuf_accepted_empty".into()).or_default() += 1;
                }
                q.push_back((hdr, overlay(&w, bytes).into_iter().map(Some).collect()));
            }
            (Out::Ok(nums, bytes), "enq_inf") => {
                let (max, hdr, w, kk) = (pu(t[1]), t[2].parse::<u32>().unwrap(), unhex(t[3]), pu(t[4]));
                if bytes.len() != max || nums[0] as usize != kk {
                    f.add("pb-payload-size", format!("max {} slice {} callback {} recorded {}", max, bytes.len(), kk, nums[0]));
                }
                if q.is_empty() {
                    *stats.entry("pbuf_accepted_empty".into()).or_default() += 1;
                }
                let mut p: Vec<Option<u8>> = overlay(&w, bytes).into_iter().map(Some).collect();
                p.resize(kk, None); // bytes beyond the callback's slice are not known to the caller
                q.push_back((hdr, p));
            }
            (Out::Ok(nums, bytes), opn) => {
                // deq / deq_with / peek
                match q.front() {
                    None => f.add("pb-empty-mismatch", "a packet was returned but none is queued".into()),
                    Some((h, p)) => {
                        if *h as u64 != nums[0] || !same(bytes, p) {
                            f.add(
                                "pb-dequeued-wrong",
                                format!("got hdr {} payload {} ({} bytes); queued hdr {} with {} bytes", nums[0], hex(bytes), bytes.len(), h, p.len()),
                            );
                        }
                    }
                }
                if opn == "deq" || (opn == "deq_with" && nums[1] == 1) {
                    q.pop_front();
                }
            }
        }
        if b.is_empty() != q.is_empty() {
            f.add("pb-is-empty-mismatch", format!("is_empty() = {} with {} packets queued", b.is_empty(), q.len()));
        }
        let total: usize = q.iter().map(|(_, p)| p.len()).sum();
        if q.len() > mcap || total > pcap || b.payload_bytes_count() > pcap || b.payload_bytes_count() < total {
            f.add("pb-capacity-exceeded", format!("{} packets / {} bytes (ring reports {}) in {} / {}", q.len(), total, b.payload_bytes_count(), mcap, pcap));
        }
        if q.len() == mcap && !b.is_full() {
            f.add("pb-is-full-mismatch", format!("{} packets in {} slots but is_full() = false", q.len(), mcap));
        }
    }
}

fn oracle_case(c: &Case, fails: &mut Vec<String>, stats: &mut BTreeMap<String, u64>) {
    match c.get("s").unwrap_or("ring") {
        "ring" => oracle_ring_case(c, fails, stats),
        _ => oracle_pbuf_case(c, fails, stats),
    }
}

fn main() {
    quiet_panics();
    let (sub, seed, n, tier) = args();
    let stdout = std::io::stdout();
    let mut out = std::io::BufWriter::new(stdout.lock());
    let shard = (seed % 1000) as usize;
    match sub.as_str() {
        "gen-ring" | "gen-pbuf" => {
            let mut rng = Rng::new(seed ^ if sub == "gen-ring" { 0 } else { 0x5050 });
            for i in 0..n {
                let id = format!("s{}-{}", seed, i);
                if sub == "gen-ring" {
                    gen_ring_case(&mut rng, id, &tier).write(&mut out);
                } else {
                    gen_pbuf_case(&mut rng, id, &tier).write(&mut out);
                }
            }
        }
        // bounded-exhaustive: shard k (= seed mod 1000) emits programs [k*n, (k+1)*n)
        "genx-ring" | "genx-pbuf" => {
            let total = if sub == "genx-ring" { ringx_total(&tier) } else { pbufx_total(&tier) };
            for i in shard * n..((shard + 1) * n).min(total) {
                if sub == "genx-ring" {
                    ringx_case(i, &tier).write(&mut out);
                } else {
                    pbufx_case(i, &tier).write(&mut out);
                }
            }
        }
        "totals" => {
            for t in ["quick", "thorough"] {
                writeln!(out, "{} ringx={} pbufx={}", t, ringx_total(t), pbufx_total(t)).unwrap();
            }
        }
        "run" => {
            for c in stdin_cases() {
                run_case(&c, &mut out);
            }
        }
        "oracle-ring" | "oracle-pbuf" | "oraclex-ring" | "oraclex-pbuf" => {
            let ring = sub.ends_with("ring");
            let mut rng = Rng::new(seed ^ if ring { 0xA5A5 } else { 0xA5A5_5050 });
            let mut fails = vec![];
            let mut stats = BTreeMap::new();
            let mut ncases = 0usize;
            let total = if ring { ringx_total(&tier) } else { pbufx_total(&tier) };
            for i in 0..n {
                let c = if sub.starts_with("oraclex") {
                    let idx = shard * n + i;
                    if idx >= total {
                        break;
                    }
                    if ring {
                        ringx_case(idx, &tier)
                    } else {
                        pbufx_case(idx, &tier)
                    }
                } else if ring {
                    gen_ring_case(&mut rng, format!("o{}-{}", seed, i), &tier)
                } else {
                    gen_pbuf_case(&mut rng, format!("o{}-{}", seed, i), &tier)
                };
                ncases += 1;
                let before = fails.len();
                oracle_case(&c, &mut fails, &mut stats);
                if fails.len() > before {
                    writeln!(out, "FAILCASE").unwrap();
                    c.write(&mut out);
                }
                if fails.len() > 20 {
                    break;
                }
            }
            for f in &fails {
                writeln!(out, "FAIL {}", f).unwrap();
            }
            let st: Vec<String> = stats.iter().map(|(k, v)| format!("{}:{}", jstr(k), v)).collect();
            writeln!(out, "STATS {{\"cases\":{}{}{}}}", ncases, if st.is_empty() { "" } else { "," }, st.join(",")).unwrap();
        }
        "oracle-replay" => {
            let mut fails = vec![];
            let mut stats = BTreeMap::new();
            for c in stdin_cases() {
                oracle_case(&c, &mut fails, &mut stats);
            }
            for f in &fails {
                writeln!(out, "FAIL {}", f).unwrap();
            }
        }
        x => panic!("unknown subcommand {}", x),
    }
}
