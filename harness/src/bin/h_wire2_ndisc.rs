//! Second-wave wire formats of properties C06 / C07, group `ndisc` (NDISC options, NDISC messages): streams `wire2-<fmt>-emit` / `wire2-<fmt>-parse`
//! (formats: see FORMATS; one module `wire2/fmt_<x>.rs` each, same protocol as h_wire.rs).
//!
//!   h_wire2_ndisc gen <fmt>-emit|<fmt>-parse <seed> <n> <tier>   cases on stdout
//!   h_wire2_ndisc run                                            cases on stdin -> observations
//!
//! Case: `case <id> fmt=<fmt>` + ops + `end`.
//!   emit  buf=<hex> <repr fields>     real `Repr::emit` into exactly that buffer (zero-, 0xff-, 0xa5- and
//!                                     random-filled variants are generated for every repr)
//!         -> `ret <bytes|PANIC> | <Repr::parse of the result>`
//!   parse bytes=<hex> <context>       `new_checked`, every accessor, `Repr::parse`, each under catch_unwind
//!         -> `chk <ok|err|PANIC> [acc k=v …] parse <Ok fields…|Err|PANIC>`
//! The implementation-side oracle over all exported wire types lives in h_wire.rs (oracle-c06 / oracle-c07).
use std::io::Write;
use svh::*;

#[path = "wire/common.rs"]
mod common;
#[path = "wire2/fmt_ndisc.rs"]
mod fmt_ndisc;
#[path = "wire2/fmt_ndiscopt.rs"]
mod fmt_ndiscopt;

use common::Format;

const FORMATS: &[&Format] = &[&fmt_ndiscopt::FORMAT, &fmt_ndisc::FORMAT];

fn format(name: &str) -> &'static Format {
    FORMATS.iter().find(|f| f.name == name).unwrap_or_else(|| panic!("unknown format {}", name))
}

fn main() {
    quiet_panics();
    let a: Vec<String> = std::env::args().collect();
    let sub = a.get(1).cloned().unwrap_or_else(|| "run".into());
    let stdout = std::io::stdout();
    let mut out = std::io::BufWriter::new(stdout.lock());
    match sub.as_str() {
        "gen" => {
            let stream = a[2].clone();
            let seed: u64 = a[3].parse().unwrap();
            let n: usize = a[4].parse().unwrap();
            let tier = a.get(5).cloned().unwrap_or_else(|| "quick".into());
            let (fmt, kind) = stream.rsplit_once('-').expect("stream = <fmt>-emit|parse");
            let f = format(fmt);
            let mut rng = Rng::new(seed ^ if kind == "emit" { 0x1606 } else { 0x1607 });
            for i in 0..n {
                let ops = if kind == "emit" { (f.gen_emit)(&mut rng, &tier) } else { (f.gen_parse)(&mut rng, &tier) };
                Case { id: format!("{}{}-{}", &kind[..1], seed, i), cfg: vec![("fmt".into(), fmt.into())], ops }.write(&mut out);
            }
        }
        "run" => {
            for c in stdin_cases() {
                writeln!(out, "case {}", c.id).unwrap();
                let f = format(c.get("fmt").expect("fmt="));
                for op in &c.ops {
                    writeln!(out, "{}", (f.run_op)(op)).unwrap();
                }
            }
        }
        x => panic!("unknown subcommand {}", x),
    }
}
