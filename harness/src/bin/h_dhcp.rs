//! Stream `dhcp`: smoltcp::socket::dhcpv4 behind a real `Interface` (Medium::Ethernet, QDev)  — property C18.
//!
//! Case format (all times in microseconds, addresses dotted):
//!   case <id> apply=<0|1> seed=<u64> mtu=<n> disc=<us> req=<us> retries=<n> minrenew=<us> maxrenew=<us|max>
//!             maxlease=<us|-> naks=<0|1> rxbuf=<0|1> sport=<n> cport=<n>
//!   poll t=<us>                    Interface::poll(t) ; socket.poll() ; (apply config) ; Interface::poll_at(t)
//!   pollrel d=<us>                 same, at max(now, last poll_at + d)   (now + d if there is no deadline)
//!   srv kind=<offer|ack|nak|discover|request|decline|release|inform> xid=<same|stale|other> mac=<own|other>
//!       sid=<ip|-> yi=<ip> mask=<ip|-> lease=<s|-> t1=<s|-> t2=<s|-> router=<ip|-> dns=<ip,ip,..|-> ipsrc=<ip>
//!       ipdst=<ip> eth=<bcast|own|other> sport=<n> dport=<n> bad=<-|trunc|magic|htype|hlen|nomsgtype|opcode|udpcksum|ipcksum>
//!                                  queue one server frame (DhcpRepr::emit in UDP/IPv4/Ethernet) for the next poll
//!   arp spa=<ip>                   queue an ARP reply from <ip> to the interface's current address
//!   setmaxlease <us|->  | reset | setnaks <0|1> | setretry disc=.. req=.. retries=.. minrenew=.. maxrenew=..
//! Observation lines (per poll): `tx dhcp …` / `tx arp …` / `tx other …` for every transmitted frame, `ev …`, `pollat …`;
//! `PANIC` if Interface::poll panicked (the case stops there).
use smoltcp::iface::{Config, Interface, SocketHandle, SocketSet};
use smoltcp::phy::{ChecksumCapabilities, Medium};
use smoltcp::socket::dhcpv4;
use smoltcp::time::{Duration, Instant};
use smoltcp::wire::*;
use std::collections::BTreeMap;
use std::io::Write;
use std::panic::AssertUnwindSafe;
use svh::dev::QDev;
use svh::*;

const OWN_MAC: [u8; 6] = [0x02, 0, 0, 0, 0, 0x01];
const OTHER_MAC: [u8; 6] = [0x02, 0, 0, 0, 0, 0x77];

fn ip(s: &str) -> Ipv4Address {
    let p: Vec<u8> = s.split('.').map(|x| x.parse().expect("ip octet")).collect();
    Ipv4Address::new(p[0], p[1], p[2], p[3])
}
fn ips(a: Ipv4Address) -> String {
    let o = a.octets();
    format!("{}.{}.{}.{}", o[0], o[1], o[2], o[3])
}
fn is_unicast(a: Ipv4Address) -> bool {
    !(a.is_broadcast() || a.is_multicast() || a.is_unspecified())
}
fn oip(s: &str) -> Option<Ipv4Address> {
    if s == "-" {
        None
    } else {
        Some(ip(s))
    }
}
fn oips(a: Option<Ipv4Address>) -> String {
    a.map(ips).unwrap_or_else(|| "-".into())
}
fn mac_of(a: Ipv4Address) -> EthernetAddress {
    let o = a.octets();
    EthernetAddress([0x02, 0x01, o[0], o[1], o[2], o[3]])
}
fn kv(op: &str) -> BTreeMap<String, String> {
    op.split_whitespace()
        .skip(1)
        .filter_map(|t| t.split_once('=').map(|(k, v)| (k.to_string(), v.to_string())))
        .collect()
}
fn dur(s: &str) -> Duration {
    if s == "max" {
        Duration::MAX
    } else {
        Duration::from_micros(s.parse().expect("duration"))
    }
}

#[derive(Clone, Debug, PartialEq)]
pub enum Ev {
    None,
    Deconf,
    Conf { addr: Ipv4Cidr, router: Option<Ipv4Address>, dns: Vec<Ipv4Address>, srv: Ipv4Address, sid: Ipv4Address, pkt: bool },
}

#[derive(Clone, Debug)]
pub struct TxDhcp {
    pub kind: String,
    pub xid: u32,
    pub rel: &'static str,
    pub ci: Ipv4Address,
    pub req: Option<Ipv4Address>,
    pub sid: Option<Ipv4Address>,
    pub src: Ipv4Address,
    pub dst: Ipv4Address,
    pub eth_bcast: bool,
}

#[derive(Default, Clone, Debug)]
pub struct StepObs {
    pub lines: Vec<String>,
    pub polled: bool,
    pub t: i64,
    pub tx: Vec<TxDhcp>,
    pub n_frames: usize,
    pub n_rx: usize,
    pub ev: Option<Ev>,
    pub pollat: Option<i64>,
    pub panicked: bool,
    /// an ACK/OFFER/... queued by this step: (kind, xid, all other clauses fine?)
    pub srv: Option<SrvInfo>,
}

#[derive(Clone, Debug)]
pub struct SrvInfo {
    pub kind: String,
    pub xid: u32,
    pub mac_own: bool,
    pub sid: Option<Ipv4Address>,
    pub mask: Option<Ipv4Address>,
    pub yi: Ipv4Address,
    pub lease: Option<u32>,
    pub bad: String,
    pub deliverable: bool,
}

pub struct Sim {
    dev: QDev,
    iface: Interface,
    sockets: SocketSet<'static>,
    h: SocketHandle,
    apply: bool,
    pub now: i64,
    pub cur_xid: u32,
    pub prev_xid: Option<u32>,
    pub last_pollat: Option<i64>,
    pub max_lease: Option<Duration>,
    pub dead: bool,
}

impl Sim {
    pub fn new(c: &Case) -> Sim {
        let mtu = c.get_i("mtu", 1514) as usize;
        let mut dev = QDev::new(Medium::Ethernet, mtu);
        let mut cfg = Config::new(HardwareAddress::Ethernet(EthernetAddress(OWN_MAC)));
        cfg.random_seed = c.get("seed").map(|s| s.parse().unwrap()).unwrap_or(1);
        let iface = Interface::new(cfg, &mut dev, Instant::ZERO);
        let mut s = dhcpv4::Socket::new();
        let mut rc = s.get_retry_config();
        if let Some(v) = c.get("disc") {
            rc.discover_timeout = dur(v);
        }
        if let Some(v) = c.get("req") {
            rc.initial_request_timeout = dur(v);
        }
        if let Some(v) = c.get("retries") {
            rc.request_retries = v.parse().unwrap();
        }
        if let Some(v) = c.get("minrenew") {
            rc.min_renew_timeout = dur(v);
        }
        if let Some(v) = c.get("maxrenew") {
            rc.max_renew_timeout = dur(v);
        }
        s.set_retry_config(rc);
        let ml = match c.get("maxlease") {
            None | Some("-") => None,
            Some(v) => Some(dur(v)),
        };
        s.set_max_lease_duration(ml);
        s.set_ignore_naks(c.get_i("naks", 0) != 0);
        if c.get_i("rxbuf", 0) != 0 {
            let b: &'static mut [u8] = Box::leak(vec![0u8; 1024].into_boxed_slice());
            s.set_receive_packet_buffer(b);
        }
        let (sp, cp) = (c.get_i("sport", 67) as u16, c.get_i("cport", 68) as u16);
        if sp != 67 || cp != 68 {
            s.set_ports(sp, cp);
        }
        let mut sockets = SocketSet::new(vec![]);
        let h = sockets.add(s);
        Sim { dev, iface, sockets, h, apply: c.get_i("apply", 1) != 0, now: 0, cur_xid: 1, prev_xid: None, last_pollat: None, max_lease: ml, dead: false }
    }

    fn sock(&mut self) -> &mut dhcpv4::Socket<'static> {
        self.sockets.get_mut::<dhcpv4::Socket>(self.h)
    }

    fn build_srv(&mut self, m: &BTreeMap<String, String>) -> (Vec<u8>, SrvInfo) {
        let g = |k: &str, d: &str| m.get(k).cloned().unwrap_or_else(|| d.to_string());
        let kind = g("kind", "ack");
        let mt = match kind.as_str() {
            "discover" => DhcpMessageType::Discover,
            "offer" => DhcpMessageType::Offer,
            "request" => DhcpMessageType::Request,
            "decline" => DhcpMessageType::Decline,
            "ack" => DhcpMessageType::Ack,
            "nak" => DhcpMessageType::Nak,
            "release" => DhcpMessageType::Release,
            "inform" => DhcpMessageType::Inform,
            x => panic!("kind {}", x),
        };
        let xid = match g("xid", "same").as_str() {
            "same" => self.cur_xid,
            "stale" => self.prev_xid.unwrap_or(self.cur_xid ^ 0x2aaa_aaaa),
            "other" => self.cur_xid ^ 0x5555_5555,
            x => panic!("xid {}", x),
        };
        let mac_own = g("mac", "own") == "own";
        let ch = EthernetAddress(if mac_own { OWN_MAC } else { OTHER_MAC });
        let sid = oip(&g("sid", "10.0.0.1"));
        let yi = ip(&g("yi", "10.0.0.42"));
        let mask = oip(&g("mask", "255.255.255.0"));
        let pu32 = |s: String| -> Option<u32> { if s == "-" { None } else { Some(s.parse().expect("u32")) } };
        let lease = pu32(g("lease", "-"));
        let t1 = pu32(g("t1", "-"));
        let t2 = pu32(g("t2", "-"));
        let router = oip(&g("router", "-"));
        let dns_s = g("dns", "-");
        let t1b = t1.map(|x| x.to_be_bytes());
        let t2b = t2.map(|x| x.to_be_bytes());
        let mut extra: Vec<DhcpOption> = vec![];
        if let Some(b) = &t1b {
            extra.push(DhcpOption { kind: 58, data: b });
        }
        if let Some(b) = &t2b {
            extra.push(DhcpOption { kind: 59, data: b });
        }
        let mut repr = DhcpRepr {
            message_type: mt,
            transaction_id: xid,
            secs: 0,
            client_hardware_address: ch,
            client_ip: Ipv4Address::UNSPECIFIED,
            your_ip: yi,
            server_ip: Ipv4Address::UNSPECIFIED,
            router,
            subnet_mask: mask,
            relay_agent_ip: Ipv4Address::UNSPECIFIED,
            broadcast: false,
            requested_ip: None,
            client_identifier: None,
            server_identifier: sid,
            parameter_request_list: None,
            dns_servers: None,
            max_size: None,
            lease_duration: lease,
            renew_duration: None,
            rebind_duration: None,
            additional_options: &extra,
        };
        if dns_s != "-" {
            repr.dns_servers = Some(Default::default());
            let v = repr.dns_servers.as_mut().unwrap();
            for a in dns_s.split(',').filter(|x| !x.is_empty()) {
                v.push(ip(a)).ok();
            }
        }
        let bad = g("bad", "-");
        let mut dh = vec![0u8; repr.buffer_len()];
        repr.emit(&mut DhcpPacket::new_unchecked(&mut dh[..])).expect("dhcp emit");
        match bad.as_str() {
            "trunc" => dh.truncate(100),
            "magic" => dh[236] ^= 0xff,
            "htype" => dh[1] = 6,
            "hlen" => dh[2] = 5,
            "nomsgtype" => dh[240] = 254, // the message-type option is the first one emitted
            "opcode" => dh[0] = if dh[0] == 2 { 1 } else { 2 },
            _ => {}
        }
        let sport: u16 = g("sport", "67").parse().unwrap();
        let dport: u16 = g("dport", "68").parse().unwrap();
        let ipsrc = ip(&g("ipsrc", "10.0.0.1"));
        let ipdst = ip(&g("ipdst", "255.255.255.255"));
        let udp = UdpRepr { src_port: sport, dst_port: dport };
        let ipr = Ipv4Repr { src_addr: ipsrc, dst_addr: ipdst, next_header: IpProtocol::Udp, payload_len: 8 + dh.len(), hop_limit: 64 };
        let eth_dst = match g("eth", "bcast").as_str() {
            "bcast" => EthernetAddress::BROADCAST,
            "own" => EthernetAddress(OWN_MAC),
            _ => EthernetAddress(OTHER_MAC),
        };
        let mut f = vec![0u8; 14 + 20 + 8 + dh.len()];
        {
            let mut e = EthernetFrame::new_unchecked(&mut f[..]);
            e.set_src_addr(mac_of(ipsrc));
            e.set_dst_addr(eth_dst);
            e.set_ethertype(EthernetProtocol::Ipv4);
            let caps = ChecksumCapabilities::default();
            {
                let mut p = Ipv4Packet::new_unchecked(e.payload_mut());
                ipr.emit(&mut p, &caps);
                let mut u = UdpPacket::new_unchecked(p.payload_mut());
                udp.emit(&mut u, &ipsrc.into(), &ipdst.into(), dh.len(), |b| b.copy_from_slice(&dh), &caps);
            }
        }
        if bad == "udpcksum" {
            f[14 + 20 + 6] ^= 0x55;
        }
        if bad == "ipcksum" {
            f[14 + 10] ^= 0x55;
        }
        let info = SrvInfo {
            kind,
            xid,
            mac_own,
            sid,
            mask,
            yi,
            lease,
            bad: bad.clone(),
            deliverable: bad == "-" && g("eth", "bcast") != "other" && sport == 67 && dport == 68,
        };
        (f, info)
    }

    fn parse_tx(&mut self, f: &[u8], o: &mut StepObs) {
        let other = |o: &mut StepObs, why: &str| o.lines.push(format!("tx other {} len={}", why, f.len()));
        let Ok(e) = EthernetFrame::new_checked(f) else { return other(o, "eth") };
        let ethdst = if e.dst_addr().is_broadcast() { "bcast".to_string() } else { format!("{}", e.dst_addr()) };
        match e.ethertype() {
            EthernetProtocol::Arp => {
                let Ok(p) = ArpPacket::new_checked(e.payload()) else { return other(o, "arp") };
                match ArpRepr::parse(&p) {
                    Ok(ArpRepr::EthernetIpv4 { operation, source_protocol_addr, target_protocol_addr, .. }) => {
                        let opn = match operation {
                            ArpOperation::Request => "req",
                            ArpOperation::Reply => "rep",
                            _ => "unk",
                        };
                        o.lines.push(format!("tx arp {} spa={} tpa={} ethdst={}", opn, ips(source_protocol_addr), ips(target_protocol_addr), ethdst));
                    }
                    _ => other(o, "arp"),
                }
            }
            EthernetProtocol::Ipv4 => {
                let caps = ChecksumCapabilities::default();
                let Ok(p) = Ipv4Packet::new_checked(e.payload()) else { return other(o, "ip") };
                let Ok(ir) = Ipv4Repr::parse(&p, &caps) else { return other(o, "ipparse") };
                if ir.next_header != IpProtocol::Udp {
                    return other(o, "proto");
                }
                let Ok(u) = UdpPacket::new_checked(p.payload()) else { return other(o, "udp") };
                let Ok(ur) = UdpRepr::parse(&u, &ir.src_addr.into(), &ir.dst_addr.into(), &caps) else { return other(o, "udpparse") };
                let Ok(dp) = DhcpPacket::new_checked(u.payload()) else { return other(o, "dhcp") };
                let Ok(d) = DhcpRepr::parse(&dp) else { return other(o, "dhcpparse") };
                let kind = match d.message_type {
                    DhcpMessageType::Discover => "discover",
                    DhcpMessageType::Request => "request",
                    DhcpMessageType::Offer => "offer",
                    DhcpMessageType::Ack => "ack",
                    DhcpMessageType::Nak => "nak",
                    DhcpMessageType::Decline => "decline",
                    DhcpMessageType::Release => "release",
                    DhcpMessageType::Inform => "inform",
                    _ => "unknown",
                };
                let rel = if d.transaction_id == self.cur_xid { "same" } else { "new" };
                if d.transaction_id != self.cur_xid {
                    self.prev_xid = Some(self.cur_xid);
                    self.cur_xid = d.transaction_id;
                }
                let cid = match d.client_identifier {
                    Some(a) if a == EthernetAddress(OWN_MAC) => "own".to_string(),
                    Some(a) => format!("{}", a),
                    None => "-".into(),
                };
                let ch = if d.client_hardware_address == EthernetAddress(OWN_MAC) { "own".to_string() } else { format!("{}", d.client_hardware_address) };
                let prl = d.parameter_request_list.map(hex).unwrap_or_else(|| "-".into());
                o.lines.push(format!(
                    "tx dhcp {} xid={} ci={} req={} sid={} bc={} src={} dst={} ethdst={} sport={} dport={} maxsz={} ch={} cid={} prl={} secs={} hop={}",
                    kind,
                    rel,
                    ips(d.client_ip),
                    oips(d.requested_ip),
                    oips(d.server_identifier),
                    d.broadcast as u8,
                    ips(ir.src_addr),
                    ips(ir.dst_addr),
                    ethdst,
                    ur.src_port,
                    ur.dst_port,
                    d.max_size.map(|x| x.to_string()).unwrap_or_else(|| "-".into()),
                    ch,
                    cid,
                    prl,
                    d.secs,
                    ir.hop_limit
                ));
                o.tx.push(TxDhcp {
                    kind: kind.to_string(),
                    xid: d.transaction_id,
                    rel,
                    ci: d.client_ip,
                    req: d.requested_ip,
                    sid: d.server_identifier,
                    src: ir.src_addr,
                    dst: ir.dst_addr,
                    eth_bcast: e.dst_addr().is_broadcast(),
                });
            }
            _ => other(o, "ethertype"),
        }
    }

    fn do_poll(&mut self, t: i64, o: &mut StepObs) {
        self.now = t;
        o.polled = true;
        o.t = t;
        let ts = Instant::from_micros(t);
        let rx_before = self.dev.n_rx;
        let r = {
            let (iface, dev, sockets) = (&mut self.iface, &mut self.dev, &mut self.sockets);
            std::panic::catch_unwind(AssertUnwindSafe(|| {
                iface.poll(ts, dev, sockets);
            }))
        };
        if r.is_err() {
            o.lines.push("PANIC".into());
            o.panicked = true;
            self.dead = true;
            return;
        }
        o.n_rx = self.dev.n_rx - rx_before;
        let frames = self.dev.drain_tx();
        o.n_frames = frames.len();
        for f in &frames {
            self.parse_tx(f, o);
        }
        let ev = match self.sock().poll() {
            None => Ev::None,
            Some(dhcpv4::Event::Deconfigured) => Ev::Deconf,
            Some(dhcpv4::Event::Configured(c)) => Ev::Conf {
                addr: c.address,
                router: c.router,
                dns: c.dns_servers.iter().cloned().collect(),
                srv: c.server.address,
                sid: c.server.identifier,
                pkt: c.packet.is_some(),
            },
        };
        o.lines.push(match &ev {
            Ev::None => "ev none".to_string(),
            Ev::Deconf => "ev deconf".to_string(),
            Ev::Conf { addr, router, dns, srv, sid, pkt } => format!(
                "ev conf addr={}/{} router={} dns={} srv={} sid={} pkt={}",
                ips(addr.address()),
                addr.prefix_len(),
                oips(*router),
                if dns.is_empty() { "-".to_string() } else { dns.iter().map(|a| ips(*a)).collect::<Vec<_>>().join(",") },
                ips(*srv),
                ips(*sid),
                *pkt as u8
            ),
        });
        if self.apply {
            match &ev {
                Ev::Conf { addr, router, .. } => {
                    let a = *addr;
                    self.iface.update_ip_addrs(|addrs| {
                        addrs.clear();
                        addrs.push(IpCidr::Ipv4(a)).unwrap();
                    });
                    match router {
                        Some(r) if is_unicast(*r) => {
                            self.iface.routes_mut().add_default_ipv4_route(*r).unwrap();
                        }
                        _ => {
                            self.iface.routes_mut().remove_default_ipv4_route();
                        }
                    }
                }
                Ev::Deconf => {
                    self.iface.update_ip_addrs(|addrs| addrs.clear());
                    self.iface.routes_mut().remove_default_ipv4_route();
                }
                Ev::None => {}
            }
        }
        o.ev = Some(ev);
        let pa = self.iface.poll_at(ts, &self.sockets).map(|i| i.total_micros());
        o.pollat = pa;
        self.last_pollat = pa;
        o.lines.push(match pa {
            Some(x) => format!("pollat {}", x),
            None => "pollat none".to_string(),
        });
    }

    pub fn step(&mut self, op: &str) -> StepObs {
        let mut o = StepObs::default();
        if self.dead {
            return o;
        }
        let w: Vec<&str> = op.split_whitespace().collect();
        let m = kv(op);
        match w[0] {
            "poll" => {
                let t: i64 = m["t"].parse().unwrap();
                self.do_poll(t, &mut o);
            }
            "pollrel" => {
                let d: i64 = m["d"].parse().unwrap();
                let base = self.last_pollat.unwrap_or(self.now);
                let t = std::cmp::max(self.now, base.saturating_add(d));
                self.do_poll(t, &mut o);
            }
            "srv" => {
                let (f, info) = self.build_srv(&m);
                self.dev.rx.push_back(f);
                o.srv = Some(info);
            }
            "arp" => {
                let spa = ip(&m["spa"]);
                let tpa = self.iface.ipv4_addr().unwrap_or(Ipv4Address::UNSPECIFIED);
                let r = ArpRepr::EthernetIpv4 {
                    operation: ArpOperation::Reply,
                    source_hardware_addr: mac_of(spa),
                    source_protocol_addr: spa,
                    target_hardware_addr: EthernetAddress(OWN_MAC),
                    target_protocol_addr: tpa,
                };
                let mut f = vec![0u8; 14 + r.buffer_len()];
                let mut e = EthernetFrame::new_unchecked(&mut f[..]);
                e.set_src_addr(mac_of(spa));
                e.set_dst_addr(EthernetAddress(OWN_MAC));
                e.set_ethertype(EthernetProtocol::Arp);
                r.emit(&mut ArpPacket::new_unchecked(e.payload_mut()));
                self.dev.rx.push_back(f);
            }
            "setmaxlease" => {
                let v = if w[1] == "-" { None } else { Some(dur(w[1])) };
                self.max_lease = v;
                self.sock().set_max_lease_duration(v);
            }
            "reset" => self.sock().reset(),
            "setnaks" => {
                let b = w[1] != "0";
                self.sock().set_ignore_naks(b);
            }
            "setretry" => {
                let mut rc = self.sock().get_retry_config();
                if let Some(v) = m.get("disc") {
                    rc.discover_timeout = dur(v);
                }
                if let Some(v) = m.get("req") {
                    rc.initial_request_timeout = dur(v);
                }
                if let Some(v) = m.get("retries") {
                    rc.request_retries = v.parse().unwrap();
                }
                if let Some(v) = m.get("minrenew") {
                    rc.min_renew_timeout = dur(v);
                }
                if let Some(v) = m.get("maxrenew") {
                    rc.max_renew_timeout = dur(v);
                }
                self.sock().set_retry_config(rc);
            }
            x => panic!("bad op {}", x),
        }
        o
    }
}

fn run_case(c: &Case, out: &mut dyn Write) {
    writeln!(out, "case {}", c.id).unwrap();
    let mut sim = Sim::new(c);
    for op in &c.ops {
        let o = sim.step(op);
        for l in &o.lines {
            writeln!(out, "{}", l).unwrap();
        }
    }
}

fn main() {
    quiet_panics();
    let (sub, _seed, _n, _tier) = args();
    let stdout = std::io::stdout();
    let mut out = std::io::BufWriter::new(stdout.lock());
    match sub.as_str() {
        "run" => {
            for c in stdin_cases() {
                run_case(&c, &mut out);
            }
        }
        x => panic!("unknown subcommand {}", x),
    }
}
