//! Stream `dhcp`: smoltcp::socket::dhcpv4 behind a real `Interface` (Medium::Ethernet, QDev)  — property C18.
//!
//! Case format (all times in microseconds, addresses dotted):
//!   case <id> apply=<0|1> seed=<u64> mtu=<n> disc=<us> req=<us> retries=<n> minrenew=<us> maxrenew=<us|max>
//!             maxlease=<us|-> naks=<0|1> rxbuf=<0|1> sport=<n> cport=<n>
//!   poll t=<us>                    Interface::poll(t) ; socket.poll() ; (apply config) ; Interface::poll_at(t)
//!   pollrel d=<us>                 same, at max(now, last poll_at + d)   (now + d if there is no deadline)
//!   srv kind=<offer|ack|nak|discover|request|decline|release|inform> xid=<same|stale|other> mac=<own|other>
//!       sid=<ip|-> yi=<ip> mask=<ip|-> lease=<s|-> t1=<s|-> t2=<s|-> router=<ip|-> dns=<ip,ip,..|-> ipsrc=<ip>
//!       ipdst=<ip> eth=<bcast|own|other> sport=<n> dport=<n> bad=<-|trunc|magic|htype|hlen|nomsgtype|opcode|udpcksum|ipcksum>
//!                                  queue one server frame (DhcpRepr::emit in UDP/IPv4/Ethernet) for the next poll
//!   arp spa=<ip>                   queue an ARP reply from <ip> to the interface's current address
//!   setmaxlease <us|->  | reset | setnaks <0|1> | setretry disc=.. req=.. retries=.. minrenew=.. maxrenew=..
//!   setports <server> <client> | setrxbuf | setopts <-|kind:len,kind:len..> | setprl <hex|->   (run-time setters; `rejected` is
//!                                  printed when the setter refuses the value: data longer than 255 octets)
//!   header udp=1: a UDP socket (port 9000) is added BEFORE the DHCP socket; `usend len=<n>` queues a datagram to
//!                                  255.255.255.255:9 on it, `budget <n|->` = frames the device accepts per poll (QDev.tx_budget);
//!                                  such cases are evaluated by the oracle only (`run` and the model driver skip them)
//!   header rxck=0: the device announces Tx-only IPv4/UDP checksum capabilities (no verification on receive)
//! Observation lines (per poll): `tx dhcp …` / `tx arp …` / `tx other …` for every transmitted frame, `ev …`, `pollat …`;
//! `PANIC` if Interface::poll panicked (the case stops there).
use smoltcp::iface::{Config, Interface, SocketHandle, SocketSet};
use smoltcp::phy::{ChecksumCapabilities, Medium};
use smoltcp::socket::dhcpv4;
use smoltcp::time::{Duration, Instant};
use smoltcp::wire::*;
use std::collections::BTreeMap;
use std::io::Write;
use std::panic::AssertUnwindSafe;
use svh::dev::QDev;
use svh::*;

const OWN_MAC: [u8; 6] = [0x02, 0, 0, 0, 0, 0x01];
const OTHER_MAC: [u8; 6] = [0x02, 0, 0, 0, 0, 0x77];

fn ip(s: &str) -> Ipv4Address {
    let p: Vec<u8> = s.split('.').map(|x| x.parse().expect("ip octet")).collect();
    Ipv4Address::new(p[0], p[1], p[2], p[3])
}
fn ips(a: Ipv4Address) -> String {
    let o = a.octets();
    format!("{}.{}.{}.{}", o[0], o[1], o[2], o[3])
}
fn is_unicast(a: Ipv4Address) -> bool {
    !(a.is_broadcast() || a.is_multicast() || a.is_unspecified())
}
fn oip(s: &str) -> Option<Ipv4Address> {
    if s == "-" {
        None
    } else {
        Some(ip(s))
    }
}
fn oips(a: Option<Ipv4Address>) -> String {
    a.map(ips).unwrap_or_else(|| "-".into())
}
fn mac_of(a: Ipv4Address) -> EthernetAddress {
    let o = a.octets();
    EthernetAddress([0x02, 0x01, o[0], o[1], o[2], o[3]])
}
fn kv(op: &str) -> BTreeMap<String, String> {
    op.split_whitespace()
        .skip(1)
        .filter_map(|t| t.split_once('=').map(|(k, v)| (k.to_string(), v.to_string())))
        .collect()
}
fn parse_opts(s: &str) -> Vec<(u8, Vec<u8>)> {
    if s == "-" {
        return vec![];
    }
    s.split(',')
        .map(|t| {
            let (k, l) = t.split_once(':').expect("kind:len");
            let k: u8 = k.parse().unwrap();
            let l: usize = l.parse().unwrap();
            (k, (0..l).map(|i| k.wrapping_add(i as u8)).collect())
        })
        .collect()
}
fn dur(s: &str) -> Duration {
    if s == "max" {
        Duration::MAX
    } else {
        Duration::from_micros(s.parse().expect("duration"))
    }
}

#[derive(Clone, Debug, PartialEq)]
pub enum Ev {
    None,
    Deconf,
    Conf { addr: Ipv4Cidr, router: Option<Ipv4Address>, dns: Vec<Ipv4Address>, srv: Ipv4Address, sid: Ipv4Address, pkt: bool },
}

#[derive(Clone, Debug)]
pub struct TxDhcp {
    pub kind: String,
    pub xid: u32,
    pub rel: &'static str,
    pub ci: Ipv4Address,
    pub req: Option<Ipv4Address>,
    pub sid: Option<Ipv4Address>,
    pub src: Ipv4Address,
    pub dst: Ipv4Address,
    pub eth_bcast: bool,
    pub sport: u16,
    pub dport: u16,
    /// options of the message that are not among the ones the socket itself writes (kind, data), in order
    pub extra: Vec<(u8, Vec<u8>)>,
    pub prl: Option<Vec<u8>>,
}

#[derive(Default, Clone, Debug)]
pub struct StepObs {
    /// device tx budget in force for this poll (None = unlimited), UDP datagram bytes queued on the socket in front of the
    /// DHCP socket before the poll, and whether IPv4 fragments of an earlier datagram were still unsent before the poll
    pub budget: Option<usize>,
    pub udp_queued: usize,
    pub frag_pending: bool,
    pub n_other: usize,
    pub oversize: usize,
    pub lines: Vec<String>,
    pub polled: bool,
    pub t: i64,
    pub tx: Vec<TxDhcp>,
    pub n_frames: usize,
    pub n_rx: usize,
    pub ev: Option<Ev>,
    pub pollat: Option<i64>,
    pub panicked: bool,
    /// an ACK/OFFER/... queued by this step: (kind, xid, all other clauses fine?)
    pub srv: Option<SrvInfo>,
}

#[derive(Clone, Debug)]
pub struct SrvInfo {
    pub kind: String,
    pub xid: u32,
    pub mac_own: bool,
    pub sid: Option<Ipv4Address>,
    pub mask: Option<Ipv4Address>,
    pub yi: Ipv4Address,
    pub lease: Option<u32>,
    pub bad: String,
    pub ipsrc: Ipv4Address,
    pub ipdst: Ipv4Address,
    pub eth_bcast: bool,
    pub eth_ok: bool,
    pub sport: u16,
    pub dport: u16,
}

pub struct Sim {
    dev: QDev,
    iface: Interface,
    sockets: SocketSet<'static>,
    h: SocketHandle,
    apply: bool,
    pub now: i64,
    pub cur_xid: u32,
    pub prev_xid: Option<u32>,
    pub last_pollat: Option<i64>,
    pub max_lease: Option<Duration>,
    pub dead: bool,
    /// coexistence scenarios: a UDP socket added BEFORE the DHCP socket, per-poll device tx budget
    uh: Option<SocketHandle>,
    budget: Option<usize>,
    frag_pending: bool,
}

impl Sim {
    pub fn new(c: &Case) -> Sim {
        let mtu = c.get_i("mtu", 1514) as usize;
        let mut dev = QDev::new(Medium::Ethernet, mtu);
        if c.get_i("rxck", 1) == 0 {
            // receive-side IPv4/UDP checksum verification off (e.g. done by the hardware): Tx-only capabilities
            dev.checksum.ipv4 = smoltcp::phy::Checksum::Tx;
            dev.checksum.udp = smoltcp::phy::Checksum::Tx;
        }
        let mut cfg = Config::new(HardwareAddress::Ethernet(EthernetAddress(OWN_MAC)));
        cfg.random_seed = c.get("seed").map(|s| s.parse().unwrap()).unwrap_or(1);
        let iface = Interface::new(cfg, &mut dev, Instant::ZERO);
        let mut s = dhcpv4::Socket::new();
        let mut rc = s.get_retry_config();
        if let Some(v) = c.get("disc") {
            rc.discover_timeout = dur(v);
        }
        if let Some(v) = c.get("req") {
            rc.initial_request_timeout = dur(v);
        }
        if let Some(v) = c.get("retries") {
            rc.request_retries = v.parse().unwrap();
        }
        if let Some(v) = c.get("minrenew") {
            rc.min_renew_timeout = dur(v);
        }
        if let Some(v) = c.get("maxrenew") {
            rc.max_renew_timeout = dur(v);
        }
        s.set_retry_config(rc);
        let ml = match c.get("maxlease") {
            None | Some("-") => None,
            Some(v) => Some(dur(v)),
        };
        s.set_max_lease_duration(ml);
        s.set_ignore_naks(c.get_i("naks", 0) != 0);
        if c.get_i("rxbuf", 0) != 0 {
            let b: &'static mut [u8] = Box::leak(vec![0u8; 1024].into_boxed_slice());
            s.set_receive_packet_buffer(b);
        }
        let (sp, cp) = (c.get_i("sport", 67) as u16, c.get_i("cport", 68) as u16);
        if sp != 67 || cp != 68 {
            s.set_ports(sp, cp);
        }
        let mut sockets = SocketSet::new(vec![]);
        let uh = if c.get_i("udp", 0) != 0 {
            use smoltcp::socket::udp;
            let rxb = udp::PacketBuffer::new(vec![udp::PacketMetadata::EMPTY; 8], vec![0u8; 4096]);
            let txb = udp::PacketBuffer::new(vec![udp::PacketMetadata::EMPTY; 8], vec![0u8; 16384]);
            let mut u = udp::Socket::new(rxb, txb);
            u.bind(9000).unwrap();
            Some(sockets.add(u))
        } else {
            None
        };
        let h = sockets.add(s);
        Sim { dev, iface, sockets, h, apply: c.get_i("apply", 1) != 0, now: 0, cur_xid: 1, prev_xid: None, last_pollat: None, max_lease: ml, dead: false, uh, budget: None, frag_pending: false }
    }

    pub fn rx_pending(&self) -> usize {
        self.dev.rx.len()
    }
    fn sock(&mut self) -> &mut dhcpv4::Socket<'static> {
        self.sockets.get_mut::<dhcpv4::Socket>(self.h)
    }

    fn build_srv(&mut self, m: &BTreeMap<String, String>) -> (Vec<u8>, SrvInfo) {
        let g = |k: &str, d: &str| m.get(k).cloned().unwrap_or_else(|| d.to_string());
        let kind = g("kind", "ack");
        let mt = match kind.as_str() {
            "discover" => DhcpMessageType::Discover,
            "offer" => DhcpMessageType::Offer,
            "request" => DhcpMessageType::Request,
            "decline" => DhcpMessageType::Decline,
            "ack" => DhcpMessageType::Ack,
            "nak" => DhcpMessageType::Nak,
            "release" => DhcpMessageType::Release,
            "inform" => DhcpMessageType::Inform,
            x => panic!("kind {}", x),
        };
        let xid = match g("xid", "same").as_str() {
            "same" => self.cur_xid,
            "stale" => self.prev_xid.unwrap_or(self.cur_xid ^ 0x2aaa_aaaa),
            "other" => self.cur_xid ^ 0x5555_5555,
            x => panic!("xid {}", x),
        };
        let mac_own = g("mac", "own") == "own";
        let ch = EthernetAddress(if mac_own { OWN_MAC } else { OTHER_MAC });
        let sid = oip(&g("sid", "10.0.0.1"));
        let yi = ip(&g("yi", "10.0.0.42"));
        let mask = oip(&g("mask", "255.255.255.0"));
        let pu32 = |s: String| -> Option<u32> { if s == "-" { None } else { Some(s.parse().expect("u32")) } };
        let lease = pu32(g("lease", "-"));
        let t1 = pu32(g("t1", "-"));
        let t2 = pu32(g("t2", "-"));
        let router = oip(&g("router", "-"));
        let dns_s = g("dns", "-");
        let t1b = t1.map(|x| x.to_be_bytes());
        let t2b = t2.map(|x| x.to_be_bytes());
        let mut extra: Vec<DhcpOption> = vec![];
        if let Some(b) = &t1b {
            extra.push(DhcpOption { kind: 58, data: b });
        }
        if let Some(b) = &t2b {
            extra.push(DhcpOption { kind: 59, data: b });
        }
        let mut repr = DhcpRepr {
            message_type: mt,
            transaction_id: xid,
            secs: 0,
            client_hardware_address: ch,
            client_ip: Ipv4Address::UNSPECIFIED,
            your_ip: yi,
            server_ip: Ipv4Address::UNSPECIFIED,
            router,
            subnet_mask: mask,
            relay_agent_ip: Ipv4Address::UNSPECIFIED,
            broadcast: false,
            requested_ip: None,
            client_identifier: None,
            server_identifier: sid,
            parameter_request_list: None,
            dns_servers: None,
            max_size: None,
            lease_duration: lease,
            renew_duration: None,
            rebind_duration: None,
            additional_options: &extra,
        };
        if dns_s != "-" {
            repr.dns_servers = Some(Default::default());
            let v = repr.dns_servers.as_mut().unwrap();
            for a in dns_s.split(',').filter(|x| !x.is_empty()) {
                v.push(ip(a)).ok();
            }
        }
        let bad = g("bad", "-");
        let mut dh = vec![0u8; repr.buffer_len()];
        repr.emit(&mut DhcpPacket::new_unchecked(&mut dh[..])).expect("dhcp emit");
        match bad.as_str() {
            "trunc" => dh.truncate(100),
            "magic" => dh[236] ^= 0xff,
            "htype" => dh[1] = 6,
            "hlen" => dh[2] = 5,
            "nomsgtype" => dh[240] = 254, // the message-type option is the first one emitted
            "opcode" => dh[0] = if dh[0] == 2 { 1 } else { 2 },
            _ => {}
        }
        let sport: u16 = g("sport", "67").parse().unwrap();
        let dport: u16 = g("dport", "68").parse().unwrap();
        let ipsrc = ip(&g("ipsrc", "10.0.0.1"));
        let ipdst = ip(&g("ipdst", "255.255.255.255"));
        let udp = UdpRepr { src_port: sport, dst_port: dport };
        let ipr = Ipv4Repr { src_addr: ipsrc, dst_addr: ipdst, next_header: IpProtocol::Udp, payload_len: 8 + dh.len(), hop_limit: 64 };
        let eth_dst = match g("eth", "bcast").as_str() {
            "bcast" => EthernetAddress::BROADCAST,
            "own" => EthernetAddress(OWN_MAC),
            _ => EthernetAddress(OTHER_MAC),
        };
        let mut f = vec![0u8; 14 + 20 + 8 + dh.len()];
        {
            let mut e = EthernetFrame::new_unchecked(&mut f[..]);
            e.set_src_addr(mac_of(ipsrc));
            e.set_dst_addr(eth_dst);
            e.set_ethertype(EthernetProtocol::Ipv4);
            let caps = ChecksumCapabilities::default();
            {
                let mut p = Ipv4Packet::new_unchecked(e.payload_mut());
                ipr.emit(&mut p, &caps);
                let mut u = UdpPacket::new_unchecked(p.payload_mut());
                udp.emit(&mut u, &ipsrc.into(), &ipdst.into(), dh.len(), |b| b.copy_from_slice(&dh), &caps);
            }
        }
        if bad == "udpcksum" {
            // a wrong, non-zero checksum (0 would mean "no checksum" for UDP over IPv4)
            let o = 14 + 20 + 6;
            let mut c = u16::from_be_bytes([f[o], f[o + 1]]) ^ 0x5555;
            if c == 0 {
                c = 0x00ff;
            }
            f[o..o + 2].copy_from_slice(&c.to_be_bytes());
        }
        if bad == "ipcksum" {
            f[14 + 10] ^= 0x55;
        }
        let info = SrvInfo {
            kind,
            xid,
            mac_own,
            sid,
            mask,
            yi,
            lease,
            bad: bad.clone(),
            ipsrc,
            ipdst,
            eth_bcast: g("eth", "bcast") == "bcast",
            eth_ok: g("eth", "bcast") != "other",
            sport,
            dport,
        };
        (f, info)
    }

    fn parse_tx(&mut self, f: &[u8], o: &mut StepObs) {
        let other = |o: &mut StepObs, why: &str| {
            o.n_other += 1;
            o.lines.push(format!("tx other {} len={}", why, f.len()))
        };
        let Ok(e) = EthernetFrame::new_checked(f) else { return other(o, "eth") };
        let ethdst = if e.dst_addr().is_broadcast() { "bcast".to_string() } else { format!("{}", e.dst_addr()) };
        match e.ethertype() {
            EthernetProtocol::Arp => {
                let Ok(p) = ArpPacket::new_checked(e.payload()) else { return other(o, "arp") };
                match ArpRepr::parse(&p) {
                    Ok(ArpRepr::EthernetIpv4 { operation, source_protocol_addr, target_protocol_addr, .. }) => {
                        let opn = match operation {
                            ArpOperation::Request => "req",
                            ArpOperation::Reply => "rep",
                            _ => "unk",
                        };
                        o.lines.push(format!("tx arp {} spa={} tpa={} ethdst={}", opn, ips(source_protocol_addr), ips(target_protocol_addr), ethdst));
                    }
                    _ => other(o, "arp"),
                }
            }
            EthernetProtocol::Ipv4 => {
                let caps = ChecksumCapabilities::default();
                let Ok(p) = Ipv4Packet::new_checked(e.payload()) else { return other(o, "ip") };
                if p.more_frags() || p.frag_offset() != 0 {
                    // IPv4 fragment of a datagram of the UDP socket (coexistence scenarios)
                    self.frag_pending = p.more_frags();
                    o.lines.push(format!("tx frag off={} mf={} len={}", p.frag_offset(), p.more_frags() as u8, f.len()));
                    return;
                }
                let Ok(ir) = Ipv4Repr::parse(&p, &caps) else { return other(o, "ipparse") };
                if ir.next_header != IpProtocol::Udp {
                    return other(o, "proto");
                }
                let Ok(u) = UdpPacket::new_checked(p.payload()) else { return other(o, "udp") };
                let Ok(ur) = UdpRepr::parse(&u, &ir.src_addr.into(), &ir.dst_addr.into(), &caps) else { return other(o, "udpparse") };
                if self.uh.is_some() && ur.src_port == 9000 {
                    o.lines.push(format!("tx udp len={}", u.payload().len()));
                    return;
                }
                let Ok(dp) = DhcpPacket::new_checked(u.payload()) else { return other(o, "dhcp") };
                let Ok(d) = DhcpRepr::parse(&dp) else { return other(o, "dhcpparse") };
                let kind = match d.message_type {
                    DhcpMessageType::Discover => "discover",
                    DhcpMessageType::Request => "request",
                    DhcpMessageType::Offer => "offer",
                    DhcpMessageType::Ack => "ack",
                    DhcpMessageType::Nak => "nak",
                    DhcpMessageType::Decline => "decline",
                    DhcpMessageType::Release => "release",
                    DhcpMessageType::Inform => "inform",
                    _ => "unknown",
                };
                let rel = if d.transaction_id == self.cur_xid { "same" } else { "new" };
                if d.transaction_id != self.cur_xid {
                    self.prev_xid = Some(self.cur_xid);
                    self.cur_xid = d.transaction_id;
                }
                let cid = match d.client_identifier {
                    Some(a) if a == EthernetAddress(OWN_MAC) => "own".to_string(),
                    Some(a) => format!("{}", a),
                    None => "-".into(),
                };
                let ch = if d.client_hardware_address == EthernetAddress(OWN_MAC) { "own".to_string() } else { format!("{}", d.client_hardware_address) };
                let prl = d.parameter_request_list.map(hex).unwrap_or_else(|| "-".into());
                o.lines.push(format!(
                    "tx dhcp {} xid={} ci={} req={} sid={} bc={} src={} dst={} ethdst={} sport={} dport={} maxsz={} ch={} cid={} prl={} secs={} hop={}",
                    kind,
                    rel,
                    ips(d.client_ip),
                    oips(d.requested_ip),
                    oips(d.server_identifier),
                    d.broadcast as u8,
                    ips(ir.src_addr),
                    ips(ir.dst_addr),
                    ethdst,
                    ur.src_port,
                    ur.dst_port,
                    d.max_size.map(|x| x.to_string()).unwrap_or_else(|| "-".into()),
                    ch,
                    cid,
                    prl,
                    d.secs,
                    ir.hop_limit
                ));
                const OWN_KINDS: [u8; 12] = [53, 61, 54, 3, 1, 50, 57, 51, 58, 59, 55, 6];
                let extra: Vec<(u8, Vec<u8>)> = dp.options().filter(|op| !OWN_KINDS.contains(&op.kind)).map(|op| (op.kind, op.data.to_vec())).collect();
                o.tx.push(TxDhcp {
                    sport: ur.src_port,
                    dport: ur.dst_port,
                    extra,
                    prl: d.parameter_request_list.map(|x| x.to_vec()),
                    kind: kind.to_string(),
                    xid: d.transaction_id,
                    rel,
                    ci: d.client_ip,
                    req: d.requested_ip,
                    sid: d.server_identifier,
                    src: ir.src_addr,
                    dst: ir.dst_addr,
                    eth_bcast: e.dst_addr().is_broadcast(),
                });
            }
            _ => other(o, "ethertype"),
        }
    }

    fn do_poll(&mut self, t: i64, o: &mut StepObs) {
        self.now = t;
        o.polled = true;
        o.t = t;
        let ts = Instant::from_micros(t);
        self.dev.tx_budget = self.budget;
        o.budget = self.budget;
        o.frag_pending = self.frag_pending;
        if let Some(uh) = self.uh {
            o.udp_queued = self.sockets.get::<smoltcp::socket::udp::Socket>(uh).send_queue();
        }
        let rx_before = self.dev.n_rx;
        let r = {
            let (iface, dev, sockets) = (&mut self.iface, &mut self.dev, &mut self.sockets);
            std::panic::catch_unwind(AssertUnwindSafe(|| {
                iface.poll(ts, dev, sockets);
            }))
        };
        if r.is_err() {
            o.lines.push("PANIC".into());
            o.panicked = true;
            self.dead = true;
            return;
        }
        o.n_rx = self.dev.n_rx - rx_before;
        let frames = self.dev.drain_tx();
        o.n_frames = frames.len();
        o.oversize = self.dev.oversize.len();
        self.dev.oversize.clear();
        for f in &frames {
            self.parse_tx(f, o);
        }
        let ev = match self.sock().poll() {
            None => Ev::None,
            Some(dhcpv4::Event::Deconfigured) => Ev::Deconf,
            Some(dhcpv4::Event::Configured(c)) => Ev::Conf {
                addr: c.address,
                router: c.router,
                dns: c.dns_servers.iter().cloned().collect(),
                srv: c.server.address,
                sid: c.server.identifier,
                pkt: c.packet.is_some(),
            },
        };
        o.lines.push(match &ev {
            Ev::None => "ev none".to_string(),
            Ev::Deconf => "ev deconf".to_string(),
            Ev::Conf { addr, router, dns, srv, sid, pkt } => format!(
                "ev conf addr={}/{} router={} dns={} srv={} sid={} pkt={}",
                ips(addr.address()),
                addr.prefix_len(),
                oips(*router),
                if dns.is_empty() { "-".to_string() } else { dns.iter().map(|a| ips(*a)).collect::<Vec<_>>().join(",") },
                ips(*srv),
                ips(*sid),
                *pkt as u8
            ),
        });
        if self.apply {
            match &ev {
                Ev::Conf { addr, router, .. } => {
                    let a = *addr;
                    self.iface.update_ip_addrs(|addrs| {
                        addrs.clear();
                        addrs.push(IpCidr::Ipv4(a)).unwrap();
                    });
                    match router {
                        Some(r) if is_unicast(*r) => {
                            self.iface.routes_mut().add_default_ipv4_route(*r).unwrap();
                        }
                        _ => {
                            self.iface.routes_mut().remove_default_ipv4_route();
                        }
                    }
                }
                Ev::Deconf => {
                    self.iface.update_ip_addrs(|addrs| addrs.clear());
                    self.iface.routes_mut().remove_default_ipv4_route();
                }
                Ev::None => {}
            }
        }
        o.ev = Some(ev);
        let pa = self.iface.poll_at(ts, &self.sockets).map(|i| i.total_micros());
        o.pollat = pa;
        self.last_pollat = pa;
        o.lines.push(match pa {
            Some(x) => format!("pollat {}", x),
            None => "pollat none".to_string(),
        });
    }

    pub fn step(&mut self, op: &str) -> StepObs {
        let mut o = StepObs::default();
        if self.dead {
            return o;
        }
        let w: Vec<&str> = op.split_whitespace().collect();
        let m = kv(op);
        match w[0] {
            "poll" => {
                let t: i64 = m["t"].parse().unwrap();
                self.do_poll(t, &mut o);
            }
            "pollrel" => {
                let d: i64 = m["d"].parse().unwrap();
                let base = self.last_pollat.unwrap_or(self.now);
                let t = std::cmp::max(self.now, base.saturating_add(d));
                self.do_poll(t, &mut o);
            }
            "srv" => {
                let (f, info) = self.build_srv(&m);
                self.dev.rx.push_back(f);
                o.srv = Some(info);
            }
            "arp" => {
                let spa = ip(&m["spa"]);
                let tpa = self.iface.ipv4_addr().unwrap_or(Ipv4Address::UNSPECIFIED);
                let r = ArpRepr::EthernetIpv4 {
                    operation: ArpOperation::Reply,
                    source_hardware_addr: mac_of(spa),
                    source_protocol_addr: spa,
                    target_hardware_addr: EthernetAddress(OWN_MAC),
                    target_protocol_addr: tpa,
                };
                let mut f = vec![0u8; 14 + r.buffer_len()];
                let mut e = EthernetFrame::new_unchecked(&mut f[..]);
                e.set_src_addr(mac_of(spa));
                e.set_dst_addr(EthernetAddress(OWN_MAC));
                e.set_ethertype(EthernetProtocol::Arp);
                r.emit(&mut ArpPacket::new_unchecked(e.payload_mut()));
                self.dev.rx.push_back(f);
            }
            "setmaxlease" => {
                let v = if w[1] == "-" { None } else { Some(dur(w[1])) };
                self.max_lease = v;
                self.sock().set_max_lease_duration(v);
            }
            "reset" => self.sock().reset(),
            "setnaks" => {
                let b = w[1] != "0";
                self.sock().set_ignore_naks(b);
            }
            "setports" => {
                let (sp, cp): (u16, u16) = (w[1].parse().unwrap(), w[2].parse().unwrap());
                self.sock().set_ports(sp, cp);
            }
            "usend" => {
                // queue a datagram of <len> octets to 255.255.255.255:9 on the UDP socket in front of the DHCP socket
                let len: usize = m["len"].parse().unwrap();
                if let Some(uh) = self.uh {
                    let u = self.sockets.get_mut::<smoltcp::socket::udp::Socket>(uh);
                    let data: Vec<u8> = (0..len).map(|i| i as u8).collect();
                    let r = u.send_slice(&data, (IpAddress::v4(255, 255, 255, 255), 9));
                    o.lines.push(format!("usend {}", if r.is_ok() { "ok" } else { "err" }));
                }
            }
            "budget" => {
                // frames the device accepts per Interface::poll from now on ("-" = unlimited)
                self.budget = if w[1] == "-" { None } else { Some(w[1].parse().unwrap()) };
            }
            "setrxbuf" => {
                let b: &'static mut [u8] = Box::leak(vec![0u8; 1024].into_boxed_slice());
                self.sock().set_receive_packet_buffer(b);
            }
            "setopts" => {
                // setopts -  |  setopts <kind>:<len>,<kind>:<len>...   (data byte i of an option = kind + i)
                let opts = parse_opts(w[1]);
                let datas: &'static Vec<Vec<u8>> = Box::leak(Box::new(opts.iter().map(|(_, d)| d.clone()).collect()));
                let v: Vec<DhcpOption<'static>> = opts.iter().zip(datas.iter()).map(|((k, _), d)| DhcpOption { kind: *k, data: &d[..] }).collect();
                let sl: &'static [DhcpOption<'static>] = Box::leak(v.into_boxed_slice());
                let sock = self.sockets.get_mut::<dhcpv4::Socket>(self.h);
                // the setter refuses (documented panic) data longer than 255 octets
                if std::panic::catch_unwind(AssertUnwindSafe(|| sock.set_outgoing_options(sl))).is_err() {
                    o.lines.push("rejected".into());
                }
            }
            "setprl" => {
                let b: &'static [u8] = Box::leak(unhex(w[1]).into_boxed_slice());
                let sock = self.sockets.get_mut::<dhcpv4::Socket>(self.h);
                if std::panic::catch_unwind(AssertUnwindSafe(|| sock.set_parameter_request_list(b))).is_err() {
                    o.lines.push("rejected".into());
                }
            }
            "setretry" => {
                let mut rc = self.sock().get_retry_config();
                if let Some(v) = m.get("disc") {
                    rc.discover_timeout = dur(v);
                }
                if let Some(v) = m.get("req") {
                    rc.initial_request_timeout = dur(v);
                }
                if let Some(v) = m.get("retries") {
                    rc.request_retries = v.parse().unwrap();
                }
                if let Some(v) = m.get("minrenew") {
                    rc.min_renew_timeout = dur(v);
                }
                if let Some(v) = m.get("maxrenew") {
                    rc.max_renew_timeout = dur(v);
                }
                self.sock().set_retry_config(rc);
            }
            x => panic!("bad op {}", x),
        }
        o
    }
}

fn run_case(c: &Case, out: &mut dyn Write) {
    writeln!(out, "case {}", c.id).unwrap();
    if c.get_i("udp", 0) != 0 {
        // coexistence scenarios (second socket, device back-pressure) are outside the model: oracle only
        writeln!(out, "coexist: implementation-side oracle only").unwrap();
        return;
    }
    let mut sim = Sim::new(c);
    for op in &c.ops {
        let o = sim.step(op);
        for l in &o.lines {
            writeln!(out, "{}", l).unwrap();
        }
    }
}

// ------------------------------------------------------------------------------------------------
// Oracle: the clauses of property C18 evaluated on the implementation's trace
// ------------------------------------------------------------------------------------------------

const DEFAULT_LEASE_US: u128 = 120_000_000; // socket/dhcpv4.rs DEFAULT_LEASE_DURATION (no lease option in the ACK)
const SILENT_US: i64 = 1_000_000; // socket_meta DISCOVERY_SILENT_TIME

fn mask_prefix(m: Ipv4Address) -> Option<u8> {
    let b = m.to_bits();
    if b.leading_ones() + b.trailing_zeros() == 32 {
        Some(b.leading_ones() as u8)
    } else {
        None
    }
}

#[derive(Clone, Debug)]
struct Lease {
    expires: i128,
    rebind_seen: bool,
}

struct Oracle {
    id: String,
    apply: bool,
    sport: u16,
    cport: u16,
    last_req_xid: Option<u32>,
    req_xids: Vec<u32>,
    pending: Vec<SrvInfo>,
    configured: bool,
    lease: Option<Lease>,
    cidr: Option<Ipv4Cidr>,
    max_lease: Option<u128>,
    disc: u128,
    req: u128,
    retries: u32,
    prev_pollat: Option<i64>,
    silenced_until: i64,
    first_poll: bool,
    arith: bool,
    /// coexistence scenario (a UDP socket in front of the DHCP socket, limited device budget): only the lease clauses apply
    coexist: bool,
    rxck: bool,
    opts: Vec<(u8, Vec<u8>)>,
    prl: Vec<u8>,
    pub fails: Vec<String>,
    pub stats: BTreeMap<String, u64>,
}

impl Oracle {
    fn new(c: &Case) -> Oracle {
        let d = |k: &str, dflt: u128| -> u128 {
            match c.get(k) {
                None => dflt,
                Some("max") => u64::MAX as u128,
                Some(v) => v.parse().unwrap(),
            }
        };
        Oracle {
            id: c.id.clone(),
            apply: c.get_i("apply", 1) != 0,
            sport: c.get_i("sport", 67) as u16,
            cport: c.get_i("cport", 68) as u16,
            last_req_xid: None,
            req_xids: vec![],
            pending: vec![],
            configured: false,
            lease: None,
            cidr: None,
            max_lease: match c.get("maxlease") {
                None | Some("-") => None,
                Some("max") => Some(u64::MAX as u128),
                Some(v) => Some(v.parse().unwrap()),
            },
            disc: d("disc", 10_000_000),
            req: d("req", 5_000_000),
            retries: c.get_i("retries", 5) as u32,
            prev_pollat: None,
            silenced_until: i64::MIN,
            first_poll: true,
            arith: c.get_i("arith", 0) != 0,
            coexist: c.get_i("udp", 0) != 0,
            rxck: c.get_i("rxck", 1) != 0,
            opts: vec![],
            prl: vec![1, 3, 6],
            fails: vec![],
            stats: BTreeMap::new(),
        }
    }
    fn bump(&mut self, k: &str) {
        *self.stats.entry(k.to_string()).or_default() += 1;
    }
    fn fail(&mut self, class: &str, k: usize, op: &str, why: String) {
        self.bump(&format!("fail_{}", class));
        self.fails.push(format!("{} :: case {} op#{} `{}`: {}", class, self.id, k, op, why));
    }
    /// does the interface hand this frame to the socket?
    fn deliverable(&self, m: &SrvInfo) -> bool {
        let src_ok = {
            let a = m.ipsrc;
            let subnet_bcast = self.cidr.and_then(|c| c.broadcast()).map(|b| b == a).unwrap_or(false);
            (is_unicast(a) && !subnet_bcast) || a.is_unspecified()
        };
        // RFC 1122 3.3.6 (process_ethernet): a link-layer broadcast must carry an IP broadcast/multicast destination
        let link_ok = !m.eth_bcast || m.ipdst.is_multicast() || m.ipdst.is_broadcast() || self.cidr.and_then(|c| c.broadcast()).map(|b| b == m.ipdst).unwrap_or(false);
        let bad_ok = m.bad == "-" || (!self.rxck && (m.bad == "udpcksum" || m.bad == "ipcksum"));
        bad_ok && m.eth_ok && link_ok && src_ok && m.sport == self.sport && m.dport == self.cport
    }
    /// clauses (iii)-(vi) of the property on the message content
    fn content_ok(m: &SrvInfo) -> bool {
        m.kind == "ack" && m.mac_own && m.sid.is_some() && m.mask.and_then(mask_prefix).is_some() && is_unicast(m.yi)
    }
    fn eff_lease(&self, m: &SrvInfo) -> u128 {
        let l = m.lease.map(|s| s as u128 * 1_000_000).unwrap_or(DEFAULT_LEASE_US);
        match self.max_lease {
            Some(x) => l.min(x),
            None => l,
        }
    }
    /// bound on the distance between two solicitations (DISCOVER / REQUEST) of an unconfigured client
    fn solicit_bound(&self) -> u128 {
        if self.retries == 0 {
            self.disc
        } else {
            let sh = ((self.retries - 1) / 2).min(62);
            self.disc.max(self.req.saturating_mul(1u128 << sh)).min(i64::MAX as u128)
        }
    }

    fn on_op(&mut self, k: usize, op: &str, o: &StepObs) {
        let w: Vec<&str> = op.split_whitespace().collect();
        match w[0] {
            "srv" => {
                if let Some(i) = &o.srv {
                    self.pending.push(i.clone());
                }
                return;
            }
            "setmaxlease" => {
                self.max_lease = if w[1] == "-" { None } else if w[1] == "max" { Some(u64::MAX as u128) } else { Some(w[1].parse().unwrap()) };
                return;
            }
            "setretry" => {
                let m = kv(op);
                let d = |v: &String| -> u128 { if v == "max" { u64::MAX as u128 } else { v.parse().unwrap() } };
                if let Some(v) = m.get("disc") {
                    self.disc = d(v);
                }
                if let Some(v) = m.get("req") {
                    self.req = d(v);
                }
                if let Some(v) = m.get("retries") {
                    self.retries = v.parse().unwrap();
                }
                return;
            }
            "setports" => {
                self.sport = w[1].parse().unwrap();
                self.cport = w[2].parse().unwrap();
                return;
            }
            "setopts" => {
                if o.lines.is_empty() {
                    self.opts = parse_opts(w[1]);
                } else {
                    self.bump("setter_rejected");
                }
                return;
            }
            "setprl" => {
                if o.lines.is_empty() {
                    self.prl = unhex(w[1]);
                } else {
                    self.bump("setter_rejected");
                }
                return;
            }
            "poll" | "pollrel" => {}
            _ => return,
        }
        if !o.polled {
            return;
        }
        let t = o.t;
        self.bump("polls");
        if o.panicked {
            if self.arith {
                // back-off arithmetic deliberately configured to leave the u64/i64 range (stream-only cases)
                self.bump("arith_config_panics");
            } else {
                self.fail("poll-panicked", k, op, format!("Interface::poll panicked at t={}", t));
            }
            return;
        }
        let ev = o.ev.clone().unwrap_or(Ev::None);
        let was_configured = self.configured;
        // --- ingress: the frames queued since the previous poll, in order
        let batch: Vec<SrvInfo> = self.pending.drain(..).collect();
        let delivered: Vec<&SrvInfo> = batch.iter().filter(|m| self.deliverable(m)).collect();
        let valid: Vec<&SrvInfo> = delivered.iter().cloned().filter(|m| Self::content_ok(m) && Some(m.xid) == self.last_req_xid).collect();
        match &ev {
            Ev::Conf { addr, .. } => {
                self.bump("ev_conf");
                let matching: Vec<&&SrvInfo> = valid
                    .iter()
                    .filter(|m| m.yi == addr.address() && m.mask.and_then(mask_prefix) == Some(addr.prefix_len()))
                    .collect();
                if let Some(m) = matching.last() {
                    let e = t as i128 + self.eff_lease(m) as i128;
                    self.lease = Some(Lease { expires: e, rebind_seen: false });
                } else {
                    // classify
                    let content: Vec<&&SrvInfo> = delivered.iter().filter(|m| Self::content_ok(m)).collect();
                    if content.is_empty() {
                        self.fail("configured-without-valid-ack", k, op, format!("Configured {} reported, no acceptable DHCPACK was delivered by this poll", addr));
                    } else if content.iter().any(|m| !self.req_xids.contains(&m.xid)) && self.last_req_xid.map(|x| content.iter().all(|m| m.xid != x)).unwrap_or(true) {
                        self.fail("configured-before-request", k, op, format!("Configured {} reported from an ACK whose xid was never carried by a transmitted DHCPREQUEST (last REQUEST xid: {:?})", addr, self.last_req_xid));
                    } else {
                        self.fail("configured-by-stale-xid", k, op, format!("Configured {} reported from an ACK not carrying the xid of the most recent REQUEST ({:?})", addr, self.last_req_xid));
                    }
                    // keep going with a lease guess so that later clauses are still evaluated
                    let e = content.last().map(|m| t as i128 + self.eff_lease(m) as i128).unwrap_or(t as i128);
                    self.lease = Some(Lease { expires: e, rebind_seen: false });
                }
                self.configured = true;
                if self.apply {
                    self.cidr = Some(*addr);
                }
            }
            Ev::None => {
                if self.configured {
                    if let Some(m) = valid.last() {
                        // renewal (or duplicate ACK): the most recent such ACK grants the lease
                        let e = t as i128 + self.eff_lease(m) as i128;
                        self.lease = Some(Lease { expires: e, rebind_seen: false });
                        self.bump("lease_renewed");
                    }
                }
            }
            Ev::Deconf => {
                self.bump("ev_deconf");
                self.configured = false;
                self.lease = None;
                if self.apply {
                    self.cidr = None;
                }
            }
        }
        let in_silence = !self.coexist && t < self.silenced_until;
        // known finding d14c: the device hands out no tx token, a socket in front of the DHCP socket has a datagram to send
        // (and is not merely waiting for the fragmenter): socket_egress stops at that socket (`Exhausted => break`) and the
        // DHCP socket's dispatch - the only place where expiry is handled - is not run
        let exhausted_ahead = self.coexist && o.budget == Some(0) && o.udp_queued > 0 && !o.frag_pending;
        // --- lease clauses
        if self.configured {
            let exp = self.lease.as_ref().map(|l| l.expires).unwrap_or(i128::MAX);
            if t as i128 >= exp {
                let cls = if exhausted_ahead {
                    "expiry-postponed-by-exhausted-device"
                } else if in_silence {
                    "expiry-postponed-by-neighbor-silence"
                } else {
                    "configured-past-expiry"
                };
                self.fail(cls, k, op, format!("poll at t={} >= expiry {} did not report Deconfigured", t, exp));
            }
            match o.pollat {
                Some(p) if (p as i128) <= exp => {}
                p => {
                    let cls = if exhausted_ahead {
                        "expiry-postponed-by-exhausted-device"
                    } else if self.coexist {
                        "pollat-beyond-expiry"
                    } else if in_silence || p.map(|p| p <= self.silenced_until.max(t.saturating_add(SILENT_US))).unwrap_or(false) && self.recent_silent_attempt(t, o) {
                        "expiry-postponed-by-neighbor-silence"
                    } else {
                        "pollat-beyond-expiry"
                    };
                    self.fail(cls, k, op, format!("Interface::poll_at = {:?} after the poll at t={} exceeds the lease expiry {}", p, t, exp));
                }
            }
        }
        // --- transmissions
        if o.n_other > 0 && !self.coexist {
            self.fail("emitted-frame-unparsable", k, op, format!("{} transmitted frame(s) do not parse as ARP or DHCP-over-UDP/IPv4", o.n_other));
        }
        if o.oversize > 0 {
            self.fail("frame-exceeds-mtu", k, op, format!("{} transmitted frame(s) longer than the device MTU", o.oversize));
        }
        for tx in &o.tx {
            if tx.extra != self.opts {
                self.fail("outgoing-options-not-carried", k, op, format!("{} carries options {:?}, configured {:?}", tx.kind, tx.extra.iter().map(|(k, d)| (*k, d.len())).collect::<Vec<_>>(), self.opts.iter().map(|(k, d)| (*k, d.len())).collect::<Vec<_>>()));
            } else if !self.opts.is_empty() {
                self.bump("tx_with_outgoing_options");
            }
            if tx.prl.as_deref() != Some(&self.prl[..]) {
                self.fail("parameter-request-list-not-carried", k, op, format!("{} carries prl {:?}, configured {}", tx.kind, tx.prl.as_ref().map(|x| hex(x)), hex(&self.prl)));
            }
            if tx.sport != self.cport || tx.dport != self.sport {
                self.fail("wrong-ports", k, op, format!("{} sent from port {} to {}, configured client {} server {}", tx.kind, tx.sport, tx.dport, self.cport, self.sport));
            }
            if tx.kind == "request" {
                self.last_req_xid = Some(tx.xid);
                if !self.req_xids.contains(&tx.xid) {
                    self.req_xids.push(tx.xid);
                }
            }
            if !tx.ci.is_unspecified() {
                // renewal / rebinding REQUEST
                let bcast = tx.dst.is_broadcast();
                self.bump(if bcast { "tx_rebind" } else { "tx_renew" });
                match self.lease.as_mut() {
                    Some(l) if (t as i128) < l.expires => {
                        if bcast {
                            l.rebind_seen = true;
                        } else if l.rebind_seen {
                            self.fail("renew-after-rebind", k, op, format!("unicast renewal at t={} after a rebinding attempt of the same lease", t));
                        }
                    }
                    _ => {
                        self.fail("renewal-at-or-after-expiry", k, op, format!("renew/rebind REQUEST at t={} but the lease expired at {:?}", t, self.lease.as_ref().map(|l| l.expires)));
                    }
                }
            }
        }
        // --- a due, configured poll that neither sent a DHCP frame nor changed anything: a renewal attempt failed for
        //     lack of a neighbor / route; the interface silences the socket for DISCOVERY_SILENT_TIME
        //     (second form: the attempt failed in the very poll that delivered the ACK - e.g. T1 = 0 - which shows as
        //     no DHCP frame and Interface::poll_at = t + DISCOVERY_SILENT_TIME exactly)
        let due_but_silent = was_configured && ev == Ev::None && self.prev_pollat.map(|p| p <= t).unwrap_or(false) && valid.is_empty();
        let silent_deadline = o.pollat == Some(t.saturating_add(SILENT_US));
        if self.configured && o.tx.is_empty() && (due_but_silent || silent_deadline) {
            self.silenced_until = self.silenced_until.max(t.saturating_add(SILENT_US));
            self.bump("silenced_attempts");
        }
        // --- solicitation while unconfigured
        if self.coexist {
            // solicitation / idle-poll clauses presuppose a device that accepts frames and no competing socket
            self.first_poll = false;
            self.prev_pollat = o.pollat;
            return;
        }
        if !self.configured && !was_configured && !self.first_poll {
            let due = self.prev_pollat.map(|p| p <= t).unwrap_or(false);
            if due && o.tx.is_empty() {
                self.fail("no-solicit-when-due", k, op, format!("unconfigured, deadline {:?} <= t={} but the poll transmitted no DISCOVER/REQUEST", self.prev_pollat, t));
            }
        }
        if !self.configured && !self.arith && o.tx.iter().any(|x| x.ci.is_unspecified()) {
            let b = self.solicit_bound();
            match o.pollat {
                Some(p) if (p as i128) <= t as i128 + b as i128 => {}
                p => self.fail("solicit-gap-unbounded", k, op, format!("after soliciting at t={} the next deadline is {:?}, beyond t + {}", t, p, b)),
            }
        }
        // --- C13's non-spinning clause on this socket (regression check of the D16 fix)
        if o.n_rx == 0 && o.n_frames == 0 {
            if let Some(p) = o.pollat {
                if p <= t {
                    self.fail("idle-poll-deadline-not-later", k, op, format!("poll at t={} neither received nor transmitted, yet poll_at = {} <= t", t, p));
                }
            }
        }
        self.first_poll = false;
        self.prev_pollat = o.pollat;
    }
    fn recent_silent_attempt(&self, _t: i64, o: &StepObs) -> bool {
        // the poll itself was a silent attempt (ARP request or nothing instead of the renewal)
        o.tx.is_empty()
    }
}

fn oracle_case(c: &Case, fails: &mut Vec<String>, stats: &mut BTreeMap<String, u64>) {
    let mut sim = Sim::new(c);
    let mut or = Oracle::new(c);
    for (k, op) in c.ops.iter().enumerate() {
        let o = sim.step(op);
        or.on_op(k, op, &o);
        if o.panicked {
            break;
        }
    }
    fails.extend(or.fails);
    for (k, v) in or.stats {
        *stats.entry(k).or_default() += v;
    }
}

// ------------------------------------------------------------------------------------------------
// Generator (adaptive: the script is produced while running the implementation, so that the server
// can answer what the client actually sent; the emitted case is plain text replayed by both sides)
// ------------------------------------------------------------------------------------------------

const LEASES: &[&str] = &["0", "1", "2", "3", "4", "5", "8", "10", "10", "10", "30", "60", "120", "600", "86400", "2147483648", "4294967295", "-"];
const MASKS_OK: &[&str] = &["255.255.255.0", "255.255.255.0", "255.255.0.0", "255.0.0.0", "0.0.0.0", "255.255.255.255", "255.255.255.254", "255.255.255.252", "128.0.0.0", "255.255.255.128"];
const MASKS_BAD: &[&str] = &["255.0.255.0", "255.255.255.1", "0.255.255.255", "255.255.254.255", "0.0.0.1", "-"];
const YI_BAD: &[&str] = &["0.0.0.0", "255.255.255.255", "224.0.0.5", "239.1.2.3"];
const ROUTERS: &[&str] = &["-", "-", "10.0.0.1", "10.0.0.1", "10.0.0.254", "10.9.9.9", "255.255.255.255", "0.0.0.0", "224.0.0.1"];
const DNS: &[&str] = &["-", "-", "1.1.1.1", "1.1.1.1,8.8.8.8", "1.1.1.1,0.0.0.0,8.8.8.8", "255.255.255.255,224.0.0.1", "1.1.1.1,2.2.2.2,3.3.3.3,4.4.4.4", "0.0.0.0"];
const IPSRC_ODD: &[&str] = &["10.0.0.2", "192.168.7.1", "0.0.0.0", "10.0.0.255", "255.255.255.255", "224.0.0.1"];
const BADS: &[&str] = &["trunc", "magic", "htype", "hlen", "nomsgtype", "opcode", "udpcksum", "ipcksum"];
const KINDS_OTHER: &[&str] = &["discover", "request", "decline", "release", "inform"];

struct Persona {
    server: String,
    sid: String,
    yi: String,
    mask: String,
    lease: String,
    t1: String,
    t2: String,
    router: String,
    dns: String,
    hostile: u64, // per-field perturbation probability in 1/100
    loss: u64,    // probability in 1/100 that a client message gets no answer
    arp_answer: u64,
}

fn t12(rng: &mut Rng, lease: &str) -> (String, String) {
    let l: u64 = lease.parse().unwrap_or(120);
    let pick = |rng: &mut Rng| -> String {
        match rng.below(10) {
            0..=3 => "-".into(),
            4 => "0".into(),
            5 => "1".into(),
            6 => (l / 2).to_string(),
            7 => l.saturating_sub(1).to_string(),
            8 => l.to_string(),
            _ => (*rng.pick(&["4294967295", "2", "3", "7", "9"])).to_string(),
        }
    };
    match rng.below(10) {
        0..=3 => ("-".into(), "-".into()),
        4 => {
            let a = pick(rng);
            (a.clone(), a)
        } // equal
        5 => {
            // proper order inside the lease
            let a = l / 3;
            let b = (2 * l) / 3;
            (a.to_string(), b.to_string())
        }
        6 => ((l.saturating_sub(1)).to_string(), (l / 2).to_string()), // inverted
        _ => (pick(rng), pick(rng)),
    }
}

fn gen_header(rng: &mut Rng, id: String, arith: bool) -> Case {
    let mut cfg: Vec<(String, String)> = vec![];
    let mut put = |k: &str, v: String| cfg.push((k.to_string(), v));
    put("apply", if rng.chance(4, 5) { "1" } else { "0" }.to_string());
    put("seed", rng.below(1 << 40).to_string());
    let mtu = match rng.below(10) {
        0 => 9014,
        1 => 700,
        _ => 1514,
    };
    if mtu != 1514 {
        put("mtu", mtu.to_string());
    }
    if arith {
        put("arith", "1".into());
        // configurations whose back-off arithmetic leaves the u64/i64 range (the model predicts the panic)
        put("disc", (*rng.pick(&["1", "1000", "4611686018427387904", "9223372036854775807"])).to_string());
        put("req", (*rng.pick(&["0", "1", "3", "4611686018427387904", "9223372036854775807", "max"])).to_string());
        put("retries", (*rng.pick(&["130", "200", "65535", "126", "129"])).to_string());
    } else if rng.chance(9, 20) {
        put("disc", (*rng.pick(&["1", "1000", "1000000", "3000000", "10000000", "3600000000"])).to_string());
        put("req", (*rng.pick(&["0", "1", "1000", "500000", "1000000", "5000000"])).to_string());
        put("retries", (*rng.pick(&["0", "1", "2", "3", "5", "9", "20"])).to_string());
        put("minrenew", (*rng.pick(&["1", "1000", "500000", "1000000", "60000000"])).to_string());
        put("maxrenew", (*rng.pick(&["max", "max", "1", "1000", "1000000", "30000000", "3600000000"])).to_string());
    }
    match rng.below(10) {
        0 => put("maxlease", "1000000".into()),
        1 => put("maxlease", "5000000".into()),
        2 => put("maxlease", (*rng.pick(&["0", "1", "3500000", "100000000", "max"])).to_string()),
        _ => {}
    }
    if rng.chance(1, 10) {
        put("naks", "1".into());
    }
    if rng.chance(3, 20) {
        put("rxbuf", "1".into());
    }
    if rng.chance(1, 5) {
        put("rxck", "0".into());
    }
    if rng.chance(1, 20) {
        put("sport", "6700".into());
        put("cport", "6800".into());
    }
    Case { id, cfg, ops: vec![] }
}

fn gen_case(rng: &mut Rng, id: String, tier: &str) -> Case {
    let arith = rng.chance(1, 60);
    let mut c = gen_header(rng, id, arith);
    let mut sim = Sim::new(&c);
    let (mut sp, mut cp) = (c.get_i("sport", 67), c.get_i("cport", 68));
    let lease = (*rng.pick(LEASES)).to_string();
    let (t1, t2) = t12(rng, &lease);
    let style = rng.below(10);
    let p = Persona {
        server: if rng.chance(9, 10) { "10.0.0.1".into() } else { (*rng.pick(&["10.0.0.2", "192.168.7.1", "10.0.0.255"])).to_string() },
        sid: if rng.chance(9, 10) { "10.0.0.1".into() } else { "10.0.0.9".into() },
        yi: if rng.chance(9, 10) { "10.0.0.42".into() } else { (*rng.pick(&["10.0.0.43", "172.16.5.5", "10.0.0.254", "1.2.3.4"])).to_string() },
        mask: (*rng.pick(MASKS_OK)).to_string(),
        lease,
        t1,
        t2,
        router: (*rng.pick(ROUTERS)).to_string(),
        dns: (*rng.pick(DNS)).to_string(),
        hostile: match style {
            0..=4 => 2,
            5..=7 => 10,
            _ => 30,
        },
        loss: match rng.below(4) {
            0 => 0,
            1 => 10,
            2 => 35,
            _ => 70,
        },
        arp_answer: *rng.pick(&[0, 50, 90, 100]),
    };
    let n_ev = if tier == "thorough" { rng.range(10, 90) } else { rng.range(8, 48) } as usize;
    let mut unanswered: Option<TxDhcp> = None;
    let mut arp_pending: Option<String> = None;
    let mut need_poll = true;
    let mut ops: Vec<String> = vec![];
    let push = |sim: &mut Sim, ops: &mut Vec<String>, op: String, unanswered: &mut Option<TxDhcp>, arp_pending: &mut Option<String>| {
        let o = sim.step(&op);
        for l in &o.lines {
            if let Some(rest) = l.strip_prefix("tx arp req ") {
                let m = kv(&format!("x {}", rest));
                *arp_pending = m.get("tpa").cloned();
            }
        }
        if let Some(t) = o.tx.last() {
            *unanswered = Some(t.clone());
        }
        ops.push(op);
    };
    while ops.len() < n_ev && !sim.dead {
        let r = rng.below(100);
        if need_poll || r < 45 {
            // ---- poll
            let op = match rng.below(20) {
                0..=9 => "pollrel d=0".to_string(),
                10 => "pollrel d=-1".to_string(),
                11 => "pollrel d=1".to_string(),
                12 => format!("pollrel d=-{}", rng.range(2, 2_000_000)),
                13 => format!("pollrel d={}", rng.range(2, 2_000_000)),
                14 => format!("pollrel d={}", *rng.pick(&[1_000_000i64, 5_000_000, 10_000_000, 60_000_000, 120_000_000, 600_000_000])),
                15 | 16 => format!("poll t={}", sim.now.saturating_add(rng.range(0, 3_000_000))),
                17 => format!("poll t={}", sim.now.saturating_add(*rng.pick(&[1i64, 1000, 500_000, 1_000_000, 2_500_000, 10_000_000]))),
                18 => format!("poll t={}", sim.now),
                _ => {
                    if arith {
                        format!("pollrel d={}", *rng.pick(&[0i64, 0, 0, 4_611_686_018_427_387_904, 1 << 40]))
                    } else {
                        format!("poll t={}", sim.now.saturating_add(rng.range(0, 200_000_000)))
                    }
                }
            };
            push(&mut sim, &mut ops, op, &mut unanswered, &mut arp_pending);
            need_poll = false;
            continue;
        }
        if r < 55 {
            if let Some(tpa) = arp_pending.take() {
                if rng.below(100) < p.arp_answer {
                    push(&mut sim, &mut ops, format!("arp spa={}", tpa), &mut unanswered, &mut arp_pending);
                    need_poll = rng.chance(4, 5);
                }
                continue;
            }
        }
        if r < 62 {
            // ---- API calls
            let op = match rng.below(16) {
                0 | 1 => format!("setmaxlease {}", *rng.pick(&["-", "-", "1000000", "3000000", "10000000", "0", "max"])),
                2 | 3 => "reset".to_string(),
                4 => format!("setnaks {}", rng.below(2)),
                5 if !arith => format!(
                    "setretry disc={} req={} retries={}",
                    *rng.pick(&["1000", "1000000", "10000000"]),
                    *rng.pick(&["0", "1000", "1000000", "5000000"]),
                    *rng.pick(&["0", "1", "3", "5"])
                ),
                6 if !arith => format!("setretry minrenew={} maxrenew={}", *rng.pick(&["1", "1000000", "60000000"]), *rng.pick(&["max", "1000000", "1"])),
                7 if sim.rx_pending() == 0 => {
                    // (only with no frame waiting in the device: a unicast datagram for the old ports would be answered with
                    // an ICMP port-unreachable and refresh the neighbor cache, which the glue model does not cover)
                    // port change at run time (the scripted server follows, so that both old- and new-port traffic occurs)
                    if (sp, cp) == (67, 68) {
                        "setports 6700 6800".to_string()
                    } else {
                        "setports 67 68".to_string()
                    }
                }
                8 => "setrxbuf".to_string(),
                9 | 10 => format!(
                    "setopts {}",
                    *rng.pick(&["-", "12:5", "12:0", "60:9,12:3", "43:100,77:60", "81:180", "12:255", "60:1,15:0,77:2,124:40", "12:256", "43:10,60:300"])
                ),
                11 => {
                    if rng.chance(1, 8) {
                        format!("setprl {}", "2a".repeat(256))
                    } else {
                        format!("setprl {}", *rng.pick(&["010306", "01", "0103060f1c2a", "-", "060301"]))
                    }
                }
                _ => continue,
            };
            if rng.chance(1, 2) {
                if op.starts_with("setports") {
                    (sp, cp) = if (sp, cp) == (67, 68) { (6700, 6800) } else { (67, 68) };
                }
                push(&mut sim, &mut ops, op, &mut unanswered, &mut arp_pending);
            }
            continue;
        }
        // ---- a server message
        let spontaneous = unanswered.is_none();
        if !spontaneous && rng.below(100) < p.loss {
            unanswered = None; // the client's message (or the answer) is lost
            continue;
        }
        if spontaneous && !rng.chance(1, 4) {
            need_poll = true;
            continue;
        }
        let last = unanswered.take();
        let h = p.hostile;
        let after_discover = last.as_ref().map(|t| t.kind == "discover").unwrap_or(rng.chance(1, 2));
        let burst = if rng.chance(1, 12) { 2 } else { 1 };
        for b in 0..burst {
            let kind: String = if b == 1 {
                // second frame of a batch: typically the ACK right behind the OFFER, or a duplicate
                (*rng.pick(&["ack", "ack", "nak", "offer"])).to_string()
            } else if after_discover {
                match rng.below(100) {
                    0..=84 => "offer".into(),
                    85..=90 => "ack".into(),
                    91..=93 => "nak".into(),
                    _ => (*rng.pick(KINDS_OTHER)).to_string(),
                }
            } else {
                match rng.below(100) {
                    0..=74 => "ack".into(),
                    75..=84 => "nak".into(),
                    85..=92 => "offer".into(),
                    _ => (*rng.pick(KINDS_OTHER)).to_string(),
                }
            };
            let pert = |rng: &mut Rng| rng.below(100) < h;
            let xid = if pert(rng) { *rng.pick(&["stale", "other"]) } else { "same" };
            let mac = if pert(rng) { "other" } else { "own" };
            let sid = if pert(rng) { "-".to_string() } else { p.sid.clone() };
            let yi = if pert(rng) { (*rng.pick(YI_BAD)).to_string() } else { p.yi.clone() };
            let mask = if pert(rng) { (*rng.pick(MASKS_BAD)).to_string() } else if pert(rng) { (*rng.pick(MASKS_OK)).to_string() } else { p.mask.clone() };
            let (lease, t1, t2) = if pert(rng) {
                let l = (*rng.pick(LEASES)).to_string();
                let (a, b) = t12(rng, &l);
                (l, a, b)
            } else {
                (p.lease.clone(), p.t1.clone(), p.t2.clone())
            };
            let router = if pert(rng) { (*rng.pick(ROUTERS)).to_string() } else { p.router.clone() };
            let dns = if pert(rng) { (*rng.pick(DNS)).to_string() } else { p.dns.clone() };
            let ipsrc = if pert(rng) { (*rng.pick(IPSRC_ODD)).to_string() } else { p.server.clone() };
            // link-layer destination and IP destination are chosen together (a link-layer broadcast carrying a
            // unicast IP destination is discarded by process_ethernet)
            let (eth, ip_unicast_dst) = if pert(rng) {
                ("other", rng.chance(1, 2))
            } else {
                match rng.below(20) {
                    0..=8 => ("bcast", false),
                    9..=16 => ("own", true),
                    17 => ("own", false),
                    _ => ("bcast", true),
                }
            };
            let bad = if pert(rng) { *rng.pick(BADS) } else { "-" };
            let (sport, dport, force_bcast) = if rng.below(100) < h / 2 {
                if rng.chance(1, 2) {
                    (1067, cp, true)
                } else {
                    (sp, 1068, true)
                }
            } else {
                (sp, cp, false)
            };
            let ipdst = if force_bcast || !ip_unicast_dst { "255.255.255.255".to_string() } else { p.yi.clone() };
            let op = format!(
                "srv kind={} xid={} mac={} sid={} yi={} mask={} lease={} t1={} t2={} router={} dns={} ipsrc={} ipdst={} eth={} sport={} dport={} bad={}",
                kind, xid, mac, sid, yi, mask, lease, t1, t2, router, dns, ipsrc, ipdst, eth, sport, dport, bad
            );
            push(&mut sim, &mut ops, op, &mut unanswered, &mut arp_pending);
        }
        need_poll = rng.chance(9, 10);
    }
    c.ops = ops;
    c
}


/// run the oracle over [cases]; at most 2 failing cases are reported per class (FAILCASE block + FAIL line, same order)
fn report_oracle(cases: &[Case], nb: usize, out: &mut dyn Write) {
    let mut fails = vec![];
    let mut stats = BTreeMap::new();
    let mut per_class: BTreeMap<String, usize> = BTreeMap::new();
    for c in cases {
        let mut f1 = vec![];
        oracle_case(c, &mut f1, &mut stats);
        let mut seen: Vec<String> = vec![];
        for f in f1 {
            let cls = f.split("::").next().unwrap().trim().to_string();
            if seen.contains(&cls) {
                continue;
            }
            seen.push(cls.clone());
            let n = per_class.entry(cls).or_default();
            *n += 1;
            if *n <= 2 {
                writeln!(out, "FAILCASE").unwrap();
                c.write(out);
                fails.push(f);
            }
        }
    }
    for f in &fails {
        writeln!(out, "FAIL {}", f).unwrap();
    }
    let st: Vec<String> = stats.iter().map(|(k, v)| format!("{}:{}", jstr(k), v)).collect();
    writeln!(out, "STATS {{\"cases\":{},\"builtin_witnesses\":{},{}}}", cases.len(), nb, st.join(",")).unwrap();
}

/// Coexistence scenario: the client binds a short lease (ARP for the server answered, so renewals go out), a UDP socket that
/// sits BEFORE the DHCP socket in the socket set gets small and over-MTU (3 fragments at MTU 576) datagrams queued, and the
/// device accepts 0 / 1 / 2 / any number of frames per poll around the lease-expiry instant.
fn gen_coexist(rng: &mut Rng, id: String) -> Case {
    let mut c = Case { id, cfg: vec![], ops: vec![] };
    for (k, v) in [("apply", "1".to_string()), ("seed", rng.below(1 << 40).to_string()), ("udp", "1".to_string()), ("mtu", "590".to_string())] {
        c.cfg.push((k.to_string(), v));
    }
    let mut sim = Sim::new(&c);
    let lease: i64 = *rng.pick(&[2i64, 3, 5, 10]);
    let mut ops: Vec<String> = vec![];
    let mut t: i64 = rng.range(0, 2_000_000);
    let go = |sim: &mut Sim, ops: &mut Vec<String>, op: String| {
        sim.step(&op);
        ops.push(op);
    };
    go(&mut sim, &mut ops, format!("poll t={}", t));
    go(&mut sim, &mut ops, format!("srv kind=offer xid=same lease={}", lease));
    t += rng.range(0, 300_000);
    go(&mut sim, &mut ops, format!("poll t={}", t));
    go(&mut sim, &mut ops, format!("srv kind=ack xid=same lease={}", lease));
    t += rng.range(0, 300_000);
    go(&mut sim, &mut ops, format!("poll t={}", t));
    let expiry = t + lease * 1_000_000;
    go(&mut sim, &mut ops, "arp spa=10.0.0.1".to_string());
    t += rng.range(1, 1000);
    go(&mut sim, &mut ops, format!("poll t={}", t));
    // the lease runs: polls at the deadlines (renewal and rebinding attempts that nobody answers), some UDP traffic
    while rng.chance(2, 3) {
        let next = sim.last_pollat.unwrap_or(t).max(t);
        if next >= expiry - 1_100_000 {
            break;
        }
        t = next;
        if rng.chance(1, 3) {
            go(&mut sim, &mut ops, format!("usend len={}", rng.range(1, 400)));
        }
        go(&mut sim, &mut ops, format!("poll t={}", t));
    }
    // the device stalls shortly before expiry
    let variant = rng.below(3);
    t = (expiry - *rng.pick(&[1i64, 1000, 400_000, 900_000])).max(t);
    let budget = match variant {
        0 => "0",
        1 => "1",
        _ => *rng.pick(&["0", "1", "2", "-"]),
    };
    if variant == 1 || rng.chance(1, 2) {
        // an over-MTU datagram (3 fragments) followed by another datagram: the fragmenter stays busy across polls
        go(&mut sim, &mut ops, format!("budget {}", if variant == 1 { "1" } else { budget }));
        go(&mut sim, &mut ops, format!("usend len={}", rng.range(1150, 1400)));
        go(&mut sim, &mut ops, format!("usend len={}", rng.range(1, 1400)));
        go(&mut sim, &mut ops, format!("poll t={}", t));
        go(&mut sim, &mut ops, format!("budget {}", budget));
    } else {
        go(&mut sim, &mut ops, format!("budget {}", budget));
        for _ in 0..rng.range(1, 3) {
            go(&mut sim, &mut ops, format!("usend len={}", rng.range(1, 500)));
        }
        if rng.chance(1, 2) {
            go(&mut sim, &mut ops, format!("poll t={}", t));
        }
    }
    // polls at and after expiry
    let mut tt = expiry + *rng.pick(&[0i64, 0, 0, 1, 1000]);
    for _ in 0..rng.range(1, 4) {
        tt = tt.max(t);
        go(&mut sim, &mut ops, format!("poll t={}", tt));
        if variant == 2 && rng.chance(1, 3) {
            go(&mut sim, &mut ops, format!("budget {}", *rng.pick(&["0", "1", "2", "-"])));
        }
        if rng.chance(1, 4) {
            go(&mut sim, &mut ops, format!("usend len={}", rng.range(1, 1400)));
        }
        tt += *rng.pick(&[1i64, 1000, 100_000, 700_000]);
    }
    go(&mut sim, &mut ops, "budget -".to_string());
    go(&mut sim, &mut ops, format!("poll t={}", tt));
    go(&mut sim, &mut ops, format!("poll t={}", tt + 1));
    c.ops = ops;
    c
}

const BUILTIN: &str = include_str!("../../../corpus/C18/dhcp-d14-ack-before-request.case");
const BUILTIN2: &str = include_str!("../../../corpus/C18/dhcp-d16-expiry-idle-poll.case");
const BUILTIN3: &str = include_str!("../../../corpus/C18/dhcp-offer-from-unspecified.case");
const BUILTIN4: &str = include_str!("../../../corpus/C18/dhcp-d14b-expiry-while-silenced.case");
const BUILTIN5: &str = include_str!("../../../corpus/C18/dhcp-happy-renew-rebind-expiry.case");
const BUILTIN6: &str = include_str!("../../../corpus/C18/dhcp-outgoing-option-too-long.case");

fn main() {
    quiet_panics();
    let (sub, seed, n, tier) = args();
    let stdout = std::io::stdout();
    let mut out = std::io::BufWriter::new(stdout.lock());
    match sub.as_str() {
        "gen" => {
            let mut rng = Rng::new(seed);
            for i in 0..n {
                gen_case(&mut rng, format!("s{}-{}", seed, i), &tier).write(&mut out);
            }
        }
        "run" => {
            for c in stdin_cases() {
                run_case(&c, &mut out);
            }
        }
        "oracle" => {
            let mut rng = Rng::new(seed ^ 0xD4C9);
            let mut cases: Vec<Case> = vec![];
            for txt in [BUILTIN, BUILTIN2, BUILTIN3, BUILTIN4, BUILTIN5, BUILTIN6] {
                cases.extend(read_cases(&mut std::io::BufReader::new(txt.as_bytes())));
            }
            let nb = cases.len();
            for i in 0..n {
                cases.push(gen_case(&mut rng, format!("o{}-{}", seed, i), &tier));
            }
            report_oracle(&cases, nb, &mut out);
        }
        "oracle-coexist" => {
            // implementation-side only: a UDP socket in front of the DHCP socket, limited device tx budget around expiry
            let mut rng = Rng::new(seed ^ 0xC0E5);
            let cases: Vec<Case> = (0..n).map(|i| gen_coexist(&mut rng, format!("x{}-{}", seed, i))).collect();
            report_oracle(&cases, 0, &mut out);
        }
        "oracle-replay" => {
            let mut fails = vec![];
            let mut stats = BTreeMap::new();
            for c in stdin_cases() {
                oracle_case(&c, &mut fails, &mut stats);
            }
            for f in &fails {
                writeln!(out, "FAIL {}", f).unwrap();
            }
        }
        x => panic!("unknown subcommand {}", x),
    }
}
