//! Stream `frag4` (property C12): IPv4 fragmentation on egress, reassembly on ingress, and the
//! ordering of fragment egress against socket egress / ingress-triggered replies.
//!
//! Two kinds of cases share the stream (cfg `k=`):
//!
//! `case <id> k=tx medium=ip|eth mtu=<n> fbuf=<FRAGMENTATION_BUFFER_SIZE> socks=<n> kinds=<u|i|r per socket>`
//!     send <sock> <hex IP payload> [nb] the application queues that datagram on socket <sock>, destination = neighbour nb (0/1, default 0)
//!                                       (u: UDP header+data, i: ICMP echo request, r: raw proto 253)
//!     echo <hex reply IP payload> <hex request IP payload> [nb]
//!                                       an echo request from neighbour nb is put into the device rx queue
//!     poll <budget>                     Interface::poll with the device accepting <budget> frames (-1: no limit)
//!   observation per poll: one line per emitted IPv4 packet
//!     tx f<k> <offset> <mf> <payload len> <fnv32 of payload> to=<l>  (k = order of first appearance of the ident)
//!     tx nf 0 0 <payload len> <fnv32> to=<l>                         (unfragmented packet)
//!   l = link-layer destination: on Ethernet the neighbour (1/2) owning the frame's destination MAC (99: none),
//!   on Medium::Ip the neighbour owning the IP destination.
//!   then `p`.
//!
//! `case <id> k=rx medium=ip|eth slots=<REASSEMBLY_BUFFER_COUNT> segs=<ASSEMBLER_MAX_SEGMENT_COUNT> timeout=<ms>`
//!     frag <t ms> <key> <offset> <mf> <hex payload>   one IPv4 packet arrives and the interface is polled at t
//!         key bits: 0 ident, 1 source address, 2 protocol (253/254), 3 destination address
//!   observation: `rx <key & !1> <len> <fnv32>` (what the raw socket bound to the protocol received) or `rx -`.
//!
//! All packets are built and parsed by this file's own encoders (no smoltcp wire code), so the
//! fragments injected and the reassembly used by the oracles are independent of the crate.
use smoltcp::config::{ASSEMBLER_MAX_SEGMENT_COUNT, FRAGMENTATION_BUFFER_SIZE, REASSEMBLY_BUFFER_COUNT};
use smoltcp::iface::{Config, Interface, SocketHandle, SocketSet};
use smoltcp::phy::Medium;
use smoltcp::socket::{icmp, raw, udp};
use smoltcp::storage::PacketMetadata;
use smoltcp::time::{Duration, Instant};
use smoltcp::wire::{
    EthernetAddress, HardwareAddress, IpAddress, IpCidr, IpEndpoint, IpProtocol, IpVersion,
};
use std::collections::BTreeMap;
use std::io::Write;
use svh::dev::QDev;
use svh::*;

const LOCAL: [u8; 4] = [10, 0, 0, 1];
const LOCAL2: [u8; 4] = [10, 0, 1, 1];
const PEER: [u8; 4] = [10, 0, 0, 2];
const LOCAL_MAC: [u8; 6] = [2, 0, 0, 0, 0, 1];
const PEER_MAC: [u8; 6] = [2, 0, 0, 0, 0, 2];
const PEER2: [u8; 4] = [10, 0, 0, 3];
const PEER2_MAC: [u8; 6] = [2, 0, 0, 0, 0, 3];
/// the neighbours: (IP address, hardware address); ops name them by index (default 0)
const NB: [([u8; 4], [u8; 6]); 2] = [(PEER, PEER_MAC), (PEER2, PEER2_MAC)];
/// link-layer destination id used in observations: neighbour index + 1; 99 = none of them
fn link_id_of_mac(m: &[u8]) -> usize {
    NB.iter().position(|(_, mac)| mac == m).map(|i| i + 1).unwrap_or(99)
}
fn link_id_of_ip(a: &[u8; 4]) -> usize {
    NB.iter().position(|(ip, _)| ip == a).map(|i| i + 1).unwrap_or(99)
}

// ---------------------------------------------------------------- own wire code
fn cksum_acc(mut acc: u32, data: &[u8]) -> u32 {
    let mut i = 0;
    while i + 1 < data.len() {
        acc += ((data[i] as u32) << 8) | data[i + 1] as u32;
        i += 2;
    }
    if i < data.len() {
        acc += (data[i] as u32) << 8;
    }
    acc
}
fn cksum_fold(mut acc: u32) -> u16 {
    while acc >> 16 != 0 {
        acc = (acc & 0xffff) + (acc >> 16);
    }
    !(acc as u16)
}
fn fnv(data: &[u8]) -> u32 {
    let mut h: u32 = 2166136261;
    for b in data {
        h = (h ^ *b as u32).wrapping_mul(16777619);
    }
    h
}
fn udp_ip_payload(src: [u8; 4], dst: [u8; 4], sport: u16, dport: u16, data: &[u8]) -> Vec<u8> {
    let len = (8 + data.len()) as u16;
    let mut p = vec![];
    p.extend_from_slice(&sport.to_be_bytes());
    p.extend_from_slice(&dport.to_be_bytes());
    p.extend_from_slice(&len.to_be_bytes());
    p.extend_from_slice(&[0, 0]);
    p.extend_from_slice(data);
    let mut acc = cksum_acc(0, &src);
    acc = cksum_acc(acc, &dst);
    acc += 17 + len as u32;
    acc = cksum_acc(acc, &p);
    let mut c = cksum_fold(acc);
    if c == 0 {
        c = 0xffff;
    }
    p[6..8].copy_from_slice(&c.to_be_bytes());
    p
}
fn icmp_echo(ty: u8, ident: u16, seq: u16, data: &[u8]) -> Vec<u8> {
    let mut p = vec![ty, 0, 0, 0];
    p.extend_from_slice(&ident.to_be_bytes());
    p.extend_from_slice(&seq.to_be_bytes());
    p.extend_from_slice(data);
    let c = cksum_fold(cksum_acc(0, &p));
    p[2..4].copy_from_slice(&c.to_be_bytes());
    p
}
fn ipv4_packet(src: [u8; 4], dst: [u8; 4], proto: u8, ident: u16, mf: bool, off: usize, payload: &[u8]) -> Vec<u8> {
    let total = (20 + payload.len()) as u16;
    let mut h = vec![0x45, 0];
    h.extend_from_slice(&total.to_be_bytes());
    h.extend_from_slice(&ident.to_be_bytes());
    let flg_off: u16 = (if mf { 0x2000 } else { 0 }) | ((off >> 3) as u16 & 0x1fff);
    h.extend_from_slice(&flg_off.to_be_bytes());
    h.extend_from_slice(&[64, proto, 0, 0]);
    h.extend_from_slice(&src);
    h.extend_from_slice(&dst);
    let c = cksum_fold(cksum_acc(0, &h));
    h[10..12].copy_from_slice(&c.to_be_bytes());
    h.extend_from_slice(payload);
    h
}
fn eth_frame(dst: [u8; 6], src: [u8; 6], ethertype: u16, payload: &[u8]) -> Vec<u8> {
    let mut f = vec![];
    f.extend_from_slice(&dst);
    f.extend_from_slice(&src);
    f.extend_from_slice(&ethertype.to_be_bytes());
    f.extend_from_slice(payload);
    f
}
struct Ip4 {
    ident: u16,
    off: usize,
    mf: bool,
    df: bool,
    rsv: bool,
    ttl: u8,
    proto: u8,
    src: [u8; 4],
    dst: [u8; 4],
    payload: Vec<u8>,
}
/// strict parser for what the stack emits; Err = malformed header
fn parse_ipv4(b: &[u8]) -> std::result::Result<Ip4, String> {
    if b.len() < 20 || b[0] != 0x45 {
        return Err(format!("bad version/ihl or short ({} bytes)", b.len()));
    }
    let total = u16::from_be_bytes([b[2], b[3]]) as usize;
    if total != b.len() {
        return Err(format!("total_len {} but {} bytes on the wire", total, b.len()));
    }
    if cksum_fold(cksum_acc(0, &b[..20])) != 0 {
        return Err("header checksum".into());
    }
    let fo = u16::from_be_bytes([b[6], b[7]]);
    Ok(Ip4 {
        ident: u16::from_be_bytes([b[4], b[5]]),
        off: ((fo & 0x1fff) as usize) << 3,
        mf: fo & 0x2000 != 0,
        df: fo & 0x4000 != 0,
        rsv: fo & 0x8000 != 0,
        ttl: b[8],
        proto: b[9],
        src: [b[12], b[13], b[14], b[15]],
        dst: [b[16], b[17], b[18], b[19]],
        payload: b[20..].to_vec(),
    })
}
/// model-independent fragmenter: chunk = payload bytes per fragment (multiple of 8)
fn fragment(payload: &[u8], chunk: usize) -> Vec<(usize, bool, Vec<u8>)> {
    let mut v = vec![];
    let mut off = 0;
    loop {
        let end = (off + chunk).min(payload.len());
        let last = end == payload.len();
        v.push((off, !last, payload[off..end].to_vec()));
        if last {
            break;
        }
        off = end;
    }
    v
}

// ---------------------------------------------------------------- worlds
fn mk_iface(medium: Medium, mtu: usize) -> (QDev, Interface) {
    let mut dev = QDev::new(medium, mtu);
    let mut cfg = Config::new(match medium {
        Medium::Ethernet => HardwareAddress::Ethernet(EthernetAddress(LOCAL_MAC)),
        _ => HardwareAddress::Ip,
    });
    cfg.random_seed = 0x5eed;
    let mut iface = Interface::new(cfg, &mut dev, Instant::ZERO);
    iface.update_ip_addrs(|a| {
        a.push(IpCidr::new(IpAddress::v4(LOCAL[0], LOCAL[1], LOCAL[2], LOCAL[3]), 24)).unwrap();
        a.push(IpCidr::new(IpAddress::v4(LOCAL2[0], LOCAL2[1], LOCAL2[2], LOCAL2[3]), 24)).unwrap();
    });
    (dev, iface)
}
fn wrap(eth: bool, ip: Vec<u8>) -> Vec<u8> {
    if eth {
        eth_frame(LOCAL_MAC, PEER_MAC, 0x0800, &ip)
    } else {
        ip
    }
}

struct TxWorld {
    dev: QDev,
    iface: Interface,
    sockets: SocketSet<'static>,
    handles: Vec<(char, SocketHandle)>,
    eth: bool,
    mtu: usize,
    now_ms: i64,
    echo_ident: u16,
    /// emitted Ethernet frames whose link header is not (peer MAC, own MAC, IPv4)
    bad_link: Vec<String>,
}

fn tx_world(c: &Case) -> TxWorld {
    let eth = c.get("medium") == Some("eth");
    let mtu = c.get_i("mtu", 1500) as usize;
    let (mut dev, mut iface) = mk_iface(if eth { Medium::Ethernet } else { Medium::Ip }, mtu);
    let mut sockets = SocketSet::new(vec![]);
    let mut handles = vec![];
    // room for every datagram a case can queue (at most 24), whatever FRAGMENTATION_BUFFER_SIZE is
    let cap = 32 * (FRAGMENTATION_BUFFER_SIZE + 128);
    for (i, k) in c.get("kinds").unwrap_or("u").chars().enumerate() {
        let h = match k {
            'u' => {
                let mk = || udp::PacketBuffer::new(vec![PacketMetadata::EMPTY; 32], vec![0u8; cap]);
                let mut s = udp::Socket::new(mk(), mk());
                s.bind(1000 + i as u16).unwrap();
                sockets.add(s)
            }
            'i' => {
                let mk = || icmp::PacketBuffer::new(vec![PacketMetadata::EMPTY; 32], vec![0u8; cap]);
                let mut s = icmp::Socket::new(mk(), mk());
                s.bind(icmp::Endpoint::Ident(0x100 + i as u16)).unwrap();
                sockets.add(s)
            }
            _ => {
                let mk = || raw::PacketBuffer::new(vec![PacketMetadata::EMPTY; 32], vec![0u8; cap]);
                sockets.add(raw::Socket::new(Some(IpVersion::Ipv4), Some(IpProtocol::Unknown(253)), mk(), mk()))
            }
        };
        handles.push((k, h));
    }
    if eth {
        // teach the neighbor cache the peer's address: ARP request from the peer, reply drained
        for (ip, mac) in NB {
            let mut arp = vec![0, 1, 8, 0, 6, 4, 0, 1];
            arp.extend_from_slice(&mac);
            arp.extend_from_slice(&ip);
            arp.extend_from_slice(&[0; 6]);
            arp.extend_from_slice(&LOCAL);
            dev.rx.push_back(eth_frame([0xff; 6], mac, 0x0806, &arp));
        }
        iface.poll(Instant::ZERO, &mut dev, &mut sockets);
        dev.drain_tx();
    }
    TxWorld { dev, iface, sockets, handles, eth, mtu, now_ms: 0, echo_ident: 0x7000, bad_link: vec![] }
}

impl TxWorld {
    /// returns false if the socket refused the datagram
    fn send(&mut self, i: usize, ipp: &[u8], nb: usize) -> bool {
        let (k, h) = self.handles[i];
        let a = NB[nb].0;
        let peer = IpAddress::v4(a[0], a[1], a[2], a[3]);
        match k {
            'u' => {
                let dport = u16::from_be_bytes([ipp[2], ipp[3]]);
                self.sockets.get_mut::<udp::Socket>(h).send_slice(&ipp[8..], IpEndpoint::new(peer, dport)).is_ok()
            }
            'i' => self.sockets.get_mut::<icmp::Socket>(h).send_slice(ipp, peer).is_ok(),
            _ => {
                let pkt = ipv4_packet(LOCAL, a, 253, 0, false, 0, ipp);
                self.sockets.get_mut::<raw::Socket>(h).send_slice(&pkt).is_ok()
            }
        }
    }
    fn echo(&mut self, req: &[u8], nb: usize) {
        self.echo_ident = self.echo_ident.wrapping_add(1);
        let ip = ipv4_packet(NB[nb].0, LOCAL, 1, self.echo_ident, false, 0, req);
        self.dev.rx.push_back(if self.eth { eth_frame(LOCAL_MAC, NB[nb].1, 0x0800, &ip) } else { ip });
    }
    /// one Interface::poll; returns (link-layer destination id, emitted frame with the link header removed)
    fn poll(&mut self, budget: i64) -> Vec<(usize, Vec<u8>)> {
        self.dev.tx_budget = if budget < 0 { None } else { Some(budget as usize) };
        self.now_ms += 1;
        self.iface.poll(Instant::from_millis(self.now_ms), &mut self.dev, &mut self.sockets);
        let mut out = vec![];
        for f in self.dev.drain_tx() {
            if self.eth {
                if f.len() < 14 || f[6..12] != LOCAL_MAC || f[12..14] != [8, 0] {
                    self.bad_link.push(hex(&f[..14.min(f.len())]));
                }
                out.push((link_id_of_mac(&f[0..6.min(f.len())]), f[14.min(f.len())..].to_vec()));
            } else {
                let l = if f.len() >= 20 { link_id_of_ip(&[f[16], f[17], f[18], f[19]]) } else { 99 };
                out.push((l, f));
            }
        }
        out
    }
}

struct RxWorld {
    dev: QDev,
    iface: Interface,
    sockets: SocketSet<'static>,
    raws: [SocketHandle; 2],
    eth: bool,
}

fn rx_world(c: &Case) -> RxWorld {
    let eth = c.get("medium") == Some("eth");
    let (dev, mut iface) = mk_iface(if eth { Medium::Ethernet } else { Medium::Ip }, 1500);
    iface.set_reassembly_timeout(Duration::from_millis(c.get_i("timeout", 60000) as u64));
    let mut sockets = SocketSet::new(vec![]);
    let mk = || raw::PacketBuffer::new(vec![PacketMetadata::EMPTY; 8], vec![0u8; 200000]);
    let a = sockets.add(raw::Socket::new(Some(IpVersion::Ipv4), Some(IpProtocol::Unknown(253)), mk(), mk()));
    let b = sockets.add(raw::Socket::new(Some(IpVersion::Ipv4), Some(IpProtocol::Unknown(254)), mk(), mk()));
    RxWorld { dev, iface, sockets, raws: [a, b], eth }
}

fn key_fields(k: usize) -> (u16, [u8; 4], u8, [u8; 4]) {
    (
        0x3000 + (k & 1) as u16,
        [10, 0, 0, 2 + ((k >> 1) & 1) as u8],
        253 + ((k >> 2) & 1) as u8,
        if (k >> 3) & 1 == 1 { LOCAL2 } else { LOCAL },
    )
}

impl RxWorld {
    /// inject one packet, poll at t; returns what the raw sockets received: (key & !1, payload)
    fn frag(&mut self, t: i64, k: usize, off: usize, mf: bool, payload: &[u8]) -> Vec<(usize, Vec<u8>)> {
        let (ident, src, proto, dst) = key_fields(k);
        let ip = ipv4_packet(src, dst, proto, ident, mf, off, payload);
        self.dev.rx.push_back(wrap(self.eth, ip));
        self.iface.poll(Instant::from_millis(t), &mut self.dev, &mut self.sockets);
        self.dev.drain_tx();
        let mut got = vec![];
        for h in self.raws {
            let s = self.sockets.get_mut::<raw::Socket>(h);
            while let Ok(d) = s.recv() {
                if let Ok(p) = parse_ipv4(d) {
                    let kk = (((p.src[3] - 2) as usize & 1) << 1)
                        | (((p.proto - 253) as usize & 1) << 2)
                        | ((if p.dst == LOCAL2 { 1 } else { 0 }) << 3);
                    got.push((kk, p.payload));
                } else {
                    got.push((99, d.to_vec()));
                }
            }
        }
        got
    }
}

// ---------------------------------------------------------------- run (observations)
fn run_case(c: &Case, out: &mut dyn Write) {
    writeln!(out, "case {}", c.id).unwrap();
    match c.get("k") {
        Some("rx") => {
            let mut w = rx_world(c);
            for op in &c.ops {
                let t: Vec<&str> = op.split_whitespace().collect();
                let got = w.frag(t[1].parse().unwrap(), t[2].parse().unwrap(), t[3].parse().unwrap(), t[4] == "1", &unhex(t[5]));
                if got.is_empty() {
                    writeln!(out, "rx -").unwrap();
                }
                for (kk, d) in got {
                    writeln!(out, "rx {} {} {:08x}", kk, d.len(), fnv(&d)).unwrap();
                }
            }
        }
        _ => {
            let mut w = tx_world(c);
            let mut idents: Vec<u16> = vec![];
            for op in &c.ops {
                let t: Vec<&str> = op.split_whitespace().collect();
                match t[0] {
                    "send" => {
                        if !w.send(t[1].parse().unwrap(), &unhex(t[2]), t.get(3).map_or(0, |x| x.parse().unwrap())) {
                            writeln!(out, "send-refused").unwrap();
                        }
                    }
                    "echo" => w.echo(&unhex(t[2]), t.get(3).map_or(0, |x| x.parse().unwrap())),
                    "poll" => {
                        for (l, f) in w.poll(t[1].parse().unwrap()) {
                            match parse_ipv4(&f) {
                                Ok(p) => {
                                    if p.mf || p.off != 0 {
                                        let k = match idents.iter().position(|x| *x == p.ident) {
                                            Some(k) => k,
                                            None => {
                                                idents.push(p.ident);
                                                idents.len() - 1
                                            }
                                        };
                                        writeln!(out, "tx f{} {} {} {} {:08x} to={}", k, p.off, p.mf as u8, p.payload.len(), fnv(&p.payload), l).unwrap();
                                    } else {
                                        writeln!(out, "tx nf 0 0 {} {:08x} to={}", p.payload.len(), fnv(&p.payload), l).unwrap();
                                    }
                                }
                                Err(e) => writeln!(out, "tx malformed {}", e).unwrap(),
                            }
                        }
                        writeln!(out, "p").unwrap();
                    }
                    x => panic!("bad op {}", x),
                }
            }
        }
    }
}

// ---------------------------------------------------------------- generators
fn content(rng: &mut Rng, n: usize) -> Vec<u8> {
    match rng.below(4) {
        0 => vec![0xa5; n],
        1 => (0..n).map(|i| (i * 7 + 3) as u8).collect(),
        _ => rng.bytes(n),
    }
}

struct TxGen {
    case: Case,
}

fn gen_tx(rng: &mut Rng, id: String, tier: &str) -> TxGen {
    let fbuf = FRAGMENTATION_BUFFER_SIZE;
    let eth = rng.chance(1, 2);
    let grid = [68usize, 100, 296, 576, 1006, 1280, 1492, 1500];
    let mtu = if rng.chance(1, 6) { rng.range(68, 1500) as usize } else { *rng.pick(&grid) };
    let ipmtu = if eth { mtu - 14 } else { mtu };
    let maxfrag = (ipmtu - 20) & !7;
    let nsock = rng.range(1, 3) as usize;
    let kinds: String = (0..nsock).map(|_| *rng.pick(&['u', 'u', 'i', 'r'])).collect();
    let kv: Vec<char> = kinds.chars().collect();
    let mut ops: Vec<String> = vec![];
    let mut nfrags_total = 0usize;
    let mut seq = 0u16;
    // IP payload length around the interesting boundaries
    let pick_len = |rng: &mut Rng| -> usize {
        let cap = if maxfrag < 100 && !rng.chance(1, 8) { 400 } else { fbuf + 30 };
        let l = match rng.below(10) {
            0 => rng.range(8, 64) as usize,
            1 => (ipmtu - 20) + rng.range(0, 2) as usize - 1,
            2 | 3 => {
                let k = rng.range(1, ((cap / maxfrag.max(1)).max(1)) as i64) as usize;
                (k * maxfrag + [0usize, 1, 8, 9][rng.below(4) as usize]).saturating_sub(rng.below(2) as usize)
            }
            4 => (fbuf - 20) + rng.range(0, 2) as usize - 1,
            5 => 1200,
            _ => rng.range(8, cap as i64) as usize,
        };
        l.clamp(8, fbuf + 30)
    };
    let bursts = rng.range(1, if tier == "thorough" { 6 } else { 4 });
    for _ in 0..bursts {
        let nsend = rng.range(0, 4);
        for _ in 0..nsend {
            if rng.chance(1, 5) {
                // oversized echo request from the peer: the REPLY has to be fragmented
                let l = pick_len(rng);
                let data = content(rng, l - 8);
                seq += 1;
                let req = icmp_echo(8, 0x4242, seq, &data);
                let reply = icmp_echo(0, 0x4242, seq, &data);
                ops.push(format!("echo {} {} {}", hex(&reply), hex(&req), rng.below(2)));
                nfrags_total += l / maxfrag + 2;
            } else {
                let i = rng.below(nsock as u64) as usize;
                let l = pick_len(rng);
                let nb = if rng.chance(1, 3) { 1 } else { 0 };
                let ipp = match kv[i] {
                    'u' => udp_ip_payload(LOCAL, NB[nb].0, 1000 + i as u16, 2000 + i as u16, &content(rng, l - 8)),
                    'i' => {
                        seq += 1;
                        icmp_echo(8, 0x100 + i as u16, seq, &content(rng, l - 8))
                    }
                    _ => content(rng, l),
                };
                ops.push(format!("send {} {} {}", i, hex(&ipp), nb));
                nfrags_total += l / maxfrag + 2;
            }
        }
        for _ in 0..rng.range(0, 3) {
            ops.push(format!("poll {}", [-1i64, -1, 0, 1, 1, 2, 3][rng.below(7) as usize]));
        }
    }
    for _ in 0..nfrags_total + 4 {
        ops.push("poll -1".into());
    }
    TxGen {
        case: Case {
            id,
            cfg: vec![
                ("k".into(), "tx".into()),
                ("medium".into(), if eth { "eth" } else { "ip" }.into()),
                ("mtu".into(), mtu.to_string()),
                ("fbuf".into(), fbuf.to_string()),
                ("socks".into(), nsock.to_string()),
                ("kinds".into(), kinds),
            ],
            ops,
        },
    }
}

fn rx_cfg(id: String, eth: bool, timeout: i64, extra: &[(&str, String)]) -> Case {
    let mut cfg = vec![
        ("k".to_string(), "rx".to_string()),
        ("medium".into(), if eth { "eth" } else { "ip" }.into()),
        ("slots".into(), REASSEMBLY_BUFFER_COUNT.to_string()),
        ("segs".into(), ASSEMBLER_MAX_SEGMENT_COUNT.to_string()),
        ("timeout".into(), timeout.to_string()),
    ];
    for (k, v) in extra {
        cfg.push((k.to_string(), v.clone()));
    }
    Case { id, cfg, ops: vec![] }
}

fn nth_perm(n: usize, mut idx: usize) -> Vec<usize> {
    let mut items: Vec<usize> = (0..n).collect();
    let mut out = vec![];
    for k in (1..=n).rev() {
        let f: usize = (1..k).product();
        out.push(items.remove(idx / f));
        idx %= f;
    }
    out
}
fn fact(n: usize) -> usize {
    (1..=n).product()
}
/// number of enumerated arrival orders for n fragments: every permutation, and every
/// permutation with one duplicate of any fragment inserted at any position
fn enum_count(n: usize) -> usize {
    fact(n) * (1 + n * (n + 1))
}
fn enum_total(maxn: usize) -> usize {
    (2..=maxn).map(enum_count).sum()
}

/// enumerated single-datagram case number e
fn gen_rx_enum(mut e: usize, maxn: usize, id: String) -> Case {
    let mut n = 2;
    while n <= maxn && e >= enum_count(n) {
        e -= enum_count(n);
        n += 1;
    }
    let variant = e / fact(n);
    let mut order = nth_perm(n, e % fact(n));
    if variant > 0 {
        let v = variant - 1;
        order.insert(v % (n + 1), v / (n + 1));
    }
    let mut rng = Rng::new(e as u64 * 31 + n as u64);
    let chunk = *rng.pick(&[8usize, 16, 64, 552]);
    let len = (n - 1) * chunk + rng.range(1, chunk as i64) as usize;
    let payload = rng.bytes(len);
    let frs = fragment(&payload, chunk);
    let k = rng.below(16) as usize;
    let mut c = rx_cfg(id, rng.chance(1, 3), 60000, &[("single", "1".into())]);
    for (i, f) in order.iter().enumerate() {
        let (off, mf, d) = &frs[*f];
        c.ops.push(format!("frag {} {} {} {} {}", i, k, off, *mf as u8, hex(d)));
    }
    c
}

fn gen_rx_random(rng: &mut Rng, id: String, tier: &str) -> Case {
    let timeout = *rng.pick(&[60000i64, 5000, 100]);
    let nkeys = rng.range(1, 4) as usize;
    let hostile = rng.chance(1, 6);
    let mut keys: Vec<usize> = vec![];
    while keys.len() < nkeys {
        let k = rng.below(16) as usize;
        if !keys.contains(&k) {
            keys.push(k);
        }
    }
    // arrivals: (key, off, mf, data)
    let mut arr: Vec<(usize, usize, bool, Vec<u8>)> = vec![];
    for k in &keys {
        let chunk = 8 * rng.range(1, 80) as usize;
        let maxn = if rng.chance(1, 5) { 20 } else { if tier == "thorough" { 10 } else { 7 } };
        let n = rng.range(1, maxn) as usize;
        let len = if n == 1 && rng.chance(1, 2) { rng.range(0, 64) as usize } else { (n - 1) * chunk + rng.range(1, chunk as i64) as usize };
        let payload = content(rng, len);
        let mut frs = if n == 1 && len <= 64 { vec![(0, false, payload.clone())] } else { fragment(&payload, chunk) };
        // some fragments never arrive, some arrive twice
        if rng.chance(1, 4) && frs.len() > 1 {
            let i = rng.below(frs.len() as u64) as usize;
            frs.remove(i);
        }
        let mut mine: Vec<(usize, usize, bool, Vec<u8>)> = frs.iter().map(|(o, m, d)| (*k, *o, *m, d.clone())).collect();
        for _ in 0..rng.below(3) {
            if !mine.is_empty() {
                let d = mine[rng.below(mine.len() as u64) as usize].clone();
                mine.push(d);
            }
        }
        if rng.chance(1, 8) {
            // a re-fragmented copy with another chunk size (routers may do that): overlapping, consistent
            let chunk2 = 8 * rng.range(1, 80) as usize;
            for (o, m, d) in fragment(&payload, chunk2) {
                if rng.chance(2, 3) {
                    mine.push((*k, o, m, d));
                }
            }
        }
        if hostile {
            let (n1, n2) = (rng.range(0, 40) as usize, rng.range(1, 200) as usize);
            match rng.below(4) {
                0 => mine.push((*k, 8 * rng.range(0, 8191) as usize, false, rng.bytes(n1))),
                1 => mine.push((*k, 8 * rng.range(0, 40) as usize, true, rng.bytes(n2))),
                2 => mine.push((*k, rng.range(0, 65535) as usize, rng.chance(1, 2), rng.bytes(n1 / 2))),
                _ => mine.push((*k, len / 8 * 8 + 8 * rng.range(0, 3) as usize, true, rng.bytes(1 + n2 / 3))),
            }
        }
        // order within the datagram: in order / reversed / shuffled
        match rng.below(4) {
            0 => {}
            1 => mine.reverse(),
            _ => {
                for i in (1..mine.len()).rev() {
                    let j = rng.below(i as u64 + 1) as usize;
                    mine.swap(i, j);
                }
            }
        }
        arr.push((usize::MAX, 0, false, vec![])); // separator
        arr.extend(mine);
    }
    // interleave the per-key sequences (keeping each key's internal order)
    let mut streams: Vec<Vec<(usize, usize, bool, Vec<u8>)>> = vec![];
    for a in arr {
        if a.0 == usize::MAX {
            streams.push(vec![]);
        } else {
            streams.last_mut().unwrap().push(a);
        }
    }
    let sequential = rng.chance(1, 3);
    let mut merged = vec![];
    while streams.iter().any(|s| !s.is_empty()) {
        let live: Vec<usize> = (0..streams.len()).filter(|i| !streams[*i].is_empty()).collect();
        let i = if sequential { live[0] } else { *rng.pick(&live) };
        merged.push(streams[i].remove(0));
    }
    let mut c = rx_cfg(
        id,
        rng.chance(1, 3),
        timeout,
        &[("hostile", (hostile as u8).to_string()), ("single", ((nkeys == 1 && !hostile) as u8).to_string())],
    );
    let mut t = 0i64;
    let mut t0 = 0i64;
    for (i, (k, off, mf, d)) in merged.iter().enumerate() {
        if i > 0 {
            t += match rng.below(12) {
                0 => timeout,
                1 => timeout / 2,
                2 => (t0 + timeout - t - 1).max(0),
                3 => (t0 + timeout - t).max(0),
                4 => (t0 + timeout - t + 1).max(0),
                _ => rng.range(0, 2),
            };
            if rng.chance(1, 5) {
                t0 = t;
            }
        }
        c.ops.push(format!("frag {} {} {} {} {}", t, k, off, *mf as u8, hex(d)));
    }
    c
}

/// `seed % 1000` is the shard number given by ./check (seed*1000+k): the enumerated part of the
/// case space is indexed by shard*n+i so that all shards together cover it exactly once.
fn gen_cases(seed: u64, rng_seed: u64, n: usize, tier: &str) -> Vec<Case> {
    let shard = (seed % 1000) as usize;
    let maxn = if tier == "thorough" { 6 } else { 4 };
    let mut rng = Rng::new(rng_seed);
    let mut v = vec![];
    for i in 0..n {
        let g = shard * n + i;
        if g % 2 == 0 {
            v.push(gen_tx(&mut rng, format!("t{}-{}", seed, i), tier).case);
        } else if g / 2 < enum_total(maxn) {
            v.push(gen_rx_enum(g / 2, maxn, format!("e{}-{}", seed, i)));
        } else {
            v.push(gen_rx_random(&mut rng, format!("r{}-{}", seed, i), tier));
        }
    }
    v
}

// ---------------------------------------------------------------- oracles
type Stats = BTreeMap<String, u64>;
fn bump(st: &mut Stats, k: &str) {
    *st.entry(k.into()).or_default() += 1;
}

fn oracle_tx(c: &Case, fails: &mut Vec<String>, st: &mut Stats) {
    let mut w = tx_world(c);
    let fbuf = c.get_i("fbuf", FRAGMENTATION_BUFFER_SIZE as i64) as usize;
    let ipmtu = if w.eth { w.mtu - 14 } else { w.mtu };
    let mut fail = |class: &str, why: String| fails.push(format!("{} :: case {}: {}", class, c.id, why));
    // datagrams handed to the stack and not yet seen on the wire: (payload, from_socket, neighbour)
    let mut pending: Vec<(Vec<u8>, bool, usize)> = vec![];
    // the fragment train being received by the independent reassembler: (ident, bytes so far)
    let mut cur: Option<(u16, Vec<u8>)> = None;
    let mut cur_hdr: Option<([u8; 4], [u8; 4], u8, u8, bool)> = None;
    let mut last_ident: Option<u16> = None;
    for (opi, op) in c.ops.iter().enumerate() {
        let t: Vec<&str> = op.split_whitespace().collect();
        match t[0] {
            "send" => {
                let ipp = unhex(t[2]);
                let nb: usize = t.get(3).map_or(0, |x| x.parse().unwrap());
                if w.send(t[1].parse().unwrap(), &ipp, nb) {
                    if ipp.len() + 20 <= fbuf || ipp.len() + 20 <= ipmtu {
                        pending.push((ipp, true, nb));
                    } else {
                        bump(st, "tx_larger_than_frag_buffer");
                    }
                } else {
                    bump(st, "tx_socket_refused");
                }
            }
            "echo" => {
                let nb: usize = t.get(3).map_or(0, |x| x.parse().unwrap());
                w.echo(&unhex(t[2]), nb);
                let reply = unhex(t[1]);
                if reply.len() + 20 <= fbuf || reply.len() + 20 <= ipmtu {
                    pending.push((reply, false, nb));
                }
            }
            "poll" => {
                let frames = w.poll(t[1].parse().unwrap());
                for (link, f) in frames {
                    bump(st, "tx_frames");
                    if f.len() > ipmtu {
                        fail("fragment-exceeds-mtu", format!("op#{} {} bytes, ip mtu {}", opi, f.len(), ipmtu));
                    }
                    let p = match parse_ipv4(&f) {
                        Ok(p) => p,
                        Err(e) => {
                            fail("emitted-packet-malformed", format!("op#{} {}", opi, e));
                            continue;
                        }
                    };
                    // the frame must be addressed, on the link, to the neighbour that owns the IP destination:
                    // only then does that neighbour see (and can reassemble) it
                    let nbr = link_id_of_ip(&p.dst);
                    if nbr == 99 || link != nbr {
                        fail("fragment-to-wrong-link-address", format!("op#{} ident {} off {}: IP destination {:?} (neighbour {}) but link-layer destination is neighbour {}", opi, p.ident, p.off, p.dst, nbr, link));
                    }
                    let nbr = nbr.wrapping_sub(1);
                    // flags: a fragment (MF set or offset != 0) never carries DF; the reserved bit is never set
                    // (an unfragmented packet has offset 0 and MF clear by the definition of the branch below)
                    if p.rsv || ((p.mf || p.off != 0) && p.df) {
                        fail("fragment-carries-dont-fragment", format!("op#{} ident {} off {} mf {}: DF={} reserved={}", opi, p.ident, p.off, p.mf, p.df, p.rsv));
                    }
                    if !(p.mf || p.off != 0) {
                        // prefer an ingress reply when a train is in progress (identical payloads may be queued both ways)
                        let in_train = cur.is_some();
                        let pos = pending
                            .iter()
                            .position(|(d, s, n)| *d == p.payload && *n == nbr && (!in_train || !*s))
                            .or_else(|| pending.iter().position(|(d, _, n)| *d == p.payload && *n == nbr));
                        match pos {
                            Some(i) => {
                                if in_train && pending[i].1 {
                                    // between the first and the last fragment of a train only ingress-triggered
                                    // whole packets may appear: a socket packet there overtakes the rest of the train
                                    fail("socket-packet-inside-fragment-train", format!("op#{} a {} byte socket datagram is emitted while train ident {} is incomplete", opi, p.payload.len(), cur.as_ref().unwrap().0));
                                }
                                pending.remove(i);
                                bump(st, "tx_whole_datagrams");
                            }
                            None => fail("unfragmented-datagram-differs", format!("op#{} {} bytes not among the datagrams handed to the stack", opi, p.payload.len())),
                        }
                        continue;
                    }
                    bump(st, "tx_fragments");
                    if p.mf && p.payload.len() % 8 != 0 {
                        fail("fragment-not-8-aligned", format!("op#{} off {} len {}", opi, p.off, p.payload.len()));
                    }
                    if p.off == 0 {
                        if let Some((id, got)) = &cur {
                            fail("second-datagram-overwrites-fragmenter", format!("op#{} a new train (ident {}) starts while train ident {} has only {} bytes on the wire", opi, p.ident, id, got.len()));
                        }
                        if last_ident == Some(p.ident) {
                            fail("ident-reused-by-next-datagram", format!("op#{} ident {}", opi, p.ident));
                        }
                        last_ident = Some(p.ident);
                        cur = Some((p.ident, vec![]));
                        cur_hdr = Some((p.src, p.dst, p.proto, p.ttl, p.df));
                    }
                    if cur_hdr.is_some_and(|h| h != (p.src, p.dst, p.proto, p.ttl, p.df)) || p.src != LOCAL {
                        fail("fragment-header-fields-differ", format!("op#{} ident {} off {}: {:?}->{:?} proto {}", opi, p.ident, p.off, p.src, p.dst, p.proto));
                    }
                    match &mut cur {
                        Some((id, got)) if *id == p.ident && got.len() == p.off => {
                            got.extend_from_slice(&p.payload);
                            if !p.mf {
                                let (_, whole) = cur.take().unwrap();
                                match pending.iter().position(|(d, _, n)| *d == whole && *n == nbr) {
                                    Some(i) => {
                                        pending.remove(i);
                                        bump(st, "tx_trains_complete");
                                    }
                                    None => fail("refragmented-output-differs", format!("op#{} train ident {} reassembles to {} bytes that are not a datagram handed to the stack", opi, p.ident, whole.len())),
                                }
                            }
                        }
                        _ => fail("fragments-mixed", format!("op#{} fragment ident {} off {} does not continue the train in progress", opi, p.ident, p.off)),
                    }
                }
                if !w.bad_link.is_empty() {
                    fail("fragment-wrong-link-header", format!("op#{} {:?}", opi, w.bad_link));
                    w.bad_link.clear();
                }
                if !w.dev.oversize.is_empty() {
                    fail("fragment-exceeds-mtu", format!("op#{} device saw frames of {:?} bytes", opi, w.dev.oversize));
                    w.dev.oversize.clear();
                }
            }
            _ => {}
        }
    }
    if let Some((id, got)) = &cur {
        fail("fragment-train-incomplete", format!("train ident {} stops after {} bytes although the interface was polled until idle", id, got.len()));
    }
    for (d, from_socket, _) in &pending {
        if *from_socket {
            fail("socket-datagram-not-transmitted", format!("{} byte datagram queued on a socket never appeared on the wire", d.len()));
        } else {
            bump(st, "tx_replies_dropped");
        }
    }
}

fn ranges_of(cover: &[bool]) -> usize {
    let mut n = 0;
    let mut prev = false;
    for b in cover {
        if *b && !prev {
            n += 1;
        }
        prev = *b;
    }
    n
}

fn oracle_rx(c: &Case, fails: &mut Vec<String>, st: &mut Stats) {
    let mut w = rx_world(c);
    let segs = c.get_i("segs", ASSEMBLER_MAX_SEGMENT_COUNT as i64) as usize;
    let timeout = c.get_i("timeout", 60000);
    let hostile = c.get("hostile") == Some("1");
    let single = c.get("single") == Some("1");
    let mut fail = |class: &str, why: String| fails.push(format!("{} :: case {}: {}", class, c.id, why));
    // the datagram of every key, rebuilt from all its fragments in the case (consistent unless hostile)
    let mut want: BTreeMap<usize, (Vec<Option<u8>>, Option<usize>, bool)> = BTreeMap::new();
    for op in &c.ops {
        let t: Vec<&str> = op.split_whitespace().collect();
        let (k, off, mf, d): (usize, usize, bool, Vec<u8>) = (t[2].parse().unwrap(), t[3].parse::<usize>().unwrap() / 8 * 8, t[4] == "1", unhex(t[5]));
        if !mf && off == 0 {
            continue;
        }
        let e = want.entry(k).or_insert((vec![], None, true));
        if e.0.len() < off + d.len() {
            e.0.resize(off + d.len(), None);
        }
        for (i, b) in d.iter().enumerate() {
            if e.0[off + i].is_some_and(|x| x != *b) {
                e.2 = false;
            }
            e.0[off + i] = Some(*b);
        }
        if !mf {
            if e.1.is_some_and(|x| x != off + d.len()) {
                e.2 = false;
            }
            e.1 = Some(off + d.len());
        }
    }
    // single-datagram cases: shadow of what a correct reassembler with `segs` ranges has
    let mut cover: Vec<bool> = vec![];
    let mut total: Option<usize> = None;
    let mut gaps_fit = true;
    let mut t_first: Option<i64> = None;
    for (opi, op) in c.ops.iter().enumerate() {
        let t: Vec<&str> = op.split_whitespace().collect();
        let (ts, k, off, mf, d): (i64, usize, usize, bool, Vec<u8>) =
            (t[1].parse().unwrap(), t[2].parse().unwrap(), t[3].parse::<usize>().unwrap() / 8 * 8, t[4] == "1", unhex(t[5]));
        let got = w.frag(ts, k, off, mf, &d);
        bump(st, "rx_packets");
        if !mf && off == 0 {
            if got.len() != 1 || got[0].1 != d {
                fail("unfragmented-packet-not-delivered", format!("op#{}", opi));
            }
            continue;
        }
        for (kk, data) in &got {
            bump(st, "rx_delivered");
            if *kk != (k & !1) {
                fail("delivered-under-wrong-key", format!("op#{} fragment of key {} completed a datagram of key {}", opi, k, kk));
            }
            if hostile {
                continue;
            }
            match want.get(&k) {
                Some((bytes, Some(tot), true)) => {
                    let orig: Option<Vec<u8>> = bytes[..(*tot).min(bytes.len())].iter().cloned().collect();
                    if orig.as_deref() != Some(&data[..]) || *tot != data.len() {
                        fail("delivered-datagram-differs", format!("op#{} key {} delivered {} bytes, original has {}", opi, k, data.len(), tot));
                    }
                }
                _ => fail("delivered-datagram-differs", format!("op#{} key {} delivered {} bytes but the last fragment / some bytes never arrived", opi, k, data.len())),
            }
        }
        if single && !hostile {
            if t_first.is_none() {
                t_first = Some(ts);
            }
            if ts >= t_first.unwrap() + timeout {
                // the slot has (or, at the very instant of expiry, may have) expired: the property does not
                // fix the expiry instant, so no delivery is demanded from here on (the correspondence
                // stream still pins the exact rule `expires_at < now`)
                gaps_fit = false;
            }
            if cover.len() < off + d.len() {
                cover.resize(off + d.len(), false);
            }
            for x in off..off + d.len() {
                cover[x] = true;
            }
            if !mf {
                total = Some(off + d.len());
            }
            if ranges_of(&cover) > segs {
                gaps_fit = false;
            }
            let complete = total.is_some_and(|tot| cover.len() == tot && cover.iter().all(|b| *b));
            if gaps_fit {
                if complete && got.is_empty() {
                    fail("not-delivered-though-gaps-fit", format!("op#{} all {} bytes present, never more than {} ranges, within the timeout", opi, cover.len(), segs));
                }
                if !complete && !got.is_empty() {
                    fail("delivered-incomplete-datagram", format!("op#{}", opi));
                }
                if complete {
                    bump(st, "rx_must_deliver_checked");
                    cover.clear();
                    total = None;
                    t_first = None;
                }
            }
        }
    }
}

fn oracle_case(c: &Case, fails: &mut Vec<String>, st: &mut Stats) {
    let r = {
        let mut f2 = vec![];
        let mut s2 = Stats::new();
        let ok = catch(std::panic::AssertUnwindSafe(|| {
            if c.get("k") == Some("rx") {
                oracle_rx(c, &mut f2, &mut s2)
            } else {
                oracle_tx(c, &mut f2, &mut s2)
            }
        }));
        (ok.is_some(), f2, s2)
    };
    if !r.0 {
        fails.push(format!("panic-in-stack :: case {}", c.id));
    }
    fails.extend(r.1);
    for (k, v) in r.2 {
        *st.entry(k).or_default() += v;
    }
    bump(st, if c.get("k") == Some("rx") { "rx_cases" } else { "tx_cases" });
}

fn main() {
    quiet_panics();
    let (sub, seed, n, tier) = args();
    let stdout = std::io::stdout();
    let mut out = std::io::BufWriter::new(stdout.lock());
    match sub.as_str() {
        "limits" => writeln!(out, "fbuf={} slots={} segs={}", FRAGMENTATION_BUFFER_SIZE, REASSEMBLY_BUFFER_COUNT, ASSEMBLER_MAX_SEGMENT_COUNT).unwrap(),
        "witness" => {
            // hand-made regression cases kept in corpus/C12 (defect D8 and the stale-checksum defect)
            let fb = FRAGMENTATION_BUFFER_SIZE.to_string();
            let mk = |id: &str, medium: &str, mtu: usize, kinds: &str, ops: Vec<String>| Case {
                id: id.into(),
                cfg: vec![
                    ("k".into(), "tx".into()),
                    ("medium".into(), medium.into()),
                    ("mtu".into(), mtu.to_string()),
                    ("fbuf".into(), fb.clone()),
                    ("socks".into(), kinds.len().to_string()),
                    ("kinds".into(), kinds.into()),
                ],
                ops,
            };
            let udp = |i: u16, b: u8, n: usize| hex(&udp_ip_payload(LOCAL, PEER, 1000 + i, 2000 + i, &vec![b; n]));
            let polls = |b: i64, n: usize| -> Vec<String> { (0..n).map(|_| format!("poll {}", b)).collect() };
            let mut v = vec![];
            let mut ops = vec![format!("send 0 {}", udp(0, 0x11, 1200)), format!("send 0 {}", udp(0, 0x22, 1200))];
            ops.extend(polls(-1, 6));
            v.push(mk("d8-two-udp-1200-mtu576", "ip", 576, "u", ops));
            let mut ops = vec![format!("send 0 {}", udp(0, 0x11, 1200)), format!("send 0 {}", udp(0, 0x22, 1200))];
            ops.extend(polls(1, 9));
            v.push(mk("d8-two-udp-one-frame-per-poll", "ip", 576, "u", ops));
            let data: Vec<u8> = (0..1000).map(|i| (i * 13 + 1) as u8).collect();
            let mut ops = vec![format!("send 0 {}", udp(0, 0x33, 1200)), "poll 1".into()];
            ops.push(format!("echo {} {}", hex(&icmp_echo(0, 0x4242, 1, &data)), hex(&icmp_echo(8, 0x4242, 1, &data))));
            ops.extend(polls(-1, 6));
            v.push(mk("d8-echo-reply-while-socket-datagram-mid-fragmentation", "ip", 576, "u", ops));
            let mut ops = vec![format!("send 0 {}", udp(0, 0x44, 1400)), format!("send 1 {}", hex(&vec![0x55u8; 1400]))];
            ops.extend(polls(-1, 8));
            v.push(mk("d8-two-sockets-ethernet", "eth", 576, "ur", ops));
            let mut ops = vec![format!("send 0 {}", udp(0, 0x5a, 1400))];
            ops.extend(polls(-1, 5));
            ops.push(format!("send 1 {}", hex(&icmp_echo(8, 0x101, 1, &vec![0x33u8; 700]))));
            ops.extend(polls(-1, 4));
            v.push(mk("stale-buffer-icmp-socket-checksum", "ip", 576, "ui", ops));
            let mut ops = vec![format!("send 0 {}", udp(0, 0x5a, 1400))];
            ops.extend(polls(-1, 5));
            let data = vec![0x77u8; 900];
            ops.push(format!("echo {} {}", hex(&icmp_echo(0, 0x4242, 2, &data)), hex(&icmp_echo(8, 0x4242, 2, &data))));
            ops.extend(polls(-1, 4));
            v.push(mk("stale-buffer-echo-reply-checksum", "ip", 576, "u", ops));
            // Ethernet, two neighbours: datagram to neighbour 0 mid-fragmentation under back-pressure, an
            // oversized ping from neighbour 1 (its reply is dropped): the rest of the train must still go to 0
            let data: Vec<u8> = (0..1000).map(|i| (i * 11 + 5) as u8).collect();
            let mut ops = vec![format!("send 0 {} 0", udp(0, 0x66, 1400)), "poll 1".into()];
            ops.push(format!("echo {} {} 1", hex(&icmp_echo(0, 0x4242, 3, &data)), hex(&icmp_echo(8, 0x4242, 3, &data))));
            ops.extend(polls(1, 2));
            ops.extend(polls(-1, 4));
            v.push(mk("dropped-reply-must-not-redirect-train-in-flight", "eth", 576, "u", ops));
            // one socket, Ethernet, IP MTU 576: 1400, 1200 and 10 bytes queued back to back: the small datagram
            // must not be emitted between the fragments of a train
            let mut ops = vec![format!("send 0 {} 0", udp(0, 0x71, 1400)), format!("send 0 {} 0", udp(0, 0x72, 1200)), format!("send 0 {} 0", udp(0, 0x73, 10))];
            ops.extend(polls(-1, 8));
            v.push(mk("small-datagram-overtakes-fragment-train", "eth", 590, "u", ops));
            for c in v {
                if tier == "quick" || tier == c.id {
                    c.write(&mut out);
                }
            }
        }
        "gen" => {
            for c in gen_cases(seed, seed, n, &tier) {
                c.write(&mut out);
            }
        }
        "run" => {
            for c in stdin_cases() {
                run_case(&c, &mut out);
            }
        }
        "oracle" => {
            let mut fails = vec![];
            let mut stats = Stats::new();
            let cases = gen_cases(seed, seed ^ 0x5A5A_0000, n, &tier);
            for c in &cases {
                let before = fails.len();
                oracle_case(c, &mut fails, &mut stats);
                if fails.len() > before {
                    writeln!(out, "FAILCASE").unwrap();
                    c.write(&mut out);
                }
                if fails.len() > 20 {
                    break;
                }
            }
            for f in &fails {
                writeln!(out, "FAIL {}", f).unwrap();
            }
            let s: Vec<String> = stats.iter().map(|(k, v)| format!("{}:{}", jstr(k), v)).collect();
            writeln!(out, "STATS {{\"cases\":{},\"fbuf\":{},\"slots\":{},\"segs\":{},{}}}", cases.len(), FRAGMENTATION_BUFFER_SIZE, REASSEMBLY_BUFFER_COUNT, ASSEMBLER_MAX_SEGMENT_COUNT, s.join(",")).unwrap();
        }
        "oracle-replay" => {
            let mut fails = vec![];
            let mut stats = Stats::new();
            for c in stdin_cases() {
                oracle_case(&c, &mut fails, &mut stats);
            }
            for f in &fails {
                writeln!(out, "FAIL {}", f).unwrap();
            }
        }
        x => panic!("unknown subcommand {}", x),
    }
}
