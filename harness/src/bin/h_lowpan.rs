//! Streams `lowpan-wire` and `lowpan` (property C20: 6LoWPAN compression and fragmentation are lossless).
//!
//! Subcommands:  gen-wire / run-wire            stream `lowpan-wire`
//!               gen / run                      stream `lowpan`
//!               oracle / oracle-replay         end-to-end oracles on two real interfaces
//!               oracle-inject / inject-replay  `Interface::poll` on mutated 802.15.4 frames
//!
//! ## Stream `lowpan-wire`   (one observation line `r ...` per op; `r PANIC` if the real code panics)
//!   frag_emit k=<1|n> size=<u16> tag=<u16> off=<u8> fill=<u8> extra=<n>
//!        SixlowpanFragRepr::emit into a buffer of buffer_len()+extra octets filled with `fill`
//!        -> `r <hex of the whole buffer>`
//!   frag_parse <hex>
//!        SixlowpanFragPacket::new_checked + SixlowpanFragRepr::parse + payload()
//!        -> `r E` | `r first <size> <tag> pl=<hex>` | `r next <size> <tag> <off> pl=<hex>`
//!   nhc_emit sp=<u16> dp=<u16> src=<hex16> dst=<hex16> pl=<hex> fill=<u8>
//!        SixlowpanUdpNhcRepr::emit (default checksum capabilities) into header_len()+|pl| octets
//!        -> `r <header_len> <hex>`
//!   nhc_parse src=<hex16> dst=<hex16> rx=<0|1> <hex>
//!        SixlowpanUdpNhcPacket::new_checked + SixlowpanUdpNhcRepr::parse (rx=1: verify checksum)
//!        -> `r E` | `r <sp> <dp> ck=<u16|-> pl=<hex>`
//!   iphc_emit src=<hex16> dst=<hex16> lls=<LL> lld=<LL> nh=<c|proto> hl=<u8> fill=<u8> extra=<n>
//!        SixlowpanIphcRepr::emit -> `r <buffer_len> <hex of the whole buffer>`
//!   iphc_parse lls=<LL> lld=<LL> ctx=<hex8,hex8,..|-> <hex>
//!        SixlowpanIphcPacket::new_checked + SixlowpanIphcRepr::parse
//!        -> `r E` | `r src=<hex16> dst=<hex16> nh=<c|proto> hl=<u8> tf=<ecn|->/<dscp|->/<fl|-> hlen=<n>`
//!   LL = `-` (None) | `a` (Absent) | `s:<hex2>` | `e:<hex8>`
use smoltcp::iface::{Config, Interface, SocketSet};
use smoltcp::phy::{ChecksumCapabilities, Medium};
use smoltcp::socket::{icmp, raw, tcp, udp};
use smoltcp::time::{Duration, Instant};
use smoltcp::wire::*;
use std::collections::BTreeMap;
use std::io::Write;
use std::panic::{catch_unwind, AssertUnwindSafe};
use svh::dev::QDev;
use svh::*;

// ------------------------------------------------------------------------------------------
// small parsing helpers
// ------------------------------------------------------------------------------------------

fn kv<'a>(toks: &'a [&'a str], k: &str) -> &'a str {
    for t in toks {
        if let Some((a, b)) = t.split_once('=') {
            if a == k {
                return b;
            }
        }
    }
    panic!("missing key {} in {:?}", k, toks)
}
fn kvi(toks: &[&str], k: &str) -> i64 {
    kv(toks, k).parse().expect("int")
}
fn last<'a>(toks: &'a [&'a str]) -> &'a str {
    toks[toks.len() - 1]
}
fn addr16(s: &str) -> Ipv6Address {
    let b = unhex(s);
    let mut a = [0u8; 16];
    a.copy_from_slice(&b);
    Ipv6Address::from_octets(a)
}
fn ll_parse(s: &str) -> Option<Ieee802154Address> {
    match s {
        "-" => None,
        "a" => Some(Ieee802154Address::Absent),
        _ => {
            let (k, h) = s.split_once(':').expect("ll");
            let b = unhex(h);
            match k {
                "s" => Some(Ieee802154Address::Short([b[0], b[1]])),
                "e" => {
                    let mut a = [0u8; 8];
                    a.copy_from_slice(&b);
                    Some(Ieee802154Address::Extended(a))
                }
                _ => panic!("ll kind"),
            }
        }
    }
}
fn ll_show(a: &Option<Ieee802154Address>) -> String {
    match a {
        None => "-".into(),
        Some(Ieee802154Address::Absent) => "a".into(),
        Some(Ieee802154Address::Short(b)) => format!("s:{}", hex(b)),
        Some(Ieee802154Address::Extended(b)) => format!("e:{}", hex(b)),
    }
}
fn nh_show(nh: &SixlowpanNextHeader) -> String {
    match nh {
        SixlowpanNextHeader::Compressed => "c".into(),
        SixlowpanNextHeader::Uncompressed(p) => format!("{}", u8::from(*p)),
    }
}
fn nh_parse(s: &str) -> SixlowpanNextHeader {
    if s == "c" {
        SixlowpanNextHeader::Compressed
    } else {
        SixlowpanNextHeader::Uncompressed(IpProtocol::from(s.parse::<u8>().unwrap()))
    }
}

// ------------------------------------------------------------------------------------------
// stream lowpan-wire: implementation side
// ------------------------------------------------------------------------------------------

fn wire_op(op: &str) -> String {
    let t: Vec<&str> = op.split_whitespace().collect();
    let r = catch_unwind(AssertUnwindSafe(|| -> String {
        match t[0] {
            "frag_emit" => {
                let (size, tag, off) = (kvi(&t, "size") as u16, kvi(&t, "tag") as u16, kvi(&t, "off") as u8);
                let repr = if kv(&t, "k") == "1" {
                    SixlowpanFragRepr::FirstFragment { size, tag }
                } else {
                    SixlowpanFragRepr::Fragment { size, tag, offset: off }
                };
                let mut buf = vec![kvi(&t, "fill") as u8; repr.buffer_len() + kvi(&t, "extra") as usize];
                repr.emit(&mut SixlowpanFragPacket::new_unchecked(&mut buf[..]));
                hex(&buf)
            }
            "frag_parse" => {
                let b = unhex(last(&t));
                let p = match SixlowpanFragPacket::new_checked(&b[..]) {
                    Ok(p) => p,
                    Err(_) => return "E".into(),
                };
                match SixlowpanFragRepr::parse(&p) {
                    Err(_) => "E".into(),
                    Ok(SixlowpanFragRepr::FirstFragment { size, tag }) => {
                        format!("first {} {} pl={}", size, tag, hex(p.payload()))
                    }
                    Ok(SixlowpanFragRepr::Fragment { size, tag, offset }) => {
                        format!("next {} {} {} pl={}", size, tag, offset, hex(p.payload()))
                    }
                }
            }
            "nhc_emit" => {
                let repr = SixlowpanUdpNhcRepr(UdpRepr { src_port: kvi(&t, "sp") as u16, dst_port: kvi(&t, "dp") as u16 });
                let pl = unhex(kv(&t, "pl"));
                let (src, dst) = (addr16(kv(&t, "src")), addr16(kv(&t, "dst")));
                let mut buf = vec![kvi(&t, "fill") as u8; repr.header_len() + pl.len()];
                repr.emit(
                    &mut SixlowpanUdpNhcPacket::new_unchecked(&mut buf[..]),
                    &src,
                    &dst,
                    pl.len(),
                    |b| b.copy_from_slice(&pl),
                    &ChecksumCapabilities::default(),
                );
                format!("{} {}", repr.header_len(), hex(&buf))
            }
            "nhc_parse" => {
                let b = unhex(last(&t));
                let (src, dst) = (addr16(kv(&t, "src")), addr16(kv(&t, "dst")));
                let caps = if kvi(&t, "rx") == 1 { ChecksumCapabilities::default() } else { ChecksumCapabilities::ignored() };
                let p = match SixlowpanUdpNhcPacket::new_checked(&b[..]) {
                    Ok(p) => p,
                    Err(_) => return "E".into(),
                };
                match SixlowpanUdpNhcRepr::parse(&p, &src, &dst, &caps) {
                    Err(_) => "E".into(),
                    Ok(r) => format!(
                        "{} {} ck={} pl={}",
                        r.src_port,
                        r.dst_port,
                        p.checksum().map(|c| c.to_string()).unwrap_or("-".into()),
                        hex(p.payload())
                    ),
                }
            }
            "iphc_emit" => {
                let repr = SixlowpanIphcRepr {
                    src_addr: addr16(kv(&t, "src")),
                    ll_src_addr: ll_parse(kv(&t, "lls")),
                    dst_addr: addr16(kv(&t, "dst")),
                    ll_dst_addr: ll_parse(kv(&t, "lld")),
                    next_header: nh_parse(kv(&t, "nh")),
                    hop_limit: kvi(&t, "hl") as u8,
                    ecn: None,
                    dscp: None,
                    flow_label: None,
                };
                let mut buf = vec![kvi(&t, "fill") as u8; repr.buffer_len() + kvi(&t, "extra") as usize];
                repr.emit(&mut SixlowpanIphcPacket::new_unchecked(&mut buf[..]));
                format!("{} {}", repr.buffer_len(), hex(&buf))
            }
            "iphc_parse" => {
                let b = unhex(last(&t));
                let ctx: Vec<SixlowpanAddressContext> = match kv(&t, "ctx") {
                    "-" => vec![],
                    s => s
                        .split(',')
                        .map(|h| {
                            let mut a = [0u8; 8];
                            a.copy_from_slice(&unhex(h));
                            SixlowpanAddressContext(a)
                        })
                        .collect(),
                };
                let p = match SixlowpanIphcPacket::new_checked(&b[..]) {
                    Ok(p) => p,
                    Err(_) => return "E".into(),
                };
                match SixlowpanIphcRepr::parse(&p, ll_parse(kv(&t, "lls")), ll_parse(kv(&t, "lld")), &ctx) {
                    Err(_) => "E".into(),
                    Ok(r) => {
                        let o = |x: Option<u32>| x.map(|v| v.to_string()).unwrap_or("-".into());
                        format!(
                            "src={} dst={} nh={} hl={} tf={}/{}/{} hlen={}",
                            hex(&r.src_addr.octets()),
                            hex(&r.dst_addr.octets()),
                            nh_show(&r.next_header),
                            r.hop_limit,
                            o(r.ecn.map(|v| v as u32)),
                            o(r.dscp.map(|v| v as u32)),
                            o(r.flow_label.map(|v| v as u32)),
                            p.header_len()
                        )
                    }
                }
            }
            x => panic!("unknown wire op {}", x),
        }
    }));
    match r {
        Ok(s) => format!("r {}", s),
        Err(_) => "r PANIC".into(),
    }
}

// ------------------------------------------------------------------------------------------
// stream lowpan-wire: generator
// ------------------------------------------------------------------------------------------

fn gen_u16_boundary(rng: &mut Rng) -> u16 {
    match rng.below(8) {
        0 => *rng.pick(&[0u16, 1, 39, 40, 41, 47, 0x7ff, 0x800, 0xffff, 0xff, 0x100, 1280, 1500]),
        1 => rng.range(0, 2047) as u16,
        2 => rng.range(2040, 2060) as u16,
        _ => rng.next() as u16,
    }
}
fn gen_port(rng: &mut Rng) -> u16 {
    match rng.below(10) {
        0 | 1 => rng.range(0xf0b0, 0xf0bf) as u16,
        2 | 3 => rng.range(0xf000, 0xf0ff) as u16,
        4 => *rng.pick(&[0u16, 0xefff, 0xf000, 0xf0af, 0xf0b0, 0xf0bf, 0xf0c0, 0xf0ff, 0xf100, 0xffff]),
        _ => rng.next() as u16,
    }
}
fn gen_ll(rng: &mut Rng) -> Option<Ieee802154Address> {
    match rng.below(10) {
        0 => None,
        1 => Some(Ieee802154Address::Absent),
        2..=5 => {
            let b = rng.bytes(2);
            Some(Ieee802154Address::Short([b[0], b[1]]))
        }
        _ => {
            let b = rng.bytes(8);
            let mut a = [0u8; 8];
            a.copy_from_slice(&b);
            Some(Ieee802154Address::Extended(a))
        }
    }
}
/// an IPv6 address of one of the classes the IPHC encoder distinguishes, possibly matching `ll`
fn gen_addr(rng: &mut Rng, ll: &Option<Ieee802154Address>, dst: bool) -> [u8; 16] {
    let mut a = [0u8; 16];
    let r = rng.bytes(16);
    let class = rng.below(if dst { 16 } else { 11 });
    match class {
        0 => {} // unspecified
        1 | 2 => {
            // link-local derived from the link-layer address
            a[0] = 0xfe;
            a[1] = 0x80;
            match ll {
                Some(Ieee802154Address::Short(s)) => {
                    a[11] = 0xff;
                    a[12] = 0xfe;
                    a[14] = s[0];
                    a[15] = s[1];
                }
                Some(Ieee802154Address::Extended(e)) => {
                    a[8..].copy_from_slice(e);
                    a[8] ^= 2;
                }
                _ => a[8..].copy_from_slice(&r[8..]),
            }
        }
        3 => {
            // link-local, short form, not matching
            a[0] = 0xfe;
            a[1] = 0x80;
            a[11] = 0xff;
            a[12] = 0xfe;
            a[14] = r[14];
            a[15] = r[15];
        }
        4 => {
            // link-local, arbitrary IID
            a[0] = 0xfe;
            a[1] = 0x80;
            a[8..].copy_from_slice(&r[8..]);
        }
        5 => {
            // almost link-local (fe80::/10 but not fe80::/64)
            a.copy_from_slice(&r);
            a[0] = 0xfe;
            a[1] = 0x80 | (r[1] & 0x3f);
            if rng.chance(1, 2) {
                a[2..8].copy_from_slice(&[0, 0, 0, 0, 0, r[7] | 1]);
            }
        }
        6 | 7 => {
            // global / context-compressible prefix
            a.copy_from_slice(&r);
            a[0] = 0x20;
            a[1] = 0x01;
            a[2] = 0x0d;
            a[3] = 0xb8;
            a[4..8].copy_from_slice(&[0, 0, 0, r[7] & 3]);
        }
        8..=10 => a.copy_from_slice(&r),
        // multicast forms (dst only)
        11 => {
            a[0] = 0xff;
            a[1] = 0x02;
            a[15] = r[15];
        }
        12 => {
            a[0] = 0xff;
            a[1] = r[1];
            a[13..].copy_from_slice(&r[13..]);
        }
        13 => {
            a[0] = 0xff;
            a[1] = r[1];
            a[11..].copy_from_slice(&r[11..]);
        }
        14 => {
            a.copy_from_slice(&r);
            a[0] = 0xff;
        }
        _ => {
            // near misses of the multicast forms
            a[0] = 0xff;
            a[1] = if rng.chance(1, 2) { 0x02 } else { r[1] };
            let k = rng.range(2, 15) as usize;
            a[k] = r[k] | 1;
            a[15] = r[15];
        }
    }
    a
}
fn rb(rng: &mut Rng, lo: i64, hi: i64) -> Vec<u8> {
    let n = rng.range(lo, hi) as usize;
    rng.bytes(n)
}
fn mutate(rng: &mut Rng, b: &mut Vec<u8>) {
    match rng.below(6) {
        0 => {
            let n = rng.below(b.len() as u64 + 1) as usize;
            b.truncate(n);
        }
        1 if !b.is_empty() => {
            let i = rng.below(b.len() as u64) as usize;
            b[i] ^= 1 << rng.below(8);
        }
        2 if !b.is_empty() => {
            let i = rng.below(b.len() as u64) as usize;
            b[i] = rng.next() as u8;
        }
        3 => b.extend(rb(rng, 0, 3)),
        4 if !b.is_empty() => {
            // first octet: walk the dispatch space
            b[0] = rng.next() as u8;
        }
        _ => {}
    }
}

/// which op families the generator emits (the IPHC ones once Model/WireIphc.v exists)
const WITH_IPHC: bool = true;

fn gen_wire_op(rng: &mut Rng) -> String {
    match rng.below(if WITH_IPHC { 12 } else { 8 }) {
        0 | 1 => {
            let k = if rng.chance(1, 2) { "1" } else { "n" };
            format!(
                "frag_emit k={} size={} tag={} off={} fill={} extra={}",
                k,
                gen_u16_boundary(rng),
                gen_u16_boundary(rng),
                rng.next() as u8,
                *rng.pick(&[0u8, 0xff, 0xa5, 0x5a, 0x1f, 0xe0]),
                rng.below(3)
            )
        }
        2 | 3 => {
            // mostly-valid fragment header, then mutated
            let mut b = vec![];
            let size = gen_u16_boundary(rng) & 0x7ff;
            b.push(if rng.chance(1, 2) { 0xc0 } else { 0xe0 } | (size >> 8) as u8);
            b.push(size as u8);
            b.extend(rng.bytes(2));
            b.extend(rb(rng, 0, 7));
            if rng.chance(1, 2) {
                mutate(rng, &mut b);
            }
            format!("frag_parse {}", hex(&b))
        }
        4 | 5 => {
            let n = match rng.below(4) {
                0 => 0,
                1 => rng.range(1, 4) as usize,
                _ => rng.range(0, 60) as usize,
            };
            format!(
                "nhc_emit sp={} dp={} src={} dst={} pl={} fill={}",
                gen_port(rng),
                gen_port(rng),
                hex(&rng.bytes(16)),
                hex(&rng.bytes(16)),
                hex(&rng.bytes(n)),
                *rng.pick(&[0u8, 0xff, 0xa5, 0x07, 0xf8])
            )
        }
        6 | 7 => {
            // build a valid NHC-UDP header through the real emitter or by hand, then mutate
            let (src, dst) = (rng.bytes(16), rng.bytes(16));
            let mut b = vec![];
            let pmode = rng.below(4) as u8;
            let c = rng.chance(1, 4) as u8;
            b.push(0xf0 | (c << 2) | pmode);
            b.extend(rng.bytes(match pmode {
                0 => 4,
                1 | 2 => 3,
                _ => 1,
            }));
            if c == 0 {
                b.extend(rng.bytes(2));
            }
            b.extend(rb(rng, 0, 11));
            let mut rx = rng.chance(1, 3);
            if rng.chance(1, 4) {
                // a correct checksum: emit with the real encoder
                let repr = SixlowpanUdpNhcRepr(UdpRepr { src_port: gen_port(rng), dst_port: gen_port(rng) });
                let pl = rb(rng, 0, 19);
                let mut buf = vec![0u8; repr.header_len() + pl.len()];
                let ok = catch_unwind(AssertUnwindSafe(|| {
                    repr.emit(
                        &mut SixlowpanUdpNhcPacket::new_unchecked(&mut buf[..]),
                        &addr16(&hex(&src)),
                        &addr16(&hex(&dst)),
                        pl.len(),
                        |x| x.copy_from_slice(&pl),
                        &ChecksumCapabilities::default(),
                    )
                }))
                .is_ok();
                if ok {
                    b = buf;
                    rx = true;
                }
            }
            if rng.chance(1, 3) {
                mutate(rng, &mut b);
            }
            format!("nhc_parse src={} dst={} rx={} {}", hex(&src), hex(&dst), rx as u8, hex(&b))
        }
        8 | 9 => {
            let (lls, lld) = (gen_ll(rng), gen_ll(rng));
            let src = gen_addr(rng, &lls, false);
            let dst = gen_addr(rng, &lld, true);
            let nh = match rng.below(5) {
                0 => "c".to_string(),
                1 => "58".into(),
                2 => "6".into(),
                3 => "17".into(),
                _ => (rng.next() as u8).to_string(),
            };
            let hl = match rng.below(5) {
                0 => 1,
                1 => 64,
                2 => 255,
                3 => *rng.pick(&[0u8, 2, 63, 65, 254]),
                _ => rng.next() as u8,
            };
            format!(
                "iphc_emit src={} dst={} lls={} lld={} nh={} hl={} fill={} extra={}",
                hex(&src),
                hex(&dst),
                ll_show(&lls),
                ll_show(&lld),
                nh,
                hl,
                *rng.pick(&[0u8, 0xff, 0xa5, 0x5a]),
                rng.below(3)
            )
        }
        _ => {
            // IPHC parse: a header emitted by the real encoder (valid), or a random mode word, mutated
            let (lls, lld) = (gen_ll(rng), gen_ll(rng));
            let mut b;
            if rng.chance(1, 2) {
                let repr = SixlowpanIphcRepr {
                    src_addr: Ipv6Address::from_octets(gen_addr(rng, &lls, false)),
                    ll_src_addr: lls,
                    dst_addr: Ipv6Address::from_octets(gen_addr(rng, &lld, true)),
                    ll_dst_addr: lld,
                    next_header: if rng.chance(1, 3) { SixlowpanNextHeader::Compressed } else { SixlowpanNextHeader::Uncompressed(IpProtocol::from(rng.next() as u8)) },
                    hop_limit: *rng.pick(&[1u8, 64, 255, 7, 0]),
                    ecn: None,
                    dscp: None,
                    flow_label: None,
                };
                b = vec![0u8; repr.buffer_len()];
                let _ = catch_unwind(AssertUnwindSafe(|| repr.emit(&mut SixlowpanIphcPacket::new_unchecked(&mut b[..]))));
                b.extend(rb(rng, 0, 3));
            } else {
                let w = 0x6000 | (rng.next() as u16 & 0x1fff);
                b = vec![(w >> 8) as u8, w as u8];
                b.extend(rb(rng, 0, 42));
            }
            if rng.chance(1, 3) {
                mutate(rng, &mut b);
            }
            let nctx = rng.below(4);
            let ctx: Vec<String> = (0..nctx).map(|_| hex(&rng.bytes(8))).collect();
            // the receiver may see other link-layer addresses than the sender used
            let (pls, pld) = if rng.chance(1, 5) { (gen_ll(rng), gen_ll(rng)) } else { (lls, lld) };
            format!(
                "iphc_parse lls={} lld={} ctx={} {}",
                ll_show(&pls),
                ll_show(&pld),
                if ctx.is_empty() { "-".into() } else { ctx.join(",") },
                hex(&b)
            )
        }
    }
}

fn gen_wire_case(rng: &mut Rng, id: String) -> Case {
    let n = rng.range(4, 10);
    Case { id, cfg: vec![("s".into(), "wire".into())], ops: (0..n).map(|_| gen_wire_op(rng)).collect() }
}


// ------------------------------------------------------------------------------------------
// two real interfaces
// ------------------------------------------------------------------------------------------

const PAN: u16 = 0xbeef;
const PORT_TCP: u16 = 4242;

struct Node {
    iface: Interface,
    dev: QDev,
    sockets: SocketSet<'static>,
    h_udp: smoltcp::iface::SocketHandle,
    h_icmp: smoltcp::iface::SocketHandle,
    h_tcp: smoltcp::iface::SocketHandle,
    h_raw: [smoltcp::iface::SocketHandle; 3],
    ll: Option<Ieee802154Address>,
    now: i64,
}

const RAW_PROTOS: [IpProtocol; 3] = [IpProtocol::Udp, IpProtocol::Icmpv6, IpProtocol::Tcp];

fn mk_node(medium: Medium, ll: Option<Ieee802154Address>, ips: &[Ipv6Address], gw: Option<Ipv6Address>, mtu: usize, seed: u64) -> Node {
    let mut dev = QDev::new(medium, mtu);
    let hw = match medium {
        Medium::Ieee802154 => HardwareAddress::Ieee802154(ll.expect("ll address")),
        _ => HardwareAddress::Ip,
    };
    let mut config = Config::new(hw);
    config.random_seed = seed;
    if medium == Medium::Ieee802154 {
        config.pan_id = Some(Ieee802154Pan(PAN));
    }
    let mut iface = Interface::new(config, &mut dev, Instant::ZERO);
    iface.update_ip_addrs(|a| {
        for ip in ips {
            a.push(IpCidr::new(IpAddress::Ipv6(*ip), 64)).unwrap();
        }
    });
    if let Some(g) = gw {
        iface.routes_mut().add_default_ipv6_route(g).unwrap();
    }
    let mut sockets = SocketSet::new(vec![]);
    let pb = |n: usize, sz: usize| udp::PacketBuffer::new(vec![udp::PacketMetadata::EMPTY; n], vec![0u8; sz]);
    let h_udp = sockets.add(udp::Socket::new(pb(8, 8192), pb(8, 8192)));
    let ib = |n: usize, sz: usize| icmp::PacketBuffer::new(vec![icmp::PacketMetadata::EMPTY; n], vec![0u8; sz]);
    let h_icmp = sockets.add(icmp::Socket::new(ib(8, 8192), ib(8, 8192)));
    let h_tcp = sockets.add(tcp::Socket::new(tcp::SocketBuffer::new(vec![0u8; 4096]), tcp::SocketBuffer::new(vec![0u8; 4096])));
    let rb_ = |n: usize, sz: usize| raw::PacketBuffer::new(vec![raw::PacketMetadata::EMPTY; n], vec![0u8; sz]);
    let mut h_raw = vec![];
    for p in RAW_PROTOS {
        h_raw.push(sockets.add(raw::Socket::new(Some(IpVersion::Ipv6), Some(p), rb_(32, 16384), rb_(1, 64))));
    }
    Node { iface, dev, sockets, h_udp, h_icmp, h_tcp, h_raw: [h_raw[0], h_raw[1], h_raw[2]], ll, now: 0 }
}

impl Node {
    /// one `Interface::poll`; Err = panic
    fn poll(&mut self) -> std::result::Result<(), ()> {
        let t = Instant::from_millis(self.now);
        let (iface, dev, sockets) = (&mut self.iface, &mut self.dev, &mut self.sockets);
        catch_unwind(AssertUnwindSafe(|| {
            iface.poll(t, dev, sockets);
        }))
        .map_err(|_| ())
    }
    /// datagrams the raw sockets captured since the last call (protocol order, then arrival order)
    fn take_raw(&mut self) -> Vec<Vec<u8>> {
        let mut v = vec![];
        for h in self.h_raw {
            let s = self.sockets.get_mut::<raw::Socket>(h);
            while let Ok(d) = s.recv() {
                v.push(d.to_vec());
            }
        }
        v
    }
}

/// 802.15.4 data frame around a 6LoWPAN payload, as dispatch_ieee802154 builds it
fn mk_frame(src: Ieee802154Address, dst: Ieee802154Address, seq: u8, payload: &[u8]) -> Vec<u8> {
    let repr = Ieee802154Repr {
        frame_type: Ieee802154FrameType::Data,
        security_enabled: false,
        frame_pending: false,
        ack_request: false,
        sequence_number: Some(seq),
        pan_id_compression: true,
        frame_version: Ieee802154FrameVersion::Ieee802154_2003,
        dst_pan_id: Some(Ieee802154Pan(PAN)),
        dst_addr: Some(dst),
        src_pan_id: Some(Ieee802154Pan(PAN)),
        src_addr: Some(src),
    };
    let mut b = vec![0u8; repr.buffer_len() + payload.len()];
    repr.emit(&mut Ieee802154Frame::new_unchecked(&mut b[..]));
    let n = repr.buffer_len();
    b[n..].copy_from_slice(payload);
    b
}

/// (mac header length, 6LoWPAN payload) of a frame the stack emitted
fn split_frame(f: &[u8]) -> Option<(usize, Vec<u8>)> {
    let fr = Ieee802154Frame::new_checked(f).ok()?;
    let p = fr.payload()?;
    Some((f.len() - p.len(), p.to_vec()))
}

fn ll_default(which: u8, ext: bool) -> Ieee802154Address {
    if ext {
        Ieee802154Address::Extended([0x02, 0, 0, 0, 0, 0, 0, which])
    } else {
        Ieee802154Address::Short([0, which])
    }
}
fn ll_link_local(ll: &Ieee802154Address) -> Ipv6Address {
    let mut a = [0u8; 16];
    a[0] = 0xfe;
    a[1] = 0x80;
    match ll {
        Ieee802154Address::Short(s) => {
            a[11] = 0xff;
            a[12] = 0xfe;
            a[14] = s[0];
            a[15] = s[1];
        }
        Ieee802154Address::Extended(e) => {
            a[8..].copy_from_slice(e);
            a[8] ^= 2;
        }
        _ => {}
    }
    Ipv6Address::from_octets(a)
}

// ------------------------------------------------------------------------------------------
// frame injection: `Interface::poll` must not panic on any 802.15.4 frame sequence
//   case <id> s=inject ll=<LL of the receiver>
//   f <dt_ms> <hex frame>          -> `r ok tx=<frames sent> rx=<datagrams at raw sockets>` | `r PANIC`
// ------------------------------------------------------------------------------------------

fn inject_case(c: &Case, out: &mut dyn Write) -> Vec<String> {
    let ll = ll_parse(c.get("ll").unwrap_or("e:0200000000000002")).unwrap();
    let mut b = mk_node(Medium::Ieee802154, Some(ll), &[ll_link_local(&ll)], None, 127, 7);
    b.sockets.get_mut::<udp::Socket>(b.h_udp).bind(53).unwrap();
    b.sockets.get_mut::<tcp::Socket>(b.h_tcp).listen(PORT_TCP).unwrap();
    let mut fails = vec![];
    writeln!(out, "case {}", c.id).unwrap();
    for (k, op) in c.ops.iter().enumerate() {
        let t: Vec<&str> = op.split_whitespace().collect();
        if t[0] != "f" {
            continue;
        }
        b.now += t[1].parse::<i64>().unwrap();
        b.dev.rx.push_back(unhex(t[2]));
        match b.poll() {
            Ok(()) => {
                let tx = b.dev.drain_tx().len();
                let rx = b.take_raw().len();
                writeln!(out, "r ok tx={} rx={}", tx, rx).unwrap();
            }
            Err(()) => {
                writeln!(out, "r PANIC").unwrap();
                fails.push(format!("poll-panics-on-frame :: case {} op#{} frame {}", c.id, k, t[2]));
                break;
            }
        }
    }
    fails
}

fn main() {
    if std::env::var("LOUD").is_err() {
        quiet_panics();
    }
    let (sub, seed, n, _tier) = args();
    let stdout = std::io::stdout();
    let mut out = std::io::BufWriter::new(stdout.lock());
    match sub.as_str() {
        "gen-wire" => {
            let mut rng = Rng::new(seed ^ 0x77);
            for i in 0..n {
                gen_wire_case(&mut rng, format!("w{}-{}", seed, i)).write(&mut out);
            }
        }
        "run-wire" => {
            for c in stdin_cases() {
                writeln!(out, "case {}", c.id).unwrap();
                for op in &c.ops {
                    writeln!(out, "{}", wire_op(op)).unwrap();
                }
            }
        }
        "inject-replay" => {
            let mut fails = vec![];
            for c in stdin_cases() {
                fails.extend(inject_case(&c, &mut out));
            }
            for f in &fails {
                writeln!(out, "FAIL {}", f).unwrap();
            }
        }
        x => panic!("unknown subcommand {}", x),
    }
    let _ = (BTreeMap::<u8, u8>::new(), Duration::ZERO, Instant::ZERO, Medium::Ip);
    let _ = |_: Config, _: Interface, _: SocketSet, _: QDev, _: icmp::Endpoint| {};
    let _ = |_: raw::PacketMetadata, _: tcp::State, _: udp::PacketMetadata| {};
}
