//! Streams `lowpan-wire` and `lowpan` (property C20: 6LoWPAN compression and fragmentation are lossless).
//!
//! Subcommands:  gen-wire / run-wire            stream `lowpan-wire`
//!               gen / run                      stream `lowpan`
//!               oracle / oracle-replay         end-to-end oracles on two real interfaces
//!               oracle-inject / inject-replay  `Interface::poll` on mutated 802.15.4 frames
//!
//! ## Stream `lowpan-wire`   (one observation line `r ...` per op; `r PANIC` if the real code panics)
//!   frag_emit k=<1|n> size=<u16> tag=<u16> off=<u8> fill=<u8> extra=<n>
//!        SixlowpanFragRepr::emit into a buffer of buffer_len()+extra octets filled with `fill`
//!        -> `r <hex of the whole buffer>`
//!   frag_parse <hex>
//!        SixlowpanFragPacket::new_checked + SixlowpanFragRepr::parse + payload()
//!        -> `r E` | `r first <size> <tag> pl=<hex>` | `r next <size> <tag> <off> pl=<hex>`
//!   nhc_emit sp=<u16> dp=<u16> src=<hex16> dst=<hex16> pl=<hex> fill=<u8>
//!        SixlowpanUdpNhcRepr::emit (default checksum capabilities) into header_len()+|pl| octets
//!        -> `r <header_len> <hex>`
//!   nhc_parse src=<hex16> dst=<hex16> rx=<0|1> <hex>
//!        SixlowpanUdpNhcPacket::new_checked + SixlowpanUdpNhcRepr::parse (rx=1: verify checksum)
//!        -> `r E` | `r <sp> <dp> ck=<u16|-> pl=<hex>`
//!   iphc_emit src=<hex16> dst=<hex16> lls=<LL> lld=<LL> nh=<c|proto> hl=<u8> fill=<u8> extra=<n>
//!        SixlowpanIphcRepr::emit -> `r <buffer_len> <hex of the whole buffer>`
//!   iphc_parse lls=<LL> lld=<LL> ctx=<hex8,hex8,..|-> <hex>
//!        SixlowpanIphcPacket::new_checked + SixlowpanIphcRepr::parse
//!        -> `r E` | `r src=<hex16> dst=<hex16> nh=<c|proto> hl=<u8> tf=<ecn|->/<dscp|->/<fl|-> hlen=<n>`
//!   ext_emit id=<0..5|7> nh=<c|proto> len=<u8> fill=<u8> extra=<n>
//!        SixlowpanExtHeaderRepr::emit into buffer_len()+extra octets filled with `fill`, then the
//!        ext_parse observation of the emitted buffer  -> `r <buffer_len> <hex> | <ext_parse result>`
//!        (id = the number set_extension_header_id writes: HopByHop 0 .. Mobility 4, Reserved 5, Header 7)
//!   ext_parse <hex>
//!        SixlowpanExtHeaderPacket::new_checked + SixlowpanExtHeaderRepr::parse + payload()
//!        -> `r E` | `r id=<n> nh=<c|proto> len=<u8> blen=<n> pl=<hex>`
//!   LL = `-` (None) | `a` (Absent) | `s:<hex2>` | `e:<hex8>`
use smoltcp::iface::{Config, Interface, SocketSet};
use smoltcp::phy::{ChecksumCapabilities, Medium};
use smoltcp::socket::{icmp, raw, tcp, udp};
use smoltcp::time::{Duration, Instant};
use smoltcp::wire::*;
use std::collections::BTreeMap;
use std::io::Write;
use std::panic::{catch_unwind, AssertUnwindSafe};
use svh::dev::QDev;
use svh::*;

// ------------------------------------------------------------------------------------------
// small parsing helpers
// ------------------------------------------------------------------------------------------

fn kv<'a>(toks: &'a [&'a str], k: &str) -> &'a str {
    for t in toks {
        if let Some((a, b)) = t.split_once('=') {
            if a == k {
                return b;
            }
        }
    }
    panic!("missing key {} in {:?}", k, toks)
}
fn kvi(toks: &[&str], k: &str) -> i64 {
    kv(toks, k).parse().expect("int")
}
fn last<'a>(toks: &'a [&'a str]) -> &'a str {
    toks[toks.len() - 1]
}
fn addr16(s: &str) -> Ipv6Address {
    let b = unhex(s);
    let mut a = [0u8; 16];
    a.copy_from_slice(&b);
    Ipv6Address::from_octets(a)
}
fn ll_parse(s: &str) -> Option<Ieee802154Address> {
    match s {
        "-" => None,
        "a" => Some(Ieee802154Address::Absent),
        _ => {
            let (k, h) = s.split_once(':').expect("ll");
            let b = unhex(h);
            match k {
                "s" => Some(Ieee802154Address::Short([b[0], b[1]])),
                "e" => {
                    let mut a = [0u8; 8];
                    a.copy_from_slice(&b);
                    Some(Ieee802154Address::Extended(a))
                }
                _ => panic!("ll kind"),
            }
        }
    }
}
fn ll_show(a: &Option<Ieee802154Address>) -> String {
    match a {
        None => "-".into(),
        Some(Ieee802154Address::Absent) => "a".into(),
        Some(Ieee802154Address::Short(b)) => format!("s:{}", hex(b)),
        Some(Ieee802154Address::Extended(b)) => format!("e:{}", hex(b)),
    }
}
fn nh_show(nh: &SixlowpanNextHeader) -> String {
    match nh {
        SixlowpanNextHeader::Compressed => "c".into(),
        SixlowpanNextHeader::Uncompressed(p) => format!("{}", u8::from(*p)),
    }
}
fn nh_parse(s: &str) -> SixlowpanNextHeader {
    if s == "c" {
        SixlowpanNextHeader::Compressed
    } else {
        SixlowpanNextHeader::Uncompressed(IpProtocol::from(s.parse::<u8>().unwrap()))
    }
}

fn ext_id_parse(n: u64) -> SixlowpanExtHeaderId {
    match n {
        0 => SixlowpanExtHeaderId::HopByHopHeader,
        1 => SixlowpanExtHeaderId::RoutingHeader,
        2 => SixlowpanExtHeaderId::FragmentHeader,
        3 => SixlowpanExtHeaderId::DestinationOptionsHeader,
        4 => SixlowpanExtHeaderId::MobilityHeader,
        5 => SixlowpanExtHeaderId::Reserved,
        7 => SixlowpanExtHeaderId::Header,
        x => panic!("bad ext id {}", x),
    }
}
fn ext_id_show(i: SixlowpanExtHeaderId) -> u8 {
    match i {
        SixlowpanExtHeaderId::HopByHopHeader => 0,
        SixlowpanExtHeaderId::RoutingHeader => 1,
        SixlowpanExtHeaderId::FragmentHeader => 2,
        SixlowpanExtHeaderId::DestinationOptionsHeader => 3,
        SixlowpanExtHeaderId::MobilityHeader => 4,
        SixlowpanExtHeaderId::Reserved => 5,
        SixlowpanExtHeaderId::Header => 7,
    }
}
fn ext_parse_show(b: &[u8]) -> String {
    let p = match SixlowpanExtHeaderPacket::new_checked(b) {
        Ok(p) => p,
        Err(_) => return "E".into(),
    };
    match SixlowpanExtHeaderRepr::parse(&p) {
        Err(_) => "E".into(),
        Ok(r) => format!(
            "id={} nh={} len={} blen={} pl={}",
            ext_id_show(r.ext_header_id),
            nh_show(&r.next_header),
            r.length,
            r.buffer_len(),
            hex(p.payload())
        ),
    }
}

// ------------------------------------------------------------------------------------------
// stream lowpan-wire: implementation side
// ------------------------------------------------------------------------------------------

fn wire_op(op: &str) -> String {
    let t: Vec<&str> = op.split_whitespace().collect();
    let r = catch_unwind(AssertUnwindSafe(|| -> String {
        match t[0] {
            "frag_emit" => {
                let (size, tag, off) = (kvi(&t, "size") as u16, kvi(&t, "tag") as u16, kvi(&t, "off") as u8);
                let repr = if kv(&t, "k") == "1" {
                    SixlowpanFragRepr::FirstFragment { size, tag }
                } else {
                    SixlowpanFragRepr::Fragment { size, tag, offset: off }
                };
                let mut buf = vec![kvi(&t, "fill") as u8; repr.buffer_len() + kvi(&t, "extra") as usize];
                repr.emit(&mut SixlowpanFragPacket::new_unchecked(&mut buf[..]));
                hex(&buf)
            }
            "frag_parse" => {
                let b = unhex(last(&t));
                let p = match SixlowpanFragPacket::new_checked(&b[..]) {
                    Ok(p) => p,
                    Err(_) => return "E".into(),
                };
                match SixlowpanFragRepr::parse(&p) {
                    Err(_) => "E".into(),
                    Ok(SixlowpanFragRepr::FirstFragment { size, tag }) => {
                        format!("first {} {} pl={}", size, tag, hex(p.payload()))
                    }
                    Ok(SixlowpanFragRepr::Fragment { size, tag, offset }) => {
                        format!("next {} {} {} pl={}", size, tag, offset, hex(p.payload()))
                    }
                }
            }
            "nhc_emit" => {
                let repr = SixlowpanUdpNhcRepr(UdpRepr { src_port: kvi(&t, "sp") as u16, dst_port: kvi(&t, "dp") as u16 });
                let pl = unhex(kv(&t, "pl"));
                let (src, dst) = (addr16(kv(&t, "src")), addr16(kv(&t, "dst")));
                let mut buf = vec![kvi(&t, "fill") as u8; repr.header_len() + pl.len()];
                repr.emit(
                    &mut SixlowpanUdpNhcPacket::new_unchecked(&mut buf[..]),
                    &src,
                    &dst,
                    pl.len(),
                    |b| b.copy_from_slice(&pl),
                    &ChecksumCapabilities::default(),
                );
                format!("{} {}", repr.header_len(), hex(&buf))
            }
            "nhc_parse" => {
                let b = unhex(last(&t));
                let (src, dst) = (addr16(kv(&t, "src")), addr16(kv(&t, "dst")));
                let caps = if kvi(&t, "rx") == 1 { ChecksumCapabilities::default() } else { ChecksumCapabilities::ignored() };
                let p = match SixlowpanUdpNhcPacket::new_checked(&b[..]) {
                    Ok(p) => p,
                    Err(_) => return "E".into(),
                };
                match SixlowpanUdpNhcRepr::parse(&p, &src, &dst, &caps) {
                    Err(_) => "E".into(),
                    Ok(r) => format!(
                        "{} {} ck={} pl={}",
                        r.src_port,
                        r.dst_port,
                        p.checksum().map(|c| c.to_string()).unwrap_or("-".into()),
                        hex(p.payload())
                    ),
                }
            }
            "iphc_emit" => {
                let repr = SixlowpanIphcRepr {
                    src_addr: addr16(kv(&t, "src")),
                    ll_src_addr: ll_parse(kv(&t, "lls")),
                    dst_addr: addr16(kv(&t, "dst")),
                    ll_dst_addr: ll_parse(kv(&t, "lld")),
                    next_header: nh_parse(kv(&t, "nh")),
                    hop_limit: kvi(&t, "hl") as u8,
                    ecn: None,
                    dscp: None,
                    flow_label: None,
                };
                let mut buf = vec![kvi(&t, "fill") as u8; repr.buffer_len() + kvi(&t, "extra") as usize];
                repr.emit(&mut SixlowpanIphcPacket::new_unchecked(&mut buf[..]));
                format!("{} {}", repr.buffer_len(), hex(&buf))
            }
            "iphc_parse" => {
                let b = unhex(last(&t));
                let ctx: Vec<SixlowpanAddressContext> = match kv(&t, "ctx") {
                    "-" => vec![],
                    s => s
                        .split(',')
                        .map(|h| {
                            let mut a = [0u8; 8];
                            a.copy_from_slice(&unhex(h));
                            SixlowpanAddressContext(a)
                        })
                        .collect(),
                };
                let p = match SixlowpanIphcPacket::new_checked(&b[..]) {
                    Ok(p) => p,
                    Err(_) => return "E".into(),
                };
                match SixlowpanIphcRepr::parse(&p, ll_parse(kv(&t, "lls")), ll_parse(kv(&t, "lld")), &ctx) {
                    Err(_) => "E".into(),
                    Ok(r) => {
                        let o = |x: Option<u32>| x.map(|v| v.to_string()).unwrap_or("-".into());
                        format!(
                            "src={} dst={} nh={} hl={} tf={}/{}/{} hlen={}",
                            hex(&r.src_addr.octets()),
                            hex(&r.dst_addr.octets()),
                            nh_show(&r.next_header),
                            r.hop_limit,
                            o(r.ecn.map(|v| v as u32)),
                            o(r.dscp.map(|v| v as u32)),
                            o(r.flow_label.map(|v| v as u32)),
                            p.header_len()
                        )
                    }
                }
            }
            "ext_emit" => {
                let repr = SixlowpanExtHeaderRepr {
                    ext_header_id: ext_id_parse(kvi(&t, "id") as u64),
                    next_header: nh_parse(kv(&t, "nh")),
                    length: kvi(&t, "len") as u8,
                };
                let mut buf = vec![kvi(&t, "fill") as u8; repr.buffer_len() + kvi(&t, "extra") as usize];
                repr.emit(&mut SixlowpanExtHeaderPacket::new_unchecked(&mut buf[..]));
                format!("{} {} | {}", repr.buffer_len(), hex(&buf), ext_parse_show(&buf))
            }
            "ext_parse" => ext_parse_show(&unhex(last(&t))),
            x => panic!("unknown wire op {}", x),
        }
    }));
    match r {
        Ok(s) => format!("r {}", s),
        Err(_) => "r PANIC".into(),
    }
}

// ------------------------------------------------------------------------------------------
// stream lowpan-wire: generator
// ------------------------------------------------------------------------------------------

fn gen_u16_boundary(rng: &mut Rng) -> u16 {
    match rng.below(8) {
        0 => *rng.pick(&[0u16, 1, 39, 40, 41, 47, 0x7ff, 0x800, 0xffff, 0xff, 0x100, 1280, 1500]),
        1 => rng.range(0, 2047) as u16,
        2 => rng.range(2040, 2060) as u16,
        _ => rng.next() as u16,
    }
}
fn gen_port(rng: &mut Rng) -> u16 {
    match rng.below(10) {
        0 | 1 => rng.range(0xf0b0, 0xf0bf) as u16,
        2 | 3 => rng.range(0xf000, 0xf0ff) as u16,
        4 => *rng.pick(&[0u16, 0xefff, 0xf000, 0xf0af, 0xf0b0, 0xf0bf, 0xf0c0, 0xf0ff, 0xf100, 0xffff]),
        _ => rng.next() as u16,
    }
}
fn gen_ll(rng: &mut Rng) -> Option<Ieee802154Address> {
    match rng.below(10) {
        0 => None,
        1 => Some(Ieee802154Address::Absent),
        2..=5 => {
            let b = rng.bytes(2);
            Some(Ieee802154Address::Short([b[0], b[1]]))
        }
        _ => {
            let b = rng.bytes(8);
            let mut a = [0u8; 8];
            a.copy_from_slice(&b);
            Some(Ieee802154Address::Extended(a))
        }
    }
}
/// an IPv6 address of one of the classes the IPHC encoder distinguishes, possibly matching `ll`
fn gen_addr(rng: &mut Rng, ll: &Option<Ieee802154Address>, dst: bool) -> [u8; 16] {
    let mut a = [0u8; 16];
    let r = rng.bytes(16);
    let class = rng.below(if dst { 16 } else { 11 });
    match class {
        0 => {} // unspecified
        1 | 2 => {
            // link-local derived from the link-layer address
            a[0] = 0xfe;
            a[1] = 0x80;
            match ll {
                Some(Ieee802154Address::Short(s)) => {
                    a[11] = 0xff;
                    a[12] = 0xfe;
                    a[14] = s[0];
                    a[15] = s[1];
                }
                Some(Ieee802154Address::Extended(e)) => {
                    a[8..].copy_from_slice(e);
                    a[8] ^= 2;
                }
                _ => a[8..].copy_from_slice(&r[8..]),
            }
        }
        3 => {
            // link-local, short form, not matching
            a[0] = 0xfe;
            a[1] = 0x80;
            a[11] = 0xff;
            a[12] = 0xfe;
            a[14] = r[14];
            a[15] = r[15];
        }
        4 => {
            // link-local, arbitrary IID
            a[0] = 0xfe;
            a[1] = 0x80;
            a[8..].copy_from_slice(&r[8..]);
        }
        5 if rng.chance(1, 2) => {
            // near misses of the compressible link-local forms: one octet of the pattern is off
            a[0] = 0xfe;
            a[1] = 0x80;
            match rng.below(3) {
                0 => {
                    // 0000:00ff:fe00:XXXX with one octet changed
                    a[11] = 0xff;
                    a[12] = 0xfe;
                    a[14] = r[14];
                    a[15] = r[15];
                    if let Some(Ieee802154Address::Short(s)) = ll {
                        if rng.chance(1, 2) {
                            a[14] = s[0];
                            a[15] = s[1];
                        }
                    }
                    let k = rng.range(8, 13) as usize;
                    a[k] ^= 1 << rng.below(8);
                }
                1 => {
                    // EUI-64 of the link-layer address with one bit changed
                    if let Some(Ieee802154Address::Extended(e)) = ll {
                        a[8..].copy_from_slice(e);
                        a[8] ^= 2;
                    } else {
                        a[8..].copy_from_slice(&r[8..]);
                    }
                    let k = rng.range(8, 15) as usize;
                    a[k] ^= 1 << rng.below(8);
                }
                _ => {
                    // all but one octet zero (near the unspecified address / the bare prefix)
                    if rng.chance(1, 2) {
                        a[0] = 0;
                        a[1] = 0;
                    }
                    let k = rng.range(0, 15) as usize;
                    a[k] = r[k] | 1;
                }
            }
        }
        5 => {
            // almost link-local (fe80::/10 but not fe80::/64)
            a.copy_from_slice(&r);
            a[0] = 0xfe;
            a[1] = 0x80 | (r[1] & 0x3f);
            if rng.chance(1, 2) {
                a[2..8].copy_from_slice(&[0, 0, 0, 0, 0, r[7] | 1]);
            }
        }
        6 | 7 => {
            // global / context-compressible prefix
            a.copy_from_slice(&r);
            a[0] = 0x20;
            a[1] = 0x01;
            a[2] = 0x0d;
            a[3] = 0xb8;
            a[4..8].copy_from_slice(&[0, 0, 0, r[7] & 3]);
        }
        8..=10 => a.copy_from_slice(&r),
        // multicast forms (dst only)
        11 => {
            // ff02::00XX is the 8-bit form; the same shape with any other scope nibble is not
            a[0] = 0xff;
            a[1] = if rng.chance(1, 2) { 0x02 } else { r[1] & 0x0f };
            a[15] = r[15];
        }
        12 => {
            a[0] = 0xff;
            a[1] = r[1];
            a[13..].copy_from_slice(&r[13..]);
        }
        13 => {
            a[0] = 0xff;
            a[1] = r[1];
            a[11..].copy_from_slice(&r[11..]);
        }
        14 => {
            a.copy_from_slice(&r);
            a[0] = 0xff;
        }
        _ => {
            // near misses of the multicast forms
            a[0] = 0xff;
            a[1] = if rng.chance(1, 2) { 0x02 } else { r[1] };
            let k = rng.range(2, 15) as usize;
            a[k] = r[k] | 1;
            a[15] = r[15];
        }
    }
    a
}
fn rb(rng: &mut Rng, lo: i64, hi: i64) -> Vec<u8> {
    let n = rng.range(lo, hi) as usize;
    rng.bytes(n)
}
fn mutate(rng: &mut Rng, b: &mut Vec<u8>) {
    match rng.below(6) {
        0 => {
            let n = rng.below(b.len() as u64 + 1) as usize;
            b.truncate(n);
        }
        1 if !b.is_empty() => {
            let i = rng.below(b.len() as u64) as usize;
            b[i] ^= 1 << rng.below(8);
        }
        2 if !b.is_empty() => {
            let i = rng.below(b.len() as u64) as usize;
            b[i] = rng.next() as u8;
        }
        3 => b.extend(rb(rng, 0, 3)),
        4 if !b.is_empty() => {
            // first octet: walk the dispatch space
            b[0] = rng.next() as u8;
        }
        _ => {}
    }
}

/// which op families the generator emits (the IPHC ones once Model/WireIphc.v exists)
const WITH_IPHC: bool = true;

fn gen_wire_op(rng: &mut Rng) -> String {
    match rng.below(if WITH_IPHC { 14 } else { 8 }) {
        12 => {
            let len = match rng.below(4) {
                0 => 0,
                1 => rng.range(1, 9) as u8,
                2 => *rng.pick(&[8u8, 16, 254, 255]),
                _ => rng.next() as u8,
            };
            // the buffer holds the header plus, usually, the announced octets (sometimes one short / one more)
            let extra = match rng.below(6) {
                0 => 0,
                1 => (len as u64).saturating_sub(1),
                2 => len as u64 + 1,
                _ => len as u64,
            };
            format!(
                "ext_emit id={} nh={} len={} fill={} extra={}",
                *rng.pick(&[0u8, 1, 2, 3, 4, 5, 7]),
                match rng.below(4) {
                    0 | 1 => "c".to_string(),
                    2 => rng.pick(&[0u8, 6, 17, 43, 44, 58, 59, 60, 255]).to_string(),
                    _ => (rng.next() as u8).to_string(),
                },
                len,
                *rng.pick(&[0u8, 0xff, 0xa5, 0x5a, 0x1f, 0xe0, 0x0e, 0xf1]),
                extra
            )
        }
        13 => {
            // a well-formed NHC extension header (any 3-bit id, either next-header form), then mutated
            let mut b = vec![];
            let nh = rng.chance(1, 2) as u8;
            b.push(0xe0 | ((rng.below(8) as u8) << 1) | nh);
            if nh == 0 {
                b.push(rng.next() as u8);
            }
            let len = if rng.chance(1, 2) { rng.below(12) as u8 } else { rng.next() as u8 };
            b.push(len);
            let have = match rng.below(5) {
                0 => (len as usize).saturating_sub(1),
                1 => len as usize + 2,
                _ => len as usize,
            };
            b.extend(rng.bytes(have));
            if rng.chance(1, 3) {
                mutate(rng, &mut b);
            }
            format!("ext_parse {}", hex(&b))
        }
        0 | 1 => {
            let k = if rng.chance(1, 2) { "1" } else { "n" };
            format!(
                "frag_emit k={} size={} tag={} off={} fill={} extra={}",
                k,
                gen_u16_boundary(rng),
                gen_u16_boundary(rng),
                rng.next() as u8,
                *rng.pick(&[0u8, 0xff, 0xa5, 0x5a, 0x1f, 0xe0]),
                rng.below(3)
            )
        }
        2 | 3 => {
            // mostly-valid fragment header, then mutated
            let mut b = vec![];
            let size = gen_u16_boundary(rng) & 0x7ff;
            b.push(if rng.chance(1, 2) { 0xc0 } else { 0xe0 } | (size >> 8) as u8);
            b.push(size as u8);
            b.extend(rng.bytes(2));
            b.extend(rb(rng, 0, 7));
            if rng.chance(1, 2) {
                mutate(rng, &mut b);
            }
            format!("frag_parse {}", hex(&b))
        }
        4 | 5 => {
            let n = match rng.below(4) {
                0 => 0,
                1 => rng.range(1, 4) as usize,
                _ => rng.range(0, 60) as usize,
            };
            format!(
                "nhc_emit sp={} dp={} src={} dst={} pl={} fill={}",
                gen_port(rng),
                gen_port(rng),
                hex(&rng.bytes(16)),
                hex(&rng.bytes(16)),
                hex(&rng.bytes(n)),
                *rng.pick(&[0u8, 0xff, 0xa5, 0x07, 0xf8])
            )
        }
        6 | 7 => {
            // build a valid NHC-UDP header through the real emitter or by hand, then mutate
            let (src, dst) = (rng.bytes(16), rng.bytes(16));
            let mut b = vec![];
            let pmode = rng.below(4) as u8;
            let c = rng.chance(1, 4) as u8;
            b.push(0xf0 | (c << 2) | pmode);
            b.extend(rng.bytes(match pmode {
                0 => 4,
                1 | 2 => 3,
                _ => 1,
            }));
            if c == 0 {
                b.extend(rng.bytes(2));
            }
            b.extend(rb(rng, 0, 11));
            let mut rx = rng.chance(1, 3);
            if rng.chance(1, 4) {
                // a correct checksum: emit with the real encoder
                let repr = SixlowpanUdpNhcRepr(UdpRepr { src_port: gen_port(rng), dst_port: gen_port(rng) });
                let pl = rb(rng, 0, 19);
                let mut buf = vec![0u8; repr.header_len() + pl.len()];
                let ok = catch_unwind(AssertUnwindSafe(|| {
                    repr.emit(
                        &mut SixlowpanUdpNhcPacket::new_unchecked(&mut buf[..]),
                        &addr16(&hex(&src)),
                        &addr16(&hex(&dst)),
                        pl.len(),
                        |x| x.copy_from_slice(&pl),
                        &ChecksumCapabilities::default(),
                    )
                }))
                .is_ok();
                if ok {
                    b = buf;
                    rx = true;
                }
            }
            if rng.chance(1, 3) {
                mutate(rng, &mut b);
            }
            format!("nhc_parse src={} dst={} rx={} {}", hex(&src), hex(&dst), rx as u8, hex(&b))
        }
        8 | 9 => {
            let (lls, lld) = (gen_ll(rng), gen_ll(rng));
            let src = gen_addr(rng, &lls, false);
            let dst = gen_addr(rng, &lld, true);
            let nh = match rng.below(5) {
                0 => "c".to_string(),
                1 => "58".into(),
                2 => "6".into(),
                3 => "17".into(),
                _ => (rng.next() as u8).to_string(),
            };
            let hl = match rng.below(5) {
                0 => 1,
                1 => 64,
                2 => 255,
                3 => *rng.pick(&[0u8, 2, 63, 65, 254]),
                _ => rng.next() as u8,
            };
            format!(
                "iphc_emit src={} dst={} lls={} lld={} nh={} hl={} fill={} extra={}",
                hex(&src),
                hex(&dst),
                ll_show(&lls),
                ll_show(&lld),
                nh,
                hl,
                *rng.pick(&[0u8, 0xff, 0xa5, 0x5a]),
                rng.below(3)
            )
        }
        _ => {
            // IPHC parse: a header emitted by the real encoder (valid), or a random mode word, mutated
            let (lls, lld) = (gen_ll(rng), gen_ll(rng));
            let mut b;
            if rng.chance(1, 2) {
                let repr = SixlowpanIphcRepr {
                    src_addr: Ipv6Address::from_octets(gen_addr(rng, &lls, false)),
                    ll_src_addr: lls,
                    dst_addr: Ipv6Address::from_octets(gen_addr(rng, &lld, true)),
                    ll_dst_addr: lld,
                    next_header: if rng.chance(1, 3) { SixlowpanNextHeader::Compressed } else { SixlowpanNextHeader::Uncompressed(IpProtocol::from(rng.next() as u8)) },
                    hop_limit: *rng.pick(&[1u8, 64, 255, 7, 0]),
                    ecn: None,
                    dscp: None,
                    flow_label: None,
                };
                b = vec![0u8; repr.buffer_len()];
                let _ = catch_unwind(AssertUnwindSafe(|| repr.emit(&mut SixlowpanIphcPacket::new_unchecked(&mut b[..]))));
                b.extend(rb(rng, 0, 3));
            } else {
                let w = 0x6000 | (rng.next() as u16 & 0x1fff);
                b = vec![(w >> 8) as u8, w as u8];
                b.extend(rb(rng, 0, 42));
            }
            if rng.chance(1, 3) {
                mutate(rng, &mut b);
            }
            let nctx = rng.below(4);
            let ctx: Vec<String> = (0..nctx).map(|_| hex(&rng.bytes(8))).collect();
            // the receiver may see other link-layer addresses than the sender used
            let (pls, pld) = if rng.chance(1, 5) { (gen_ll(rng), gen_ll(rng)) } else { (lls, lld) };
            format!(
                "iphc_parse lls={} lld={} ctx={} {}",
                ll_show(&pls),
                ll_show(&pld),
                if ctx.is_empty() { "-".into() } else { ctx.join(",") },
                hex(&b)
            )
        }
    }
}

fn gen_wire_case(rng: &mut Rng, id: String) -> Case {
    let n = rng.range(4, 10);
    Case { id, cfg: vec![("s".into(), "wire".into())], ops: (0..n).map(|_| gen_wire_op(rng)).collect() }
}


// ------------------------------------------------------------------------------------------
// two real interfaces
// ------------------------------------------------------------------------------------------

const PAN: u16 = 0xbeef;
const PORT_TCP: u16 = 4242;

struct Node {
    iface: Interface,
    dev: QDev,
    sockets: SocketSet<'static>,
    h_udp: smoltcp::iface::SocketHandle,
    h_icmp: smoltcp::iface::SocketHandle,
    h_tcp: smoltcp::iface::SocketHandle,
    h_raw: Vec<smoltcp::iface::SocketHandle>,
    ll: Option<Ieee802154Address>,
    now: i64,
}

const RAW_PROTOS: [IpProtocol; 7] =
    [IpProtocol::Udp, IpProtocol::Icmpv6, IpProtocol::Tcp, IpProtocol::HopByHop, IpProtocol::Ipv6Route, IpProtocol::Ipv6Opts, IpProtocol::Ipv6Frag];

fn mk_node(medium: Medium, ll: Option<Ieee802154Address>, ips: &[Ipv6Address], gw: Option<Ipv6Address>, mtu: usize, seed: u64) -> Node {
    let mut dev = QDev::new(medium, mtu);
    let hw = match medium {
        Medium::Ieee802154 => HardwareAddress::Ieee802154(ll.expect("ll address")),
        _ => HardwareAddress::Ip,
    };
    let mut config = Config::new(hw);
    config.random_seed = seed;
    if medium == Medium::Ieee802154 {
        config.pan_id = Some(Ieee802154Pan(PAN));
    }
    let mut iface = Interface::new(config, &mut dev, Instant::ZERO);
    iface.update_ip_addrs(|a| {
        for ip in ips {
            a.push(IpCidr::new(IpAddress::Ipv6(*ip), 64)).unwrap();
        }
    });
    if let Some(g) = gw {
        iface.routes_mut().add_default_ipv6_route(g).unwrap();
    }
    let mut sockets = SocketSet::new(vec![]);
    let pb = |n: usize, sz: usize| udp::PacketBuffer::new(vec![udp::PacketMetadata::EMPTY; n], vec![0u8; sz]);
    let h_udp = sockets.add(udp::Socket::new(pb(8, 8192), pb(8, 8192)));
    let ib = |n: usize, sz: usize| icmp::PacketBuffer::new(vec![icmp::PacketMetadata::EMPTY; n], vec![0u8; sz]);
    let h_icmp = sockets.add(icmp::Socket::new(ib(8, 8192), ib(8, 8192)));
    let h_tcp = sockets.add(tcp::Socket::new(tcp::SocketBuffer::new(vec![0u8; 4096]), tcp::SocketBuffer::new(vec![0u8; 4096])));
    let rb_ = |n: usize, sz: usize| raw::PacketBuffer::new(vec![raw::PacketMetadata::EMPTY; n], vec![0u8; sz]);
    let mut h_raw = vec![];
    for p in RAW_PROTOS {
        h_raw.push(sockets.add(raw::Socket::new(Some(IpVersion::Ipv6), Some(p), rb_(32, 16384), rb_(1, 64))));
    }
    Node { iface, dev, sockets, h_udp, h_icmp, h_tcp, h_raw, ll, now: 0 }
}

impl Node {
    /// one `Interface::poll`; Err = panic
    fn poll(&mut self) -> std::result::Result<(), ()> {
        let t = Instant::from_millis(self.now);
        let (iface, dev, sockets) = (&mut self.iface, &mut self.dev, &mut self.sockets);
        catch_unwind(AssertUnwindSafe(|| {
            iface.poll(t, dev, sockets);
        }))
        .map_err(|_| ())
    }
    /// datagrams the raw sockets captured since the last call (protocol order, then arrival order)
    fn take_raw(&mut self) -> Vec<Vec<u8>> {
        let mut v = vec![];
        for h in self.h_raw.clone() {
            let s = self.sockets.get_mut::<raw::Socket>(h);
            while let Ok(d) = s.recv() {
                v.push(d.to_vec());
            }
        }
        v
    }
}

/// 802.15.4 data frame around a 6LoWPAN payload, as dispatch_ieee802154 builds it
fn mk_frame(src: Ieee802154Address, dst: Ieee802154Address, seq: u8, payload: &[u8]) -> Vec<u8> {
    let repr = Ieee802154Repr {
        frame_type: Ieee802154FrameType::Data,
        security_enabled: false,
        frame_pending: false,
        ack_request: false,
        sequence_number: Some(seq),
        pan_id_compression: true,
        frame_version: Ieee802154FrameVersion::Ieee802154_2003,
        dst_pan_id: Some(Ieee802154Pan(PAN)),
        dst_addr: Some(dst),
        src_pan_id: Some(Ieee802154Pan(PAN)),
        src_addr: Some(src),
    };
    let mut b = vec![0u8; repr.buffer_len() + payload.len()];
    repr.emit(&mut Ieee802154Frame::new_unchecked(&mut b[..]));
    let n = repr.buffer_len();
    b[n..].copy_from_slice(payload);
    b
}

/// (mac header length, 6LoWPAN payload) of a frame the stack emitted
fn split_frame(f: &[u8]) -> Option<(usize, Vec<u8>)> {
    let fr = Ieee802154Frame::new_checked(f).ok()?;
    let p = fr.payload()?;
    Some((f.len() - p.len(), p.to_vec()))
}

fn ll_default(which: u8, ext: bool) -> Ieee802154Address {
    if ext {
        Ieee802154Address::Extended([0x02, 0, 0, 0, 0, 0, 0, which])
    } else {
        Ieee802154Address::Short([0, which])
    }
}
fn ll_link_local(ll: &Ieee802154Address) -> Ipv6Address {
    let mut a = [0u8; 16];
    a[0] = 0xfe;
    a[1] = 0x80;
    match ll {
        Ieee802154Address::Short(s) => {
            a[11] = 0xff;
            a[12] = 0xfe;
            a[14] = s[0];
            a[15] = s[1];
        }
        Ieee802154Address::Extended(e) => {
            a[8..].copy_from_slice(e);
            a[8] ^= 2;
        }
        _ => {}
    }
    Ipv6Address::from_octets(a)
}

// ------------------------------------------------------------------------------------------
// frame injection: `Interface::poll` must not panic on any 802.15.4 frame sequence
//   case <id> s=inject ll=<LL of the receiver>
//   f <dt_ms> <hex frame>          -> `r ok tx=<frames sent> rx=<datagrams at raw sockets>` | `r PANIC`
// ------------------------------------------------------------------------------------------

fn inject_case(c: &Case, out: &mut dyn Write) -> Vec<String> {
    let ll = ll_parse(c.get("ll").unwrap_or("e:0200000000000002")).unwrap();
    let mut b = mk_node(Medium::Ieee802154, Some(ll), &[ll_link_local(&ll)], None, 127, 7);
    b.sockets.get_mut::<udp::Socket>(b.h_udp).bind(53).unwrap();
    b.sockets.get_mut::<tcp::Socket>(b.h_tcp).listen(PORT_TCP).unwrap();
    let mut fails = vec![];
    writeln!(out, "case {}", c.id).unwrap();
    for (k, op) in c.ops.iter().enumerate() {
        let t: Vec<&str> = op.split_whitespace().collect();
        if t[0] != "f" {
            continue;
        }
        b.now += t[1].parse::<i64>().unwrap();
        b.dev.rx.push_back(unhex(t[2]));
        match b.poll() {
            Ok(()) => {
                // (what the interface answers is not compared: the model side only claims "no panic")
                b.dev.drain_tx();
                b.take_raw();
                writeln!(out, "r ok").unwrap();
            }
            Err(()) => {
                writeln!(out, "r PANIC").unwrap();
                fails.push(format!("poll-panics-on-frame :: case {} op#{} frame {}", c.id, k, t[2]));
                return fails;
            }
        }
    }
    // ... and whatever was injected, the interface still takes a valid datagram in afterwards
    b.now += 10;
    b.dev.rx.push_back(inject_probe_frame(ll));
    match b.poll() {
        Ok(()) => {
            if !b.take_raw().iter().any(|d| d.ends_with(b"still there?")) {
                fails.push(format!("interface-deaf-after-frames :: case {}: a valid UDP datagram injected after the frames was not delivered", c.id));
            }
        }
        Err(()) => fails.push(format!("poll-panics-on-frame :: case {} on the trailing valid datagram", c.id)),
    }
    fails
}


// ------------------------------------------------------------------------------------------
// stream `lowpan`: two real interfaces on Medium::Ieee802154 (QDev), the same scenario on Medium::Ip
// gives the reference IPv6 datagrams.
//
//   case <id> s=e2e lla=<LL> llb=<LL> xa=<hex16|-> xb=<hex16|-> dst=<ll|x> ident=<u16> mtu=<n>
//        (both nodes own the link-local address derived from their link-layer address; xa/xb = a second
//         address (same /64 => on-link, else reached through a default route via the peer))
//   udp sp=<u16> dp=<u16> hl=<u8> len=<n> pat=<u8> sched=<S> ref=<hex>        one UDP datagram A -> B
//   burst k=<n> sp= dp= hl= len=<n> pat= ref=<hex>,<hex>..                     k UDP datagrams queued at once
//   echo seq=<u16> hl=<u8> len=<n> pat=<u8> sched=<S> ref=<hex> rref=<hex>     echo request A -> B, reply B -> A
//   wait ms=<n>
//   S = io | rev | rot:<k> | dup:<k> | drop:<k> | swap:<i>:<j>     (order in which the frames reach B)
// Observation (both sides):
//   dg <ab|ba> n=<frames>
//   f <maclen> plain <hex> | f <maclen> first <size> <tagrel> <hex> | f <maclen> next <size> <tagrel> <off> <hex>
//   rx <ab|ba> <hex of the IPv6 datagram delivered at the receiver (raw socket)>   /  rx <dir> -
// ------------------------------------------------------------------------------------------

#[derive(Clone)]
struct E2eCfg {
    lla: Ieee802154Address,
    llb: Ieee802154Address,
    xa: Option<Ipv6Address>,
    xb: Option<Ipv6Address>,
    dst_x: bool,
    /// multicast destination (no neighbor discovery; the only way a short link-layer address can be used)
    dst_m: Option<Ipv6Address>,
    ident: u16,
    mtu: usize,
    /// 6LoWPAN address contexts (8-octet prefixes) configured on both interfaces
    ctx: Vec<[u8; 8]>,
    /// TCP case: the reference interfaces get the same MTU (same MSS), B listens on PORT_TCP
    tcp: bool,
}

fn e2e_cfg(c: &Case) -> E2eCfg {
    let x = |k: &str| match c.get(k).unwrap_or("-") {
        "-" => None,
        h => Some(addr16(h)),
    };
    E2eCfg {
        lla: ll_parse(c.get("lla").unwrap()).unwrap(),
        llb: ll_parse(c.get("llb").unwrap()).unwrap(),
        xa: x("xa"),
        xb: x("xb"),
        dst_x: c.get("dst") == Some("x"),
        dst_m: match c.get("dst") {
            Some(d) if d.starts_with("m:") => Some(addr16(&d[2..])),
            _ => None,
        },
        ident: c.get_i("ident", 0x1234) as u16,
        mtu: c.get_i("mtu", 127) as usize,
        tcp: c.get("tcp") == Some("1"),
        ctx: match c.get("ctx").unwrap_or("-") {
            "-" => vec![],
            s => s
                .split(',')
                .map(|h| {
                    let mut a = [0u8; 8];
                    a.copy_from_slice(&unhex(h));
                    a
                })
                .collect(),
        },
    }
}

struct Pair {
    a: Node,
    b: Node,
    dst_b: Ipv6Address,
    tag0: [Option<u16>; 2],
}

fn same_prefix64(a: &Ipv6Address, b: &Ipv6Address) -> bool {
    a.octets()[..8] == b.octets()[..8]
}

fn mk_pair(medium: Medium, cfg: &E2eCfg) -> Pair {
    let (la, lb) = (ll_link_local(&cfg.lla), ll_link_local(&cfg.llb));
    let mut ia = vec![la];
    let mut ib = vec![lb];
    if let Some(x) = cfg.xa {
        ia.push(x);
    }
    if let Some(x) = cfg.xb {
        ib.push(x);
    }
    let need_gw = match (cfg.xa, cfg.xb) {
        (Some(x), Some(y)) => !same_prefix64(&x, &y),
        _ => cfg.xa.is_some() != cfg.xb.is_some(),
    };
    let mtu = if medium == Medium::Ip && !cfg.tcp { 4000 } else { cfg.mtu };
    let mut a = mk_node(medium, Some(cfg.lla), &ia, if need_gw { Some(lb) } else { None }, mtu, 0x1111);
    let mut b = mk_node(medium, Some(cfg.llb), &ib, if need_gw { Some(la) } else { None }, mtu, 0x2222);
    for c in &cfg.ctx {
        let _ = a.iface.sixlowpan_address_context_mut().push(SixlowpanAddressContext(*c));
        let _ = b.iface.sixlowpan_address_context_mut().push(SixlowpanAddressContext(*c));
    }
    a.sockets.get_mut::<icmp::Socket>(a.h_icmp).bind(icmp::Endpoint::Ident(cfg.ident)).unwrap();
    b.sockets.get_mut::<icmp::Socket>(b.h_icmp).bind(icmp::Endpoint::Ident(cfg.ident ^ 0xffff)).unwrap();
    if cfg.tcp {
        b.sockets.get_mut::<tcp::Socket>(b.h_tcp).listen(PORT_TCP).unwrap();
    }
    if let Some(m) = cfg.dst_m {
        if m != Ipv6Address::new(0xff02, 0, 0, 0, 0, 0, 0, 1) {
            // B listens to the group (the MLD report is not part of the observed traffic)
            let _ = b.iface.join_multicast_group(m);
            let _ = pump(&mut b);
            b.take_raw();
        }
    }
    let dst_b = if let Some(m) = cfg.dst_m {
        m
    } else if cfg.dst_x {
        cfg.xb.unwrap_or(lb)
    } else {
        lb
    };
    Pair { a, b, dst_b, tag0: [None, None] }
}

/// poll until the node stops transmitting; Err = `poll` panicked
fn pump(n: &mut Node) -> std::result::Result<Vec<Vec<u8>>, ()> {
    let mut out = vec![];
    for _ in 0..200 {
        n.poll()?;
        let f = n.dev.drain_tx();
        if f.is_empty() {
            break;
        }
        out.extend(f);
    }
    Ok(out)
}

/// exchange frames in both directions until quiet (used for the neighbor-discovery warm-up)
fn settle(p: &mut Pair) -> std::result::Result<(), ()> {
    for _ in 0..20 {
        let fa = pump(&mut p.a)?;
        if std::env::var("TRACE").is_ok() {
            for f in &fa {
                eprintln!("A> {}", hex(f));
            }
        }
        let quiet_a = fa.is_empty();
        p.b.dev.rx.extend(fa);
        let fb = pump(&mut p.b)?;
        if std::env::var("TRACE").is_ok() {
            for f in &fb {
                eprintln!("B> {}", hex(f));
            }
        }
        let quiet_b = fb.is_empty();
        p.a.dev.rx.extend(fb);
        if quiet_a && quiet_b {
            break;
        }
    }
    Ok(())
}

fn pattern(pat: u8, len: usize) -> Vec<u8> {
    (0..len).map(|i| (i as u32).wrapping_mul(pat as u32 | 1).wrapping_add(pat as u32 * 7) as u8).collect()
}

fn warmup(p: &mut Pair) -> std::result::Result<(), ()> {
    if p.dst_b.is_multicast() {
        return Ok(());
    }
    // A -> B small datagram: A solicits B (B learns A from the source link-layer address option)
    let dst = p.dst_b;
    {
        let s = p.b.sockets.get_mut::<udp::Socket>(p.b.h_udp);
        s.close();
        s.bind(9).unwrap();
        let s = p.a.sockets.get_mut::<udp::Socket>(p.a.h_udp);
        s.close();
        s.set_hop_limit(None);
        s.bind(9).unwrap();
        s.send_slice(b"w", (IpAddress::Ipv6(dst), 9)).unwrap();
    }
    settle(p)?;
    // B answers, so that B resolves the address A used as source
    let src_a = {
        let s = p.b.sockets.get_mut::<udp::Socket>(p.b.h_udp);
        match s.recv() {
            Ok((_, m)) => Some(m.endpoint),
            Err(_) => None,
        }
    };
    if let Some(ep) = src_a {
        p.b.sockets.get_mut::<udp::Socket>(p.b.h_udp).send_slice(b"w", ep).unwrap();
        settle(p)?;
        let _ = p.a.sockets.get_mut::<udp::Socket>(p.a.h_udp).recv();
    }
    p.a.sockets.get_mut::<udp::Socket>(p.a.h_udp).close();
    p.b.sockets.get_mut::<udp::Socket>(p.b.h_udp).close();
    p.a.take_raw();
    p.b.take_raw();
    p.a.now += 10;
    p.b.now += 10;
    Ok(())
}

fn schedule(spec: &str, n: usize) -> Vec<usize> {
    let mut v: Vec<usize> = (0..n).collect();
    let t: Vec<&str> = spec.split(':').collect();
    let k = |i: usize| t.get(i).and_then(|x| x.parse::<usize>().ok()).unwrap_or(0);
    // a datagram that travels in a single frame is never duplicated or dropped: the schedule is about
    // the fragments of one datagram (and the reference run on Medium::Ip must see each datagram once)
    if n <= 1 {
        return v;
    }
    match t[0] {
        "rev" => v.reverse(),
        "rot" => v.rotate_left(k(1) % n),
        "dup" => {
            let j = k(1) % n;
            v.insert((k(1) / 7) % (n + 1), j);
        }
        "drop" => {
            v.remove(k(1) % n);
        }
        "swap" => v.swap(k(1) % n, k(2) % n),
        _ => {}
    }
    v
}

#[derive(Debug)]
enum Fk {
    Plain,
    First(u16, u16),
    Next(u16, u16, u8),
}

/// reduce a transmitted frame: (mac header length, kind, 6LoWPAN payload behind the fragment header)
fn reduce(f: &[u8]) -> Option<(usize, Fk, Vec<u8>)> {
    let (maclen, pl) = split_frame(f)?;
    match SixlowpanPacket::dispatch(&pl[..]) {
        Ok(SixlowpanPacket::FragmentHeader) => {
            let fp = SixlowpanFragPacket::new_checked(&pl[..]).ok()?;
            match SixlowpanFragRepr::parse(&fp).ok()? {
                SixlowpanFragRepr::FirstFragment { size, tag } => Some((maclen, Fk::First(size, tag), fp.payload().to_vec())),
                SixlowpanFragRepr::Fragment { size, tag, offset } => Some((maclen, Fk::Next(size, tag, offset), fp.payload().to_vec())),
            }
        }
        _ => Some((maclen, Fk::Plain, pl)),
    }
}

/// split the frames one node sent into datagrams (a plain frame, or FRAG1 + its FRAGNs) and print them
fn print_dgrams(out: &mut dyn Write, dir: &str, frames: &[Vec<u8>], tag0: &mut Option<u16>) -> Vec<Vec<usize>> {
    let mut groups: Vec<Vec<usize>> = vec![];
    for (i, f) in frames.iter().enumerate() {
        match reduce(f) {
            Some((_, Fk::Next(..), _)) if !groups.is_empty() => groups.last_mut().unwrap().push(i),
            _ => groups.push(vec![i]),
        }
    }
    for g in &groups {
        writeln!(out, "dg {} n={}", dir, g.len()).unwrap();
        for &i in g {
            match reduce(&frames[i]) {
                None => writeln!(out, "f ? {}", hex(&frames[i])).unwrap(),
                Some((m, Fk::Plain, pl)) => writeln!(out, "f {} plain {}", m, hex(&pl)).unwrap(),
                Some((m, Fk::First(size, tag), pl)) => {
                    let t0 = *tag0.get_or_insert(tag);
                    writeln!(out, "f {} first {} {} {}", m, size, tag.wrapping_sub(t0), hex(&pl)).unwrap()
                }
                Some((m, Fk::Next(size, tag, off), pl)) => {
                    let t0 = *tag0.get_or_insert(tag);
                    writeln!(out, "f {} next {} {} {} {}", m, size, tag.wrapping_sub(t0), off, hex(&pl)).unwrap()
                }
            }
        }
    }
    if groups.is_empty() {
        writeln!(out, "dg {} n=0", dir).unwrap();
    }
    groups
}

struct OpResult {
    /// (direction, delivered datagram) in delivery order
    delivered: Vec<(String, Vec<u8>)>,
    /// frames per direction
    frames: Vec<(String, Vec<u8>)>,
    panicked: bool,
}

/// queue the op's datagram(s) at A's sockets; returns false if the op is not a sending op
fn queue_op(p: &mut Pair, cfg: &E2eCfg, t: &[&str]) -> bool {
    let dst = p.dst_b;
    match t[0] {
        "udp" | "burst" => {
            let (sp, dp, hl) = (kvi(t, "sp") as u16, kvi(t, "dp") as u16, kvi(t, "hl") as u8);
            let k = if t[0] == "burst" { kvi(t, "k") as usize } else { 1 };
            {
                let s = p.b.sockets.get_mut::<udp::Socket>(p.b.h_udp);
                s.close();
                s.bind(dp).unwrap();
            }
            let s = p.a.sockets.get_mut::<udp::Socket>(p.a.h_udp);
            s.close();
            s.bind(sp).unwrap();
            s.set_hop_limit(Some(hl.max(1)));
            for j in 0..k {
                let pl = pattern((kvi(t, "pat") as u8).wrapping_add(j as u8), kvi(t, "len") as usize + j);
                let _ = s.send_slice(&pl, (IpAddress::Ipv6(dst), dp));
            }
            true
        }
        "tcp" => {
            // one step of a TCP conversation A -> B:PORT_TCP; act = connect | send:<n> | close | none
            let act = kv(t, "act");
            let (iface, sockets) = (&mut p.a.iface, &mut p.a.sockets);
            let sock = sockets.get_mut::<tcp::Socket>(p.a.h_tcp);
            if act == "connect" {
                let _ = sock.connect(iface.context(), (IpAddress::Ipv6(dst), PORT_TCP), 50000u16);
            } else if let Some(n) = act.strip_prefix("send:") {
                let _ = sock.send_slice(&pattern(kvi(t, "pat") as u8, n.parse().unwrap()));
            } else if act == "close" {
                sock.close();
            }
            true
        }
        "eburst" => {
            // k echo requests of the same size queued at once (oracle only): the replies are generated
            // by the receiver while its fragmenter may still be busy with the previous reply
            let s = p.a.sockets.get_mut::<icmp::Socket>(p.a.h_icmp);
            s.set_hop_limit(Some(64));
            for j in 0..kvi(t, "k") {
                let data = pattern(kvi(t, "pat") as u8, kvi(t, "len") as usize);
                let repr = Icmpv6Repr::EchoRequest { ident: cfg.ident, seq_no: (kvi(t, "seq") + j) as u16, data: &data };
                if let Ok(buf) = s.send(repr.buffer_len(), IpAddress::Ipv6(dst)) {
                    repr.emit(&Ipv6Address::UNSPECIFIED, &dst, &mut Icmpv6Packet::new_unchecked(buf), &ChecksumCapabilities::ignored());
                }
            }
            true
        }
        "echo" => {
            let data = pattern(kvi(t, "pat") as u8, kvi(t, "len") as usize);
            let repr = Icmpv6Repr::EchoRequest { ident: cfg.ident, seq_no: kvi(t, "seq") as u16, data: &data };
            let s = p.a.sockets.get_mut::<icmp::Socket>(p.a.h_icmp);
            s.set_hop_limit(Some((kvi(t, "hl") as u8).max(1)));
            if let Ok(buf) = s.send(repr.buffer_len(), IpAddress::Ipv6(dst)) {
                repr.emit(&Ipv6Address::UNSPECIFIED, &dst, &mut Icmpv6Packet::new_unchecked(buf), &ChecksumCapabilities::ignored());
            }
            true
        }
        _ => false,
    }
}

/// one op on a pair (either medium).  On Medium::Ip the "frames" are the IPv6 datagrams themselves.
fn run_op(p: &mut Pair, cfg: &E2eCfg, op: &str, out: Option<&mut dyn Write>) -> OpResult {
    let t: Vec<&str> = op.split_whitespace().collect();
    let mut r = OpResult { delivered: vec![], frames: vec![], panicked: false };
    let mut sink = std::io::sink();
    let out: &mut dyn Write = match out {
        Some(o) => o,
        None => &mut sink,
    };
    if t[0] == "wait" {
        p.a.now += kvi(&t, "ms");
        p.b.now += kvi(&t, "ms");
        let _ = p.a.poll();
        let _ = p.b.poll();
        // neighbor cache entries may have expired: refresh them outside the observed traffic
        if p.a.dev.medium == Medium::Ieee802154 && !p.dst_b.is_multicast() {
            // (warmup advances both clocks by 10 ms; take that back so that model and implementation
            // agree on the time)
            let _ = warmup(p);
            p.a.now -= 10;
            p.b.now -= 10;
        }
        return r;
    }
    if t[0] == "recv" {
        // a hand-made 6LoWPAN payload arriving at B from A's link-layer address
        if p.a.dev.medium != Medium::Ieee802154 {
            return r;
        }
        let dst = if kvi(&t, "bc") == 1 { Ieee802154Address::BROADCAST } else { cfg.llb };
        let f = mk_frame(cfg.lla, dst, 0x55, &unhex(kv(&t, "pl")));
        p.b.dev.rx.push_back(f);
        match pump(&mut p.b) {
            Ok(_) => {}
            Err(()) => {
                r.panicked = true;
                return r;
            }
        }
        let rx_b = p.b.take_raw();
        if rx_b.is_empty() {
            writeln!(out, "rx ab -").unwrap();
        }
        for d in rx_b {
            writeln!(out, "rx ab {}", hex(&d)).unwrap();
            r.delivered.push(("ab".into(), d));
        }
        p.a.now += 1;
        p.b.now += 1;
        return r;
    }
    if !queue_op(p, cfg, &t) {
        panic!("unknown e2e op {}", op);
    }
    let is154 = p.a.dev.medium == Medium::Ieee802154;
    // A -> B
    let fa = match pump(&mut p.a) {
        Ok(f) => f,
        Err(()) => {
            r.panicked = true;
            return r;
        }
    };
    for f in &fa {
        r.frames.push(("ab".into(), f.clone()));
    }
    let groups = if is154 { print_dgrams(out, "ab", &fa, &mut p.tag0[0]) } else { (0..fa.len()).map(|i| vec![i]).collect() };
    // deliver: the schedule applies to the frames of a single datagram; several datagrams go in order
    let sched = if t[0] == "burst" || t[0] == "eburst" || t[0] == "tcp" { "io" } else { kv(&t, "sched") };
    if t[0] == "burst" && t.iter().any(|x| *x == "il=1") {
        // the datagrams of the burst arrive interleaved frame by frame (fragments of different
        // datagrams alternate at the receiver)
        let m = groups.iter().map(|g| g.len()).max().unwrap_or(0);
        for i in 0..m {
            for g in &groups {
                if i < g.len() {
                    p.b.dev.rx.push_back(fa[g[i]].clone());
                }
            }
        }
    } else {
        for g in &groups {
            for j in schedule(sched, g.len()) {
                p.b.dev.rx.push_back(fa[g[j]].clone());
            }
        }
    }
    let fb = match pump(&mut p.b) {
        Ok(f) => f,
        Err(()) => {
            r.panicked = true;
            return r;
        }
    };
    let rx_b = p.b.take_raw();
    if rx_b.is_empty() {
        writeln!(out, "rx ab -").unwrap();
    }
    for d in rx_b {
        writeln!(out, "rx ab {}", hex(&d)).unwrap();
        r.delivered.push(("ab".into(), d));
    }
    // B -> A (echo reply / ICMP errors), always in order
    if !fb.is_empty() {
        for f in &fb {
            r.frames.push(("ba".into(), f.clone()));
        }
        if is154 {
            print_dgrams(out, "ba", &fb, &mut p.tag0[1]);
        }
        p.a.dev.rx.extend(fb);
        if t[0] == "tcp" {
            // A only takes the frames in (its answer is what the next step observes)
            let (iface, dev, sockets) = (&mut p.a.iface, &mut p.a.dev, &mut p.a.sockets);
            let now = Instant::from_millis(p.a.now);
            let ok = catch_unwind(AssertUnwindSafe(|| {
                for _ in 0..64 {
                    if matches!(iface.poll_ingress_single(now, dev, sockets), smoltcp::iface::PollIngressSingleResult::None) {
                        break;
                    }
                }
            }))
            .is_ok();
            if !ok {
                r.panicked = true;
                return r;
            }
        } else {
        match pump(&mut p.a) {
            Ok(extra) => {
                // anything A sends now (nothing expected) is delivered so that the state stays in step
                p.b.dev.rx.extend(extra);
                let _ = pump(&mut p.b);
            }
            Err(()) => {
                r.panicked = true;
                return r;
            }
        }
        }
        let rx_a = p.a.take_raw();
        if rx_a.is_empty() {
            writeln!(out, "rx ba -").unwrap();
        }
        for d in rx_a {
            writeln!(out, "rx ba {}", hex(&d)).unwrap();
            r.delivered.push(("ba".into(), d));
        }
    }
    // drain socket buffers so that they never fill up
    while p.b.sockets.get_mut::<udp::Socket>(p.b.h_udp).recv().is_ok() {}
    while p.a.sockets.get_mut::<icmp::Socket>(p.a.h_icmp).recv().is_ok() {}
    if t[0] == "tcp" {
        // the listener hands the data to the application; time passes (delayed ACKs fire)
        let sock = p.b.sockets.get_mut::<tcp::Socket>(p.b.h_tcp);
        let mut buf = [0u8; 2048];
        while sock.can_recv() && sock.recv_slice(&mut buf).map(|n| n > 0).unwrap_or(false) {}
        if !sock.is_open() {
            let _ = sock.listen(PORT_TCP);
        }
        p.a.now += 49;
        p.b.now += 49;
    }
    p.a.now += 1;
    p.b.now += 1;
    r
}

/// reference datagrams of an op: the same op between two Medium::Ip interfaces
fn ref_op(pip: &mut Pair, cfg: &E2eCfg, op: &str) -> (Vec<Vec<u8>>, Vec<Vec<u8>>) {
    let r = run_op(pip, cfg, op, None);
    let ab = r.frames.iter().filter(|(d, _)| d == "ab").map(|(_, f)| f.clone()).collect();
    let ba = r.frames.iter().filter(|(d, _)| d == "ba").map(|(_, f)| f.clone()).collect();
    (ab, ba)
}

fn e2e_run_case(c: &Case, out: &mut dyn Write) {
    writeln!(out, "case {}", c.id).unwrap();
    let cfg = e2e_cfg(c);
    let mut p = mk_pair(Medium::Ieee802154, &cfg);
    if warmup(&mut p).is_err() {
        writeln!(out, "PANIC warmup").unwrap();
        return;
    }
    for op in &c.ops {
        let r = run_op(&mut p, &cfg, op, Some(out));
        if r.panicked {
            writeln!(out, "PANIC").unwrap();
            break;
        }
    }
}


/// a 6LoWPAN payload as a foreign compressor might build it (encodings smoltcp's own compressor never
/// chooses: traffic class / flow label in-line, stateful contexts, elided UDP checksum, NHC extension
/// headers, every SAM/DAM form), addressed from A to B so that B's ingress filters accept it
fn gen_recv_op(rng: &mut Rng, cfg: &E2eCfg) -> String {
    // the frame must fit an 802.15.4 frame (127 octets), otherwise the MAC layer drops it
    for _ in 0..8 {
        let (op, len, bc) = gen_recv_op1(rng, cfg);
        let maclen = 3 + 2 + 8 + if bc { 2 } else { 8 };
        if maclen + len <= 127 {
            return op;
        }
    }
    "recv bc=0 pl=7e33f00102".to_string()
}

fn gen_recv_op1(rng: &mut Rng, cfg: &E2eCfg) -> (String, usize, bool) {
    let la = ll_link_local(&cfg.lla).octets();
    let lb = ll_link_local(&cfg.llb).octets();
    let r = rng.bytes(64);
    let nctx = cfg.ctx.len();
    // --- source ---
    let (sac, sam, mut sinl, src): (u8, u8, Vec<u8>, [u8; 16]) = match rng.below(if nctx > 0 { 7 } else { 4 }) {
        0 => (0, 3, vec![], la),
        1 => (0, 1, la[8..].to_vec(), la),
        2 => (0, 0, la.to_vec(), la),
        3 => {
            let mut a = [0u8; 16];
            a[0] = 0xfe;
            a[1] = 0x80;
            a[11] = 0xff;
            a[12] = 0xfe;
            a[14] = r[0];
            a[15] = r[1] | 1;
            (0, 2, vec![a[14], a[15]], a)
        }
        4 => {
            let mut a = [0u8; 16];
            a[..8].copy_from_slice(&cfg.ctx[0]);
            a[8..].copy_from_slice(&la[8..]);
            (1, 3, vec![], a)
        }
        5 => {
            let mut a = [0u8; 16];
            a[..8].copy_from_slice(&cfg.ctx[0]);
            a[8..].copy_from_slice(&r[2..10]);
            (1, 1, r[2..10].to_vec(), a)
        }
        _ => {
            let mut a = [0u8; 16];
            a[..8].copy_from_slice(&cfg.ctx[0]);
            a[14] = r[2];
            a[15] = r[3] | 1;
            (1, 2, vec![a[14], a[15]], a)
        }
    };
    // --- destination ---
    let own_ctx_addr = cfg.xb.map(|x| nctx > 0 && x.octets()[..8] == cfg.ctx[0] && x.octets()[8..] == lb[8..]).unwrap_or(false);
    let (m, dac, dam, dinl, dst, bc): (u8, u8, u8, Vec<u8>, [u8; 16], bool) = match rng.below(if own_ctx_addr { 9 } else { 7 }) {
        0 => (0, 0, 3, vec![], lb, false),
        1 => (0, 0, 1, lb[8..].to_vec(), lb, false),
        2 => (0, 0, 0, lb.to_vec(), lb, false),
        3..=6 => {
            let mut a = [0u8; 16];
            a[0] = 0xff;
            a[1] = 0x02;
            a[15] = 1;
            match rng.below(4) {
                0 => (1, 0, 3, vec![1], a, true),
                1 => (1, 0, 2, vec![2, 0, 0, 1], a, true),
                2 => (1, 0, 1, vec![2, 0, 0, 0, 0, 1], a, true),
                _ => (1, 0, 0, a.to_vec(), a, true),
            }
        }
        7 => (0, 1, 3, vec![], cfg.xb.unwrap().octets(), false),
        _ => (0, 1, 1, lb[8..].to_vec(), cfg.xb.unwrap().octets(), false),
    };
    let need_cid = sac == 1 || dac == 1;
    let cid = need_cid || rng.chance(1, 6);
    // --- traffic class / flow label, hop limit ---
    let tf = *rng.pick(&[3u8, 3, 3, 0, 1, 2]);
    let tfb: Vec<u8> = match tf {
        0 => vec![r[10], r[11] & 0x0f, r[12], r[13]],
        1 => vec![r[10] & 0xcf, r[12], r[13]],
        2 => vec![r[10]],
        _ => vec![],
    };
    let hlim = rng.below(4) as u8;
    // --- upper layer ---
    let plen = *rng.pick(&[0usize, 1, 5, 17, 40]);
    let payload = rng.bytes(plen);
    let (sp, dp) = (gen_port(rng).max(1), gen_port(rng).max(1));
    let udp_ck = |ck_ok: bool, rng: &mut Rng| -> u16 {
        if !ck_ok {
            return (rng.next() as u16) | 1;
        }
        let mut b = vec![0u8; 8 + payload.len()];
        let repr = UdpRepr { src_port: sp, dst_port: dp };
        repr.emit(
            &mut UdpPacket::new_unchecked(&mut b[..]),
            &IpAddress::Ipv6(Ipv6Address::from_octets(src)),
            &IpAddress::Ipv6(Ipv6Address::from_octets(dst)),
            payload.len(),
            |x| x.copy_from_slice(&payload),
            &ChecksumCapabilities::default(),
        );
        u16::from_be_bytes([b[6], b[7]])
    };
    let nhc_udp = |rng: &mut Rng| -> Vec<u8> {
        let c = rng.chance(1, 3) as u8;
        let (p, pb): (u8, Vec<u8>) = if (0xf0b0..=0xf0bf).contains(&sp) && (0xf0b0..=0xf0bf).contains(&dp) && rng.chance(3, 4) {
            (3, vec![(((sp - 0xf0b0) as u8) << 4) | (dp - 0xf0b0) as u8])
        } else if (0xf000..=0xf0ff).contains(&sp) && rng.chance(3, 4) {
            (2, vec![(sp - 0xf000) as u8, (dp >> 8) as u8, dp as u8])
        } else if (0xf000..=0xf0ff).contains(&dp) && rng.chance(3, 4) {
            (1, vec![(sp >> 8) as u8, sp as u8, (dp - 0xf000) as u8])
        } else {
            (0, vec![(sp >> 8) as u8, sp as u8, (dp >> 8) as u8, dp as u8])
        };
        let mut b = vec![0xf0 | (c << 2) | p];
        b.extend(pb);
        if c == 0 {
            let ck = udp_ck(rng.chance(2, 3), rng);
            b.extend(ck.to_be_bytes());
        }
        b.extend(&payload);
        b
    };
    let mut body: Vec<u8> = vec![];
    let mut unc = 40usize; // uncompressed size
    let nh_inline: Option<u8>;
    let mut has_ext = false;
    match rng.below(6) {
        0 | 1 => {
            nh_inline = None;
            body.extend(nhc_udp(rng));
            unc += 8 + payload.len();
        }
        2 => {
            // NHC extension header (hop-by-hop / destination options with PadN) then UDP
            nh_inline = None;
            // hop-by-hop options whose length makes a whole number of 8-octet units with the 2-octet header
            // (anything else is rejected by the IPv6 layer, which is not this property's subject)
            // ... and, with the same PadN body, every other extension header id LOWPAN_NHC can name: routing (1),
            // fragment (2), destination options (3), mobility (4) and "IPv6 header" (7) -- the last two decompress
            // to next header 0
            let eid = *rng.pick(&[0u8, 0, 1, 2, 3, 4, 7]);
            has_ext = true;
            let elen = *rng.pick(&[6u8, 6, 14]);
            let udp_compressed = rng.chance(1, 2);
            body.push(0xe0 | (eid << 1) | udp_compressed as u8);
            if !udp_compressed {
                body.push(17);
            }
            body.push(elen);
            let mut opt = vec![0u8; elen as usize];
            if elen >= 2 {
                opt[0] = 1;
                opt[1] = elen - 2;
            }
            body.extend(&opt);
            unc += 2 + elen as usize;
            if udp_compressed {
                body.extend(nhc_udp(rng));
            } else {
                let ck = udp_ck(true, rng);
                body.extend([(sp >> 8) as u8, sp as u8, (dp >> 8) as u8, dp as u8]);
                body.extend(((8 + payload.len()) as u16).to_be_bytes());
                body.extend(ck.to_be_bytes());
                body.extend(&payload);
            }
            unc += 8 + payload.len();
        }
        3 => {
            nh_inline = Some(17);
            let ck = udp_ck(rng.chance(2, 3), rng);
            body.extend([(sp >> 8) as u8, sp as u8, (dp >> 8) as u8, dp as u8]);
            body.extend(((8 + payload.len()) as u16).to_be_bytes());
            body.extend(ck.to_be_bytes());
            body.extend(&payload);
            unc += 8 + payload.len();
        }
        4 => {
            nh_inline = Some(58);
            body.extend([129, 0, r[20], r[21], r[22], r[23], r[24], r[25]]);
            body.extend(&payload);
            unc += 8 + payload.len();
        }
        _ => {
            nh_inline = Some(6);
            body.extend(rng.bytes(20));
            body.extend(&payload);
            unc += 20 + payload.len();
        }
    }
    let w: u16 = 0x6000
        | ((tf as u16) << 11)
        | ((nh_inline.is_none() as u16) << 10)
        | ((hlim as u16) << 8)
        | ((cid as u16) << 7)
        | ((sac as u16) << 6)
        | ((sam as u16) << 4)
        | ((m as u16) << 3)
        | ((dac as u16) << 2)
        | dam as u16;
    let mut pl = vec![(w >> 8) as u8, w as u8];
    if cid {
        pl.push(if need_cid { 0 } else { r[30] & 0x33 });
    }
    pl.extend(tfb);
    if let Some(p) = nh_inline {
        pl.push(p);
    }
    if hlim == 0 {
        pl.push(r[31].max(1));
    }
    pl.append(&mut sinl);
    pl.extend(dinl);
    let hdr_end = pl.len();
    pl.extend(body);
    // mutate behind the IPHC header only (addresses stay valid)
    // (and not inside hop-by-hop options: how unknown options are treated is the IPv6 layer's business)
    if rng.chance(1, 5) && pl.len() > hdr_end {
        // (a chain with an extension header is only truncated: decompress_ext_hdr / decompress_udp then fail,
        // or the UDP payload gets shorter; its option octets are never altered)
        match if has_ext { 0 } else { rng.below(3) } {
            0 => {
                let n = hdr_end + rng.below((pl.len() - hdr_end) as u64) as usize;
                pl.truncate(n);
            }
            1 => {
                let i = hdr_end + rng.below((pl.len() - hdr_end).min(6) as u64) as usize;
                pl[i] = rng.next() as u8;
                // not into an NHC extension-header dispatch: what the IPv6 layer does with fragment /
                // routing / unknown-option headers is not this property's subject
                if i == hdr_end && nh_inline.is_none() && pl[i] >> 4 == 0xe {
                    pl[i] |= 0x10;
                }
            }
            _ => pl.extend(rb(rng, 1, 4)),
        }
    }
    // fragment wrapper
    let out = match rng.below(10) {
        0 | 1 => {
            let mut f = vec![0xc0 | (unc >> 8) as u8, unc as u8, 0x77, rng.next() as u8];
            f.extend(pl);
            f
        }
        3 if unc > 48 => {
            // a datagram size too small for the decompressed headers: the room checks of decompress_ext_hdr /
            // decompress_udp and the `total_len` consistency check fail
            let sz = *rng.pick(&[40usize, 41, 44, 47, 48, 49, 56]);
            let mut f = vec![0xc0 | ((sz >> 8) as u8 & 7), sz as u8, 0x79, rng.next() as u8];
            f.extend(pl);
            f
        }
        2 => {
            let sz = (unc as i64 + *rng.pick(&[-8i64, -1, 1, 8])).max(0) as usize;
            let mut f = vec![0xc0 | ((sz >> 8) as u8 & 7), sz as u8, 0x78, rng.next() as u8];
            f.extend(pl);
            f
        }
        _ => pl,
    };
    (format!("recv bc={} pl={}", bc as u8, hex(&out)), out.len(), bc)
}

fn gen_sched(rng: &mut Rng) -> String {
    match rng.below(10) {
        0..=3 => "io".into(),
        4 => "rev".into(),
        5 => format!("rot:{}", rng.below(16)),
        6 => format!("dup:{}", rng.below(200)),
        7 => format!("drop:{}", rng.below(16)),
        _ => format!("swap:{}:{}", rng.below(16), rng.below(16)),
    }
}

fn gen_len(rng: &mut Rng, tier: &str) -> usize {
    let big = if tier == "thorough" { 1452 } else { 700 };
    match rng.below(10) {
        0 => 0,
        1 => rng.range(1, 8) as usize,
        2 | 3 => rng.range(50, 110) as usize, // around the single-frame limit
        4 | 5 => rng.range(100, 330) as usize,
        6 => *rng.pick(&[1452usize, 1453, 1460, 1472, 1280, 1232]),
        _ => rng.range(0, big) as usize,
    }
}

fn gen_e2e_case(rng: &mut Rng, id: String, tier: &str) -> Case {
    gen_e2e_case_x(rng, id, tier, false)
}

fn gen_e2e_case_x(rng: &mut Rng, id: String, tier: &str, with_eburst: bool) -> Case {
    // neighbor discovery on 802.15.4 only accepts 8-octet link-layer address options, so two
    // interfaces can exchange unicast traffic only with extended addresses; a short address is
    // exercised with a multicast destination (sent to the broadcast link-layer address)
    let mcast = rng.chance(1, 5);
    let (ea, eb) = if mcast { (rng.chance(1, 3), rng.chance(1, 2)) } else { (true, true) };
    let mk_ll = |rng: &mut Rng, e: bool, w: u8| {
        if e {
            let mut b = rng.bytes(8);
            b[0] &= 0xfe; // unicast
            b[7] = w;
            let mut a = [0u8; 8];
            a.copy_from_slice(&b);
            Ieee802154Address::Extended(a)
        } else {
            let b = rng.bytes(1);
            Ieee802154Address::Short([b[0] & 0x7f, w])
        }
    };
    let (lla, llb) = (mk_ll(rng, ea, 1), mk_ll(rng, eb, 2));
    // address contexts: sometimes B's second address is context prefix + EUI-64 of its link-layer address
    let ctx: Vec<[u8; 8]> = match rng.below(4) {
        0 | 1 => vec![],
        2 => vec![[0x20, 0x01, 0x0d, 0xb8, 0, 0, 0, 1]],
        _ => {
            let b = rng.bytes(8);
            let mut a = [0u8; 8];
            a.copy_from_slice(&b);
            a[0] = 0x20 | (a[0] & 0x1f);
            vec![a, [0x20, 0x01, 0x0d, 0xb8, 0, 0, 0, 1]]
        }
    };
    // second addresses: none / same global prefix / arbitrary / link-local SCOPE outside fe80::/64 /
    // an interface identifier one bit away from the one derived from the link-layer address /
    // a prefix one bit away from an address context
    let class = rng.below(8);
    let sel = rng.next();
    let mk_x = |rng: &mut Rng, class: u64, w: u8, ll: &Ieee802154Address| -> Option<Ipv6Address> {
        let r = rng.bytes(16);
        let mut a = [0u8; 16];
        let derived: [u8; 8] = {
            let mut d = [0u8; 8];
            d.copy_from_slice(&ll_link_local(ll).octets()[8..]);
            d
        };
        match class {
            0 => return None,
            1 | 2 => {
                a.copy_from_slice(&r);
                a[..8].copy_from_slice(&[0x20, 0x01, 0x0d, 0xb8, 0, 0, 0, 1]);
                if class == 2 {
                    // interface identifier derived from nothing in particular but with zero runs
                    a[8..14].copy_from_slice(&[0, 0, 0, 0xff, 0xfe, 0]);
                }
            }
            3 => {
                a.copy_from_slice(&r);
                a[0] = 0x20 | (r[0] & 0x1f); // global unicast 2000::/3
            }
            4 | 5 => {
                // fe80::/10 but not fe80::/64: link-local scope with non-zero "subnet" bits; the IPHC
                // link-local forms (which elide the upper 64 bits) must not be used for these
                let pfx: [u8; 8] = match sel % 4 {
                    0 => [0xfe, 0x80, 0, 0, 0, 0, 0, 1],
                    1 => [0xfe, 0x9a, 0, 7, 0, 0, 0, 0],
                    2 => [0xfe, 0xbf, 0xff, 0xff, 0xff, 0xff, 0xff, 0xff],
                    _ => [0xfe, 0x80, 0x80, 0, 0, 0, 0, 0],
                };
                a[..8].copy_from_slice(&pfx);
                match (sel >> 8) % 3 {
                    0 => a[8..].copy_from_slice(&derived), // would be fully elided if the prefix were fe80::/64
                    1 => a[8..].copy_from_slice(&r[8..]),
                    _ => {
                        a[15] = w;
                        return Some(Ipv6Address::from_octets(a));
                    }
                }
                return Some(Ipv6Address::from_octets(a));
            }
            6 => {
                // the derived interface identifier with exactly one bit flipped (incl. the universal/local bit),
                // under the link-local prefix, a global prefix or an address context
                let pfx: [u8; 8] = match sel % 3 {
                    0 => [0xfe, 0x80, 0, 0, 0, 0, 0, 0],
                    1 => [0x20, 0x01, 0x0d, 0xb8, 0, 0, 0, 1],
                    _ => ctx.first().copied().unwrap_or([0x20, 0x01, 0x0d, 0xb8, 0, 0, 0, 1]),
                };
                a[..8].copy_from_slice(&pfx);
                a[8..].copy_from_slice(&derived);
                let bit = if (sel >> 8) % 4 == 0 { 6 } else { (sel >> 16) % 64 }; // bit 6 = universal/local
                a[8 + (bit / 8) as usize] ^= 0x80 >> (bit % 8);
                return Some(Ipv6Address::from_octets(a));
            }
            _ => {
                // a prefix that matches an address context in all but the last bit
                let mut pfx = ctx.first().copied().unwrap_or([0x20, 0x01, 0x0d, 0xb8, 0, 0, 0, 1]);
                pfx[7] ^= 1;
                a[..8].copy_from_slice(&pfx);
                if (sel >> 8) % 2 == 0 {
                    a[8..].copy_from_slice(&derived);
                } else {
                    a[8..].copy_from_slice(&r[8..]);
                    a[15] = w;
                }
                return Some(Ipv6Address::from_octets(a));
            }
        }
        a[15] = w;
        Some(Ipv6Address::from_octets(a))
    };
    let (xa, mut xb) = (mk_x(rng, class, 1, &lla), mk_x(rng, class, 2, &llb));
    if !ctx.is_empty() && xa.is_none() && !mcast && rng.chance(1, 2) {
        let mut a = [0u8; 16];
        a[..8].copy_from_slice(&ctx[0]);
        a[8..].copy_from_slice(&ll_link_local(&llb).octets()[8..]);
        xb = Some(Ipv6Address::from_octets(a));
    }
    let dst_x = class != 0 && rng.chance(2, 3);
    let ident = rng.next() as u16;
    let dst_s = if mcast {
        if rng.chance(1, 2) {
            "m:ff020000000000000000000000000001".to_string()
        } else {
            // any scope nibble, in the 8-, 32-, 48-bit compressible and the uncompressible shapes (B joins the group)
            let r = rng.bytes(16);
            let mut g = [0u8; 16];
            g[0] = 0xff;
            g[1] = rng.range(1, 15) as u8 | if rng.chance(1, 4) { 0x10 } else { 0 };
            match rng.below(4) {
                0 => g[15] = r[15] | 1,
                1 => g[13..].copy_from_slice(&r[13..]),
                2 => g[11..].copy_from_slice(&r[11..]),
                _ => g[2..].copy_from_slice(&r[2..]),
            }
            g[15] |= 1;
            format!("m:{}", hex(&g))
        }
    } else if dst_x {
        "x".into()
    } else {
        "ll".into()
    };
    let cfg = vec![
        ("s".to_string(), "e2e".to_string()),
        ("lla".into(), ll_show(&Some(lla))),
        ("llb".into(), ll_show(&Some(llb))),
        ("xa".into(), xa.map(|x| hex(&x.octets())).unwrap_or("-".into())),
        ("xb".into(), xb.map(|x| hex(&x.octets())).unwrap_or("-".into())),
        ("dst".into(), dst_s),
        ("ident".into(), ident.to_string()),
        ("mtu".into(), if rng.chance(1, 2) { "127".into() } else { "125".into() }),
        ("ctx".into(), if ctx.is_empty() { "-".into() } else { ctx.iter().map(|c| hex(c)).collect::<Vec<_>>().join(",") }),
    ];
    let mut c = Case { id, cfg, ops: vec![] };
    // one case in eight is a TCP conversation (connect, data in one or more segments, close)
    if !mcast && rng.chance(1, 8) {
        c.cfg.push(("tcp".into(), "1".into()));
        let ecfg = e2e_cfg(&c);
        let mut pip = mk_pair(Medium::Ip, &ecfg);
        let mut acts: Vec<String> = vec!["connect".into(), "none".into(), "none".into()];
        for _ in 0..rng.range(1, 3) {
            acts.push(format!("send:{}", *rng.pick(&[1usize, 10, 47, 48, 67, 68, 100, 200, 500])));
            acts.push("none".into());
            acts.push("none".into());
        }
        acts.push("close".into());
        for _ in 0..4 {
            acts.push("none".into());
        }
        for a in acts {
            let mut op = format!("tcp act={} pat={}", a, rng.next() as u8);
            let (ab, ba) = ref_op(&mut pip, &ecfg, &op);
            let hx = |v: &Vec<Vec<u8>>| if v.is_empty() { "-".to_string() } else { v.iter().map(|d| hex(d)).collect::<Vec<_>>().join(",") };
            op.push_str(&format!(" ref={} rref={}", hx(&ab), hx(&ba)));
            c.ops.push(op);
        }
        return c;
    }
    let ecfg = e2e_cfg(&c);
    let mut pip = mk_pair(Medium::Ip, &ecfg);
    let nops = rng.range(1, 4);
    for _ in 0..nops {
        if rng.chance(1, 4) {
            c.ops.push(gen_recv_op(rng, &ecfg));
            continue;
        }
        let hl = match rng.below(5) {
            0 => 1,
            1 => 64,
            2 => 255,
            _ => rng.range(2, 254) as u8,
        };
        let mut op = match if mcast { rng.below(6) } else { rng.below(10) } {
            0..=4 => format!("udp sp={} dp={} hl={} len={} pat={} sched={}", gen_port(rng).max(1), gen_port(rng).max(1), hl, gen_len(rng, tier), rng.next() as u8, gen_sched(rng)),
            5 => format!("burst k={} sp={} dp={} hl={} len={} pat={}{}", rng.range(2, 3), gen_port(rng).max(1), gen_port(rng).max(1), hl, gen_len(rng, tier), rng.next() as u8,
                         if rng.chance(1, 3) { " il=1" } else { "" }),
            _ => format!("echo seq={} hl={} len={} pat={} sched={}", rng.next() as u16, hl, gen_len(rng, tier).min(1400), rng.next() as u8, gen_sched(rng)),
        };
        let (ab, ba) = ref_op(&mut pip, &ecfg, &op);
        let hx = |v: &Vec<Vec<u8>>| if v.is_empty() { "-".to_string() } else { v.iter().map(|d| hex(d)).collect::<Vec<_>>().join(",") };
        op.push_str(&format!(" ref={} rref={}", hx(&ab), hx(&ba)));
        c.ops.push(op.clone());
        // a datagram with a withheld fragment leaves a partial reassembly behind: follow it with a
        // datagram of the SAME size (same key but for the tag) -- at once, or (multicast cases: `wait`
        // polls at exactly the given time there) around the instant the slot expires.  The partial
        // datagram must neither be completed by the newcomer's fragments nor survive its timeout.
        if op.starts_with("udp ") && op.contains("sched=drop") && rng.chance(1, 2) {
            if mcast && rng.chance(2, 3) {
                let w = format!("wait ms={}", *rng.pick(&[59998i64, 59999, 60000]));
                let _ = run_op(&mut pip, &ecfg, &w, None);
                c.ops.push(w);
            }
            let t: Vec<&str> = op.split_whitespace().collect();
            let mut op2 = format!("udp sp={} dp={} hl={} len={} pat={} sched=io stale=1", kv(&t, "sp"), kv(&t, "dp"), kv(&t, "hl"), kv(&t, "len"), rng.next() as u8);
            let (ab, ba) = ref_op(&mut pip, &ecfg, &op2);
            op2.push_str(&format!(" ref={} rref={}", hx(&ab), hx(&ba)));
            c.ops.push(op2);
        }
        if with_eburst && !mcast && rng.chance(1, 6) {
            let mut op = format!("eburst k=2 seq={} len={} pat={}", rng.next() as u16, rng.range(100, 600), rng.next() as u8);
            let (ab, ba) = ref_op(&mut pip, &ecfg, &op);
            let hx = |v: &Vec<Vec<u8>>| if v.is_empty() { "-".to_string() } else { v.iter().map(|d| hex(d)).collect::<Vec<_>>().join(",") };
            op.push_str(&format!(" ref={} rref={}", hx(&ab), hx(&ba)));
            c.ops.push(op);
        }
        if rng.chance(1, 12) {
            c.ops.push(format!("wait ms={}", *rng.pick(&[1000i64, 59000, 61000])));
            let w = c.ops.last().unwrap().clone();
            let _ = run_op(&mut pip, &ecfg, &w, None);
        }
    }
    c
}


// ------------------------------------------------------------------------------------------
// oracles on the implementation (no model involved)
// ------------------------------------------------------------------------------------------

/// insert a wait after every op that leaves an incomplete reassembly behind (dropped or duplicated
/// fragment), so that the expectation of the following ops does not depend on the receiver's slot
fn oracle_case_from(mut c: Case) -> Case {
    let mut ops = vec![];
    // hand-made frames (recv) are the correspondence stream's business; some leave an incomplete
    // reassembly behind on purpose
    let all: Vec<String> = c.ops.drain(..).filter(|op| !op.starts_with("recv")).collect();
    for (i, op) in all.iter().enumerate() {
        let stale = op.contains("sched=drop") || op.contains("sched=dup") || op.contains(" il=1") || op.contains(" stale=1");
        ops.push(op.clone());
        // ... except in front of a same-size follow-up (`stale=1`, possibly behind its own wait), whose
        // whole point is the partial reassembly
        let followup = |j: usize| all.get(j).is_some_and(|o| o.contains(" stale=1"));
        let keep = followup(i + 1) || (all.get(i + 1).is_some_and(|o| o.starts_with("wait")) && followup(i + 2));
        if stale && !keep {
            ops.push("wait ms=61000".to_string());
        }
    }
    c.ops = ops;
    c
}

fn refs_of(t: &[&str], k: &str) -> Vec<Vec<u8>> {
    match kv(t, k) {
        "-" => vec![],
        s => s.split(',').map(unhex).collect(),
    }
}

fn oracle_e2e_case(c: &Case, fails: &mut Vec<String>, stats: &mut BTreeMap<String, u64>) {
    let cfg = e2e_cfg(c);
    let mut p = mk_pair(Medium::Ieee802154, &cfg);
    let mut fail = |class: &str, why: String| fails.push(format!("{} :: case {}: {}", class, c.id, why));
    if warmup(&mut p).is_err() {
        fail("poll-panics", "during neighbor discovery".into());
        return;
    }
    for (k, op) in c.ops.iter().enumerate() {
        let t: Vec<&str> = op.split_whitespace().collect();
        let r = run_op(&mut p, &cfg, op, None);
        if r.panicked {
            fail("poll-panics", format!("op#{} `{}`", k, &op[..op.len().min(80)]));
            return;
        }
        if t[0] == "wait" || t[0] == "recv" {
            continue;
        }
        *stats.entry(format!("op_{}", t[0])).or_default() += 1;
        // every frame fits an 802.15.4 frame (127 octets including the 2-octet FCS)
        for (dir, f) in &r.frames {
            *stats.entry("frames".into()).or_default() += 1;
            if f.len() > 125 {
                fail("frame-exceeds-802154-budget", format!("op#{} dir {} frame of {} octets", k, dir, f.len()));
            }
            if let Some((_, Fk::First(..), _)) | Some((_, Fk::Next(..), _)) = reduce(f) {
                *stats.entry("frag_frames".into()).or_default() += 1;
            }
        }
        let nfrag_ab = r.frames.iter().filter(|(d, _)| d == "ab").count();
        let refs = refs_of(&t, "ref");
        let rrefs = refs_of(&t, "rref");
        // which request datagrams must arrive: all, unless a fragment was withheld or the datagram
        // did not fit the fragmentation buffer (then it is not sent at all)
        let sched = if t[0] == "burst" || t[0] == "eburst" || t[0] == "tcp" { "io" } else { kv(&t, "sched") };
        let dropped = sched.starts_with("drop") && nfrag_ab > 1;
        let got_ab: Vec<&Vec<u8>> = r.delivered.iter().filter(|(d, _)| d == "ab").map(|(_, x)| x).collect();
        let got_ba: Vec<&Vec<u8>> = r.delivered.iter().filter(|(d, _)| d == "ba").map(|(_, x)| x).collect();
        // a datagram whose compressed form exceeds the fragmentation buffer is dropped by the sender:
        // compressed size >= datagram - 48 + 3, so anything up to 1500 + 3 octets must have been sent
        let sendable: Vec<&Vec<u8>> = refs.iter().filter(|d| d.len() <= 1503).collect();
        let maybe: usize = refs.len() - sendable.len();
        if dropped {
            *stats.entry("withheld".into()).or_default() += 1;
            if !got_ab.is_empty() {
                fail("delivered-though-fragment-missing", format!("op#{} `{}`", k, &op[..op.len().min(60)]));
            }
            continue;
        }
        // a datagram that meets a partial reassembly of the same size (stale=1), or whose fragments arrive
        // interleaved with those of other datagrams (il=1): how many get through depends on the number of
        // reassembly slots, but whatever is delivered must be one of the datagrams sent, and of an
        // interleaved burst the first one owns the slot and must arrive
        let stale_followup = t.iter().any(|x| *x == "stale=1");
        let interleaved = t.iter().any(|x| *x == "il=1");
        if stale_followup || interleaved {
            for g in &got_ab {
                *stats.entry("delivered".into()).or_default() += 1;
                if !refs.iter().any(|d| &d == g) {
                    fail(
                        "datagram-differs-from-reference",
                        format!("op#{} `{}`: got {} which is none of the datagrams sent (fragments of different datagrams mixed?)", k, &op[..op.len().min(60)], hex(g)),
                    );
                    break;
                }
            }
            if interleaved && !sendable.is_empty() && maybe == 0 && got_ab.is_empty() {
                fail("not-delivered-though-all-fragments-arrived", format!("op#{} `{}`: none of {} interleaved datagrams delivered", k, &op[..op.len().min(60)], refs.len()));
            }
            *stats.entry(if interleaved { "interleaved" } else { "stale_followup" }.into()).or_default() += 1;
            continue;
        }
        // everything delivered is a reference datagram, in order; every surely-sendable one is delivered
        let mut it = refs.iter();
        for g in &got_ab {
            *stats.entry("delivered".into()).or_default() += 1;
            if !it.any(|d| &d == g) {
                fail(
                    "datagram-differs-from-reference",
                    format!("op#{} `{}`: got {} want one of {:?}", k, &op[..op.len().min(60)], hex(g), refs.iter().map(|d| hex(d)).collect::<Vec<_>>()),
                );
                break;
            }
        }
        if got_ab.len() + maybe < refs.len() {
            fail(
                "not-delivered-though-all-fragments-arrived",
                format!("op#{} `{}`: {} of {} datagrams delivered ({} frames)", k, &op[..op.len().min(60)], got_ab.len(), refs.len(), nfrag_ab),
            );
        }
        if t[0] == "eburst" {
            // replies generated back to back: none may be corrupted, and the first one must get through
            for g in &got_ba {
                if !rrefs.iter().any(|d| &d == g) {
                    fail("datagram-differs-from-reference", format!("op#{} eburst reply: got {}", k, hex(g)));
                }
            }
            if got_ab.len() == refs.len() && !rrefs.is_empty() && !got_ba.iter().any(|g| *g == &rrefs[0]) {
                fail("reply-lost-to-a-later-reply", format!("op#{} `{}`: first of {} replies missing", k, &op[..op.len().min(60)], rrefs.len()));
            }
            continue;
        }
        // the reply (echo) likewise
        if got_ab.len() == refs.len() {
            let mut it = rrefs.iter();
            for g in &got_ba {
                if !it.any(|d| &d == g) {
                    fail("datagram-differs-from-reference", format!("op#{} reply: got {}", k, hex(g)));
                    break;
                }
            }
            if got_ba.len() < rrefs.iter().filter(|d| d.len() <= 1503).count() {
                fail("not-delivered-though-all-fragments-arrived", format!("op#{} reply missing", k));
            }
        }
    }
    if !p.a.dev.oversize.is_empty() || !p.b.dev.oversize.is_empty() {
        // device MTU 125/127: nothing the stack offers may exceed it
        fail("frame-exceeds-device-mtu", format!("{:?} {:?}", p.a.dev.oversize, p.b.dev.oversize));
    }
}

/// valid compressed frames A -> B of a generated scenario (for the mutational injection oracle)
fn harvest_frames(c: &Case) -> (E2eCfg, Vec<Vec<u8>>) {
    let cfg = e2e_cfg(c);
    let mut p = mk_pair(Medium::Ieee802154, &cfg);
    let mut all = vec![];
    if warmup(&mut p).is_err() {
        return (cfg, all);
    }
    for op in &c.ops {
        let r = run_op(&mut p, &cfg, op, None);
        all.extend(r.frames.into_iter().filter(|(d, _)| d == "ab").map(|(_, f)| f));
        if r.panicked {
            break;
        }
    }
    (cfg, all)
}

fn mutate_frame(rng: &mut Rng, f: &mut Vec<u8>) {
    let maclen = split_frame(f).map(|x| x.0).unwrap_or(0).min(f.len());
    match rng.below(9) {
        0 => {
            let n = rng.below(f.len() as u64 + 1) as usize;
            f.truncate(n);
        }
        1 | 2 if f.len() > maclen => {
            // a 6LoWPAN header octet (dispatch, sizes, IPHC mode bits, NHC byte ...)
            let i = maclen + rng.below(((f.len() - maclen).min(12)) as u64) as usize;
            f[i] = rng.next() as u8;
        }
        3 if f.len() > maclen => {
            let i = maclen + rng.below((f.len() - maclen) as u64) as usize;
            f[i] ^= 1 << rng.below(8);
        }
        4 if f.len() > maclen + 2 => {
            // datagram_size / offset of a fragment header
            let v = *rng.pick(&[0u8, 1, 39, 40, 47, 0xff, 7, 8]);
            f[maclen + 1] = v;
            if rng.chance(1, 2) {
                f[maclen] &= 0xf8;
            }
        }
        5 => {
            let extra = rb(rng, 0, 8);
            f.extend(extra);
        }
        6 if !f.is_empty() => {
            let i = rng.below(f.len() as u64) as usize;
            f[i] = rng.next() as u8;
        }
        7 if f.len() > maclen + 1 => {
            // cut right behind some header octet
            let n = maclen + rng.below(((f.len() - maclen).min(48)) as u64) as usize;
            f.truncate(n);
        }
        _ => {}
    }
}

/// hand-made frames around the decompressor's length arithmetic
fn seed_frames(rng: &mut Rng) -> Vec<u8> {
    let mac = unhex("41cc01efbe020000000000000201000000000000");
    let mut f = mac.clone();
    // force both link-layer addresses to the fixed receiver / sender of inject_case
    f[12..20].copy_from_slice(&[0x01, 0, 0, 0, 0, 0, 0, 0x02]);
    let body: Vec<u8> = match rng.below(8) {
        0 => {
            // FRAG1 + IPHC(nh compressed) + NHC-UDP, datagram_size around the header sizes
            let size = *rng.pick(&[40u16, 41, 47, 48, 49, 55, 56, 100]);
            let mut b = vec![0xc0 | (size >> 8) as u8, size as u8, 0, rng.next() as u8, 0x7e, 0x33];
            b.push(0xf0 | (rng.next() as u8 & 7));
            b.extend(rb(rng, 0, 12));
            b
        }
        1 => {
            // IPHC + NHC extension header(s) with arbitrary length octets
            let mut b = vec![0x7e, 0x33];
            for _ in 0..rng.range(1, 3) {
                let nh_inline = rng.chance(1, 2);
                b.push(0xe0 | ((rng.next() as u8 & 7) << 1) | (!nh_inline) as u8);
                if nh_inline {
                    b.push(*rng.pick(&[58u8, 17, 6, 0, 43, 60, 200]));
                }
                b.push(*rng.pick(&[0u8, 1, 6, 8, 14, 0x20, 0xff]));
                b.extend(rb(rng, 0, 10));
            }
            if rng.chance(1, 2) {
                b.push(0xf0 | (rng.next() as u8 & 7));
                b.extend(rb(rng, 0, 8));
            }
            b
        }
        2 => {
            // FRAGN with offsets beyond the datagram
            let size = *rng.pick(&[40u16, 100, 1280, 2047]);
            let mut b = vec![0xe0 | (size >> 8) as u8, size as u8, 0, 7, *rng.pick(&[0u8, 1, 5, 160, 255])];
            b.extend(rb(rng, 0, 90));
            b
        }
        3 => {
            // random IPHC mode word with contexts
            let w = 0x6000 | (rng.next() as u16 & 0x1fff);
            let mut b = vec![(w >> 8) as u8, w as u8];
            b.extend(rb(rng, 0, 45));
            b
        }
        4 => {
            // FRAG1 carrying a random IPHC mode word
            let size = *rng.pick(&[40u16, 48, 60, 200, 1500]);
            let w = 0x6000 | (rng.next() as u16 & 0x1fff);
            let mut b = vec![0xc0 | (size >> 8) as u8, size as u8, 1, rng.next() as u8, (w >> 8) as u8, w as u8];
            b.extend(rb(rng, 0, 60));
            b
        }
        5 | 6 => {
            // a well-formed chain IPHC + NHC extension header (any id: hop-by-hop, routing, fragment, destination
            // options, mobility, reserved, "IPv6 header") with a PadN body + NHC-UDP or an in-line UDP header
            // (mutated / truncated afterwards like every other seed), sometimes inside a FRAG1 of a tiny datagram
            let eid = rng.next() as u8 & 7;
            let elen = *rng.pick(&[6u8, 6, 14, 0]);
            let compressed = rng.chance(1, 2);
            let mut b = vec![0x7e, 0x33, 0xe0 | (eid << 1) | compressed as u8];
            if !compressed {
                b.push(17);
            }
            b.push(elen);
            let mut opt = vec![0u8; elen as usize];
            if elen >= 2 {
                opt[0] = 1;
                opt[1] = elen - 2;
            }
            b.extend(opt);
            if compressed {
                b.extend([0xf0, 0x12, 0x34, 0x00, 0x35, 0xab, 0xcd]);
            } else {
                b.extend([0x12, 0x34, 0x00, 0x35, 0x00, 0x0b, 0xab, 0xcd]);
            }
            b.extend(rb(rng, 0, 5));
            if rng.chance(1, 3) {
                let size = *rng.pick(&[40u16, 44, 48, 49, 56, 64]);
                let mut w = vec![0xc0 | (size >> 8) as u8, size as u8, 2, rng.next() as u8];
                w.extend(b);
                b = w;
            }
            b
        }
        _ => rb(rng, 0, 40),
    };
    f.extend(body);
    f
}

/// a valid unfragmented UDP datagram fe80::1 -> the receiver of inject_case (port 53), 6LoWPAN-compressed
fn inject_probe_frame(ll: Ieee802154Address) -> Vec<u8> {
    let src_ll = Ieee802154Address::Extended([0x02, 0, 0, 0, 0, 0, 0, 0x01]);
    let (src, dst) = (ll_link_local(&src_ll), ll_link_local(&ll));
    let data = b"still there?";
    let mut u = vec![0u8; 8 + data.len()];
    UdpRepr { src_port: 4660, dst_port: 53 }.emit(
        &mut UdpPacket::new_unchecked(&mut u[..]),
        &IpAddress::Ipv6(src),
        &IpAddress::Ipv6(dst),
        data.len(),
        |x| x.copy_from_slice(data),
        &ChecksumCapabilities::default(),
    );
    // IPHC: TF elided, next header in-line (17), hop limit 64, both addresses derived from the link-layer ones
    let mut pl = vec![0x7a, 0x33, 17];
    pl.extend(u);
    mk_frame(src_ll, ll, 0x77, &pl)
}

fn gen_inject_case(rng: &mut Rng, id: String, tier: &str) -> Case {
    // the receiver of inject_case is fixed (e:0200000000000002); harvested frames are re-addressed to it
    let mut c = Case { id, cfg: vec![("s".into(), "inject".into()), ("ll".into(), "e:0200000000000002".into())], ops: vec![] };
    let src = gen_e2e_case(rng, "h".into(), tier);
    let (_, frames) = harvest_frames(&src);
    let n = rng.range(4, 24);
    for _ in 0..n {
        let mut f = if !frames.is_empty() && rng.chance(2, 3) { rng.pick(&frames).clone() } else { seed_frames(rng) };
        // re-address harvested frames (extended/extended layout only) to the fixed receiver
        if f.len() > 21 && f[0] == 0x41 && f[1] == 0xcc {
            f[5..13].copy_from_slice(&[0x02, 0, 0, 0, 0, 0, 0, 0x02]);
        }
        if rng.chance(3, 4) {
            mutate_frame(rng, &mut f);
        }
        if rng.chance(1, 6) {
            mutate_frame(rng, &mut f);
        }
        c.ops.push(format!("f {} {}", *rng.pick(&[0i64, 0, 1, 10, 1000, 61000]), hex(&f)));
    }
    c
}

fn main() {
    if std::env::var("LOUD").is_err() {
        quiet_panics();
    }
    let (sub, seed, n, _tier) = args();
    let stdout = std::io::stdout();
    let mut out = std::io::BufWriter::new(stdout.lock());
    match sub.as_str() {
        "gen-wire" => {
            let mut rng = Rng::new(seed ^ 0x77);
            for i in 0..n {
                gen_wire_case(&mut rng, format!("w{}-{}", seed, i)).write(&mut out);
            }
        }
        // `run` and `run-wire` are the same: a case says which stream it belongs to (`s=`), so that
        // corpus files of either stream can be replayed under both
        "run-wire" | "run" => {
            for c in stdin_cases() {
                match c.get("s") {
                    Some("e2e") => e2e_run_case(&c, &mut out),
                    Some("inject") => {
                        inject_case(&c, &mut out);
                    }
                    _ => {
                        writeln!(out, "case {}", c.id).unwrap();
                        for op in &c.ops {
                            writeln!(out, "{}", wire_op(op)).unwrap();
                        }
                    }
                }
            }
        }
        "gen" => {
            let mut rng = Rng::new(seed ^ 0xe2e);
            for i in 0..n {
                gen_e2e_case(&mut rng, format!("e{}-{}", seed, i), &_tier).write(&mut out);
            }
        }
        "mld-probe" => {
            // join a multicast group on an 802.15.4 interface and poll: does the MLD report go out?
            let ll = Ieee802154Address::Extended([2, 0, 0, 0, 0, 0, 0, 9]);
            let mut n = mk_node(Medium::Ieee802154, Some(ll), &[ll_link_local(&ll)], None, 127, 3);
            let r = n.iface.join_multicast_group(Ipv6Address::new(0xff02, 0, 0, 0, 0, 0, 1, 2));
            writeln!(out, "join: {:?}", r.is_ok()).unwrap();
            match pump(&mut n) {
                Ok(f) => writeln!(out, "frames: {}", f.len()).unwrap(),
                Err(()) => writeln!(out, "PANIC in poll after join_multicast_group").unwrap(),
            }
        }
        "oracle" | "oracle-replay" => {
            let mut fails = vec![];
            let mut stats = BTreeMap::new();
            let cases: Vec<Case> = if sub == "oracle" {
                let mut rng = Rng::new(seed ^ 0x0e2e);
                (0..n).map(|i| oracle_case_from(gen_e2e_case_x(&mut rng, format!("o{}-{}", seed, i), &_tier, true))).collect()
            } else {
                stdin_cases().into_iter().filter(|c| c.get("s") == Some("e2e")).collect()
            };
            if sub == "oracle" {
                // datagrams without a 6LoWPAN encoding must be dropped, not panic: MLD report (join a group)
                let ll = Ieee802154Address::Extended([2, 0, 0, 0, 0, 0, 0, 9]);
                let mut nd = mk_node(Medium::Ieee802154, Some(ll), &[ll_link_local(&ll)], None, 127, 3);
                let _ = nd.iface.join_multicast_group(Ipv6Address::new(0xff02, 0, 0, 0, 0, 0, 1, 2));
                if pump(&mut nd).is_err() {
                    fails.push("poll-panics-sending-unencodable-datagram :: join_multicast_group on an 802.15.4 interface (MLD report)".into());
                }
                *stats.entry("probe_mld".into()).or_default() += 1;
            }
            for c in &cases {
                let before = fails.len();
                oracle_e2e_case(c, &mut fails, &mut stats);
                if fails.len() > before && sub == "oracle" {
                    writeln!(out, "FAILCASE").unwrap();
                    c.write(&mut out);
                }
                if fails.len() > 20 {
                    break;
                }
            }
            for f in &fails {
                writeln!(out, "FAIL {}", f).unwrap();
            }
            let st: Vec<String> = stats.iter().map(|(k, v)| format!("{}:{}", jstr(k), v)).collect();
            writeln!(out, "STATS {{\"cases\":{}{}{}}}", cases.len(), if st.is_empty() { "" } else { "," }, st.join(",")).unwrap();
        }
        "oracle-inject" => {
            let mut rng = Rng::new(seed ^ 0x1213);
            let mut nframes = 0u64;
            let mut fails = vec![];
            let mut sink = std::io::sink();
            for i in 0..n {
                let c = gen_inject_case(&mut rng, format!("i{}-{}", seed, i), &_tier);
                nframes += c.ops.len() as u64;
                let f = inject_case(&c, &mut sink);
                if !f.is_empty() {
                    writeln!(out, "FAILCASE").unwrap();
                    c.write(&mut out);
                    fails.extend(f);
                }
                if fails.len() > 10 {
                    break;
                }
            }
            for f in &fails {
                writeln!(out, "FAIL {}", f).unwrap();
            }
            writeln!(out, "STATS {{\"cases\":{},\"frames_injected\":{}}}", n, nframes).unwrap();
        }
        "inject-replay" => {
            let mut fails = vec![];
            for c in stdin_cases() {
                if c.get("s") != Some("inject") {
                    continue;
                }
                fails.extend(inject_case(&c, &mut out));
            }
            for f in &fails {
                writeln!(out, "FAIL {}", f).unwrap();
            }
        }
        x => panic!("unknown subcommand {}", x),
    }
    let _ = (BTreeMap::<u8, u8>::new(), Duration::ZERO, Instant::ZERO, Medium::Ip);
    let _ = |_: Config, _: Interface, _: SocketSet, _: QDev, _: icmp::Endpoint| {};
    let _ = |_: raw::PacketMetadata, _: tcp::State, _: udp::PacketMetadata| {};
}
