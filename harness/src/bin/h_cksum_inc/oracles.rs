// Implementation-side oracles of h_cksum (textually included).

// ------------------------------------------------------------------------------------------
// oracle 1: emitted packets verify under the independent implementation
// ------------------------------------------------------------------------------------------

fn tcp_ctl(s: &str) -> TcpControl {
    match s {
        "syn" => TcpControl::Syn,
        "fin" => TcpControl::Fin,
        "rst" => TcpControl::Rst,
        "psh" => TcpControl::Psh,
        _ => TcpControl::None,
    }
}

fn octets(a: &IpAddress) -> Vec<u8> {
    match a {
        IpAddress::Ipv4(x) => x.octets().to_vec(),
        IpAddress::Ipv6(x) => x.octets().to_vec(),
    }
}

/// Execute one emission op on the implementation (default capabilities = checksumming enabled, garbage-filled
/// buffer) and judge the emitted bytes with the independent implementation.
fn emit_check(op: &str) -> Option<(String, String)> {
    let t: Vec<&str> = op.split_whitespace().collect();
    let caps = ChecksumCapabilities::default();
    let verdict_fail = |what: &str, v: Verdict, bytes: &[u8]| -> Option<(String, String)> {
        match v {
            Verdict::Valid => None,
            Verdict::Invalid(r) => Some((format!("emit-{}-bad-checksum", what), format!("{}: emitted {}", r, hex(bytes)))),
            Verdict::DontCare(r) => Some((format!("emit-{}-malformed", what), format!("{}: emitted {}", r, hex(bytes)))),
        }
    };
    match t[0] {
        "e-ip4" => {
            let r = Ipv4Repr {
                src_addr: v4_of(t[1]),
                dst_addr: v4_of(t[2]),
                next_header: IpProtocol::from(t[3].parse::<u8>().unwrap()),
                payload_len: t[4].parse().unwrap(),
                hop_limit: t[5].parse().unwrap(),
            };
            let mut b = vec![0xa5u8; 20];
            r.emit(&mut Ipv4Packet::new_unchecked(&mut b[..]), &caps);
            if rfc_sum(&[&b]) != 0xffff {
                return Some(("emit-ipv4-bad-checksum".into(), format!("emitted {}", hex(&b))));
            }
            None
        }
        "e-ic4" => {
            let data = unhex(t[4]);
            let (ident, seq_no) = (t[2].parse().unwrap(), t[3].parse().unwrap());
            let hdr = Ipv4Repr { src_addr: Ipv4Address::new(10, 0, 0, 2), dst_addr: Ipv4Address::new(10, 0, 0, 9), next_header: IpProtocol::Udp, payload_len: data.len(), hop_limit: 64 };
            let r = match t[1] {
                "req" => Icmpv4Repr::EchoRequest { ident, seq_no, data: &data },
                "rep" => Icmpv4Repr::EchoReply { ident, seq_no, data: &data },
                "unr" => Icmpv4Repr::DstUnreachable { reason: Icmpv4DstUnreachable::PortUnreachable, header: hdr, data: &data },
                _ => Icmpv4Repr::TimeExceeded { reason: Icmpv4TimeExceeded::TtlExpired, header: hdr, data: &data },
            };
            let mut b = vec![0xa5u8; r.buffer_len()];
            r.emit(&mut Icmpv4Packet::new_unchecked(&mut b[..]), &caps);
            verdict_fail("icmpv4", indep_check_l4(&[10, 0, 0, 1], &[10, 0, 0, 2], 1, &b), &b)
        }
        "e-ic6" => {
            let (s, d) = (v6_of(t[1]), v6_of(t[2]));
            let data = unhex(t[6]);
            let (ident, seq_no) = (t[4].parse().unwrap(), t[5].parse().unwrap());
            let hdr = Ipv6Repr { src_addr: d, dst_addr: s, next_header: IpProtocol::Udp, payload_len: data.len(), hop_limit: 64 };
            let r = match t[3] {
                "req" => Icmpv6Repr::EchoRequest { ident, seq_no, data: &data },
                "rep" => Icmpv6Repr::EchoReply { ident, seq_no, data: &data },
                "unr" => Icmpv6Repr::DstUnreachable { reason: Icmpv6DstUnreachable::PortUnreachable, header: hdr, data: &data },
                "big" => Icmpv6Repr::PktTooBig { mtu: ident as u32 * 7, header: hdr, data: &data },
                "ns" => Icmpv6Repr::Ndisc(NdiscRepr::NeighborSolicit { target_addr: d, lladdr: Some(RawHardwareAddress::from(EthernetAddress([2, 0, 0, 0, 0, seq_no as u8]))) }),
                _ => Icmpv6Repr::Ndisc(NdiscRepr::NeighborAdvert { flags: NdiscNeighborFlags::SOLICITED, target_addr: s, lladdr: Some(RawHardwareAddress::from(EthernetAddress([2, 0, 0, 0, 0, seq_no as u8]))) }),
            };
            let mut b = vec![0xa5u8; r.buffer_len()];
            r.emit(&s, &d, &mut Icmpv6Packet::new_unchecked(&mut b[..]), &caps);
            verdict_fail("icmpv6", indep_check_l4(&s.octets(), &d.octets(), 58, &b), &b)
        }
        "e-udp" => {
            let (s, d) = (ip_of(t[1], t[2]), ip_of(t[1], t[3]));
            let r = UdpRepr { src_port: t[4].parse().unwrap(), dst_port: t[5].parse().unwrap() };
            let pl = unhex(t[6]);
            let mut b = vec![0xa5u8; 8 + pl.len()];
            r.emit(&mut UdpPacket::new_unchecked(&mut b[..]), &s, &d, pl.len(), |p| p.copy_from_slice(&pl), &caps);
            if b[6] == 0 && b[7] == 0 {
                return Some(("emit-udp-zero-checksum".into(), format!("family {}: emitted {}", t[1], hex(&b))));
            }
            verdict_fail("udp", indep_check_l4(&octets(&s), &octets(&d), 17, &b), &b)
        }
        "e-tcp" => {
            let (s, d) = (ip_of(t[1], t[2]), ip_of(t[1], t[3]));
            let pl = unhex(t[11]);
            let r = TcpRepr {
                src_port: t[4].parse().unwrap(),
                dst_port: t[5].parse().unwrap(),
                control: tcp_ctl(t[6]),
                seq_number: TcpSeqNumber(t[7].parse::<u32>().unwrap() as i32),
                ack_number: if t[8] == "-" { None } else { Some(TcpSeqNumber(t[8].parse::<u32>().unwrap() as i32)) },
                window_len: t[9].parse().unwrap(),
                window_scale: None,
                max_seg_size: if t[10] == "-" { None } else { Some(t[10].parse().unwrap()) },
                sack_permitted: false,
                sack_ranges: [None, None, None],
                timestamp: None,
                payload: &pl,
            };
            let mut b = vec![0xa5u8; r.buffer_len()];
            r.emit(&mut TcpPacket::new_unchecked(&mut b[..]), &s, &d, &caps);
            verdict_fail("tcp", indep_check_l4(&octets(&s), &octets(&d), 6, &b), &b)
        }
        "e-nhc" => {
            // 6LoWPAN NHC-UDP: rebuild the UDP datagram it stands for and verify that
            let (s, d) = (v6_of(t[1]), v6_of(t[2]));
            let r = SixlowpanUdpNhcRepr(UdpRepr { src_port: t[3].parse().unwrap(), dst_port: t[4].parse().unwrap() });
            let pl = unhex(t[5]);
            let mut b = vec![0xa5u8; r.header_len() + pl.len()];
            r.emit(&mut SixlowpanUdpNhcPacket::new_unchecked(&mut b[..]), &s, &d, pl.len(), |p| p.copy_from_slice(&pl), &caps);
            let pk = SixlowpanUdpNhcPacket::new_checked(&b[..]).ok()?;
            let ck = match pk.checksum() {
                Some(c) => c,
                None => return Some(("emit-nhc-udp-elided-checksum".into(), hex(&b))),
            };
            let mut u = vec![0u8; 8 + pl.len()];
            // ports as given to emit (reading the 4-bit compressed form back is defect D2, property C06/C20)
            set16(&mut u, 0, r.src_port);
            set16(&mut u, 2, r.dst_port);
            set16(&mut u, 4, (8 + pl.len()) as u16);
            set16(&mut u, 6, ck);
            u[8..].copy_from_slice(pk.payload());
            if ck == 0 {
                return Some(("emit-nhc-udp-zero-checksum".into(), format!("emitted {} = UDP {}", hex(&b), hex(&u))));
            }
            verdict_fail("nhc-udp", indep_check_l4(&s.octets(), &d.octets(), 17, &u), &u)
        }
        x => panic!("bad emit op {}", x),
    }
}

/// payload (>= 2 bytes) tuned so that the UDP checksum over (src, dst, ports, payload) computes to zero
fn tune_udp_zero(s: &[u8], d: &[u8], sp: u16, dp: u16, pl: &mut Vec<u8>) {
    if pl.len() < 2 {
        pl.resize(2, 0);
    }
    pl[0] = 0;
    pl[1] = 0;
    let mut u = vec![0u8; 8 + pl.len()];
    set16(&mut u, 0, sp);
    set16(&mut u, 2, dp);
    set16(&mut u, 4, (8 + pl.len()) as u16);
    u[8..].copy_from_slice(pl);
    let sum = rfc_sum(&[&pseudo(s, d, 17, u.len()), &u]);
    let w = 0xffff - sum;
    pl[0] = (w >> 8) as u8;
    pl[1] = w as u8;
}

fn gen_emit_op(rng: &mut Rng, i: usize, stats: &mut BTreeMap<String, u64>) -> String {
    let v4 = rng.chance(1, 2);
    let fam = if v4 { "4" } else { "6" };
    let (s, d) = gen_addrs(rng, v4);
    let plen = match rng.below(6) { 0 => 0, 1 => 1, 2 => rng.range(1000, 1400) as usize, _ => rng.below(64) as usize };
    let (mut pl, _) = content(rng, plen);
    let op = match i % 8 {
        0 => {
            let (s, d) = gen_addrs(rng, true);
            format!("e-ip4 {} {} {} {} {}", hex(&s), hex(&d), rng.below(256), rng.below(65515), rng.below(256))
        }
        1 => {
            pl.truncate(500);
            format!("e-ic4 {} {} {} {}", rng.pick(&["req", "rep", "unr", "tex"]), rng.below(65536), rng.below(65536), hex(&pl))
        }
        2 => {
            let (s, d) = gen_addrs(rng, false);
            pl.truncate(1000);
            format!("e-ic6 {} {} {} {} {} {}", hex(&s), hex(&d), rng.pick(&["req", "rep", "unr", "big", "ns", "na"]), rng.below(65536), rng.below(65536), hex(&pl))
        }
        3 | 4 => {
            let (sp, dp) = (rng.next() as u16, rng.range(1, 65535) as u16);
            if rng.chance(1, 3) {
                tune_udp_zero(&s, &d, sp, dp, &mut pl);
                *stats.entry(format!("udp{}-computes-zero", fam)).or_default() += 1;
            }
            format!("e-udp {} {} {} {} {} {}", fam, hex(&s), hex(&d), sp, dp, hex(&pl))
        }
        5 | 6 => {
            let ctl = *rng.pick(&["syn", "fin", "rst", "psh", "none"]);
            format!(
                "e-tcp {} {} {} {} {} {} {} {} {} {} {}",
                fam, hex(&s), hex(&d), rng.range(1, 65535), rng.range(1, 65535), ctl, rng.next() as u32,
                if ctl == "syn" && rng.chance(1, 2) { "-".to_string() } else { (rng.next() as u32).to_string() },
                rng.below(65536),
                if ctl == "syn" { rng.range(1, 65535).to_string() } else { "-".to_string() },
                hex(&pl)
            )
        }
        _ => {
            let (s, d) = gen_addrs(rng, false);
            let (sp, dp) = match rng.below(3) {
                0 => (0xf0b0 + rng.below(16) as u16, 0xf0b0 + rng.below(16) as u16),
                1 => (0xf000 + rng.below(256) as u16, rng.range(1, 65535) as u16),
                _ => (rng.range(1, 0xefff) as u16, rng.range(1, 0xefff) as u16),
            };
            pl.truncate(100);
            if rng.chance(1, 3) {
                tune_udp_zero(&s, &d, sp, dp, &mut pl);
                *stats.entry("nhc-computes-zero".into()).or_default() += 1;
            }
            format!("e-nhc {} {} {} {} {}", hex(&s), hex(&d), sp, dp, hex(&pl))
        }
    };
    *stats.entry(op.split_whitespace().next().unwrap().to_string()).or_default() += 1;
    op
}

/// regression witnesses corpus/C08/oracle-*.case and frag-*.case (relative to the harness binary: <verif>/harness/target/<profile>/h_cksum)
fn corpus_cases(kind: &str) -> Vec<Case> {
    let root = std::env::var("VERIF_ROOT").ok().map(std::path::PathBuf::from).or_else(|| {
        let exe = std::env::current_exe().ok()?;
        Some(exe.parent()?.parent()?.parent()?.parent()?.to_path_buf())
    });
    let mut v = vec![];
    if let Some(root) = root {
        if let Ok(rd) = std::fs::read_dir(root.join("corpus").join("C08")) {
            let mut files: Vec<_> = rd.filter_map(|e| e.ok()).map(|e| e.path()).collect();
            files.sort();
            for f in files {
                let name = f.file_name().unwrap().to_string_lossy().to_string();
                if (name.starts_with("oracle-") || name.starts_with("frag-")) && name.ends_with(".case") {
                    if let Ok(fh) = std::fs::File::open(&f) {
                        v.extend(read_cases(&mut std::io::BufReader::new(fh)).into_iter().filter(|c| c.get("kind") == Some(kind)));
                    }
                }
            }
        }
    }
    v
}

fn oracle_emit(seed: u64, n: usize, _tier: &str, out: &mut dyn Write) {
    let mut rng = Rng::new(seed ^ 0xE417);
    let mut stats = BTreeMap::new();
    let mut fails: Vec<String> = vec![];
    let mut ops: Vec<(String, String)> = vec![];
    if seed % 1000 == 0 {
        for c in corpus_cases("emit") {
            for op in &c.ops {
                ops.push((format!("corpus-{}", c.id), op.clone()));
            }
        }
        *stats.entry("corpus-cases".into()).or_default() += ops.len() as u64;
    }
    for i in 0..n {
        let op = gen_emit_op(&mut rng, i, &mut stats);
        ops.push((format!("e{}-{}", seed, i), op));
    }
    for (id, op) in ops {
        let r = catch_unwind(AssertUnwindSafe(|| emit_check(&op)));
        let f = match r {
            Ok(None) => None,
            Ok(Some((class, detail))) => Some(format!("{} :: `{}`: {}", class, &op[..op.len().min(200)], &detail[..detail.len().min(300)])),
            Err(_) => Some(format!("emit-panicked :: `{}`", &op[..op.len().min(200)])),
        };
        if let Some(f) = f {
            let cls = f.split("::").next().unwrap().trim().to_string();
            if !fails.iter().any(|x: &String| x.starts_with(&cls)) {
                writeln!(out, "FAILCASE").unwrap();
                Case { id: id.clone(), cfg: vec![("kind".into(), "emit".into())], ops: vec![op.clone()] }.write(out);
            }
            fails.push(f);
        }
    }
    let mut seen = std::collections::BTreeSet::new();
    for f in &fails {
        let cls = f.split("::").next().unwrap().trim().to_string();
        if seen.insert(cls) {
            writeln!(out, "FAIL {}", f).unwrap();
        }
    }
    let st: Vec<String> = stats.iter().map(|(k, v)| format!("{}:{}", jstr(k), v)).collect();
    writeln!(out, "STATS {{\"cases\":{},\"failures\":{},{}}}", n, fails.len(), st.join(",")).unwrap();
}

// ------------------------------------------------------------------------------------------
// oracle 2: enforcement on a live interface
// ------------------------------------------------------------------------------------------

const IF_MAC: [u8; 6] = [2, 0, 0, 0, 0, 1];
const PEER_MAC: [u8; 6] = [2, 0, 0, 0, 0, 2];
const IF_LL: [u8; 8] = [2, 0, 0, 0, 0, 0, 0, 1];
const PEER_LL: [u8; 8] = [2, 0, 0, 0, 0, 0, 0, 2];
const PAN: u16 = 0xbeef;
const UDP_PORT: u16 = 7000;
const TCP_PORT: u16 = 8000;
const ICMP_IDENT: u16 = 0x1234;

fn if_v4() -> Ipv4Address {
    Ipv4Address::new(10, 0, 0, 1)
}
fn peer_v4() -> Ipv4Address {
    Ipv4Address::new(10, 0, 0, 2)
}
fn if_v6() -> Ipv6Address {
    Ipv6Address::new(0xfd00, 0, 0, 0, 0, 0, 0, 1)
}
fn peer_v6() -> Ipv6Address {
    Ipv6Address::new(0xfd00, 0, 0, 0, 0, 0, 0, 2)
}

#[derive(Clone, Copy, PartialEq, Eq, Debug)]
enum Med {
    Ip,
    Eth,
    Lowpan,
}

struct World {
    iface: Interface,
    dev: QDev,
    sockets: SocketSet<'static>,
    h_udp: SocketHandle,
    h_tcp: SocketHandle,
    h_icmp: SocketHandle,
    /// ICMP socket bound to errors about UDP port UDP_PORT (inner transport header is parsed by the socket)
    h_icmp_udp: SocketHandle,
    /// DHCPv4 client (dhcp scenarios only: its presence switches on the DHCP fast path of process_ipv4)
    h_dhcp: Option<SocketHandle>,
    /// xid of the last DHCP message the client sent
    last_xid: u32,
    med: Med,
    now: i64,
    /// every frame the stack emitted so far (for the emitted-frame check)
    emitted: Vec<Vec<u8>>,
}

fn mode_caps(mode: &str) -> ChecksumCapabilities {
    match mode {
        "both" => caps_with(true, true),
        "rx" => caps_with(true, false),
        "tx" => caps_with(false, true),
        _ => caps_with(false, false),
    }
}

fn mk_world(med: Med, mode: &str) -> World {
    mk_world_mtu(med, mode, if med == Med::Lowpan { 127 } else { 1514 })
}

fn mk_world_mtu(med: Med, mode: &str, dev_mtu: usize) -> World {
    let (medium, hw) = match med {
        Med::Ip => (Medium::Ip, HardwareAddress::Ip),
        Med::Eth => (Medium::Ethernet, HardwareAddress::Ethernet(EthernetAddress(IF_MAC))),
        Med::Lowpan => (Medium::Ieee802154, HardwareAddress::Ieee802154(Ieee802154Address::Extended(IF_LL))),
    };
    let mut dev = QDev::new(medium, dev_mtu);
    dev.checksum = mode_caps(mode);
    let mut config = Config::new(hw);
    config.random_seed = 0x1234_5678;
    if med == Med::Lowpan {
        config.pan_id = Some(Ieee802154Pan(PAN));
    }
    let mut iface = Interface::new(config, &mut dev, Instant::ZERO);
    iface.update_ip_addrs(|a| {
        if med != Med::Lowpan {
            a.push(IpCidr::new(IpAddress::Ipv4(if_v4()), 24)).unwrap();
        }
        a.push(IpCidr::new(IpAddress::Ipv6(if_v6()), 64)).unwrap();
    });
    let mut sockets = SocketSet::new(vec![]);
    let pb = || udp::PacketBuffer::new(vec![udp::PacketMetadata::EMPTY; 8], vec![0u8; 4096]);
    let mut u = udp::Socket::new(pb(), pb());
    u.bind(UDP_PORT).unwrap();
    let h_udp = sockets.add(u);
    let mut t = tcp::Socket::new(tcp::SocketBuffer::new(vec![0u8; 2048]), tcp::SocketBuffer::new(vec![0u8; 2048]));
    t.listen(TCP_PORT).unwrap();
    let h_tcp = sockets.add(t);
    let ib = || icmp::PacketBuffer::new(vec![icmp::PacketMetadata::EMPTY; 8], vec![0u8; 4096]);
    let mut ic = icmp::Socket::new(ib(), ib());
    ic.bind(icmp::Endpoint::Ident(ICMP_IDENT)).unwrap();
    let h_icmp = sockets.add(ic);
    let mut ic2 = icmp::Socket::new(ib(), ib());
    ic2.bind(icmp::Endpoint::Udp(UDP_PORT.into())).unwrap();
    let h_icmp_udp = sockets.add(ic2);
    World { iface, dev, sockets, h_udp, h_tcp, h_icmp, h_icmp_udp, h_dhcp: None, last_xid: 0, med, now: 0, emitted: vec![] }
}

fn eth_wrap(ethertype: EthernetProtocol, payload: &[u8]) -> Vec<u8> {
    let r = EthernetRepr { src_addr: EthernetAddress(PEER_MAC), dst_addr: EthernetAddress(IF_MAC), ethertype };
    let mut b = vec![0u8; 14 + payload.len()];
    r.emit(&mut EthernetFrame::new_unchecked(&mut b[..]));
    b[14..].copy_from_slice(payload);
    b
}

fn lowpan_wrap(payload: &[u8]) -> Vec<u8> {
    let repr = Ieee802154Repr {
        frame_type: Ieee802154FrameType::Data,
        security_enabled: false,
        frame_pending: false,
        ack_request: false,
        sequence_number: Some(1),
        pan_id_compression: true,
        frame_version: Ieee802154FrameVersion::Ieee802154_2003,
        dst_pan_id: Some(Ieee802154Pan(PAN)),
        dst_addr: Some(Ieee802154Address::Extended(IF_LL)),
        src_pan_id: Some(Ieee802154Pan(PAN)),
        src_addr: Some(Ieee802154Address::Extended(PEER_LL)),
    };
    let mut b = vec![0u8; repr.buffer_len() + payload.len()];
    repr.emit(&mut Ieee802154Frame::new_unchecked(&mut b[..]));
    let n = repr.buffer_len();
    b[n..].copy_from_slice(payload);
    b
}

impl World {
    /// hand one IP packet (or 6LoWPAN payload) to the interface, wrapped for the medium
    fn inject(&mut self, pkt: &[u8]) {
        let f = match self.med {
            Med::Ip => pkt.to_vec(),
            Med::Eth => eth_wrap(if pkt[0] >> 4 == 4 { EthernetProtocol::Ipv4 } else { EthernetProtocol::Ipv6 }, pkt),
            Med::Lowpan => lowpan_wrap(pkt),
        };
        self.dev.rx.push_back(f);
    }
    fn poll(&mut self) {
        self.now += 1;
        let t = Instant::from_millis(self.now);
        self.iface.poll(t, &mut self.dev, &mut self.sockets);
    }
    /// frames emitted since the last call, reduced to the IP packet where possible
    fn take_tx(&mut self) -> Vec<Vec<u8>> {
        let fr = self.dev.drain_tx();
        let mut v = vec![];
        for f in fr {
            self.emitted.push(f.clone());
            if self.med == Med::Eth && f.len() > 14 + 28 + 8 && f[12] == 0x08 && f[13] == 0 && f[23] == 17 && f[34..38] == [0, 68, 0, 67] {
                self.last_xid = u32::from_be_bytes(f[46..50].try_into().unwrap());
            }
            v.push(f);
        }
        v
    }
    /// make the peer known to the neighbor cache (Ethernet) so that replies are not replaced by discovery
    fn learn_peer(&mut self) {
        if self.med != Med::Eth {
            return;
        }
        let arp = ArpRepr::EthernetIpv4 {
            operation: ArpOperation::Request,
            source_hardware_addr: EthernetAddress(PEER_MAC),
            source_protocol_addr: peer_v4(),
            target_hardware_addr: EthernetAddress([0; 6]),
            target_protocol_addr: if_v4(),
        };
        let mut b = vec![0u8; arp.buffer_len()];
        arp.emit(&mut ArpPacket::new_unchecked(&mut b[..]));
        self.dev.rx.push_back(eth_wrap(EthernetProtocol::Arp, &b));
        let ns = Icmpv6Repr::Ndisc(NdiscRepr::NeighborSolicit { target_addr: if_v6(), lladdr: Some(RawHardwareAddress::from(EthernetAddress(PEER_MAC))) });
        let ip = Ipv6Repr { src_addr: peer_v6(), dst_addr: if_v6(), next_header: IpProtocol::Icmpv6, payload_len: ns.buffer_len(), hop_limit: 255 };
        let mut b = vec![0u8; 40 + ns.buffer_len()];
        ip.emit(&mut Ipv6Packet::new_unchecked(&mut b[..40]));
        ns.emit(&peer_v6(), &if_v6(), &mut Icmpv6Packet::new_unchecked(&mut b[40..]), &ChecksumCapabilities::default());
        self.dev.rx.push_back(eth_wrap(EthernetProtocol::Ipv6, &b));
        self.poll();
        self.poll();
        self.take_tx();
    }
    /// everything observable: emitted frames, socket contents and state, next deadline
    fn digest(&mut self) -> String {
        let mut s = String::new();
        for f in self.take_tx() {
            s.push_str(&format!("tx {}\n", hex(&f)));
        }
        {
            let u = self.sockets.get_mut::<udp::Socket>(self.h_udp);
            while let Ok((d, m)) = u.recv() {
                s.push_str(&format!("udp {} from {}\n", hex(d), m.endpoint));
            }
        }
        {
            let ic = self.sockets.get_mut::<icmp::Socket>(self.h_icmp);
            while let Ok((d, a)) = ic.recv() {
                s.push_str(&format!("icmp {} from {}\n", hex(d), a));
            }
        }
        {
            let ic = self.sockets.get_mut::<icmp::Socket>(self.h_icmp_udp);
            while let Ok((d, a)) = ic.recv() {
                s.push_str(&format!("icmp-udp {} from {}\n", hex(d), a));
            }
        }
        if let Some(h) = self.h_dhcp {
            let d = self.sockets.get_mut::<dhcpv4::Socket>(h);
            match d.poll() {
                None => s.push_str("dhcp no-event\n"),
                Some(dhcpv4::Event::Deconfigured) => s.push_str("dhcp deconfigured\n"),
                Some(dhcpv4::Event::Configured(c)) => s.push_str(&format!("dhcp configured {} router={:?} server={:?}\n", c.address, c.router, c.server)),
            }
        }
        {
            let t = self.sockets.get_mut::<tcp::Socket>(self.h_tcp);
            s.push_str(&format!("tcp {} rxq={} txq={} remote={:?}", t.state(), t.recv_queue(), t.send_queue(), t.remote_endpoint()));
            let mut buf = vec![0u8; 4096];
            if let Ok(n) = t.recv_slice(&mut buf) {
                s.push_str(&format!(" data={}", hex(&buf[..n])));
            }
            s.push('\n');
        }
        let t = Instant::from_millis(self.now);
        s.push_str(&format!("poll_at {:?}\n", self.iface.poll_at(t, &self.sockets).map(|x| x.total_micros())));
        s
    }
}

fn ip_wrap(v4: bool, proto: IpProtocol, l4: &[u8]) -> Vec<u8> {
    if v4 {
        let r = Ipv4Repr { src_addr: peer_v4(), dst_addr: if_v4(), next_header: proto, payload_len: l4.len(), hop_limit: 64 };
        let mut b = vec![0u8; 20 + l4.len()];
        r.emit(&mut Ipv4Packet::new_unchecked(&mut b[..]), &ChecksumCapabilities::default());
        b[20..].copy_from_slice(l4);
        b
    } else {
        let r = Ipv6Repr { src_addr: peer_v6(), dst_addr: if_v6(), next_header: proto, payload_len: l4.len(), hop_limit: 64 };
        let mut b = vec![0u8; 40 + l4.len()];
        r.emit(&mut Ipv6Packet::new_unchecked(&mut b[..40]));
        b[40..].copy_from_slice(l4);
        b
    }
}

fn addrs(v4: bool) -> (IpAddress, IpAddress) {
    if v4 {
        (IpAddress::Ipv4(peer_v4()), IpAddress::Ipv4(if_v4()))
    } else {
        (IpAddress::Ipv6(peer_v6()), IpAddress::Ipv6(if_v6()))
    }
}

fn mk_udp(v4: bool, dport: u16, payload: &[u8]) -> Vec<u8> {
    let (s, d) = addrs(v4);
    let r = UdpRepr { src_port: 9000, dst_port: dport };
    let mut b = vec![0u8; 8 + payload.len()];
    r.emit(&mut UdpPacket::new_unchecked(&mut b[..]), &s, &d, payload.len(), |p| p.copy_from_slice(payload), &ChecksumCapabilities::default());
    ip_wrap(v4, IpProtocol::Udp, &b)
}

fn mk_tcp(v4: bool, dport: u16, control: TcpControl, seq: u32, ack: Option<u32>, payload: &[u8]) -> Vec<u8> {
    let (s, d) = addrs(v4);
    let r = TcpRepr {
        src_port: 9001,
        dst_port: dport,
        control,
        seq_number: TcpSeqNumber(seq as i32),
        ack_number: ack.map(|a| TcpSeqNumber(a as i32)),
        window_len: 4096,
        window_scale: None,
        max_seg_size: if control == TcpControl::Syn { Some(1400) } else { None },
        sack_permitted: false,
        sack_ranges: [None, None, None],
        timestamp: None,
        payload,
    };
    let mut b = vec![0u8; r.buffer_len()];
    r.emit(&mut TcpPacket::new_unchecked(&mut b[..]), &s, &d, &ChecksumCapabilities::default());
    ip_wrap(v4, IpProtocol::Tcp, &b)
}

fn mk_echo(v4: bool, payload: &[u8]) -> Vec<u8> {
    if v4 {
        let r = Icmpv4Repr::EchoRequest { ident: ICMP_IDENT, seq_no: 7, data: payload };
        let mut b = vec![0u8; r.buffer_len()];
        r.emit(&mut Icmpv4Packet::new_unchecked(&mut b[..]), &ChecksumCapabilities::default());
        ip_wrap(true, IpProtocol::Icmp, &b)
    } else {
        let r = Icmpv6Repr::EchoRequest { ident: ICMP_IDENT, seq_no: 7, data: payload };
        let mut b = vec![0u8; r.buffer_len()];
        r.emit(&peer_v6(), &if_v6(), &mut Icmpv6Packet::new_unchecked(&mut b[..]), &ChecksumCapabilities::default());
        ip_wrap(false, IpProtocol::Icmpv6, &b)
    }
}

/// 6LoWPAN payload: IPHC (addresses fd00::2 -> fd00::1 carried inline) + NHC-UDP (inline ports, inline checksum)
/// returns (payload, offset of the first NHC-UDP byte after the NHC dispatch byte)
fn mk_lowpan_udp(dport: u16, payload: &[u8]) -> (Vec<u8>, usize) {
    let iphc = SixlowpanIphcRepr {
        src_addr: peer_v6(),
        ll_src_addr: Some(Ieee802154Address::Extended(PEER_LL)),
        dst_addr: if_v6(),
        ll_dst_addr: Some(Ieee802154Address::Extended(IF_LL)),
        next_header: SixlowpanNextHeader::Compressed,
        hop_limit: 64,
        ecn: None,
        dscp: None,
        flow_label: None,
    };
    let nhc = SixlowpanUdpNhcRepr(UdpRepr { src_port: 9000, dst_port: dport });
    let n1 = iphc.buffer_len();
    let n2 = nhc.header_len();
    let mut b = vec![0u8; n1 + n2 + payload.len()];
    iphc.emit(&mut SixlowpanIphcPacket::new_unchecked(&mut b[..n1]));
    nhc.emit(
        &mut SixlowpanUdpNhcPacket::new_unchecked(&mut b[n1..]),
        &peer_v6(),
        &if_v6(),
        payload.len(),
        |p| p.copy_from_slice(payload),
        &ChecksumCapabilities::default(),
    );
    (b, n1 + 1)
}

/// fragmented variant: FRAG1 [frag hdr 4][IPHC][NHC-UDP][first 8 payload bytes], FRAGN [frag hdr 5][rest];
/// returns (FRAG1 payload ++ FRAGN payload, offset of the NHC ports, split index)
fn mk_lowpan_udp_frags(dport: u16, payload: &[u8]) -> (Vec<u8>, usize, usize) {
    assert!(payload.len() > 8);
    let (whole, off) = mk_lowpan_udp(dport, payload);
    let size = (40 + 8 + payload.len()) as u16;
    let hdr_len = whole.len() - payload.len(); // compressed headers
    let f1 = SixlowpanFragRepr::FirstFragment { size, tag: 0x4242 };
    let fnr = SixlowpanFragRepr::Fragment { size, tag: 0x4242, offset: ((40 + 8 + 8) / 8) as u8 };
    let mut a = vec![0u8; f1.buffer_len()];
    f1.emit(&mut SixlowpanFragPacket::new_unchecked(&mut a[..]));
    let n1 = a.len();
    a.extend_from_slice(&whole[..hdr_len + 8]);
    let split = a.len();
    let mut b = vec![0u8; fnr.buffer_len()];
    fnr.emit(&mut SixlowpanFragPacket::new_unchecked(&mut b[..]));
    b.extend_from_slice(&whole[hdr_len + 8..]);
    a.extend_from_slice(&b);
    (a, n1 + off, split)
}

/// elided-checksum variant (C = 1): [IPHC][0xf4][sport dport][payload]
fn mk_lowpan_udp_elided(dport: u16, payload: &[u8]) -> (Vec<u8>, usize) {
    let (whole, off) = mk_lowpan_udp(dport, payload);
    let mut v = whole[..off - 1].to_vec();
    v.push(0xf4);
    v.extend_from_slice(&whole[off..off + 4]);
    v.extend_from_slice(payload);
    (v, off)
}

/// independent verdict for the 6LoWPAN scenarios: p[off-1] is the NHC-UDP dispatch byte (inline ports);
/// with an inline checksum the bytes from `off` are sport(2) dport(2) cksum(2) payload; `split` > 0: the
/// payload continues after the 5-byte FRAGN header at `split`
fn indep_check_lowpan(p: &[u8], off: usize, split: usize) -> Verdict {
    if p.len() < off + 6 || (split > 0 && p.len() < split + 5) {
        return Verdict::DontCare("short");
    }
    if p[off - 1] != 0xf0 {
        return Verdict::DontCare("nhc-checksum-elided-or-compressed-ports");
    }
    let pl: Vec<u8> = if split > 0 { [&p[off + 6..split], &p[split + 5..]].concat() } else { p[off + 6..].to_vec() };
    let mut u = vec![0u8; 8 + pl.len()];
    u[0..4].copy_from_slice(&p[off..off + 4]);
    set16(&mut u, 4, (8 + pl.len()) as u16);
    u[6] = p[off + 4];
    u[7] = p[off + 5];
    u[8..].copy_from_slice(&pl);
    match indep_check_l4(&peer_v6().octets(), &if_v6().octets(), 17, &u) {
        Verdict::Invalid("udp6-zero-checksum") => Verdict::Invalid("nhc-udp-zero-checksum"),
        Verdict::Invalid(_) => Verdict::Invalid("nhc-udp"),
        v => v,
    }
}

/// Scenario = (name, medium, mode).  `setup` brings a fresh world to the state in which the test packet arrives.
const SCENARIOS: &[&str] = &[
    "udp4", "udp6", "udp4-closed", "udp6-closed", "tcp4-syn", "tcp6-syn", "tcp4-closed", "tcp6-closed", "tcp4-data", "tcp6-data",
    "icmp4-echo", "icmp6-echo", "icmp4-unreach", "icmp6-unreach",
];

/// Ethernet-only scenarios: DHCPv4 client in DISCOVERING / REQUESTING / RENEWING (unicast) state, and NDISC
const ETH_SCENARIOS: &[&str] = &["dhcp4-offer", "dhcp4-ack", "dhcp4-nak", "dhcp4-renew-ack", "dhcp4-renew-nak", "icmp6-ns"];

const DHCP_LEASE: u32 = 1000;

/// a DHCP server message 10.0.0.2:67 -> (255.255.255.255 | 10.0.0.1):68 offering / acknowledging 10.0.0.1/24
fn mk_dhcp(mt: DhcpMessageType, xid: u32, unicast: bool, lease: u32) -> Vec<u8> {
    let nak = mt == DhcpMessageType::Nak;
    let repr = DhcpRepr {
        message_type: mt,
        transaction_id: xid,
        secs: 0,
        client_hardware_address: EthernetAddress(IF_MAC),
        client_ip: Ipv4Address::UNSPECIFIED,
        your_ip: if nak { Ipv4Address::UNSPECIFIED } else { if_v4() },
        server_ip: Ipv4Address::UNSPECIFIED,
        router: if nak { None } else { Some(peer_v4()) },
        subnet_mask: if nak { None } else { Some(Ipv4Address::new(255, 255, 255, 0)) },
        relay_agent_ip: Ipv4Address::UNSPECIFIED,
        broadcast: false,
        requested_ip: None,
        client_identifier: None,
        server_identifier: Some(peer_v4()),
        parameter_request_list: None,
        dns_servers: None,
        max_size: None,
        lease_duration: if nak { None } else { Some(lease) },
        renew_duration: None,
        rebind_duration: None,
        additional_options: &[],
    };
    let mut body = vec![0u8; repr.buffer_len()];
    repr.emit(&mut DhcpPacket::new_unchecked(&mut body[..])).unwrap();
    let dst = if unicast { if_v4() } else { Ipv4Address::BROADCAST };
    let (s, d) = (IpAddress::Ipv4(peer_v4()), IpAddress::Ipv4(dst));
    let u = UdpRepr { src_port: 67, dst_port: 68 };
    let mut b = vec![0u8; 8 + body.len()];
    u.emit(&mut UdpPacket::new_unchecked(&mut b[..]), &s, &d, body.len(), |p| p.copy_from_slice(&body), &ChecksumCapabilities::default());
    let r = Ipv4Repr { src_addr: peer_v4(), dst_addr: dst, next_header: IpProtocol::Udp, payload_len: b.len(), hop_limit: 64 };
    let mut p = vec![0u8; 20 + b.len()];
    r.emit(&mut Ipv4Packet::new_unchecked(&mut p[..]), &ChecksumCapabilities::default());
    p[20..].copy_from_slice(&b);
    p
}

/// Ethernet world with a DHCPv4 client and no IPv4 address, driven to the state the scenario needs
fn setup_dhcp(sc: &Scen) -> World {
    let mut w = mk_world_mtu(Med::Eth, &sc.mode, 1514);
    w.iface.update_ip_addrs(|a| a.retain(|c| !matches!(c.address(), IpAddress::Ipv4(_))));
    w.h_dhcp = Some(w.sockets.add(dhcpv4::Socket::new()));
    let h = w.h_dhcp.unwrap();
    w.poll(); // DISCOVER
    w.take_tx();
    if sc.name == "dhcp4-offer" {
        return w;
    }
    let x = w.last_xid;
    w.inject(&mk_dhcp(DhcpMessageType::Offer, x, false, DHCP_LEASE));
    w.poll(); // REQUEST
    w.take_tx();
    if sc.name == "dhcp4-ack" || sc.name == "dhcp4-nak" {
        return w;
    }
    let x = w.last_xid;
    w.inject(&mk_dhcp(DhcpMessageType::Ack, x, false, DHCP_LEASE));
    w.poll();
    // the application applies the configuration
    let cfg = match w.sockets.get_mut::<dhcpv4::Socket>(h).poll() {
        Some(dhcpv4::Event::Configured(c)) => Some(c.address),
        _ => None,
    };
    if let Some(addr) = cfg {
        w.iface.update_ip_addrs(|a| a.push(IpCidr::Ipv4(addr)).unwrap());
    }
    // T1 = lease / 2: the client renews by unicast (the server's MAC is learned afresh at that time: neighbor
    // cache entries live 60 s)
    w.now = (DHCP_LEASE as i64) * 500 + 10;
    w.learn_peer();
    w.poll();
    w.take_tx();
    w
}

struct Scen {
    name: String,
    med: Med,
    mode: String,
    /// server ISS learned from the probe run (tcp-data scenarios)
    iss: u32,
    /// 6LoWPAN fragmented scenario: the test bytes are FRAG1 payload ++ FRAGN payload, split here (0 = one frame)
    split: usize,
}

fn scen_v4(name: &str) -> bool {
    name.contains('4')
}

fn setup(sc: &Scen) -> World {
    if sc.name.starts_with("dhcp4") {
        return setup_dhcp(sc);
    }
    let mut w = mk_world(sc.med, &sc.mode);
    w.learn_peer();
    if sc.name.ends_with("tcp4-data") || sc.name.ends_with("tcp6-data") {
        let v4 = scen_v4(&sc.name);
        w.inject(&mk_tcp(v4, TCP_PORT, TcpControl::Syn, 1000, None, &[]));
        w.poll();
        w.take_tx();
        w.inject(&mk_tcp(v4, TCP_PORT, TcpControl::None, 1001, Some(sc.iss.wrapping_add(1)), &[]));
        w.poll();
        w.take_tx();
    }
    w
}

/// ISS of the listening socket's SYN-ACK (read back from the emitted frame, never assumed)
fn probe_iss(name: &str, med: Med, mode: &str) -> u32 {
    let v4 = scen_v4(name);
    let mut w = mk_world(med, mode);
    w.learn_peer();
    w.inject(&mk_tcp(v4, TCP_PORT, TcpControl::Syn, 1000, None, &[]));
    w.poll();
    for f in w.take_tx() {
        let ip = if med == Med::Eth { f[14..].to_vec() } else { f.clone() };
        let off = if v4 { 20 } else { 40 };
        if ip.len() >= off + 20 {
            let t = TcpPacket::new_unchecked(&ip[off..]);
            if t.syn() && t.ack() {
                return t.seq_number().0 as u32;
            }
        }
    }
    0
}

fn test_packet(sc: &Scen, payload: &[u8]) -> (Vec<u8>, usize, usize) {
    let v4 = scen_v4(&sc.name);
    if sc.med == Med::Lowpan {
        return match sc.name.as_str() {
            "udp6-frag" => {
                // at least 9 payload bytes so that there is a second fragment
                let mut pl = payload.to_vec();
                while pl.len() < 20 {
                    pl.extend_from_slice(payload);
                    pl.push(0x5a);
                }
                mk_lowpan_udp_frags(UDP_PORT, &pl)
            }
            "udp6-elided" => {
                let (p, off) = mk_lowpan_udp_elided(UDP_PORT, payload);
                (p, off, 0)
            }
            _ => {
                let (p, off) = mk_lowpan_udp(UDP_PORT, payload);
                (p, off, 0)
            }
        };
    }
    let p = match sc.name.as_str() {
        "udp4" | "udp6" => mk_udp(v4, UDP_PORT, payload),
        "udp4-closed" | "udp6-closed" => mk_udp(v4, UDP_PORT + 1, payload),
        "tcp4-syn" | "tcp6-syn" => mk_tcp(v4, TCP_PORT, TcpControl::Syn, 1000, None, &[]),
        "tcp4-closed" | "tcp6-closed" => mk_tcp(v4, TCP_PORT + 1, TcpControl::Syn, 1000, None, &[]),
        "tcp4-data" | "tcp6-data" => mk_tcp(v4, TCP_PORT, TcpControl::Psh, 1001, Some(sc.iss.wrapping_add(1)), payload),
        "dhcp4-offer" => mk_dhcp(DhcpMessageType::Offer, sc.iss, false, DHCP_LEASE),
        "dhcp4-ack" => mk_dhcp(DhcpMessageType::Ack, sc.iss, false, DHCP_LEASE),
        "dhcp4-nak" => mk_dhcp(DhcpMessageType::Nak, sc.iss, false, DHCP_LEASE),
        "dhcp4-renew-ack" => mk_dhcp(DhcpMessageType::Ack, sc.iss, true, 2 * DHCP_LEASE),
        "dhcp4-renew-nak" => mk_dhcp(DhcpMessageType::Nak, sc.iss, true, DHCP_LEASE),
        "icmp4-unreach" | "icmp6-unreach" => mk_unreach(v4, payload),
        "icmp6-ns" => {
            let ns = Icmpv6Repr::Ndisc(NdiscRepr::NeighborSolicit { target_addr: if_v6(), lladdr: Some(RawHardwareAddress::from(EthernetAddress([2, 0, 0, 0, 0, 9]))) });
            let src = Ipv6Address::new(0xfd00, 0, 0, 0, 0, 0, 0, 9);
            let ip = Ipv6Repr { src_addr: src, dst_addr: if_v6(), next_header: IpProtocol::Icmpv6, payload_len: ns.buffer_len(), hop_limit: 255 };
            let mut b = vec![0u8; 40 + ns.buffer_len()];
            ip.emit(&mut Ipv6Packet::new_unchecked(&mut b[..40]));
            ns.emit(&src, &if_v6(), &mut Icmpv6Packet::new_unchecked(&mut b[40..]), &ChecksumCapabilities::default());
            b
        }
        _ => mk_echo(v4, payload),
    };
    (p, 0, 0)
}

/// ICMP destination-unreachable from the peer quoting a UDP datagram sent from our UDP_PORT: delivered to the
/// ICMP socket bound to Endpoint::Udp(UDP_PORT), which parses the quoted UDP header itself
fn mk_unreach(v4: bool, payload: &[u8]) -> Vec<u8> {
    let (peer, me) = addrs(v4);
    let u = UdpRepr { src_port: UDP_PORT, dst_port: 9000 };
    let mut inner = vec![0u8; 8 + payload.len()];
    u.emit(&mut UdpPacket::new_unchecked(&mut inner[..]), &me, &peer, payload.len(), |p| p.copy_from_slice(payload), &ChecksumCapabilities::default());
    if v4 {
        let hdr = Ipv4Repr { src_addr: if_v4(), dst_addr: peer_v4(), next_header: IpProtocol::Udp, payload_len: inner.len(), hop_limit: 64 };
        let r = Icmpv4Repr::DstUnreachable { reason: Icmpv4DstUnreachable::PortUnreachable, header: hdr, data: &inner };
        let mut b = vec![0u8; r.buffer_len()];
        r.emit(&mut Icmpv4Packet::new_unchecked(&mut b[..]), &ChecksumCapabilities::default());
        ip_wrap(true, IpProtocol::Icmp, &b)
    } else {
        let hdr = Ipv6Repr { src_addr: if_v6(), dst_addr: peer_v6(), next_header: IpProtocol::Udp, payload_len: inner.len(), hop_limit: 64 };
        let r = Icmpv6Repr::DstUnreachable { reason: Icmpv6DstUnreachable::PortUnreachable, header: hdr, data: &inner };
        let mut b = vec![0u8; r.buffer_len()];
        r.emit(&peer_v6(), &if_v6(), &mut Icmpv6Packet::new_unchecked(&mut b[..]), &ChecksumCapabilities::default());
        ip_wrap(false, IpProtocol::Icmpv6, &b)
    }
}

fn run_world(sc: &Scen, pkt: Option<&[u8]>, emitted: &mut Vec<Vec<u8>>) -> std::result::Result<String, ()> {
    let r = catch_unwind(AssertUnwindSafe(|| {
        let mut w = setup(sc);
        if let Some(p) = pkt {
            if sc.split > 0 && sc.split < p.len() {
                w.inject(&p[..sc.split]);
                w.inject(&p[sc.split..]);
            } else {
                w.inject(p);
            }
        }
        w.poll();
        w.poll();
        let d = w.digest();
        (d, std::mem::take(&mut w.emitted))
    }));
    match r {
        Ok((d, e)) => {
            emitted.extend(e);
            Ok(d)
        }
        Err(_) => Err(()),
    }
}

struct IfaceStats {
    injections: u64,
    must_drop: u64,
    still_valid: u64,
    dont_care: u64,
    rx_off_runs: u64,
    emitted_checked: u64,
    by: BTreeMap<String, u64>,
}

/// Judge one (scenario, corrupted packet).  Returns failures as (class, detail).
fn judge(sc: &Scen, baseline: &str, pkt: &[u8], off: usize, st: &mut IfaceStats, emitted: &mut Vec<Vec<u8>>) -> Vec<(String, String)> {
    let mut fails = vec![];
    st.injections += 1;
    let verdict = if sc.med == Med::Lowpan { indep_check_lowpan(pkt, off, sc.split) } else { indep_check_ip(pkt) };
    let rx_on = sc.mode == "both" || sc.mode == "rx";
    let d = match run_world(sc, Some(pkt), emitted) {
        Ok(d) => d,
        Err(_) => {
            fails.push(("corrupt-packet-panics".to_string(), format!("scenario {} {:?} {}", sc.name, sc.med, sc.mode)));
            return fails;
        }
    };
    match verdict {
        Verdict::Invalid(reason) => {
            if !rx_on {
                st.rx_off_runs += 1;
            } else {
                st.must_drop += 1;
                *st.by.entry(format!("drop:{}", reason)).or_default() += 1;
                if d != baseline {
                    fails.push((
                        format!("accepted-bad-{}", reason),
                        format!("scenario {} medium {:?} caps {}: packet that fails independent verification ({}) changed the outcome:\n{}--- instead of (no packet):\n{}", sc.name, sc.med, sc.mode, reason, d, baseline),
                    ));
                }
            }
        }
        Verdict::Valid => {
            st.still_valid += 1;
        }
        Verdict::DontCare(r) => {
            st.dont_care += 1;
            *st.by.entry(format!("dontcare:{}", r)).or_default() += 1;
        }
    }
    fails
}

fn check_emitted(sc: &Scen, emitted: &mut Vec<Vec<u8>>, st: &mut IfaceStats) -> Vec<(String, String)> {
    let mut fails = vec![];
    let tx_on = sc.mode == "both" || sc.mode == "tx";
    emitted.sort();
    emitted.dedup();
    for f in emitted.drain(..) {
        if !tx_on || sc.med == Med::Lowpan {
            continue;
        }
        let ip: &[u8] = if sc.med == Med::Eth {
            let et = ((f[12] as u16) << 8) | f[13] as u16;
            if et != 0x0800 && et != 0x86dd {
                continue;
            }
            &f[14..]
        } else {
            &f[..]
        };
        st.emitted_checked += 1;
        if let Verdict::Invalid(r) = indep_check_ip(ip) {
            fails.push((format!("emitted-bad-{}", r), format!("scenario {} {:?} {}: interface emitted {}", sc.name, sc.med, sc.mode, hex(ip))));
        }
    }
    fails
}

/// all corruptions of one scenario instance; returns failures with the offending packet
fn run_scenario(sc: &mut Scen, payload: &[u8], rng: &mut Rng, doubles: usize, st: &mut IfaceStats) -> Vec<(String, String, Vec<u8>)> {
    let mut out = vec![];
    let mut emitted = vec![];
    let (pkt, off, split) = test_packet(sc, payload);
    sc.split = split;
    let sc: &Scen = sc;
    let baseline = match run_world(sc, None, &mut emitted) {
        Ok(d) => d,
        Err(_) => return vec![("scenario-panics".into(), sc.name.clone(), vec![])],
    };
    // non-vacuity: the valid packet must verify independently and must have an effect
    let v = if sc.med == Med::Lowpan { indep_check_lowpan(&pkt, off, sc.split) } else { indep_check_ip(&pkt) };
    if v != Verdict::Valid && sc.name != "udp6-elided" {
        out.push(("harness-valid-packet-does-not-verify".into(), format!("{} {:?}: {:?}", sc.name, sc.med, v), pkt.clone()));
    }
    match run_world(sc, Some(&pkt), &mut emitted) {
        Ok(d) if d == baseline => out.push(("scenario-vacuous".into(), format!("{} {:?} {}: valid packet has no effect:\n{}", sc.name, sc.med, sc.mode, d), pkt.clone())),
        Ok(_) => {}
        Err(_) => out.push(("valid-packet-panics".into(), sc.name.clone(), pkt.clone())),
    }
    let try_pkt = |p: &[u8], st: &mut IfaceStats, emitted: &mut Vec<Vec<u8>>, out: &mut Vec<(String, String, Vec<u8>)>| {
        for (c, d) in judge(sc, &baseline, p, off, st, emitted) {
            if !out.iter().any(|(c2, _, _)| *c2 == c) {
                out.push((c, d, p.to_vec()));
            }
        }
    };
    // every single-bit corruption of the checksummed region (6LoWPAN: ports, checksum, payload)
    let first = if sc.med == Med::Lowpan { off } else { 0 };
    for i in first..pkt.len() {
        if sc.split > 0 && i >= sc.split && i < sc.split + 5 {
            continue; // FRAGN header: not part of the checksummed region
        }
        for k in 0..8 {
            let mut p = pkt.clone();
            p[i] ^= 1 << k;
            try_pkt(&p, st, &mut emitted, &mut out);
        }
    }
    // sampled double flips; half of them in the same bit column of two different words (the undetectable kind
    // when the directions are opposite)
    for _ in 0..doubles {
        let mut p = pkt.clone();
        let n = (pkt.len() - first) as u64;
        let i = first + rng.below(n) as usize;
        let k = rng.below(8);
        p[i] ^= 1 << k;
        if rng.chance(1, 2) {
            let mut j = first + rng.below(n) as usize;
            if (j ^ i) & 1 == 1 {
                j ^= 1;
            }
            if j >= first && j < pkt.len() && j != i {
                p[j] ^= 1 << k;
            } else {
                p[first + rng.below(n) as usize] ^= 1 << rng.below(8);
            }
        } else {
            p[first + rng.below(n) as usize] ^= 1 << rng.below(8);
        }
        if sc.split > 0 && p[sc.split..sc.split + 5] != pkt[sc.split..sc.split + 5] {
            continue;
        }
        try_pkt(&p, st, &mut emitted, &mut out);
    }
    // checksum field forced to 0 / 0xffff / complement / random (the "no checksum" value is legal over IPv4 UDP only)
    let ck_off = if sc.name == "udp6-elided" {
        None
    } else if sc.med == Med::Lowpan {
        Some(off + 4)
    } else {
        let v4 = scen_v4(&sc.name);
        let l4 = if v4 { 20 } else { 40 };
        if sc.name.starts_with("udp") {
            Some(l4 + 6)
        } else if sc.name.starts_with("tcp") {
            Some(l4 + 16)
        } else {
            Some(l4 + 2)
        }
    };
    if let Some(c) = ck_off {
        let orig = ((pkt[c] as u16) << 8) | pkt[c + 1] as u16;
        for v in [0u16, 0xffff, !orig, orig.wrapping_add(1), rng.next() as u16] {
            let mut p = pkt.clone();
            set16(&mut p, c, v);
            if p != pkt {
                try_pkt(&p, st, &mut emitted, &mut out);
            }
        }
    }
    for (c, d) in check_emitted(sc, &mut emitted, st) {
        if !out.iter().any(|(c2, _, _)| *c2 == c) {
            out.push((c, d, vec![]));
        }
    }
    out
}

fn all_combos() -> Vec<(String, Med, String)> {
    let mut v = vec![];
    for mode in ["both", "rx", "tx", "none"] {
        for med in [Med::Ip, Med::Eth] {
            for s in SCENARIOS {
                v.push((s.to_string(), med, mode.to_string()));
            }
        }
        for s in ["udp6", "udp6-frag", "udp6-elided"] {
            v.push((s.to_string(), Med::Lowpan, mode.to_string()));
        }
        for s in ETH_SCENARIOS {
            v.push((s.to_string(), Med::Eth, mode.to_string()));
        }
    }
    v
}

fn med_name(m: Med) -> &'static str {
    match m {
        Med::Ip => "ip",
        Med::Eth => "eth",
        Med::Lowpan => "lowpan",
    }
}

fn iface_case(id: String, sc: &Scen, payload: &[u8], pkt: &[u8]) -> Case {
    Case {
        id,
        cfg: vec![("kind".into(), "iface".into()), ("scen".into(), sc.name.clone()), ("medium".into(), med_name(sc.med).into()), ("caps".into(), sc.mode.clone()), ("split".into(), sc.split.to_string())],
        ops: vec![format!("payload {}", hex(payload)), format!("inject {}", hex(pkt))],
    }
}

fn oracle_iface(seed: u64, n: usize, tier: &str, out: &mut dyn Write) {
    let mut rng = Rng::new(seed ^ 0x1FACE);
    let combos = all_combos();
    let mut st = IfaceStats { injections: 0, must_drop: 0, still_valid: 0, dont_care: 0, rx_off_runs: 0, emitted_checked: 0, by: BTreeMap::new() };
    let mut fails: Vec<(String, String)> = vec![];
    let doubles = if tier == "thorough" { 400 } else { 60 };
    if seed % 1000 == 0 {
        let cs = corpus_cases("iface");
        *st.by.entry("corpus-cases".into()).or_default() += cs.len() as u64;
        let mut buf: Vec<u8> = vec![];
        replay_cases(&cs, &mut buf);
        for l in String::from_utf8_lossy(&buf).lines() {
            if let Some(f) = l.strip_prefix("FAIL ") {
                let (c, d) = f.split_once(" :: ").unwrap_or((f, ""));
                if !fails.iter().any(|(c2, _)| c2 == c) {
                    let id = d.strip_prefix("case ").and_then(|x| x.split(':').next()).unwrap_or("");
                    if let Some(cc) = cs.iter().find(|x| x.id == id) {
                        writeln!(out, "FAILCASE").unwrap();
                        cc.write(out);
                    }
                    fails.push((c.to_string(), d.to_string()));
                }
            }
        }
    }
    // shard k of a run starts at a different combination so that the shards together cover all of them
    let start = (seed % 1000) as usize * n;
    for i in 0..n {
        let (name, med, mode) = combos[(start + i) % combos.len()].clone();
        let mut sc = Scen { name, med, mode, iss: 0, split: 0 };
        if sc.name.contains("data") {
            sc.iss = probe_iss(&sc.name, sc.med, &sc.mode);
        }
        if sc.name.starts_with("dhcp4") {
            sc.iss = setup(&sc).last_xid;
        }
        let plen = match rng.below(4) { 0 => 1, 1 => rng.range(2, 9) as usize, _ => rng.range(8, 40) as usize };
        let payload = rng.bytes(plen);
        for (class, detail, pkt) in run_scenario(&mut sc, &payload, &mut rng, doubles, &mut st) {
            if !fails.iter().any(|(c, _)| *c == class) {
                writeln!(out, "FAILCASE").unwrap();
                iface_case(format!("i{}-{}", seed, i), &sc, &payload, &pkt).write(out);
                fails.push((class, detail));
            }
        }
    }
    for (c, d) in &fails {
        writeln!(out, "FAIL {} :: {}", c, d.replace('\n', " | ")).unwrap();
    }
    let by: Vec<String> = st.by.iter().map(|(k, v)| format!("{}:{}", jstr(k), v)).collect();
    writeln!(
        out,
        "STATS {{\"cases\":{},\"scenario_instances\":{},\"must_drop\":{},\"still_valid\":{},\"dont_care\":{},\"rx_off_runs\":{},\"emitted_frames_checked\":{},{}}}",
        st.injections, n, st.must_drop, st.still_valid, st.dont_care, st.rx_off_runs, st.emitted_checked, by.join(",")
    )
    .unwrap();
}

// ------------------------------------------------------------------------------------------
// oracle 3: fragmented IPv4 egress — every emitted fragment header verifies, and so does the transport
// checksum of the independently reassembled datagram
// ------------------------------------------------------------------------------------------

const FRAG_KINDS: &[&str] = &["udp", "icmp", "raw", "echo-reply"];
const FRAG_MTUS: &[usize] = &[68, 100, 128, 200, 256, 296, 400, 576];

struct FragStats {
    instances: u64,
    fragments: u64,
    three_or_more: u64,
    reassembled: u64,
    incomplete: u64,
    nothing: u64,
    /// instances run with the transmit checksums offloaded (caps rx / none), compared with caps both
    offload_runs: u64,
}

/// run one fragmented-egress instance; returns failures (class, detail)
fn frag_check(kind: &str, med: Med, mode: &str, ip_mtu: usize, payload: &[u8], st: &mut FragStats) -> Vec<(String, String)> {
    use smoltcp::socket::raw;
    let mut fails: Vec<(String, String)> = vec![];
    let dev_mtu = if med == Med::Eth { ip_mtu + 14 } else { ip_mtu };
    let mut w = mk_world_mtu(med, mode, dev_mtu);
    w.learn_peer();
    let raw_proto = IpProtocol::Unknown(253);
    let h_raw = if kind == "raw" {
        let rb = |n: usize, sz: usize| raw::PacketBuffer::new(vec![raw::PacketMetadata::EMPTY; n], vec![0u8; sz]);
        Some(w.sockets.add(raw::Socket::new(Some(IpVersion::Ipv4), Some(raw_proto), rb(2, 4096), rb(2, 4096))))
    } else {
        None
    };
    match kind {
        "udp" => {
            let u = w.sockets.get_mut::<udp::Socket>(w.h_udp);
            if u.send_slice(payload, IpEndpoint::new(IpAddress::Ipv4(peer_v4()), 9000)).is_err() {
                return fails;
            }
        }
        "icmp" => {
            let r = Icmpv4Repr::EchoRequest { ident: ICMP_IDENT, seq_no: 3, data: payload };
            let ic = w.sockets.get_mut::<icmp::Socket>(w.h_icmp);
            match ic.send(r.buffer_len(), IpAddress::Ipv4(peer_v4())) {
                Ok(buf) => r.emit(&mut Icmpv4Packet::new_unchecked(buf), &ChecksumCapabilities::default()),
                Err(_) => return fails,
            }
        }
        "raw" => {
            let r = Ipv4Repr { src_addr: if_v4(), dst_addr: peer_v4(), next_header: raw_proto, payload_len: payload.len(), hop_limit: 33 };
            let mut b = vec![0u8; 20 + payload.len()];
            r.emit(&mut Ipv4Packet::new_unchecked(&mut b[..]), &ChecksumCapabilities::default());
            b[20..].copy_from_slice(payload);
            let rs = w.sockets.get_mut::<raw::Socket>(h_raw.unwrap());
            if rs.send_slice(&b).is_err() {
                return fails;
            }
        }
        _ => {
            // an echo request larger than the MTU (handed to the interface in one piece): the reply is fragmented
            w.inject(&mk_echo(true, payload));
        }
    }
    let mut frames = vec![];
    for _ in 0..40 {
        w.poll();
        frames.extend(w.take_tx());
    }
    st.instances += 1;
    // the IPv4 packets among the emitted frames
    let mut pkts: Vec<Vec<u8>> = vec![];
    for f in frames {
        let ip: &[u8] = if med == Med::Eth {
            if f.len() < 14 || f[12] != 0x08 || f[13] != 0x00 {
                continue;
            }
            &f[14..]
        } else {
            &f[..]
        };
        if ip.len() >= 20 && ip[0] >> 4 == 4 {
            pkts.push(ip.to_vec());
        }
    }
    let tx_on = mode == "both" || mode == "tx";
    if !tx_on {
        // checksum generation offloaded to the device (caps Rx / None): the stack must hand the device the same
        // packets, it only may leave the checksum fields unfilled.  Compare with the same send under caps Both.
        st.offload_runs += 1;
        let mut s2 = FragStats { instances: 0, fragments: 0, three_or_more: 0, reassembled: 0, incomplete: 0, nothing: 0, offload_runs: 0 };
        let _ = frag_check(kind, med, "both", ip_mtu, payload, &mut s2);
        if s2.fragments != pkts.len() as u64 {
            fails.push((
                "tx-offload-changes-egress".into(),
                format!(
                    "{} {:?} ip-mtu {} payload {} bytes: with checksum caps {} (transmit checksums left to the device) the interface emits {} IPv4 packet(s), with caps both it emits {}",
                    kind, med, ip_mtu, payload.len(), mode, pkts.len(), s2.fragments
                ),
            ));
        }
    }
    if pkts.is_empty() {
        st.nothing += 1;
        return fails;
    }
    st.fragments += pkts.len() as u64;
    if pkts.len() >= 3 {
        st.three_or_more += 1;
    }
    if !tx_on {
        return fails;
    }
    // 1. every emitted IPv4 header verifies
    for (k, p) in pkts.iter().enumerate() {
        let hl = ((p[0] & 0xf) as usize) * 4;
        if hl < 20 || hl > p.len() {
            continue;
        }
        if rfc_sum(&[&p[..hl]]) != 0xffff && !fails.iter().any(|(c, _)| c == "emitted-bad-ipv4-header") {
            let fo = (((p[6] as u16) << 8) | p[7] as u16) & 0x1fff;
            fails.push((
                "emitted-bad-ipv4-header".into(),
                format!("{} {:?} caps {} ip-mtu {}: fragment #{} of {} (MF={} offset={}) leaves with an invalid IPv4 header checksum: {}", kind, med, mode, ip_mtu, k, pkts.len(), (p[6] >> 5) & 1, fo as usize * 8, hex(&p[..hl])),
            ));
        }
    }
    // 2. independent reassembly (per ident), then the transport checksum
    let mut groups: BTreeMap<(u16, u8), Vec<&Vec<u8>>> = BTreeMap::new();
    for p in &pkts {
        groups.entry(((((p[4] as u16) << 8) | p[5] as u16), p[9])).or_default().push(p);
    }
    for ((_, proto), mut g) in groups {
        g.sort_by_key(|p| (((p[6] as u16) << 8) | p[7] as u16) & 0x1fff);
        let mut data: Vec<u8> = vec![];
        let mut complete = true;
        for (k, p) in g.iter().enumerate() {
            let hl = ((p[0] & 0xf) as usize) * 4;
            let tl = ((p[2] as usize) << 8) | p[3] as usize;
            let fo = ((((p[6] as u16) << 8) | p[7] as u16) & 0x1fff) as usize * 8;
            let mf = (p[6] >> 5) & 1 == 1;
            if tl > p.len() || tl < hl || fo != data.len() || mf != (k + 1 < g.len()) {
                complete = false;
                break;
            }
            data.extend_from_slice(&p[hl..tl]);
        }
        if !complete {
            st.incomplete += 1;
            continue;
        }
        st.reassembled += 1;
        let p0 = g[0];
        if let Verdict::Invalid(r) = indep_check_l4(&p0[12..16], &p0[16..20], proto, &data) {
            fails.push((format!("reassembled-bad-{}", r), format!("{} {:?} caps {} ip-mtu {}: {} fragments reassemble to a datagram whose {} checksum does not verify", kind, med, mode, ip_mtu, g.len(), r)));
        }
    }
    fails
}

fn frag_case(id: String, kind: &str, med: Med, mode: &str, mtu: usize, payload: &[u8]) -> Case {
    Case {
        id,
        cfg: vec![("kind".into(), "frag".into()), ("scen".into(), kind.into()), ("medium".into(), med_name(med).into()), ("caps".into(), mode.into()), ("mtu".into(), mtu.to_string())],
        ops: vec![format!("payload {}", hex(payload))],
    }
}

fn oracle_frag(seed: u64, n: usize, _tier: &str, out: &mut dyn Write) {
    let mut rng = Rng::new(seed ^ 0xF4A6);
    let mut st = FragStats { instances: 0, fragments: 0, three_or_more: 0, reassembled: 0, incomplete: 0, nothing: 0, offload_runs: 0 };
    let mut fails: Vec<(String, String)> = vec![];
    let mut todo: Vec<Case> = vec![];
    if seed % 1000 == 0 {
        todo.extend(corpus_cases("frag"));
    }
    let shard = (seed % 1000) as usize;
    for i in 0..n {
        let j = shard * n + i;
        let kind = FRAG_KINDS[j % FRAG_KINDS.len()];
        let med = if (j / FRAG_KINDS.len()) % 2 == 0 { Med::Ip } else { Med::Eth };
        let mtu = FRAG_MTUS[(j / (2 * FRAG_KINDS.len())) % FRAG_MTUS.len()];
        let mode = match rng.below(12) {
            0 | 1 => "tx",
            2 => "rx",
            3 => "none",
            _ => "both",
        };
        // IP packet <= 1500 bytes (FRAGMENTATION_BUFFER_SIZE); mostly >= 3 fragments
        let len = match rng.below(8) {
            0 => rng.range(1, mtu as i64) as usize,
            1 => rng.range(mtu as i64, 2 * mtu as i64) as usize,
            _ => rng.range((2 * mtu as i64).min(1300), 1464) as usize,
        };
        let payload = rng.bytes(len);
        todo.push(frag_case(format!("f{}-{}", seed, i), kind, med, mode, mtu, &payload));
    }
    for c in &todo {
        for (class, detail) in replay_frag_case(c, &mut st) {
            if !fails.iter().any(|(c2, _)| *c2 == class) {
                writeln!(out, "FAILCASE").unwrap();
                c.write(out);
                fails.push((class, detail));
            }
        }
    }
    if st.three_or_more == 0 || st.reassembled == 0 {
        fails.push(("frag-oracle-vacuous".into(), format!("no instance produced >= 3 fragments / a complete datagram ({} instances)", st.instances)));
    }
    for (c, d) in &fails {
        writeln!(out, "FAIL {} :: {}", c, d).unwrap();
    }
    writeln!(
        out,
        "STATS {{\"cases\":{},\"fragments_checked\":{},\"instances_with_3_or_more_fragments\":{},\"datagrams_reassembled\":{},\"incomplete\":{},\"nothing_emitted\":{},\"tx_offload_runs\":{}}}",
        st.instances, st.fragments, st.three_or_more, st.reassembled, st.incomplete, st.nothing, st.offload_runs
    )
    .unwrap();
}

fn replay_frag_case(c: &Case, st: &mut FragStats) -> Vec<(String, String)> {
    let med = if c.get("medium") == Some("eth") { Med::Eth } else { Med::Ip };
    let mut payload = vec![0u8; 1200];
    for op in &c.ops {
        let t: Vec<&str> = op.split_whitespace().collect();
        if t[0] == "payload" {
            payload = unhex(t[1]);
        }
    }
    let (kind, mode, mtu) = (c.get("scen").unwrap_or("udp").to_string(), c.get("caps").unwrap_or("both").to_string(), c.get_i("mtu", 296) as usize);
    match catch_unwind(AssertUnwindSafe(|| {
        let mut s2 = FragStats { instances: 0, fragments: 0, three_or_more: 0, reassembled: 0, incomplete: 0, nothing: 0, offload_runs: 0 };
        let f = frag_check(&kind, med, &mode, mtu, &payload, &mut s2);
        (f, s2)
    })) {
        Ok((f, s2)) => {
            st.instances += s2.instances;
            st.fragments += s2.fragments;
            st.three_or_more += s2.three_or_more;
            st.reassembled += s2.reassembled;
            st.incomplete += s2.incomplete;
            st.nothing += s2.nothing;
            st.offload_runs += s2.offload_runs;
            f
        }
        Err(_) => vec![("frag-egress-panics".into(), format!("case {}", c.id))],
    }
}

/// replay of FAILCASE / corpus cases of both oracles (read from stdin)
fn oracle_replay(out: &mut dyn Write) {
    replay_cases(&stdin_cases(), out);
}

fn replay_cases(cases: &[Case], out: &mut dyn Write) {
    for c in cases {
        match c.get("kind") {
            Some("emit") => {
                for op in &c.ops {
                    match catch_unwind(AssertUnwindSafe(|| emit_check(op))) {
                        Ok(None) => {}
                        Ok(Some((class, detail))) => writeln!(out, "FAIL {} :: case {} `{}`: {}", class, c.id, &op[..op.len().min(160)], &detail[..detail.len().min(300)]).unwrap(),
                        Err(_) => writeln!(out, "FAIL emit-panicked :: case {}", c.id).unwrap(),
                    }
                }
            }
            Some("lpe") => {
                let mut st = lp_stats();
                for (class, detail) in replay_lp_case(c, &mut st) {
                    writeln!(out, "FAIL {} :: case {}: {}", class, c.id, detail).unwrap();
                }
            }
            Some("frag") => {
                let mut st = FragStats { instances: 0, fragments: 0, three_or_more: 0, reassembled: 0, incomplete: 0, nothing: 0, offload_runs: 0 };
                for (class, detail) in replay_frag_case(c, &mut st) {
                    writeln!(out, "FAIL {} :: case {}: {}", class, c.id, detail).unwrap();
                }
            }
            Some("iface") => {
                let med = match c.get("medium") {
                    Some("eth") => Med::Eth,
                    Some("lowpan") => Med::Lowpan,
                    _ => Med::Ip,
                };
                let mut sc = Scen { name: c.get("scen").unwrap_or("udp4").to_string(), med, mode: c.get("caps").unwrap_or("both").to_string(), iss: 0, split: c.get_i("split", 0) as usize };
                if sc.name.contains("data") {
                    sc.iss = probe_iss(&sc.name, sc.med, &sc.mode);
                }
                if sc.name.starts_with("dhcp4") {
                    sc.iss = setup(&sc).last_xid;
                }
                let mut st = IfaceStats { injections: 0, must_drop: 0, still_valid: 0, dont_care: 0, rx_off_runs: 0, emitted_checked: 0, by: BTreeMap::new() };
                let mut emitted = vec![];
                let mut payload = vec![0u8; 4];
                for op in &c.ops {
                    let t: Vec<&str> = op.split_whitespace().collect();
                    if t[0] == "payload" {
                        payload = unhex(t[1]);
                    }
                }
                let (_, off, _) = test_packet(&sc, &payload);
                let baseline = match run_world(&sc, None, &mut emitted) {
                    Ok(d) => d,
                    Err(_) => {
                        writeln!(out, "FAIL scenario-panics :: case {}", c.id).unwrap();
                        continue;
                    }
                };
                for op in &c.ops {
                    let t: Vec<&str> = op.split_whitespace().collect();
                    if t[0] == "inject" && t.len() > 1 && t[1] != "-" {
                        let p = unhex(t[1]);
                        for (class, detail) in judge(&sc, &baseline, &p, off, &mut st, &mut emitted) {
                            writeln!(out, "FAIL {} :: case {}: {}", class, c.id, detail.replace('\n', " | ")).unwrap();
                        }
                    }
                }
                for (class, detail) in check_emitted(&sc, &mut emitted, &mut st) {
                    writeln!(out, "FAIL {} :: case {}: {}", class, c.id, detail).unwrap();
                }
            }
            _ => {}
        }
    }
}
