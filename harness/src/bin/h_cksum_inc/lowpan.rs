// oracle 4 (textually included): 6LoWPAN egress on Medium::Ieee802154 — ICMPv6 (socket-originated echo and
// automatic echo replies), NHC-compressed UDP and TCP with sizes on both sides of the single-frame limit and up
// to the fragmentation buffer.  The emitted 802.15.4 frames are parsed, reassembled (RFC 4944 FRAG1/FRAGN)
// and decompressed (RFC 6282 IPHC + NHC-UDP, stateless modes) by the INDEPENDENT code below — nothing of
// smoltcp's ingress is used — and the transport checksum of the reconstructed IPv6 datagram is verified with
// the independent RFC 1071 implementation.

#[derive(Clone, Copy, PartialEq, Eq, Debug)]
enum LpAddr {
    /// extended link-layer addresses, link-local IPv6 addresses derived from them (fully elided in IPHC)
    ExtLl,
    /// short link-layer addresses, link-local IPv6 addresses derived from them
    ShortLl,
    /// extended link-layer addresses, global addresses fd00::1 / fd00::2 (carried inline)
    ExtGlobal,
}

const LP_ADDRS: &[LpAddr] = &[LpAddr::ExtLl, LpAddr::ShortLl, LpAddr::ExtGlobal];
const LP_KINDS: &[&str] = &["icmp-sock", "echo-reply", "udp", "tcp"];

fn lp_name(a: LpAddr) -> &'static str {
    match a {
        LpAddr::ExtLl => "ext-ll",
        LpAddr::ShortLl => "short-ll",
        LpAddr::ExtGlobal => "ext-global",
    }
}

fn lp_ll(a: LpAddr, peer: bool) -> Ieee802154Address {
    let n = if peer { 2 } else { 1 };
    match a {
        // only the interface uses a short address: smoltcp's NDISC learns 8-octet link-layer addresses only,
        // so a peer with a short address could never be resolved
        LpAddr::ShortLl if !peer => Ieee802154Address::Short([0, n]),
        _ => Ieee802154Address::Extended([2, 0, 0, 0, 0, 0, 0, n]),
    }
}

fn lp_ip(a: LpAddr, peer: bool) -> Ipv6Address {
    let n = if peer { 2 } else { 1 };
    match a {
        // 02:00:00:00:00:00:00:0n with the universal/local bit inverted -> ::n
        LpAddr::ExtLl => Ipv6Address::new(0xfe80, 0, 0, 0, 0, 0, 0, n),
        LpAddr::ShortLl if !peer => Ipv6Address::new(0xfe80, 0, 0, 0, 0, 0x00ff, 0xfe00, n),
        LpAddr::ShortLl => Ipv6Address::new(0xfe80, 0, 0, 0, 0, 0, 0, n),
        LpAddr::ExtGlobal => Ipv6Address::new(0xfd00, 0, 0, 0, 0, 0, 0, n),
    }
}

// ---------------- independent 802.15.4 / 6LoWPAN decoder ----------------

/// (header length, source link-layer address bytes, destination link-layer address bytes) of a data frame
fn mac_parse(f: &[u8]) -> Option<(usize, Vec<u8>, Vec<u8>)> {
    if f.len() < 3 {
        return None;
    }
    let fc = f[0] as u16 | ((f[1] as u16) << 8);
    if fc & 7 != 1 || fc & 8 != 0 {
        return None; // not a data frame / secured
    }
    let pan_comp = fc & 0x40 != 0;
    let dm = (fc >> 10) & 3;
    let sm = (fc >> 14) & 3;
    let mut i = 3;
    let alen = |m: u16| match m {
        2 => 2,
        3 => 8,
        _ => 0,
    };
    let mut dst = vec![];
    if dm != 0 {
        i += 2;
        dst = f.get(i..i + alen(dm))?.iter().rev().cloned().collect();
        i += alen(dm);
    }
    let mut src = vec![];
    if sm != 0 {
        if !pan_comp {
            i += 2;
        }
        src = f.get(i..i + alen(sm))?.iter().rev().cloned().collect();
        i += alen(sm);
    }
    if i > f.len() {
        return None;
    }
    Some((i, src, dst))
}

fn iid_from_ll(ll: &[u8]) -> Option<[u8; 8]> {
    match ll.len() {
        8 => {
            let mut e: [u8; 8] = ll.try_into().ok()?;
            e[0] ^= 0x02;
            Some(e)
        }
        2 => Some([0, 0, 0, 0xff, 0xfe, 0, ll[0], ll[1]]),
        _ => None,
    }
}

/// unicast address from a stateless IPHC address mode; advances `i`
fn iphc_unicast(mode: u8, p: &[u8], i: &mut usize, ll: &[u8]) -> Option<[u8; 16]> {
    let mut a = [0u8; 16];
    a[0] = 0xfe;
    a[1] = 0x80;
    match mode {
        0 => {
            a.copy_from_slice(p.get(*i..*i + 16)?);
            *i += 16;
        }
        1 => {
            a[8..].copy_from_slice(p.get(*i..*i + 8)?);
            *i += 8;
        }
        2 => {
            a[11] = 0xff;
            a[12] = 0xfe;
            a[14..].copy_from_slice(p.get(*i..*i + 2)?);
            *i += 2;
        }
        _ => a[8..].copy_from_slice(&iid_from_ll(ll)?),
    }
    Some(a)
}

struct LpDatagram {
    src: [u8; 16],
    dst: [u8; 16],
    proto: u8,
    /// IPv6 payload (for NHC-UDP: the rebuilt 8-byte UDP header + data)
    payload: Vec<u8>,
    fragments: usize,
    udp_elided: bool,
}

/// Decompress IPHC (+ NHC-UDP) at the start of `p`: returns (src, dst, proto, rebuilt uncompressed transport
/// header bytes, number of compressed bytes consumed, uncompressed header length incl. the 40-byte IPv6 header,
/// index into the rebuilt header of a UDP length field to patch or usize::MAX, checksum elided)
#[allow(clippy::type_complexity)]
fn iphc_decode(p: &[u8], src_ll: &[u8], dst_ll: &[u8]) -> std::result::Result<([u8; 16], [u8; 16], u8, Vec<u8>, usize, usize, bool), &'static str> {
    if p.len() < 2 || p[0] >> 5 != 0b011 {
        return Err("not-iphc");
    }
    let (b0, b1) = (p[0], p[1]);
    let tf = (b0 >> 3) & 3;
    let nh = (b0 >> 2) & 1;
    let hlim = b0 & 3;
    let (cid, sac, sam, m, dac, dam) = (b1 >> 7, (b1 >> 6) & 1, (b1 >> 4) & 3, (b1 >> 3) & 1, (b1 >> 2) & 1, b1 & 3);
    if cid != 0 || sac != 0 || dac != 0 {
        return Err("context-based");
    }
    let mut i = 2;
    i += match tf {
        0 => 4,
        1 => 3,
        2 => 1,
        _ => 0,
    };
    let mut proto = 0u8;
    if nh == 0 {
        proto = *p.get(i).ok_or("short")?;
        i += 1;
    }
    if hlim == 0 {
        i += 1;
    }
    let src = iphc_unicast(sam, p, &mut i, src_ll).ok_or("short-src")?;
    let dst = if m == 0 {
        iphc_unicast(dam, p, &mut i, dst_ll).ok_or("short-dst")?
    } else {
        let mut a = [0u8; 16];
        a[0] = 0xff;
        match dam {
            0 => {
                a.copy_from_slice(p.get(i..i + 16).ok_or("short")?);
                i += 16;
            }
            1 => {
                let b = p.get(i..i + 6).ok_or("short")?;
                a[1] = b[0];
                a[11..].copy_from_slice(&b[1..]);
                i += 6;
            }
            2 => {
                let b = p.get(i..i + 4).ok_or("short")?;
                a[1] = b[0];
                a[13..].copy_from_slice(&b[1..]);
                i += 4;
            }
            _ => {
                a[1] = 2;
                a[15] = *p.get(i).ok_or("short")?;
                i += 1;
            }
        }
        a
    };
    if nh == 0 {
        return Ok((src, dst, proto, vec![], i, 40, false));
    }
    // NHC
    let d = *p.get(i).ok_or("short")?;
    if d & 0xf8 != 0xf0 {
        return Err("nhc-not-udp");
    }
    i += 1;
    let (c, pp) = ((d >> 2) & 1, d & 3);
    let (sp, dp): (u16, u16) = match pp {
        0 => {
            let b = p.get(i..i + 4).ok_or("short")?;
            i += 4;
            (((b[0] as u16) << 8) | b[1] as u16, ((b[2] as u16) << 8) | b[3] as u16)
        }
        1 => {
            let b = p.get(i..i + 3).ok_or("short")?;
            i += 3;
            (((b[0] as u16) << 8) | b[1] as u16, 0xf000 | b[2] as u16)
        }
        2 => {
            let b = p.get(i..i + 3).ok_or("short")?;
            i += 3;
            (0xf000 | b[0] as u16, ((b[1] as u16) << 8) | b[2] as u16)
        }
        _ => {
            let b = *p.get(i).ok_or("short")?;
            i += 1;
            (0xf0b0 | (b >> 4) as u16, 0xf0b0 | (b & 0xf) as u16)
        }
    };
    let mut ck = 0u16;
    if c == 0 {
        let b = p.get(i..i + 2).ok_or("short")?;
        ck = ((b[0] as u16) << 8) | b[1] as u16;
        i += 2;
    }
    let mut u = vec![0u8; 8];
    set16(&mut u, 0, sp);
    set16(&mut u, 2, dp);
    set16(&mut u, 6, ck);
    Ok((src, dst, 17, u, i, 48, c == 1))
}

/// all complete IPv6 datagrams in the emitted frames (+ count of frames that could not be decoded, with reason)
fn lowpan_decode(frames: &[Vec<u8>], undecodable: &mut BTreeMap<String, u64>) -> Vec<LpDatagram> {
    struct Partial {
        size: usize,
        buf: Vec<u8>,
        have: Vec<bool>,
        meta: Option<([u8; 16], [u8; 16], u8, bool)>,
        n: usize,
    }
    let mut out = vec![];
    let mut parts: BTreeMap<u16, Partial> = BTreeMap::new();
    let mut order: Vec<u16> = vec![];
    for f in frames {
        let (hl, sll, dll) = match mac_parse(f) {
            Some(x) => x,
            None => {
                *undecodable.entry("mac".into()).or_default() += 1;
                continue;
            }
        };
        let p = &f[hl..];
        if p.is_empty() {
            continue;
        }
        let disp = p[0] >> 3;
        if disp == 0b11000 || disp == 0b11100 {
            let first = disp == 0b11000;
            let hdr = if first { 4 } else { 5 };
            if p.len() < hdr {
                continue;
            }
            let size = (((p[0] & 7) as usize) << 8) | p[1] as usize;
            let tag = ((p[2] as u16) << 8) | p[3] as u16;
            let e = parts.entry(tag).or_insert_with(|| {
                order.push(tag);
                Partial { size, buf: vec![0; size], have: vec![false; size], meta: None, n: 0 }
            });
            e.n += 1;
            if first {
                match iphc_decode(&p[4..], &sll, &dll) {
                    Ok((s, d, proto, mut th, used, unc, elided)) => {
                        if !th.is_empty() {
                            set16(&mut th, 4, (size - 40) as u16);
                        }
                        let rest = &p[4 + used..];
                        let start = unc - 40 - th.len(); // = 0
                        let mut chunk = th.clone();
                        chunk.extend_from_slice(rest);
                        for (k, b) in chunk.iter().enumerate() {
                            let pos = 40 + start + k;
                            if pos < e.size {
                                e.buf[pos] = *b;
                                e.have[pos] = true;
                            }
                        }
                        e.meta = Some((s, d, proto, elided));
                    }
                    Err(r) => {
                        *undecodable.entry(r.into()).or_default() += 1;
                    }
                }
            } else {
                let off = p[4] as usize * 8;
                for (k, b) in p[5..].iter().enumerate() {
                    if off + k < e.size {
                        e.buf[off + k] = *b;
                        e.have[off + k] = true;
                    }
                }
            }
        } else if p[0] >> 5 == 0b011 {
            match iphc_decode(p, &sll, &dll) {
                Ok((s, d, proto, mut th, used, _unc, elided)) => {
                    let rest = &p[used..];
                    if !th.is_empty() {
                        set16(&mut th, 4, (8 + rest.len()) as u16);
                    }
                    th.extend_from_slice(rest);
                    out.push(LpDatagram { src: s, dst: d, proto, payload: th, fragments: 1, udp_elided: elided });
                }
                Err(r) => {
                    *undecodable.entry(r.into()).or_default() += 1;
                }
            }
        } else {
            *undecodable.entry("dispatch".into()).or_default() += 1;
        }
    }
    for tag in order {
        let e = &parts[&tag];
        match e.meta {
            Some((s, d, proto, elided)) if e.size >= 40 && e.have[40..].iter().all(|x| *x) => {
                out.push(LpDatagram { src: s, dst: d, proto, payload: e.buf[40..].to_vec(), fragments: e.n, udp_elided: elided });
            }
            _ => {
                *undecodable.entry("incomplete-reassembly".into()).or_default() += 1;
            }
        }
    }
    out
}

// ---------------- the scenarios ----------------

struct LpWorld {
    w: World,
    a: LpAddr,
}

fn lp_frame(a: LpAddr, seq: u8, payload: &[u8]) -> Vec<u8> {
    let repr = Ieee802154Repr {
        frame_type: Ieee802154FrameType::Data,
        security_enabled: false,
        frame_pending: false,
        ack_request: false,
        sequence_number: Some(seq),
        pan_id_compression: true,
        frame_version: Ieee802154FrameVersion::Ieee802154_2003,
        dst_pan_id: Some(Ieee802154Pan(PAN)),
        dst_addr: Some(lp_ll(a, false)),
        src_pan_id: Some(Ieee802154Pan(PAN)),
        src_addr: Some(lp_ll(a, true)),
    };
    let mut b = vec![0u8; repr.buffer_len() + payload.len()];
    repr.emit(&mut Ieee802154Frame::new_unchecked(&mut b[..]));
    let n = repr.buffer_len();
    b[n..].copy_from_slice(payload);
    b
}

/// hand an IPv6 datagram from the peer to the interface as 6LoWPAN (IPHC, next header inline), fragmented if needed
fn lp_inject(lw: &mut LpWorld, proto: IpProtocol, l4: &[u8]) {
    let a = lw.a;
    let iphc = SixlowpanIphcRepr {
        src_addr: lp_ip(a, true),
        ll_src_addr: Some(lp_ll(a, true)),
        dst_addr: lp_ip(a, false),
        ll_dst_addr: Some(lp_ll(a, false)),
        next_header: SixlowpanNextHeader::Uncompressed(proto),
        hop_limit: 255,
        ecn: None,
        dscp: None,
        flow_label: None,
    };
    let n1 = iphc.buffer_len();
    let mut hdr = vec![0u8; n1];
    iphc.emit(&mut SixlowpanIphcPacket::new_unchecked(&mut hdr[..]));
    let mac = 23;
    if mac + n1 + l4.len() <= 125 {
        let mut p = hdr.clone();
        p.extend_from_slice(l4);
        lw.w.dev.rx.push_back(lp_frame(a, 1, &p));
        return;
    }
    let size = (40 + l4.len()) as u16;
    // FRAG1: 40 + first must be a multiple of 8
    let room = 125 - mac - 4 - n1;
    let first = room / 8 * 8;
    let f1 = SixlowpanFragRepr::FirstFragment { size, tag: 0x7777 };
    let mut p = vec![0u8; 4];
    f1.emit(&mut SixlowpanFragPacket::new_unchecked(&mut p[..]));
    p.extend_from_slice(&hdr);
    p.extend_from_slice(&l4[..first.min(l4.len())]);
    lw.w.dev.rx.push_back(lp_frame(a, 1, &p));
    let mut off = first;
    let step = (125 - mac - 5) / 8 * 8;
    let mut seq = 2u8;
    while off < l4.len() {
        let end = (off + step).min(l4.len());
        let fnr = SixlowpanFragRepr::Fragment { size, tag: 0x7777, offset: ((40 + off) / 8) as u8 };
        let mut p = vec![0u8; 5];
        fnr.emit(&mut SixlowpanFragPacket::new_unchecked(&mut p[..]));
        p.extend_from_slice(&l4[off..end]);
        lw.w.dev.rx.push_back(lp_frame(a, seq, &p));
        seq = seq.wrapping_add(1);
        off = end;
    }
}

fn mk_lp_world(a: LpAddr, mode: &str) -> LpWorld {
    let mut dev = QDev::new(Medium::Ieee802154, 1280);
    dev.checksum = mode_caps(mode);
    let mut config = Config::new(HardwareAddress::Ieee802154(lp_ll(a, false)));
    config.random_seed = 0x1234_5678;
    config.pan_id = Some(Ieee802154Pan(PAN));
    let mut iface = Interface::new(config, &mut dev, Instant::ZERO);
    iface.update_ip_addrs(|x| {
        x.push(IpCidr::new(IpAddress::Ipv6(lp_ip(a, false)), 64)).unwrap();
    });
    let mut sockets = SocketSet::new(vec![]);
    let pb = || udp::PacketBuffer::new(vec![udp::PacketMetadata::EMPTY; 4], vec![0u8; 4096]);
    let mut u = udp::Socket::new(pb(), pb());
    u.bind(UDP_PORT).unwrap();
    let h_udp = sockets.add(u);
    let mut t = tcp::Socket::new(tcp::SocketBuffer::new(vec![0u8; 4096]), tcp::SocketBuffer::new(vec![0u8; 4096]));
    t.listen(TCP_PORT).unwrap();
    let h_tcp = sockets.add(t);
    let ib = || icmp::PacketBuffer::new(vec![icmp::PacketMetadata::EMPTY; 4], vec![0u8; 4096]);
    let mut ic = icmp::Socket::new(ib(), ib());
    ic.bind(icmp::Endpoint::Ident(ICMP_IDENT)).unwrap();
    let h_icmp = sockets.add(ic);
    let mut ic2 = icmp::Socket::new(ib(), ib());
    ic2.bind(icmp::Endpoint::Udp(UDP_PORT.into())).unwrap();
    let h_icmp_udp = sockets.add(ic2);
    let w = World { iface, dev, sockets, h_udp, h_tcp, h_icmp, h_icmp_udp, h_dhcp: None, last_xid: 0, med: Med::Lowpan, now: 0, emitted: vec![] };
    let mut lw = LpWorld { w, a };
    // the peer announces itself (neighbor solicitation with source link-layer address option)
    let ns = Icmpv6Repr::Ndisc(NdiscRepr::NeighborSolicit { target_addr: lp_ip(a, false), lladdr: Some(RawHardwareAddress::from(lp_ll(a, true))) });
    let mut b = vec![0u8; ns.buffer_len()];
    ns.emit(&lp_ip(a, true), &lp_ip(a, false), &mut Icmpv6Packet::new_unchecked(&mut b[..]), &ChecksumCapabilities::default());
    lp_inject(&mut lw, IpProtocol::Icmpv6, &b);
    lw.w.poll();
    lw.w.poll();
    lw
}

struct LpStats {
    instances: u64,
    frames: u64,
    datagrams: u64,
    fragmented: u64,
    verified: u64,
    fragmented_verified: u64,
    txoff_zero: u64,
    txoff_nonzero: u64,
    udp_elided: u64,
    nothing: u64,
    undecodable: BTreeMap<String, u64>,
    by: BTreeMap<String, u64>,
}

fn lp_stats() -> LpStats {
    LpStats { instances: 0, frames: 0, datagrams: 0, fragmented: 0, verified: 0, fragmented_verified: 0, txoff_zero: 0, txoff_nonzero: 0, udp_elided: 0, nothing: 0, undecodable: BTreeMap::new(), by: BTreeMap::new() }
}

fn lp_check(kind: &str, a: LpAddr, mode: &str, payload: &[u8], st: &mut LpStats) -> Vec<(String, String)> {
    let mut fails: Vec<(String, String)> = vec![];
    let mut lw = mk_lp_world(a, mode);
    let mut frames: Vec<Vec<u8>> = lw.w.take_tx();
    let peer = lp_ip(a, true);
    match kind {
        "icmp-sock" => {
            let r = Icmpv6Repr::EchoRequest { ident: ICMP_IDENT, seq_no: 5, data: payload };
            let ic = lw.w.sockets.get_mut::<icmp::Socket>(lw.w.h_icmp);
            match ic.send(r.buffer_len(), IpAddress::Ipv6(peer)) {
                Ok(buf) => r.emit(&lp_ip(a, false), &peer, &mut Icmpv6Packet::new_unchecked(buf), &ChecksumCapabilities::default()),
                Err(_) => return fails,
            }
        }
        "echo-reply" => {
            let r = Icmpv6Repr::EchoRequest { ident: 0x4321, seq_no: 9, data: payload };
            let mut b = vec![0u8; r.buffer_len()];
            r.emit(&peer, &lp_ip(a, false), &mut Icmpv6Packet::new_unchecked(&mut b[..]), &ChecksumCapabilities::default());
            lp_inject(&mut lw, IpProtocol::Icmpv6, &b);
        }
        "udp" => {
            let u = lw.w.sockets.get_mut::<udp::Socket>(lw.w.h_udp);
            if u.send_slice(payload, IpEndpoint::new(IpAddress::Ipv6(peer), 9000)).is_err() {
                return fails;
            }
        }
        _ => {
            // TCP: handshake with the listening socket (ISS read from the decoded SYN-ACK), then the socket sends
            let (s, d) = (IpAddress::Ipv6(peer), IpAddress::Ipv6(lp_ip(a, false)));
            let seg = |control: TcpControl, seq: u32, ack: Option<u32>| -> Vec<u8> {
                let r = TcpRepr {
                    src_port: 9001,
                    dst_port: TCP_PORT,
                    control,
                    seq_number: TcpSeqNumber(seq as i32),
                    ack_number: ack.map(|x| TcpSeqNumber(x as i32)),
                    window_len: 8192,
                    window_scale: None,
                    max_seg_size: if control == TcpControl::Syn { Some(1200) } else { None },
                    sack_permitted: false,
                    sack_ranges: [None, None, None],
                    timestamp: None,
                    payload: &[],
                };
                let mut b = vec![0u8; r.buffer_len()];
                r.emit(&mut TcpPacket::new_unchecked(&mut b[..]), &s, &d, &ChecksumCapabilities::default());
                b
            };
            lp_inject(&mut lw, IpProtocol::Tcp, &seg(TcpControl::Syn, 1000, None));
            lw.w.poll();
            lw.w.poll();
            let fr = lw.w.take_tx();
            let mut und = BTreeMap::new();
            let mut iss = None;
            for dg in lowpan_decode(&fr, &mut und) {
                if dg.proto == 6 && dg.payload.len() >= 20 && dg.payload[13] & 0x12 == 0x12 {
                    iss = Some(u32::from_be_bytes(dg.payload[4..8].try_into().unwrap()));
                }
            }
            frames.extend(fr);
            let iss = match iss {
                Some(x) => x,
                None => {
                    st.nothing += 1;
                    return fails;
                }
            };
            lp_inject(&mut lw, IpProtocol::Tcp, &seg(TcpControl::None, 1001, Some(iss.wrapping_add(1))));
            lw.w.poll();
            let t = lw.w.sockets.get_mut::<tcp::Socket>(lw.w.h_tcp);
            if t.send_slice(payload).is_err() {
                return fails;
            }
        }
    }
    for _ in 0..40 {
        lw.w.poll();
        frames.extend(lw.w.take_tx());
    }
    st.instances += 1;
    st.frames += frames.len() as u64;
    let mut und = BTreeMap::new();
    let dgs = lowpan_decode(&frames, &mut und);
    for (k, v) in und {
        *st.undecodable.entry(k).or_default() += v;
    }
    if dgs.is_empty() {
        st.nothing += 1;
    }
    let tx_on = mode == "both" || mode == "tx";
    for dg in &dgs {
        st.datagrams += 1;
        if dg.fragments > 1 {
            st.fragmented += 1;
        }
        if dg.udp_elided {
            st.udp_elided += 1;
            continue;
        }
        let ck_off = match dg.proto {
            6 => 16,
            17 => 6,
            58 => 2,
            _ => continue,
        };
        if dg.payload.len() < ck_off + 2 {
            continue;
        }
        let pname = match dg.proto {
            6 => "tcp",
            17 => "udp",
            _ => "icmpv6",
        };
        if !tx_on {
            // checksumming left to the device: the code writes a zero field for ICMPv6 and TCP (NHC-UDP leaves the
            // two octets as they were in the buffer); recorded, not judged — C08 speaks about checksumming enabled
            if dg.payload[ck_off] == 0 && dg.payload[ck_off + 1] == 0 {
                st.txoff_zero += 1;
            } else {
                st.txoff_nonzero += 1;
                *st.by.entry(format!("txoff-nonzero:{}", pname)).or_default() += 1;
            }
            continue;
        }
        match indep_check_l4(&dg.src, &dg.dst, dg.proto, &dg.payload) {
            Verdict::Valid => {
                st.verified += 1;
                *st.by.entry(format!("ok:{}:{}", pname, if dg.fragments > 1 { "fragmented" } else { "single" })).or_default() += 1;
                if dg.fragments > 1 {
                    st.fragmented_verified += 1;
                }
            }
            Verdict::Invalid(r) => {
                let class = format!("emitted-bad-lowpan-{}", r);
                if !fails.iter().any(|(c, _)| *c == class) {
                    fails.push((
                        class,
                        format!(
                            "{} {} caps {} payload {} B: the {} datagram reconstructed from {} emitted 802.15.4 frame(s) ({} -> {}, {} payload octets) fails independent verification ({}); transport header {}",
                            kind, lp_name(a), mode, payload.len(), pname, dg.fragments, Ipv6Address::from_octets(dg.src), Ipv6Address::from_octets(dg.dst), dg.payload.len(), r, hex(&dg.payload[..dg.payload.len().min(20)])
                        ),
                    ));
                }
            }
            Verdict::DontCare(r) => {
                *st.by.entry(format!("dontcare:{}", r)).or_default() += 1;
            }
        }
    }
    fails
}

fn lp_case(id: String, kind: &str, a: LpAddr, mode: &str, payload: &[u8]) -> Case {
    Case {
        id,
        cfg: vec![("kind".into(), "lpe".into()), ("scen".into(), kind.into()), ("addr".into(), lp_name(a).into()), ("caps".into(), mode.into())],
        ops: vec![format!("payload {}", hex(payload))],
    }
}

fn replay_lp_case(c: &Case, st: &mut LpStats) -> Vec<(String, String)> {
    let a = match c.get("addr") {
        Some("short-ll") => LpAddr::ShortLl,
        Some("ext-global") => LpAddr::ExtGlobal,
        _ => LpAddr::ExtLl,
    };
    let mut payload = vec![0x55u8; 200];
    for op in &c.ops {
        let t: Vec<&str> = op.split_whitespace().collect();
        if t[0] == "payload" {
            payload = unhex(t[1]);
        }
    }
    let (kind, mode) = (c.get("scen").unwrap_or("icmp-sock").to_string(), c.get("caps").unwrap_or("both").to_string());
    match catch_unwind(AssertUnwindSafe(|| {
        let mut s2 = lp_stats();
        let f = lp_check(&kind, a, &mode, &payload, &mut s2);
        (f, s2)
    })) {
        Ok((f, s2)) => {
            st.instances += s2.instances;
            st.frames += s2.frames;
            st.datagrams += s2.datagrams;
            st.fragmented += s2.fragmented;
            st.verified += s2.verified;
            st.fragmented_verified += s2.fragmented_verified;
            st.txoff_zero += s2.txoff_zero;
            st.txoff_nonzero += s2.txoff_nonzero;
            st.udp_elided += s2.udp_elided;
            st.nothing += s2.nothing;
            for (k, v) in s2.undecodable {
                *st.undecodable.entry(k).or_default() += v;
            }
            for (k, v) in s2.by {
                *st.by.entry(k).or_default() += v;
            }
            f
        }
        Err(_) => vec![("lowpan-egress-panics".into(), format!("case {}", c.id))],
    }
}

fn oracle_lowpan_egress(seed: u64, n: usize, _tier: &str, out: &mut dyn Write) {
    let mut rng = Rng::new(seed ^ 0x6C0A);
    let mut st = lp_stats();
    let mut fails: Vec<(String, String)> = vec![];
    let mut todo: Vec<Case> = vec![];
    if seed % 1000 == 0 {
        todo.extend(corpus_cases("lpe"));
    }
    let shard = (seed % 1000) as usize;
    for i in 0..n {
        let j = shard * n + i;
        let kind = LP_KINDS[j % LP_KINDS.len()];
        let a = LP_ADDRS[(j / LP_KINDS.len()) % LP_ADDRS.len()];
        let mode = match rng.below(8) {
            0 => "rx",
            1 => "none",
            2 | 3 => "tx",
            _ => "both",
        };
        // around the single-frame limit (about 40..100 payload octets depending on the addressing), mid-size, and
        // up to what the 1500-octet fragmentation buffer holds
        let len = match rng.below(6) {
            0 => rng.range(1, 40) as usize,
            1 | 2 => rng.range(40, 130) as usize,
            3 => rng.range(130, 400) as usize,
            4 => rng.range(400, 1100) as usize,
            _ => rng.range(1100, 1400) as usize,
        };
        let payload = rng.bytes(len);
        todo.push(lp_case(format!("l{}-{}", seed, i), kind, a, mode, &payload));
    }
    for c in &todo {
        for (class, detail) in replay_lp_case(c, &mut st) {
            if !fails.iter().any(|(c2, _)| *c2 == class) {
                writeln!(out, "FAILCASE").unwrap();
                c.write(out);
                fails.push((class, detail));
            }
        }
    }
    if n >= 24 && (st.fragmented_verified == 0 || st.verified == 0) {
        fails.push(("lowpan-egress-oracle-vacuous".into(), format!("no fragmented datagram was decoded and verified ({} instances, undecodable {:?})", st.instances, st.undecodable)));
    }
    for (c, d) in &fails {
        writeln!(out, "FAIL {} :: {}", c, d).unwrap();
    }
    let und: Vec<String> = st.undecodable.iter().map(|(k, v)| format!("{}:{}", jstr(&format!("undecodable:{}", k)), v)).collect();
    let by: Vec<String> = st.by.iter().map(|(k, v)| format!("{}:{}", jstr(k), v)).collect();
    let mut extra = und;
    extra.extend(by);
    writeln!(
        out,
        "STATS {{\"cases\":{},\"frames\":{},\"datagrams_decoded\":{},\"fragmented_datagrams\":{},\"verified\":{},\"fragmented_verified\":{},\"txoff_zero_field\":{},\"txoff_nonzero_field\":{},\"udp_checksum_elided\":{},\"nothing_decoded\":{}{}{}}}",
        st.instances, st.frames, st.datagrams, st.fragmented, st.verified, st.fragmented_verified, st.txoff_zero, st.txoff_nonzero, st.udp_elided, st.nothing,
        if extra.is_empty() { "" } else { "," },
        extra.join(",")
    )
    .unwrap();
}
