//! Stream `wire-pretty` (property C07, pretty-printer clause): the real
//! `PrettyPrinter::<T>::new("", &bytes)` formatted with `format!("{}")` for every wire type with a
//! `PrettyPrint` impl, compared with the control/buffer-access model coq/Model/WirePretty.v.
//!
//!   h_pretty gen <seed> <n> <tier>        cases on stdout
//!   h_pretty run                           cases on stdin -> observations
//!   h_pretty oracle <seed> <n> <tier>     implementation only: FAILCASE / FAIL <class> :: … / STATS {json}
//!   h_pretty oracle-replay                 cases on stdin -> FAIL lines
//!
//! Case: `case <id> kind=<nest|random>` + ops `pp <root> <hex>` + `end`, root one of
//! eth arp ipv4 ipv6 icmpv4 udp tcp igmp ndopt.
//! Observation per op: `OK <line> <line> …` | `PANIC` | `HANG`, one `<KIND>:<errors>:<number>` per
//! output line: KIND identifies the printer and the variant it printed (first words of the line),
//! errors = how many times the line contains "(wire::Error)", number = the ethertype / protocol /
//! `len=` value the line shows (0 if none).  A line that is exactly "(wire::Error)" is `ERR:1:0`
//! (a printer rejected its header), an empty line `SILENT:0:0` (IPv4 / IPv6 / NDISC option printers
//! return silently when Repr::parse fails).
//!
//! Generator: a well-formed nested frame for a random protocol combination (Ethernet / ARP / IPv4
//! with and without options / IPv6 / ICMPv4 echo and error messages quoting further datagrams to a
//! random depth / UDP / TCP with option lists / IGMP / NDISC options), then every truncation,
//! single-field corruptions of every header (ethertype, version/IHL, total length, fragment bits,
//! protocol, next header, payload length, UDP length, TCP data offset and option octets, ICMP type,
//! ARP lengths …) with boundary values incl. values around the remaining buffer length, trailing
//! padding; kind=random: random octets 0..=2048 (raw and with plausible leading octets).
use smoltcp::wire::pretty_print::PrettyPrint;
use smoltcp::wire::*;
use std::io::Write;
use std::sync::mpsc;
use svh::*;

// ---------------------------------------------------------------- implementation side

fn pretty<T: PrettyPrint>(b: &[u8]) -> String {
    let v = b.to_vec();
    format!("{}", PrettyPrinter::<T>::new("", &v))
}

fn pretty_root(root: &str, b: &[u8]) -> String {
    match root {
        "eth" => pretty::<EthernetFrame<&[u8]>>(b),
        "arp" => pretty::<ArpPacket<&[u8]>>(b),
        "ipv4" => pretty::<Ipv4Packet<&[u8]>>(b),
        "ipv6" => pretty::<Ipv6Packet<&[u8]>>(b),
        "icmpv4" => pretty::<Icmpv4Packet<&[u8]>>(b),
        "udp" => pretty::<UdpPacket<&[u8]>>(b),
        "tcp" => pretty::<TcpPacket<&[u8]>>(b),
        "igmp" => pretty::<IgmpPacket<&[u8]>>(b),
        "ndopt" => pretty::<NdiscOption<&[u8]>>(b),
        x => panic!("unknown root {}", x),
    }
}

const ERR: &str = "(wire::Error)";

fn num_after(line: &str, key: &str) -> i64 {
    match line.find(key) {
        None => -1,
        Some(i) => {
            let s: String = line[i + key.len()..].chars().take_while(|c| c.is_ascii_digit()).collect();
            s.parse().unwrap_or(-1)
        }
    }
}

fn word_after<'a>(line: &'a str, key: &str) -> &'a str {
    match line.find(key) {
        None => "",
        Some(i) => line[i + key.len()..].split(' ').next().unwrap_or(""),
    }
}

fn proto_num(w: &str) -> i64 {
    match w {
        "Hop-by-Hop" => 0,
        "ICMP" => 1,
        "IGMP" => 2,
        "TCP" => 6,
        "UDP" => 17,
        "IPv6-Route" => 0x2b,
        "IPv6-Frag" => 0x2c,
        "IPsec-ESP" => 0x32,
        "IPsec-AH" => 0x33,
        "ICMPv6" => 0x3a,
        "IPv6-NoNxt" => 0x3b,
        "IPv6-Opts" => 0x3c,
        w if w.starts_with("0x") => i64::from_str_radix(&w[2..], 16).unwrap_or(-1),
        _ => -1,
    }
}

fn ethertype_num(w: &str) -> i64 {
    match w {
        "IPv4" => 0x0800,
        "ARP" => 0x0806,
        "IPv6" => 0x86dd,
        w if w.starts_with("0x") => i64::from_str_radix(&w[2..], 16).unwrap_or(-1),
        _ => -1,
    }
}

/// one output line -> `<KIND>:<errors>:<number>`
fn canon_line(line: &str) -> String {
    // indentation: spaces, then "\ " on nested lines
    let l = line.trim_start_matches(' ');
    let l = l.strip_prefix("\\ ").unwrap_or(l);
    let errs = l.matches(ERR).count();
    if l.is_empty() {
        return "SILENT:0:0".into();
    }
    if l == ERR {
        return "ERR:1:0".into();
    }
    let (kind, info): (&str, i64) = if l.starts_with("EthernetII ") {
        ("ETH", ethertype_num(word_after(l, " type=")))
    } else if l.starts_with("ARP type=Ethernet+IPv4 ") {
        ("ARP", 0)
    } else if l.starts_with("ARP (unrecognized)") {
        ("ARP-UNREC", 0)
    } else if l.starts_with("IPv4 Fragment ") {
        ("IPV4-FRAG", 0)
    } else if l.starts_with("IPv4 src=") {
        ("IPV4", proto_num(word_after(l, " proto=")))
    } else if l.starts_with("IPv6 src=") {
        ("IPV6", proto_num(word_after(l, " nxt_hdr=")))
    } else if l.starts_with("ICMPv4 echo request ") {
        ("ICMPV4-ECHOREQ", num_after(l, " len="))
    } else if l.starts_with("ICMPv4 echo reply ") {
        ("ICMPV4-ECHOREP", num_after(l, " len="))
    } else if l.starts_with("ICMPv4 destination unreachable ") {
        ("ICMPV4-UNREACH", 0)
    } else if l.starts_with("ICMPv4 time exceeded ") {
        ("ICMPV4-TIMEEXC", 0)
    } else if l.starts_with("ICMPv4 (wire::Error) type=") {
        ("ICMPV4-RAW", 0)
    } else if l.starts_with("UDP src=") {
        ("UDP", num_after(l, " len="))
    } else if l.starts_with("TCP src=") {
        ("TCP", num_after(l, " len="))
    } else if l.starts_with("IGMP membership query ") {
        ("IGMP-QUERY", 0)
    } else if l.starts_with("IGMP membership report ") {
        ("IGMP-REPORT", 0)
    } else if l.starts_with("IGMP leave group ") {
        ("IGMP-LEAVE", 0)
    } else if l.starts_with("IGMP (wire::Error)") {
        ("IGMP-RAW", 0)
    } else if l.starts_with("NDISC Option: ") {
        let rest = &l["NDISC Option: ".len()..];
        let k = if rest.starts_with("SourceLinkLayer ") {
            1
        } else if rest.starts_with("TargetLinkLayer ") {
            2
        } else if rest.starts_with("PrefixInformation ") {
            3
        } else if rest.starts_with("RedirectedHeader ") {
            4
        } else if rest.starts_with("MTU ") {
            5
        } else if rest.starts_with("Unknown(") {
            6
        } else {
            -1
        };
        ("NDOPT", k)
    } else {
        return format!("UNKNOWN-LINE:{}:{}", errs, l.replace(' ', "_"));
    };
    format!("{}:{}:{}", kind, errs, info)
}

fn canon(root: &str, text: &str) -> String {
    let mut t = text;
    let mut pre = String::from("OK");
    if root == "igmp" {
        // igmp.rs uses writeln!: exactly one trailing newline belongs to the line itself
        match t.strip_suffix('\n') {
            Some(s) => t = s,
            None => pre.push_str(" NO-EOL"),
        }
    }
    for line in t.split('\n') {
        pre.push(' ');
        pre.push_str(&canon_line(line));
    }
    pre
}

/// Runs ops on a worker thread (8 MiB stack like a main thread) under catch_unwind; a probe that
/// does not answer within 5 s is reported as HANG and the worker is abandoned.
struct Runner {
    tx: mpsc::Sender<(String, Vec<u8>)>,
    rx: mpsc::Receiver<Option<String>>,
    hangs: u32,
}

impl Runner {
    fn new() -> Runner {
        let (tx, wrx) = mpsc::channel::<(String, Vec<u8>)>();
        let (wtx, rx) = mpsc::channel::<Option<String>>();
        std::thread::Builder::new()
            .stack_size(8 << 20)
            .spawn(move || {
                while let Ok((root, b)) = wrx.recv() {
                    let r = catch(move || pretty_root(&root, &b));
                    if wtx.send(r).is_err() {
                        break;
                    }
                }
            })
            .unwrap();
        Runner { tx, rx, hangs: 0 }
    }
    /// Ok(text) | Err("PANIC") | Err("HANG")
    fn run(&mut self, root: &str, b: &[u8]) -> std::result::Result<String, &'static str> {
        if self.hangs >= 3 {
            // three abandoned workers are spinning already: do not start more (the model never
            // answers HANG, so every such line is a disagreement anyway)
            return Err("HANG");
        }
        self.tx.send((root.to_string(), b.to_vec())).unwrap();
        match self.rx.recv_timeout(std::time::Duration::from_secs(5)) {
            Ok(Some(s)) => Ok(s),
            Ok(None) => Err("PANIC"),
            Err(_) => {
                let h = self.hangs + 1;
                *self = Runner::new();
                self.hangs = h;
                Err("HANG")
            }
        }
    }
}

fn parse_op(op: &str) -> (String, Vec<u8>) {
    let mut it = op.split_whitespace();
    assert_eq!(it.next(), Some("pp"), "op = pp <root> <hex>");
    let root = it.next().expect("root").to_string();
    let b = unhex(it.next().expect("hex"));
    (root, b)
}

// ---------------------------------------------------------------- generator

fn sum16(d: &[u8]) -> u32 {
    let mut s: u32 = 0;
    let mut i = 0;
    while i + 1 < d.len() {
        s += ((d[i] as u32) << 8) | d[i + 1] as u32;
        i += 2;
    }
    if i < d.len() {
        s += (d[i] as u32) << 8;
    }
    s
}
fn fold(mut s: u32) -> u16 {
    while s >> 16 != 0 {
        s = (s >> 16) + (s & 0xffff);
    }
    s as u16
}
fn cksum(d: &[u8]) -> u16 {
    !fold(sum16(d))
}
fn pseudo_cksum(src: &[u8], dst: &[u8], proto: u8, d: &[u8]) -> u16 {
    let s = sum16(src) + sum16(dst) + proto as u32 + (d.len() as u32 & 0xffff) + sum16(d);
    !fold(s)
}
fn put16(b: &mut [u8], at: usize, v: u16) {
    b[at] = (v >> 8) as u8;
    b[at + 1] = v as u8;
}

/// A constructed packet and where each header starts.
#[derive(Clone)]
struct Built {
    bytes: Vec<u8>,
    layers: Vec<(&'static str, usize)>,
}

impl Built {
    fn leaf(kind: &'static str, bytes: Vec<u8>) -> Built {
        Built { bytes, layers: vec![(kind, 0)] }
    }
    fn wrap(kind: &'static str, header: Vec<u8>, inner: Built) -> Built {
        let h = header.len();
        let mut bytes = header;
        bytes.extend_from_slice(&inner.bytes);
        let mut layers = vec![(kind, 0)];
        layers.extend(inner.layers.iter().map(|(k, s)| (*k, s + h)));
        Built { bytes, layers }
    }
}

struct Addrs {
    src: Vec<u8>,
    dst: Vec<u8>,
}

fn addrs(r: &mut Rng, v4: bool) -> Addrs {
    let n = if v4 { 4 } else { 16 };
    Addrs { src: r.bytes(n), dst: r.bytes(n) }
}

fn port(r: &mut Rng) -> u16 {
    // destination port 0 makes UdpRepr::parse / TcpRepr::parse fail: keep it rare but present
    if r.chance(1, 12) {
        0
    } else {
        r.range(1, 65535) as u16
    }
}

fn gen_udp(r: &mut Rng, a: &Addrs) -> Built {
    let plen = *r.pick(&[0usize, 1, 4, 12, 33]) + r.below(3) as usize;
    let mut b = vec![0u8; 8 + plen];
    put16(&mut b, 0, port(r));
    put16(&mut b, 2, port(r));
    put16(&mut b, 4, (8 + plen) as u16);
    for x in &mut b[8..] {
        *x = r.next() as u8;
    }
    match r.below(4) {
        0 => {} // no checksum
        1 => put16(&mut b, 6, r.next() as u16),
        _ => {
            let c = pseudo_cksum(&a.src, &a.dst, 17, &b);
            put16(&mut b, 6, if c == 0 { 0xffff } else { c });
        }
    }
    Built::leaf("udp", b)
}

fn gen_tcp_options(r: &mut Rng) -> Vec<u8> {
    let mut o: Vec<u8> = vec![];
    let n = r.below(5);
    for _ in 0..n {
        match r.below(10) {
            0 => o.push(1),                                         // NOP
            1 => o.extend_from_slice(&[2, 4, r.next() as u8, r.next() as u8]), // MSS
            2 => o.extend_from_slice(&[3, 3, r.below(16) as u8]),   // WS
            3 => o.extend_from_slice(&[4, 2]),                      // SACK permitted
            4 => {
                let k = r.range(1, 3) as usize;                     // SACK ranges
                o.push(5);
                o.push((2 + 8 * k) as u8);
                o.extend(r.bytes(8 * k));
            }
            5 => {
                o.extend_from_slice(&[8, 10]);                      // timestamp
                o.extend(r.bytes(8));
            }
            6 => {
                let k = r.below(6) as usize;                        // unknown kind
                o.push(*r.pick(&[6u8, 7, 30, 254]));
                o.push((2 + k) as u8);
                o.extend(r.bytes(k));
            }
            7 => o.push(0),                                         // END in the middle
            8 => o.extend_from_slice(&[*r.pick(&[2u8, 3, 4, 5, 8, 9]), *r.pick(&[0u8, 1, 2, 3, 4, 9, 10, 11, 34, 255])]), // wrong length
            _ => o.push(1),
        }
    }
    while o.len() % 4 != 0 {
        o.push(if r.chance(1, 2) { 0 } else { 1 });
    }
    o.truncate(40);
    o
}

fn gen_tcp(r: &mut Rng, a: &Addrs) -> Built {
    let opts = gen_tcp_options(r);
    let plen = *r.pick(&[0usize, 0, 1, 7, 40]);
    let hl = 20 + opts.len();
    let mut b = vec![0u8; hl + plen];
    put16(&mut b, 0, port(r));
    put16(&mut b, 2, port(r));
    b[4..12].copy_from_slice(&r.bytes(8));
    let flags: u16 = match r.below(8) {
        0 => 0x002,          // SYN
        1 => 0x012,          // SYN ACK
        2 => 0x010,          // ACK
        3 => 0x018,          // PSH ACK
        4 => 0x011,          // FIN ACK
        5 => 0x004,          // RST
        6 => 0x003,          // SYN+FIN: Repr::parse rejects
        _ => (r.next() & 0x1ff) as u16,
    };
    put16(&mut b, 12, (((hl / 4) as u16) << 12) | flags);
    put16(&mut b, 14, r.next() as u16);
    put16(&mut b, 18, r.next() as u16);
    b[20..hl].copy_from_slice(&opts);
    for x in &mut b[hl..] {
        *x = r.next() as u8;
    }
    if r.chance(3, 4) {
        let c = pseudo_cksum(&a.src, &a.dst, 6, &b);
        put16(&mut b, 16, c);
    } else {
        put16(&mut b, 16, r.next() as u16);
    }
    Built::leaf("tcp", b)
}

fn gen_icmp_echo(r: &mut Rng) -> Built {
    let plen = *r.pick(&[0usize, 1, 4, 24]);
    let mut b = vec![0u8; 8 + plen];
    b[0] = if r.chance(1, 2) { 8 } else { 0 };
    b[1] = if r.chance(1, 10) { r.next() as u8 } else { 0 };
    b[4..].copy_from_slice(&r.bytes(4 + plen));
    if r.chance(5, 6) {
        let c = cksum(&b);
        put16(&mut b, 2, c);
    }
    Built::leaf("icmpv4", b)
}

fn gen_icmp_other(r: &mut Rng) -> Built {
    // message types without a Repr (redirect, timestamp, parameter problem, ...)
    let plen = r.below(30) as usize;
    let mut b = vec![0u8; 8 + plen];
    b[0] = *r.pick(&[4u8, 5, 9, 10, 12, 13, 14, 42, 255]);
    b[1] = r.next() as u8;
    b[4..].copy_from_slice(&r.bytes(4 + plen));
    let c = cksum(&b);
    put16(&mut b, 2, c);
    Built::leaf("icmpv4", b)
}

fn gen_icmp_err(r: &mut Rng, depth: u32) -> Built {
    // destination unreachable / time exceeded quoting an IPv4 datagram (possibly cut short)
    let mut inner = gen_ipv4(r, depth + 1);
    if r.chance(1, 4) {
        // RFC 792 style: header + 8 octets only
        let keep = (((inner.bytes[0] & 0xf) as usize) * 4 + 8).min(inner.bytes.len());
        inner.bytes.truncate(keep);
        inner.layers.retain(|(_, s)| *s < keep);
    }
    let mut h = vec![0u8; 8];
    h[0] = if r.chance(1, 2) { 3 } else { 11 };
    h[1] = r.below(16) as u8;
    h[4..8].copy_from_slice(&if r.chance(1, 3) { r.bytes(4) } else { vec![0; 4] });
    let mut b = Built::wrap("icmpv4", h, inner);
    if r.chance(5, 6) {
        let c = cksum(&b.bytes);
        put16(&mut b.bytes, 2, c);
    }
    b
}

fn gen_igmp(r: &mut Rng) -> Built {
    let mut b = vec![0u8; 8];
    b[0] = *r.pick(&[0x11u8, 0x12, 0x16, 0x17, 0x22, 0]);
    b[1] = r.next() as u8;
    let g: [u8; 4] = match r.below(4) {
        0 => [0, 0, 0, 0],
        1 => [224, 0, 0, r.next() as u8],
        2 => [239, 1, 2, 3],
        _ => [10, 0, 0, 1], // not multicast: Repr::parse fails
    };
    b[4..8].copy_from_slice(&g);
    let c = cksum(&b);
    put16(&mut b, 2, c);
    if r.chance(1, 5) {
        b.extend(r.bytes(4));
    }
    Built::leaf("igmp", b)
}

fn gen_l4_v4(r: &mut Rng, a: &Addrs, depth: u32) -> (u8, Built) {
    let w = r.below(if depth < 6 { 20 } else { 12 });
    match w {
        0..=3 => (17, gen_udp(r, a)),
        4..=7 => (6, gen_tcp(r, a)),
        8..=9 => (1, gen_icmp_echo(r)),
        10 => (1, gen_icmp_other(r)),
        11 => (2, gen_igmp(r)),
        12..=18 => (1, gen_icmp_err(r, depth)),
        _ => (*r.pick(&[0u8, 4, 41, 47, 58, 89, 255]), Built::leaf("raw", { let n_ = r.below(24) as usize; r.bytes(n_) })),
    }
}

fn gen_ipv4(r: &mut Rng, depth: u32) -> Built {
    let a = addrs(r, true);
    let (proto, inner) = gen_l4_v4(r, &a, depth);
    let optw = if r.chance(1, 4) { r.range(1, 10) as usize } else { 0 };
    let hl = 20 + 4 * optw;
    let mut h = vec![0u8; hl];
    h[0] = 0x40 | (hl / 4) as u8;
    h[1] = if r.chance(1, 8) { r.next() as u8 } else { 0 };
    let total = hl + inner.bytes.len();
    put16(&mut h, 2, total.min(65535) as u16);
    put16(&mut h, 4, r.next() as u16);
    let frag: u16 = match r.below(16) {
        0 => 0x2000,                          // MF
        1 => (r.next() & 0x1fff) as u16 | 1,  // offset != 0
        2 => 0,
        _ => 0x4000,                          // DF
    };
    put16(&mut h, 6, frag);
    h[8] = r.next() as u8;
    h[9] = proto;
    h[12..16].copy_from_slice(&a.src);
    h[16..20].copy_from_slice(&a.dst);
    for x in &mut h[20..] {
        *x = if r.chance(1, 2) { 1 } else { r.next() as u8 };
    }
    if r.chance(7, 8) {
        let c = cksum(&h);
        put16(&mut h, 10, c);
    }
    Built::wrap("ipv4", h, inner)
}

fn gen_ipv6(r: &mut Rng) -> Built {
    let a = addrs(r, false);
    let (nxt, inner) = match r.below(10) {
        0..=2 => (17u8, gen_udp(r, &a)),
        3..=5 => (6, gen_tcp(r, &a)),
        // next header 1 (ICMPv4) is printed by pretty_print_ip_payload also below IPv6
        6 => (1, gen_icmp_echo(r)),
        7 => (1, gen_icmp_err(r, 3)),
        8 => (58, Built::leaf("raw", { let mut b = vec![128u8, 0, 0, 0]; let n_ = 4 + r.below(12) as usize; b.extend(r.bytes(n_)); b })),
        _ => (*r.pick(&[0u8, 43, 44, 59, 60, 2, 200]), Built::leaf("raw", { let n_ = r.below(24) as usize; r.bytes(n_) })),
    };
    let mut h = vec![0u8; 40];
    h[0] = 0x60 | (r.next() as u8 & 0xf);
    h[1..4].copy_from_slice(&r.bytes(3));
    put16(&mut h, 4, inner.bytes.len().min(65535) as u16);
    h[6] = nxt;
    h[7] = r.next() as u8;
    h[8..24].copy_from_slice(&a.src);
    h[24..40].copy_from_slice(&a.dst);
    Built::wrap("ipv6", h, inner)
}

fn gen_arp(r: &mut Rng) -> Built {
    let (hlen, plen) = if r.chance(3, 4) { (6usize, 4usize) } else { (r.below(9) as usize, r.below(9) as usize) };
    let mut b = vec![0u8; 8 + 2 * hlen + 2 * plen];
    put16(&mut b, 0, if r.chance(5, 6) { 1 } else { r.next() as u16 });
    put16(&mut b, 2, if r.chance(5, 6) { 0x0800 } else { r.next() as u16 });
    b[4] = hlen as u8;
    b[5] = plen as u8;
    put16(&mut b, 6, *r.pick(&[1u16, 2, 3, 0, 0xffff]));
    let n = b.len();
    b[8..].copy_from_slice(&r.bytes(n - 8));
    Built::leaf("arp", b)
}

fn gen_eth(r: &mut Rng) -> Built {
    let (ty, inner) = match r.below(12) {
        0..=4 => (0x0800u16, gen_ipv4(r, 0)),
        5..=7 => (0x86dd, gen_ipv6(r)),
        8..=9 => (0x0806, gen_arp(r)),
        // mislabelled payloads
        10 => (*r.pick(&[0x0800u16, 0x86dd, 0x0806]), if r.chance(1, 2) { gen_ipv4(r, 0) } else { gen_ipv6(r) }),
        _ => (*r.pick(&[0u16, 0x0801, 0x8100, 0x88cc, 0xffff]), Built::leaf("raw", { let n_ = r.below(40) as usize; r.bytes(n_) })),
    };
    let mut h = r.bytes(12);
    h.push((ty >> 8) as u8);
    h.push(ty as u8);
    Built::wrap("eth", h, inner)
}

fn gen_ndopt(r: &mut Rng) -> Built {
    let b: Vec<u8> = match r.below(8) {
        0 | 1 => {
            // source / target link-layer address, 1 or 2 units
            let units = r.range(1, 2) as usize;
            let mut b = vec![r.range(1, 2) as u8, units as u8];
            b.extend(r.bytes(units * 8 - 2));
            b
        }
        2 => {
            let mut b = vec![3u8, 4, r.below(129) as u8, r.next() as u8 & 0xc0];
            b.extend(r.bytes(8));
            b.extend_from_slice(&[0; 4]);
            b.extend(r.bytes(16));
            b
        }
        3 => {
            // redirected header: 8 octets + IPv6 header + data, padded to 8
            let dl = r.below(20) as usize;
            let mut ip = vec![0u8; 40];
            ip[0] = 0x60;
            put16(&mut ip, 4, dl as u16);
            ip[6] = *r.pick(&[6u8, 17, 58]);
            ip[7] = 64;
            let tail = r.bytes(32);
            ip[8..40].copy_from_slice(&tail);
            let mut b = vec![4u8, 0, 0, 0, 0, 0, 0, 0];
            b.extend(ip);
            b.extend(r.bytes(dl));
            while b.len() % 8 != 0 {
                b.push(0);
            }
            b[1] = (b.len() / 8) as u8;
            b
        }
        4 => {
            let mut b = vec![5u8, 1, 0, 0];
            b.extend(r.bytes(4));
            b
        }
        5 => {
            let units = r.range(1, 4) as usize;
            let mut b = vec![*r.pick(&[0u8, 6, 24, 25, 31, 255]), units as u8];
            b.extend(r.bytes(units * 8 - 2));
            b
        }
        _ => {
            // inconsistent type / length combinations
            let units = r.range(0, 6) as usize;
            let mut b = vec![r.range(0, 6) as u8, units as u8];
            let n_ = (units * 8).max(2) - 2 + r.below(4) as usize;
            b.extend(r.bytes(n_));
            b
        }
    };
    Built::leaf("ndopt", b)
}

/// `levels` ICMPv4 error messages quoting each other (minimal headers: 28 octets per level),
/// innermost datagram UDP / echo: exercises the only recursion cycle of the printers
/// (IPv4 -> pretty_print_ip_payload -> ICMPv4 -> IPv4 ...) close to its maximal depth for 2048 octets.
fn gen_deep(r: &mut Rng, levels: usize) -> Built {
    let a = addrs(r, true);
    let (proto, mut cur) = if r.chance(1, 2) { (17u8, gen_udp(r, &a)) } else { (1, gen_icmp_echo(r)) };
    let mut proto = proto;
    for lvl in 0..=levels {
        // IPv4 header around `cur`
        let mut h = vec![0u8; 20];
        h[0] = 0x45;
        put16(&mut h, 2, (20 + cur.bytes.len()) as u16);
        put16(&mut h, 6, 0x4000);
        h[8] = 64;
        h[9] = proto;
        h[12..16].copy_from_slice(&a.src);
        h[16..20].copy_from_slice(&a.dst);
        let c = cksum(&h);
        put16(&mut h, 10, c);
        cur = Built::wrap("ipv4", h, cur);
        if lvl == levels {
            break;
        }
        let mut ih = vec![0u8; 8];
        ih[0] = if r.chance(1, 2) { 3 } else { 11 };
        ih[1] = r.below(4) as u8;
        cur = Built::wrap("icmpv4", ih, cur);
        let c = cksum(&cur.bytes);
        put16(&mut cur.bytes, 2, c);
        proto = 1;
    }
    cur
}

const ROOTS: &[&str] = &["eth", "arp", "ipv4", "ipv6", "icmpv4", "udp", "tcp", "igmp", "ndopt"];

fn gen_root(r: &mut Rng) -> (&'static str, Built) {
    if r.chance(1, 25) {
        let levels = r.range(6, 70) as usize;
        let d = gen_deep(r, levels);
        return if r.chance(1, 2) {
            let mut h = r.bytes(12);
            h.extend_from_slice(&[0x08, 0x00]);
            ("eth", Built::wrap("eth", h, d))
        } else {
            ("ipv4", d)
        };
    }
    match r.below(20) {
        0..=7 => ("eth", gen_eth(r)),
        8..=10 => ("ipv4", gen_ipv4(r, 0)),
        11..=12 => ("ipv6", gen_ipv6(r)),
        13 => ("arp", gen_arp(r)),
        14 => {
            let a = addrs(r, true);
            ("udp", gen_udp(r, &a))
        }
        15 => {
            let a = addrs(r, true);
            ("tcp", gen_tcp(r, &a))
        }
        16..=17 => ("icmpv4", match r.below(4) { 0 => gen_icmp_echo(r), 1 => gen_icmp_other(r), _ => gen_icmp_err(r, 0) }),
        18 => ("igmp", gen_igmp(r)),
        _ => ("ndopt", gen_ndopt(r)),
    }
}

/// (offset in header, width) of the fields the printers branch on or compute slices from
fn fields(kind: &str) -> &'static [(usize, usize)] {
    match kind {
        "eth" => &[(12, 2), (12, 1), (13, 1)],
        "ipv4" => &[(0, 1), (2, 2), (6, 2), (6, 1), (9, 1), (10, 2)],
        "ipv6" => &[(0, 1), (4, 2), (6, 1)],
        "udp" => &[(0, 2), (2, 2), (4, 2), (6, 2)],
        "tcp" => &[(0, 2), (2, 2), (12, 1), (13, 1), (20, 1), (21, 1), (22, 1), (23, 1), (24, 1), (25, 1)],
        "icmpv4" => &[(0, 1), (1, 1), (2, 2)],
        "arp" => &[(0, 2), (2, 2), (4, 1), (5, 1), (6, 2)],
        "igmp" => &[(0, 1), (1, 1), (4, 1)],
        "ndopt" => &[(0, 1), (1, 1), (2, 1)],
        _ => &[],
    }
}

fn corruptions(r: &mut Rng, b: &Built, thorough: bool, out: &mut Vec<Vec<u8>>) {
    let n = b.bytes.len();
    for &(kind, start) in &b.layers {
        if start >= n {
            continue;
        }
        let rem = n - start;
        for &(off, w) in fields(kind) {
            let at = start + off;
            if at + w > n {
                continue;
            }
            let vals: Vec<u32> = if w == 1 {
                let o = b.bytes[at] as u32;
                let mut v = vec![0, 1, 0xff, o ^ 0x10, o.wrapping_add(1) & 0xff, o.wrapping_sub(1) & 0xff, o ^ 0x01, o ^ 0x80];
                if (kind == "ipv4" || kind == "ipv6") && off == 0 {
                    v.extend((0..16).map(|i| 0x40 | i));
                    v.extend([0x60, 0x65, 0x50, 0x00]);
                }
                if kind == "tcp" && off == 12 {
                    v.extend((0..16).map(|i| i << 4));
                }
                if (kind == "ipv4" && off == 9) || (kind == "ipv6" && off == 6) {
                    v.extend([1, 2, 6, 17, 58]);
                }
                if kind == "icmpv4" && off == 0 {
                    v.extend([0, 3, 8, 11]);
                }
                if kind == "igmp" && off == 0 {
                    v.extend([0x11, 0x12, 0x16, 0x17]);
                }
                if kind == "ndopt" {
                    v.extend([1, 2, 3, 4, 5, 6]);
                }
                v
            } else {
                let o = ((b.bytes[at] as u32) << 8) | b.bytes[at + 1] as u32;
                let remu = rem as u32 & 0xffff;
                let mut v = vec![0, 1, 7, 8, 19, 20, 21, 28, 39, 40, 0xffff, o.wrapping_add(1) & 0xffff, o.wrapping_sub(1) & 0xffff,
                    remu, remu.wrapping_add(1) & 0xffff, remu.wrapping_sub(1) & 0xffff, remu.wrapping_sub(40) & 0xffff, o ^ 0x2000, o ^ 0x0001];
                if kind == "eth" {
                    v.extend([0x0800, 0x0806, 0x86dd]);
                }
                v
            };
            for v in vals {
                if !thorough && !r.chance(1, 3) {
                    continue;
                }
                let mut m = b.bytes.clone();
                if w == 1 {
                    m[at] = v as u8;
                } else {
                    put16(&mut m, at, v as u16);
                }
                if m != b.bytes {
                    out.push(m);
                }
            }
        }
        // a random octet of the header
        for _ in 0..(if thorough { 8 } else { 2 }) {
            let span = rem.min(44);
            if span == 0 {
                break;
            }
            let at = start + r.below(span as u64) as usize;
            let mut m = b.bytes.clone();
            m[at] = if r.chance(1, 2) { r.next() as u8 } else { m[at] ^ (1 << r.below(8)) };
            out.push(m);
        }
    }
}

fn truncations(r: &mut Rng, b: &[u8], thorough: bool, out: &mut Vec<Vec<u8>>) {
    let n = b.len();
    let all = if thorough { 200 } else { 100 };
    if n <= all {
        for k in 0..n {
            out.push(b[..k].to_vec());
        }
    } else {
        for k in 0..80 {
            out.push(b[..k].to_vec());
        }
        for _ in 0..16 {
            out.push(b[..r.range(80, n as i64 - 1) as usize].to_vec());
        }
        for k in 1..=4 {
            out.push(b[..n - k].to_vec());
        }
    }
}

fn gen_nest_case(r: &mut Rng, tier: &str) -> Vec<String> {
    let thorough = tier == "thorough";
    let (root, built) = gen_root(r);
    let mut v: Vec<Vec<u8>> = vec![built.bytes.clone()];
    truncations(r, &built.bytes, thorough, &mut v);
    if built.layers.len() > 10 {
        // deep nesting: corrupt the outermost two and a few random inner headers only (the model side is
        // quadratic in depth x length)
        let mut sub = built.clone();
        let nl = built.layers.len();
        let mut keep: Vec<usize> = vec![0, 1, nl - 2, nl - 1];
        for _ in 0..3 {
            keep.push(r.below(nl as u64) as usize);
        }
        sub.layers = keep.iter().map(|i| built.layers[*i]).collect();
        corruptions(r, &sub, false, &mut v);
        // at most ~60 ops for such a case
        while v.len() > 60 {
            let i = 1 + r.below(v.len() as u64 - 1) as usize;
            v.swap_remove(i);
        }
    } else {
        corruptions(r, &built, thorough, &mut v);
    }
    for _ in 0..2 {
        let mut m = built.bytes.clone();
        let n_ = r.range(1, 64) as usize;
        m.extend(r.bytes(n_));
        v.push(m);
    }
    v.retain(|b| b.len() <= 2048);
    v.iter().map(|b| format!("pp {} {}", root, hex(b))).collect()
}

fn gen_random_case(r: &mut Rng, _tier: &str) -> Vec<String> {
    let mut ops = vec![];
    for _ in 0..12 {
        let root = *r.pick(ROOTS);
        let len = match r.below(10) {
            0 => r.range(0, 8),
            1..=4 => r.range(0, 64),
            5..=7 => r.range(0, 300),
            _ => r.range(0, 2048),
        } as usize;
        let mut b = r.bytes(len);
        // plausible leading octets so that the first header is often accepted
        if r.chance(2, 3) {
            let lead: &[u8] = match root {
                "ipv4" => &[0x45],
                "ipv6" => &[0x60],
                "icmpv4" => *r.pick(&[&[3u8, 0][..], &[11, 0], &[8, 0], &[0, 0]]),
                "igmp" => *r.pick(&[&[0x11u8][..], &[0x16], &[0x17], &[0x12]]),
                "ndopt" => *r.pick(&[&[1u8, 1][..], &[2, 1], &[3, 4], &[4, 6], &[5, 1]]),
                "arp" => &[0, 1, 8, 0, 6, 4],
                _ => &[],
            };
            for (i, x) in lead.iter().enumerate() {
                if i < b.len() {
                    b[i] = *x;
                }
            }
            if root == "eth" && b.len() >= 15 {
                let ty = *r.pick(&[0x0800u16, 0x86dd, 0x0806]);
                put16(&mut b, 12, ty);
                b[14] = if ty == 0x0800 { 0x45 } else if ty == 0x86dd { 0x60 } else { 0 };
            }
            if root == "ipv4" && b.len() >= 20 && r.chance(1, 2) {
                let n = b.len().min(65535) as u16;
                put16(&mut b, 2, n);
                put16(&mut b, 6, 0);
                b[9] = *r.pick(&[1u8, 6, 17]);
            }
            if root == "ipv6" && b.len() >= 40 && r.chance(1, 2) {
                let n = (b.len() - 40).min(65535) as u16;
                put16(&mut b, 4, n);
                b[6] = *r.pick(&[1u8, 6, 17]);
            }
        }
        ops.push(format!("pp {} {}", root, hex(&b)));
    }
    ops
}

fn gen_cases(seed: u64, n: usize, tier: &str) -> Vec<Case> {
    let mut rng = Rng::new(seed ^ 0x9e77_07);
    let mut out = vec![];
    for i in 0..n {
        let (kind, ops) = if i % 5 == 4 { ("random", gen_random_case(&mut rng, tier)) } else { ("nest", gen_nest_case(&mut rng, tier)) };
        out.push(Case { id: format!("p{}-{}", seed, i), cfg: vec![("kind".into(), kind.into())], ops });
    }
    out
}

// ---------------------------------------------------------------- main

fn oracle_cases(cases: &[Case], out: &mut dyn Write, emit_failcase: bool) -> (u64, u64, u64, std::collections::BTreeMap<String, u64>) {
    let mut runner = Runner::new();
    let (mut nops, mut npanic, mut nhang) = (0u64, 0u64, 0u64);
    let mut kinds: std::collections::BTreeMap<String, u64> = Default::default();
    let mut reported: std::collections::BTreeSet<String> = Default::default();
    for c in cases {
        for op in &c.ops {
            let (root, b) = parse_op(op);
            nops += 1;
            let cls = match runner.run(&root, &b) {
                Ok(text) => {
                    for tok in canon(&root, &text).split(' ').skip(1) {
                        *kinds.entry(tok.split(':').next().unwrap_or("").to_string()).or_insert(0) += 1;
                    }
                    continue;
                }
                Err("PANIC") => {
                    npanic += 1;
                    format!("prettyprint-panic-{}", root)
                }
                Err(_) => {
                    nhang += 1;
                    format!("prettyprint-nonterminating-{}", root)
                }
            };
            if reported.insert(cls.clone()) {
                if emit_failcase {
                    writeln!(out, "FAILCASE").unwrap();
                    Case { id: format!("{}-w", c.id), cfg: c.cfg.clone(), ops: vec![op.clone()] }.write(out);
                }
                writeln!(out, "FAIL {} :: PrettyPrinter::<{}> on {} octets: {}", cls, root, b.len(), hex(&b)).unwrap();
            }
        }
    }
    (nops, npanic, nhang, kinds)
}

fn main() {
    let (sub, seed, n, tier) = args();
    if sub != "gen" {
        quiet_panics();
    }
    let stdout = std::io::stdout();
    let mut out = std::io::BufWriter::new(stdout.lock());
    match sub.as_str() {
        "gen" => {
            for c in gen_cases(seed, n, &tier) {
                c.write(&mut out);
            }
        }
        "run" => {
            let mut runner = Runner::new();
            for c in stdin_cases() {
                writeln!(out, "case {}", c.id).unwrap();
                for op in &c.ops {
                    let (root, b) = parse_op(op);
                    match runner.run(&root, &b) {
                        Ok(text) => writeln!(out, "{}", canon(&root, &text)).unwrap(),
                        Err(e) => writeln!(out, "{}", e).unwrap(),
                    }
                }
            }
        }
        "oracle" => {
            let cases = gen_cases(seed, n, &tier);
            let (nops, npanic, nhang, kinds) = oracle_cases(&cases, &mut out, true);
            let ks: Vec<String> = kinds.iter().map(|(k, v)| format!("{}:{}", jstr(&format!("line_{}", k)), v)).collect();
            writeln!(out, "STATS {{\"cases\":{},\"ops\":{},\"panics\":{},\"hangs\":{}{}{}}}", cases.len(), nops, npanic, nhang,
                if ks.is_empty() { "" } else { "," }, ks.join(",")).unwrap();
        }
        "oracle-replay" => {
            let cases = stdin_cases();
            oracle_cases(&cases, &mut out, false);
        }
        "show" => {
            // debugging aid: print the raw text for the cases on stdin
            for c in stdin_cases() {
                for op in &c.ops {
                    let (root, b) = parse_op(op);
                    let (r2, b2) = (root.clone(), b.clone());
                    writeln!(out, "--- {} {}\n{}", root, hex(&b), catch(move || pretty_root(&r2, &b2)).unwrap_or_else(|| "PANIC".into())).unwrap();
                }
            }
        }
        x => panic!("unknown subcommand {}", x),
    }
    out.flush().unwrap();
    // abandoned (hung) workers must not keep the process alive
    drop(out);
    std::process::exit(0);
}
