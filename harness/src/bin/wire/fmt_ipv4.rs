//! IPv4 header: streams wire-ipv4-emit / wire-ipv4-parse.
//! emit ops carry the payload-less 20-octet buffer followed by `plen` payload octets (the parse of
//! the result needs them); tx/rx = ChecksumCapabilities.ipv4.tx()/rx().
use super::common::*;
use smoltcp::wire::*;
use svh::*;

fn show_repr(r: &Ipv4Repr) -> String {
    format!("Ok src={} dst={} proto={} plen={} hop={}", hex(&r.src_addr.octets()), hex(&r.dst_addr.octets()), u8::from(r.next_header), r.payload_len, r.hop_limit)
}

fn a4(b: &[u8]) -> Ipv4Address {
    Ipv4Address::new(b[0], b[1], b[2], b[3])
}

fn gen_proto(r: &mut Rng) -> u8 {
    draw_raw::<IpProtocol>(r) as u8
}

fn gen_emit(r: &mut Rng, tier: &str) -> Vec<String> {
    let (src, dst, proto, hop) = (gen_ipv4(r), gen_ipv4(r), gen_proto(r), gen_u8(r));
    let plen = match r.below(6) {
        0 => 65515,
        1 => 65514,
        2 => r.below(65516) as usize,
        _ => gen_payload_len(r, tier, 65515),
    };
    let (tx, rx) = (r.chance(3, 4), r.chance(3, 4));
    // the buffer holds the header (the declared length), followed by the payload space when it is
    // small enough to be carried in the case (emit must not touch it; the parse of the result needs it)
    gen_buffers(r, 20 + if plen <= 1500 { plen } else { 0 })
        .iter()
        .map(|b| format!("emit buf={} src={} dst={} proto={} plen={} hop={} tx={} rx={}", hex(b), hex(&src), hex(&dst), proto, plen, hop, tx as u8, rx as u8))
        .collect()
}

fn gen_parse(r: &mut Rng, tier: &str) -> Vec<String> {
    let plen = gen_payload_len(r, tier, 1480).min(if r.chance(3, 4) { 40 } else { 1480 });
    let repr = Ipv4Repr { src_addr: a4(&gen_ipv4(r)), dst_addr: a4(&gen_ipv4(r)), next_header: of_raw::<IpProtocol>((gen_proto(r)) as u32), payload_len: plen, hop_limit: gen_u8(r) };
    let mut base = vec![0u8; 20 + plen];
    repr.emit(&mut Ipv4Packet::new_unchecked(&mut base[..]), &caps(true, true));
    let p = gen_payload(r, plen);
    base[20..].copy_from_slice(&p);
    // sometimes a header with options (IHL > 5)
    if r.chance(1, 4) {
        let words = r.range(1, 10) as usize;
        let mut b2 = base[..20].to_vec();
        b2.extend(r.bytes(4 * words));
        b2.extend_from_slice(&p);
        b2[0] = 0x40 | (5 + words) as u8;
        let tl = b2.len() as u16;
        b2[2..4].copy_from_slice(&tl.to_be_bytes());
        let mut pk = Ipv4Packet::new_unchecked(&mut b2[..]);
        pk.fill_checksum();
        base = b2;
    }
    let rx = r.chance(1, 2);
    mutations(r, &base, &[(0, 1), (1, 2), (2, 4), (4, 6), (6, 8), (8, 9), (9, 10), (10, 12), (12, 16), (16, 20)], tier)
        .iter()
        .map(|b| format!("parse bytes={} rx={}", hex(b), rx as u8))
        .collect()
}

fn run_op(op: &str) -> String {
    let kv = Kv::parse(op);
    let cc = caps(kv.flag("tx"), kv.flag("rx"));
    let parse = |b: &[u8]| {
        acc(|| Ipv4Repr::parse(&Ipv4Packet::new_unchecked(b), &cc), |x| match x {
            Ok(r) => show_repr(&r),
            Err(_) => "Err".into(),
        })
    };
    if op.starts_with("emit") {
        let repr = Ipv4Repr { src_addr: a4(&kv.b("src")), dst_addr: a4(&kv.b("dst")), next_header: of_raw::<IpProtocol>((kv.u("proto") as u8) as u32), payload_len: kv.u("plen") as usize, hop_limit: kv.u("hop") as u8 };
        let mut buf = kv.b("buf");
        match guard(|| repr.emit(&mut Ipv4Packet::new_unchecked(&mut buf[..]), &cc)) {
            None => "ret PANIC | -".to_string(),
            Some(()) => format!("ret {} | {}", show_bytes(&buf), parse(&buf)),
        }
    } else {
        let bytes = kv.b("bytes");
        let chk = acc(|| Ipv4Packet::new_checked(&bytes[..]).is_ok(), |ok| if ok { "ok".into() } else { "err".into() });
        let mut s = format!("chk {}", chk);
        if chk == "ok" {
            let p = Ipv4Packet::new_unchecked(&bytes[..]);
            s += &format!(
                " acc ver={} hlen={} dscp={} ecn={} tlen={} id={} df={} mf={} off={} hop={} proto={} ck={} src={} dst={} payload={} vck={}",
                acc(|| p.version(), |t| t.to_string()),
                acc(|| p.header_len(), |t| t.to_string()),
                acc(|| p.dscp(), |t| t.to_string()),
                acc(|| p.ecn(), |t| t.to_string()),
                acc(|| p.total_len(), |t| t.to_string()),
                acc(|| p.ident(), |t| t.to_string()),
                acc(|| p.dont_frag(), |t| (t as u8).to_string()),
                acc(|| p.more_frags(), |t| (t as u8).to_string()),
                acc(|| p.frag_offset(), |t| t.to_string()),
                acc(|| p.hop_limit(), |t| t.to_string()),
                acc(|| p.next_header(), |t| u8::from(t).to_string()),
                acc(|| p.checksum(), |t| t.to_string()),
                acc(|| p.src_addr(), |a| show_bytes(&a.octets())),
                acc(|| p.dst_addr(), |a| show_bytes(&a.octets())),
                acc(|| p.payload().to_vec(), |a| show_bytes(&a)),
                acc(|| p.verify_checksum(), |t| (t as u8).to_string()),
            );
        }
        format!("{} parse {}", s, parse(&bytes))
    }
}

pub const FORMAT: Format = Format { name: "ipv4", gen_emit, gen_parse, run_op };
