//! Implementation-side oracles over all exported wire types (placeholder; see h_wire.rs).
use svh::*;
use std::io::Write;

pub fn oracle_c06(_seed: u64, _n: usize, _tier: &str, out: &mut dyn Write) {
    writeln!(out, "STATS {{\"cases\":0}}").unwrap();
}
pub fn oracle_c07(_seed: u64, _n: usize, _tier: &str, out: &mut dyn Write) {
    writeln!(out, "STATS {{\"cases\":0}}").unwrap();
}
pub fn oracle_replay(_cases: &[Case], _out: &mut dyn Write) {}
