//! Implementation-side oracles over ALL wire types exported by smoltcp::wire (failing-input
//! search of properties C06 and C07; never part of the proof).  `oracle_c06.rs`: generated
//! reprs -> emit into differently filled buffers -> identical bytes -> parse -> equal repr,
//! and parse(mutated packet) = Ok r -> emit r -> parse = Ok r.  `oracle_c07.rs`: arbitrary /
//! mutated / truncated bytes -> new_checked, accessors, Repr::parse, PrettyPrinter under
//! catch_unwind with a watchdog.  Oracle cases carry `kind=c06|c07` for the replay.
use std::io::Write;
use svh::*;

#[path = "arms.rs"]
pub mod arms;
#[path = "oracle_c06.rs"]
pub mod c06;
#[path = "oracle_c07.rs"]
pub mod c07;

pub fn oracle_c06(seed: u64, n: usize, tier: &str, out: &mut dyn Write) {
    c06::run(seed, n, tier, out)
}
pub fn oracle_c07(seed: u64, n: usize, tier: &str, out: &mut dyn Write) {
    c07::run(seed, n, tier, out)
}
pub fn gen_cases(kind: &str, seed: u64, n: usize, tier: &str, out: &mut dyn Write) {
    match kind {
        "c06" => c06::gen_cases(seed, n, tier, out),
        _ => c07::gen_cases(seed, n, tier, out),
    }
}
pub fn run_case(c: &Case, out: &mut dyn Write) {
    match c.get("kind") {
        Some("c06") => c06::run_case(c, out),
        _ => c07::run_case(c, out),
    }
}
pub fn oracle_replay(cases: &[Case], out: &mut dyn Write) {
    for c in cases {
        match c.get("kind") {
            Some("c06") => c06::replay(c, out),
            Some("c07") => c07::replay(c, out),
            _ => {}
        }
    }
}
