//! Error / corner arms of the checked views and parsers that the generic mutations reach rarely
//! (DESIGN.md §14, work/coverage-gaps.md item 13).  For each arm:
//!   * `observe`: a harness-side predicate, evaluated with the crate's own public accessors, that
//!     says whether an input takes the arm; the oracles count the hits of EVERY input (generic
//!     and directed) and print them as `arm_<name>` in STATS, so the evidence shows each arm;
//!   * `directed`: a dictionary generator (dispatch bytes, option type/length pairs, security
//!     control octets, address-mode bits) that takes the arm on purpose.
//!
//! Arms that turned out to be dead code behind `check_len` are counted by the input class that
//! would reach them if they were live (see `ARMS`).
#![allow(dead_code)]
use super::super::common::*;
use smoltcp::iface::{Config, Interface};
use smoltcp::phy::Medium;
use smoltcp::time::Instant;
use smoltcp::wire::*;
use std::collections::BTreeMap;
use svh::dev::QDev;
use svh::*;

pub type Hits = BTreeMap<&'static str, u64>;

/// (arm, oracle type, source arm)
pub const ARMS: &[(&str, &str, &str)] = &[
    // frag.rs: `Packet::new_checked` `dispatch != FIRST && dispatch != FRAGMENT => Err` and
    // `Repr::parse` `_ => Err` are dead: `check_len` (called first by both) already rejects every
    // other dispatch.  Counted: inputs with another dispatch (rejected by check_len).
    ("frag_other_dispatch_rejected_by_check_len", "sixlowpan-frag", "sixlowpan/frag.rs check_len `_ => Err` (new_checked:82 and Repr::parse:248 are dead behind it)"),
    ("frag_first_too_short", "sixlowpan-frag", "sixlowpan/frag.rs check_len FIRST_FRAGMENT too short"),
    ("frag_next_too_short", "sixlowpan-frag", "sixlowpan/frag.rs check_len FRAGMENT too short"),
    // ndiscoption.rs: `Repr::parse` RedirectedHeader `data_len < 6 => Err` is dead: check_len
    // demands 8 * length >= REDIR_MIN_SZ = 48.  Counted: redirected-header options with length 1..5
    // and enough octets for that length.
    ("ndiscopt_redirected_len_lt6_rejected_by_check_len", "ndiscoption", "ndiscoption.rs check_len RedirectedHeader guard (Repr::parse `data_len < 6`:486 is dead behind it)"),
    ("ndiscopt_redirected_inner_ipv6_err", "ndiscoption", "ndiscoption.rs Repr::parse RedirectedHeader: inner Ipv6Packet::new_checked / Ipv6Repr::parse `?`"),
    ("ndiscopt_prefix_len_ne4", "ndiscoption", "ndiscoption.rs Repr::parse PrefixInformation data_len != 4"),
    ("ndiscopt_mtu_len_ne1", "ndiscoption", "ndiscoption.rs Repr::parse Mtu data_len != 1"),
    ("rawhw_parse_ethernet_wrong_len", "hardware-address", "wire/mod.rs RawHardwareAddress::parse Ethernet len != 6"),
    ("rawhw_parse_ieee802154_wrong_len", "hardware-address", "wire/mod.rs RawHardwareAddress::parse Ieee802154 len != 8"),
    ("rawhw_parse_ok", "hardware-address", "wire/mod.rs RawHardwareAddress::parse Ok"),
    ("ieee154_sec_key_id_mode0", "ieee802154", "ieee802154.rs key_identifier_length 0"),
    ("ieee154_sec_key_id_mode1", "ieee802154", "ieee802154.rs key_identifier_length 1 / key_source None / key_index"),
    ("ieee154_sec_key_id_mode2", "ieee802154", "ieee802154.rs key_identifier_length 5 / key_source 4 octets"),
    ("ieee154_sec_key_id_mode3", "ieee802154", "ieee802154.rs key_identifier_length 9 / key_source 8 octets"),
    ("ieee154_sec_frame_counter_suppressed", "ieee802154", "ieee802154.rs frame_counter None / security_header_len without counter"),
    ("ieee154_sec_new_checked_err", "ieee802154", "ieee802154.rs check_len: auxiliary header / MIC do not fit"),
    ("ieee154_src_addr_absent", "ieee802154", "ieee802154.rs src_addr / src_pan_id Absent arms"),
    ("ieee154_dst_addr_absent", "ieee802154", "ieee802154.rs dst_addr / dst_pan_id Absent arms"),
    ("ieee154_addr_mode_unknown_rejected_by_check_len", "ieee802154", "ieee802154.rs check_len rejects AddressingMode::Unknown (0b01): the accessors' Unknown arms are dead behind it"),
    ("ieee154_payload_none_not_data", "ieee802154", "ieee802154.rs payload `_ => None`"),
    ("ieee154_payload_empty", "ieee802154", "ieee802154.rs data frame without payload"),
    ("ipv6_mcast_scope_1_interface_local", "ipv6-scope", "ipv6.rs MulticastScope::from 0x1"),
    ("ipv6_mcast_scope_2_link_local", "ipv6-scope", "ipv6.rs MulticastScope::from 0x2"),
    ("ipv6_mcast_scope_4_admin_local", "ipv6-scope", "ipv6.rs MulticastScope::from 0x4"),
    ("ipv6_mcast_scope_5_site_local", "ipv6-scope", "ipv6.rs MulticastScope::from 0x5"),
    ("ipv6_mcast_scope_8_organization_local", "ipv6-scope", "ipv6.rs MulticastScope::from 0x8"),
    ("ipv6_mcast_scope_e_global", "ipv6-scope", "ipv6.rs MulticastScope::from 0xE"),
    ("ipv6_mcast_scope_other_unknown", "ipv6-scope", "ipv6.rs MulticastScope::from `_ => Unknown`"),
    ("ipv6_unicast_scope_link_local", "ipv6-scope", "ipv6.rs x_multicast_scope unicast link-local"),
    ("ipv6_unicast_scope_global", "ipv6-scope", "ipv6.rs x_multicast_scope ULA / global unicast"),
    ("ipv6_unicast_scope_unknown", "ipv6-scope", "ipv6.rs x_multicast_scope unicast `else Unknown`"),
    ("iphc_dst_reserved_unicast", "sixlowpan-iphc", "iphc.rs dst_addr (M=0,DAC=1,DAM=00) Reserved; resolve Reserved => Err"),
    ("iphc_dst_reserved_multicast", "sixlowpan-iphc", "iphc.rs dst_addr (M=1,DAC=1,DAM=01..11) Reserved"),
    ("iphc_dst_multicast_context_not_supported", "sixlowpan-iphc", "iphc.rs dst_addr (M=1,DAC=1,DAM=00) NotSupported; resolve `_ => Err`"),
    ("iphc_src_addr_err", "sixlowpan-iphc", "iphc.rs src_addr `Err` arms (context mode without CID extension)"),
    ("iphc_dst_addr_err", "sixlowpan-iphc", "iphc.rs dst_addr `Err` arms (context mode without CID extension)"),
    ("iphc_src_resolve_err", "sixlowpan-iphc", "sixlowpan/mod.rs UnresolvedAddress::resolve Err (elided without link-layer address, context missing, …) for the source"),
    ("iphc_dst_resolve_err", "sixlowpan-iphc", "sixlowpan/mod.rs UnresolvedAddress::resolve Err for the destination"),
    ("iphc_resolve_elided_without_ll_addr", "sixlowpan-iphc", "sixlowpan/mod.rs resolve FullyElided with ll_address None / Absent"),
    ("iphc_resolve_context_index_missing", "sixlowpan-iphc", "sixlowpan/mod.rs resolve copy_context index >= contexts"),
    ("nhcext_eid_0_hop_by_hop", "sixlowpan-nhc-ext", "nhc.rs From<ExtHeaderId> HopByHopHeader"),
    ("nhcext_eid_1_routing", "sixlowpan-nhc-ext", "nhc.rs From<ExtHeaderId> RoutingHeader"),
    ("nhcext_eid_2_fragment", "sixlowpan-nhc-ext", "nhc.rs From<ExtHeaderId> FragmentHeader"),
    ("nhcext_eid_3_destination_options", "sixlowpan-nhc-ext", "nhc.rs From<ExtHeaderId> DestinationOptionsHeader"),
    ("nhcext_eid_4_mobility", "sixlowpan-nhc-ext", "nhc.rs From<ExtHeaderId> MobilityHeader"),
    ("nhcext_eid_5_6_header_reserved", "sixlowpan-nhc-ext", "nhc.rs From<ExtHeaderId> Header / Reserved"),
    ("nhcext_new_checked_err", "sixlowpan-nhc-ext", "nhc.rs ExtHeaderPacket::check_len Err (first `?` of iface decompress_ext_hdr)"),
    ("nhcext_payload_shorter_than_length", "sixlowpan-nhc-ext", "nhc.rs check_len: announced length beyond the buffer (second guard of decompress_ext_hdr)"),
    ("udpnhc_new_checked_err", "sixlowpan-udpnhc", "nhc.rs UdpNhcPacket::check_len Err (first `?` of iface decompress_udp)"),
    ("udpnhc_parse_err", "sixlowpan-udpnhc", "nhc.rs UdpNhcRepr::parse Err (second `?` of iface decompress_udp)"),
    ("nhc_dispatch_err", "sixlowpan-dispatch", "nhc.rs NhcPacket::dispatch Err (decompress_next_header)"),
];

pub fn arms_of(ty: &str) -> Vec<&'static str> {
    ARMS.iter().filter(|a| a.1 == ty).map(|a| a.0).collect()
}

fn hit(h: &mut Hits, arm: &'static str) {
    debug_assert!(ARMS.iter().any(|a| a.0 == arm));
    *h.entry(arm).or_default() += 1;
}

pub fn lls() -> [Option<Ieee802154Address>; 4] {
    [None, Some(Ieee802154Address::Absent), Some(Ieee802154Address::Short([0x12, 0x34])), Some(Ieee802154Address::Extended([2, 0, 0, 0, 0, 0, 0, 1]))]
}
pub fn ctx1() -> [SixlowpanAddressContext; 1] {
    [SixlowpanAddressContext([0x20, 0x01, 0x0d, 0xb8, 0, 0, 0, 1])]
}

// ---------------------------------------------------------------- interface for the IPv6 scope arms
thread_local! {
    static IFACES: Vec<Interface> = {
        let mk = |addrs: [Ipv6Address; 2]| {
            let mut dev = QDev::new(Medium::Ethernet, 1500);
            let cfg = Config::new(HardwareAddress::Ethernet(EthernetAddress([2, 0, 0, 0, 0, 1])));
            let mut iface = Interface::new(cfg, &mut dev, Instant::ZERO);
            iface.update_ip_addrs(|a| {
                for x in addrs {
                    a.push(IpCidr::new(IpAddress::Ipv6(x), 64)).unwrap();
                }
            });
            iface
        };
        vec![
            mk([Ipv6Address::new(0xfe80, 0, 0, 0, 0, 0, 0, 1), Ipv6Address::new(0x2001, 0xdb8, 0, 0, 0, 0, 0, 1)]),
            mk([Ipv6Address::new(0xfd00, 0, 0, 0, 0, 0, 0, 5), Ipv6Address::new(0, 0, 0, 0, 0, 0, 0, 1)]),
        ]
    };
}

/// `Interface::get_source_address_ipv6(dst)` on two interfaces (RFC 6724 rule 2 compares
/// `x_multicast_scope` of the candidates and of `dst`): the only public path to
/// `Ipv6Address::x_multicast_scope` / `MulticastScope::from`.  `dst` unspecified is excluded (the
/// function asserts it).  Returns None when a call panicked.
pub fn source_address_for(dst: Ipv6Address) -> Option<Vec<Ipv6Address>> {
    if dst.is_unspecified() {
        return Some(vec![]);
    }
    IFACES.with(|v| guard(|| v.iter().map(|i| i.get_source_address_ipv6(&dst)).collect()))
}

// ---------------------------------------------------------------- observation
pub fn observe(ty: &str, b: &[u8], h: &mut Hits) {
    match ty {
        "sixlowpan-frag" => {
            if b.is_empty() {
                return;
            }
            let d = b[0] >> 3;
            let chk = SixlowpanFragPacket::new_unchecked(b).check_len().is_ok();
            if d != 0b11000 && d != 0b11100 {
                if !chk {
                    hit(h, "frag_other_dispatch_rejected_by_check_len");
                }
            } else if !chk {
                hit(h, if d == 0b11000 { "frag_first_too_short" } else { "frag_next_too_short" });
            }
        }
        "ndiscoption" => {
            if b.len() < 8 {
                return;
            }
            let (t, l) = (b[0], b[1] as usize);
            let fits = l > 0 && b.len() >= 8 * l;
            let f = NdiscOption::new_unchecked(b);
            if t == 4 && fits && l < 6 && f.check_len().is_err() {
                hit(h, "ndiscopt_redirected_len_lt6_rejected_by_check_len");
            }
            if f.check_len().is_ok() {
                let e = guard(|| NdiscOptionRepr::parse(&f).is_err()) == Some(true);
                if t == 4 && e {
                    hit(h, "ndiscopt_redirected_inner_ipv6_err");
                }
                if t == 3 && l != 4 && e {
                    hit(h, "ndiscopt_prefix_len_ne4");
                }
                if t == 5 && l != 1 && e {
                    hit(h, "ndiscopt_mtu_len_ne1");
                }
            }
        }
        "hardware-address" => {
            if b.len() > MAX_HARDWARE_ADDRESS_LEN {
                return;
            }
            let raw = RawHardwareAddress::from_bytes(b);
            match raw.parse(Medium::Ethernet) {
                Err(_) => hit(h, "rawhw_parse_ethernet_wrong_len"),
                Ok(_) => hit(h, "rawhw_parse_ok"),
            }
            match raw.parse(Medium::Ieee802154) {
                Err(_) => hit(h, "rawhw_parse_ieee802154_wrong_len"),
                Ok(_) => hit(h, "rawhw_parse_ok"),
            }
        }
        "ieee802154" => {
            if b.len() < 2 {
                return;
            }
            let sec = b[0] & 0x08 != 0;
            let ok = Ieee802154Frame::new_checked(b).is_ok();
            if !ok {
                if sec && b.len() >= 3 {
                    hit(h, "ieee154_sec_new_checked_err");
                }
                if b.len() >= 3 && ((b[1] >> 2) & 3 == 1 || (b[1] >> 6) & 3 == 1) {
                    hit(h, "ieee154_addr_mode_unknown_rejected_by_check_len");
                }
                return;
            }
            let f = Ieee802154Frame::new_unchecked(b);
            let _ = guard(|| {
                let mut v: Vec<&'static str> = vec![];
                if f.security_enabled() {
                    v.push(match f.key_identifier_mode() {
                        0 => "ieee154_sec_key_id_mode0",
                        1 => "ieee154_sec_key_id_mode1",
                        2 => "ieee154_sec_key_id_mode2",
                        _ => "ieee154_sec_key_id_mode3",
                    });
                    if f.frame_counter_suppressed() {
                        v.push("ieee154_sec_frame_counter_suppressed");
                    }
                }
                if f.src_addressing_mode() == Ieee802154AddressingMode::Absent {
                    v.push("ieee154_src_addr_absent");
                }
                if f.dst_addressing_mode() == Ieee802154AddressingMode::Absent {
                    v.push("ieee154_dst_addr_absent");
                }
                match f.payload() {
                    None => v.push("ieee154_payload_none_not_data"),
                    Some(p) if p.is_empty() => v.push("ieee154_payload_empty"),
                    _ => {}
                }
                v
            })
            .map(|v| v.into_iter().for_each(|a| hit(h, a)));
        }
        "ipv6-scope" => {
            if b.len() != 16 {
                return;
            }
            let a = Ipv6Address::from_octets(b.try_into().unwrap());
            if a.is_unspecified() {
                return;
            }
            if a.is_multicast() {
                hit(
                    h,
                    match b[1] & 0xf {
                        1 => "ipv6_mcast_scope_1_interface_local",
                        2 => "ipv6_mcast_scope_2_link_local",
                        4 => "ipv6_mcast_scope_4_admin_local",
                        5 => "ipv6_mcast_scope_5_site_local",
                        8 => "ipv6_mcast_scope_8_organization_local",
                        0xe => "ipv6_mcast_scope_e_global",
                        _ => "ipv6_mcast_scope_other_unknown",
                    },
                );
            } else if b[0] == 0xfe && b[1] & 0xc0 == 0x80 {
                hit(h, "ipv6_unicast_scope_link_local");
            } else if b[0] & 0xfe == 0xfc || b[0] & 0xe0 == 0x20 {
                hit(h, "ipv6_unicast_scope_global");
            } else {
                hit(h, "ipv6_unicast_scope_unknown");
            }
        }
        "sixlowpan-iphc" => {
            if b.len() < 2 || SixlowpanIphcPacket::new_checked(b).is_err() {
                return;
            }
            let f = SixlowpanIphcPacket::new_unchecked(b);
            let (sac, sam, m, dac, dam) = ((b[1] >> 6) & 1, (b[1] >> 4) & 3, (b[1] >> 3) & 1, (b[1] >> 2) & 1, b[1] & 3);
            if m == 0 && dac == 1 && dam == 0 {
                hit(h, "iphc_dst_reserved_unicast");
            }
            if m == 1 && dac == 1 && dam != 0 {
                hit(h, "iphc_dst_reserved_multicast");
            }
            if m == 1 && dac == 1 && dam == 0 {
                hit(h, "iphc_dst_multicast_context_not_supported");
            }
            if guard(|| f.src_addr().is_err()) == Some(true) {
                hit(h, "iphc_src_addr_err");
            }
            if guard(|| f.dst_addr().is_err()) == Some(true) {
                hit(h, "iphc_dst_addr_err");
            }
            let c1 = ctx1();
            let ctxs: [&[SixlowpanAddressContext]; 2] = [&[], &c1];
            for ll in lls() {
                for ctx in ctxs {
                    let no_ll = matches!(ll, None | Some(Ieee802154Address::Absent));
                    if guard(|| matches!(f.src_addr().map(|u| u.resolve(ll, ctx)), Ok(Err(_)))) == Some(true) {
                        hit(h, "iphc_src_resolve_err");
                        if sam == 3 && no_ll {
                            hit(h, "iphc_resolve_elided_without_ll_addr");
                        }
                        if sac == 1 && sam != 0 && !no_ll {
                            hit(h, "iphc_resolve_context_index_missing");
                        }
                    }
                    if guard(|| matches!(f.dst_addr().map(|u| u.resolve(ll, ctx)), Ok(Err(_)))) == Some(true) {
                        hit(h, "iphc_dst_resolve_err");
                        if m == 0 && dam == 3 && no_ll {
                            hit(h, "iphc_resolve_elided_without_ll_addr");
                        }
                        if m == 0 && dac == 1 && dam != 0 && !no_ll {
                            hit(h, "iphc_resolve_context_index_missing");
                        }
                    }
                }
            }
        }
        "sixlowpan-nhc-ext" => {
            if b.is_empty() {
                return;
            }
            if SixlowpanExtHeaderPacket::new_checked(b).is_err() {
                hit(h, "nhcext_new_checked_err");
                let inline_nh = b[0] & 1 == 0;
                let hdr = if inline_nh { 3 } else { 2 };
                if b.len() >= hdr && hdr + b[hdr - 1] as usize > b.len() {
                    hit(h, "nhcext_payload_shorter_than_length");
                }
                return;
            }
            hit(
                h,
                match (b[0] >> 1) & 7 {
                    0 => "nhcext_eid_0_hop_by_hop",
                    1 => "nhcext_eid_1_routing",
                    2 => "nhcext_eid_2_fragment",
                    3 => "nhcext_eid_3_destination_options",
                    4 => "nhcext_eid_4_mobility",
                    _ => "nhcext_eid_5_6_header_reserved",
                },
            );
        }
        "sixlowpan-udpnhc" => {
            if SixlowpanUdpNhcPacket::new_checked(b).is_err() {
                hit(h, "udpnhc_new_checked_err");
            } else {
                let f = SixlowpanUdpNhcPacket::new_unchecked(b);
                let (s, d) = (Ipv6Address::new(0xfe80, 0, 0, 0, 0, 0, 0, 1), Ipv6Address::new(0xfe80, 0, 0, 0, 0, 0, 0, 2));
                if guard(|| SixlowpanUdpNhcRepr::parse(&f, &s, &d, &smoltcp::phy::ChecksumCapabilities::default()).is_err()) == Some(true) {
                    hit(h, "udpnhc_parse_err");
                }
            }
        }
        "sixlowpan-dispatch" => {
            if !b.is_empty() && SixlowpanNhcPacket::dispatch(b).is_err() {
                hit(h, "nhc_dispatch_err");
            }
        }
        _ => {}
    }
}

// ---------------------------------------------------------------- directed inputs
fn tail(r: &mut Rng, max: u64) -> Vec<u8> {
    let n = r.below(max + 1) as usize;
    r.bytes(n)
}

pub fn directed(ty: &str, r: &mut Rng) -> Vec<Vec<u8>> {
    let mut out: Vec<Vec<u8>> = vec![];
    match ty {
        "sixlowpan-frag" => {
            // every 5-bit dispatch value, with enough octets for either header form
            for _ in 0..3 {
                let d = r.below(32) as u8;
                let mut v = vec![(d << 3) | (r.next() as u8 & 7)];
                v.extend(tail(r, 8));
                out.push(v);
            }
            // the two fragment dispatches, one octet short of their header
            let mut v = vec![0xc0 | (r.next() as u8 & 7)];
            v.extend(tail(r, 2));
            out.push(v);
            let mut v = vec![0xe0 | (r.next() as u8 & 7)];
            v.extend(tail(r, 3));
            out.push(v);
        }
        "ndiscoption" => {
            // (type, length) dictionary: redirected header with length 1..7, prefix information with
            // length != 4, MTU with length != 1, link-layer address options with length 0..3
            for (t, ls) in [(4u8, &[1u8, 2, 3, 4, 5, 6, 7][..]), (4, &[6, 7, 8][..]), (4, &[6, 7][..]), (3, &[1, 2, 3, 5, 6][..]), (3, &[5, 6, 7][..]), (3, &[5, 6][..]), (5, &[2, 3][..]), (1, &[0, 1, 2, 3][..]), (2, &[0, 1, 2, 3][..])] {
                let l = *r.pick(ls);
                let mut v = vec![t, l];
                let n = (8 * l as usize).max(8) - 2 + if r.chance(1, 4) { r.below(9) as usize } else { 0 };
                let mut body = r.bytes(n);
                if t == 4 && l >= 6 && r.chance(1, 2) && body.len() >= 6 + 40 {
                    // a well-formed inner IPv6 header whose payload length points past the option
                    body[6] = 0x60;
                    let pl = r.below(64) as u16;
                    body[10] = (pl >> 8) as u8;
                    body[11] = pl as u8;
                }
                v.extend(body);
                out.push(v);
            }
        }
        "hardware-address" => {
            for n in 0..=MAX_HARDWARE_ADDRESS_LEN {
                out.push(r.bytes(n));
            }
        }
        "ieee802154" => {
            // frame control dictionary x security control octet dictionary
            for _ in 0..6 {
                let ftype = *r.pick(&[0u8, 1, 2, 3, 1, 1, 4, 7]);
                let sec = r.chance(3, 4);
                let dam = *r.pick(&[0u8, 2, 3, 1]);
                let sam = *r.pick(&[0u8, 2, 3, 1, 0]);
                let pic = r.chance(1, 2);
                let ver = r.below(4) as u8;
                let fc0 = ftype | if sec { 0x08 } else { 0 } | if r.chance(1, 4) { 0x10 } else { 0 } | if r.chance(1, 2) { 0x20 } else { 0 } | if pic { 0x40 } else { 0 };
                let fc1 = (dam << 2) | (ver << 4) | (sam << 6) | if r.chance(1, 8) { 1 } else { 0 } | if r.chance(1, 8) { 2 } else { 0 };
                let mut v = vec![fc0, fc1, r.next() as u8];
                let al = |m: u8| match m {
                    2 => 2,
                    3 => 8,
                    _ => 0,
                };
                if dam >= 2 {
                    v.extend(r.bytes(2 + al(dam)));
                }
                if sam >= 2 {
                    v.extend(r.bytes(if pic { 0 } else { 2 } + al(sam)));
                }
                if sec {
                    let level = r.below(8) as u8;
                    let kim = r.below(4) as u8;
                    let fcs = r.chance(1, 3);
                    v.push(level | (kim << 3) | if fcs { 0x20 } else { 0 } | (r.next() as u8 & 0xc0 & if r.chance(1, 4) { 0xff } else { 0 }));
                    let need = if fcs { 0 } else { 4 } + [0usize, 1, 5, 9][kim as usize] + [0usize, 4, 8, 16][(level & 3) as usize];
                    // exactly enough, a few octets of payload, or a few octets short
                    let n = match r.below(4) {
                        0 => need,
                        1 => need.saturating_sub(1 + r.below(4) as usize),
                        _ => need + r.below(12) as usize,
                    };
                    v.extend(r.bytes(n));
                } else if r.chance(1, 2) {
                    v.extend(tail(r, 10));
                }
                out.push(v);
            }
            // data frames (no security) that end right after the addressing fields: no payload
            for (dam, sam, pic) in [(2u8, 2u8, true), (3, 3, false), (0, 2, false), (2, 0, false)] {
                let al = |m: u8| if m == 2 { 2 } else if m == 3 { 8 } else { 0 };
                let mut v = vec![0x01 | if pic { 0x40 } else { 0 }, (dam << 2) | (sam << 6) | (r.below(3) as u8) << 4, r.next() as u8];
                if dam >= 2 {
                    v.extend(r.bytes(2 + al(dam)));
                }
                if sam >= 2 {
                    v.extend(r.bytes(if pic { 0 } else { 2 } + al(sam)));
                }
                out.push(v);
            }
        }
        "ipv6-scope" => {
            for s in [1u8, 2, 4, 5, 8, 0xe, *r.pick(&[0u8, 3, 6, 7, 9, 0xa, 0xb, 0xc, 0xd, 0xf])] {
                let mut a = r.bytes(16);
                a[0] = 0xff;
                a[1] = (a[1] & 0xf0) | s;
                out.push(a);
            }
            for p in [[0xfeu8, 0x80], [0xfe, 0xbf], [0xfd, 0], [0x20, 0x01], [0, 0], [0xfe, 0xc0], [0x3f, 0xff], [0x40, 0]] {
                let mut a = r.bytes(16);
                a[0] = p[0];
                a[1] = p[1];
                if p == [0, 0] {
                    for x in a[2..15].iter_mut() {
                        *x = 0;
                    }
                    a[15] = 1 + r.below(3) as u8;
                }
                out.push(a);
            }
        }
        "sixlowpan-iphc" => {
            // address-mode octet dictionary: every (CID, SAC, SAM, M, DAC, DAM) combination over time,
            // the reserved / unsupported ones on purpose; enough octets for any in-line form
            let picks: [u8; 8] = [0x04, 0x0d, 0x0e, 0x0f, 0x0c, 0x50, 0x70, 0x37];
            for k in 0..6 {
                let b1 = if k < 3 { *r.pick(&picks) | (r.next() as u8 & if r.chance(1, 2) { 0x80 } else { 0 }) } else { r.next() as u8 };
                let b0 = 0x60 | (r.next() as u8 & 0x1f);
                let mut v = vec![b0, b1];
                if b1 & 0x80 != 0 {
                    v.push(*r.pick(&[0x00u8, 0x01, 0x10, 0x11, 0x0f, 0xf0, 0xff]));
                }
                v.extend(r.bytes(44));
                if r.chance(1, 4) {
                    let n = r.range(2, v.len() as i64) as usize;
                    v.truncate(n);
                }
                out.push(v);
            }
        }
        "sixlowpan-nhc-ext" => {
            for _ in 0..4 {
                let eid = r.below(8) as u8;
                let nh = r.chance(1, 2);
                let n = r.below(12) as usize;
                let mut v = vec![0xe0 | (eid << 1) | nh as u8];
                if !nh {
                    v.push(*r.pick(&[0u8, 6, 17, 43, 44, 58, 59, 60, 135]));
                }
                // announced length: exact, one more than present, far beyond
                v.push(match r.below(4) {
                    0 => n as u8 + 1,
                    1 => 255,
                    _ => n as u8,
                });
                v.extend(r.bytes(n));
                out.push(v);
            }
            out.push(vec![0xe0 | (r.next() as u8 & 0x0f)]);
        }
        "sixlowpan-udpnhc" => {
            for _ in 0..3 {
                let b0 = 0xf0 | (r.next() as u8 & 7);
                let ports = [4usize, 3, 3, 1][(b0 & 3) as usize];
                let ck = if b0 & 4 != 0 { 0 } else { 2 };
                let n = match r.below(3) {
                    0 => r.below((ports + ck) as u64) as usize,
                    _ => ports + ck + r.below(8) as usize,
                };
                let mut v = vec![b0];
                v.extend(r.bytes(n));
                out.push(v);
            }
        }
        "sixlowpan-dispatch" => {
            for _ in 0..3 {
                let mut v = vec![*r.pick(&[0xe0u8, 0xf0, 0xf8, 0xd0, 0xc0, 0x00, 0x41, 0x60, 0x7f, 0x80, 0xff]) | (r.next() as u8 & 7)];
                v.extend(tail(r, 6));
                out.push(v);
            }
        }
        _ => {}
    }
    out
}
