//! TCP (header, all options, option walks): streams wire-tcp-emit / wire-tcp-parse.
//! Repr fields: sp dp ctl(0 none,1 psh,2 syn,3 fin,4 rst) seq ack(-|u32) win ws(-|u8) mss(-|u16) sackp(0|1)
//! s0 s1 s2 (-|l:r) ts(-|tsval:tsecr) payload; context src/dst (pseudo header), tx/rx = caps.tcp.
use super::common::*;
use super::fmt_udp::{gen_addrs, ipaddr};
use smoltcp::wire::*;
use svh::*;

fn opt_s<T: ToString>(x: Option<T>) -> String {
    x.map(|v| v.to_string()).unwrap_or_else(|| "-".into())
}
fn pair_s(x: Option<(u32, u32)>) -> String {
    x.map(|(a, b)| format!("{}:{}", a, b)).unwrap_or_else(|| "-".into())
}
fn get_o(kv: &Kv, k: &str) -> Option<u64> {
    match kv.s(k) {
        "-" => None,
        v => Some(v.parse().unwrap()),
    }
}
fn get_pair(kv: &Kv, k: &str) -> Option<(u32, u32)> {
    match kv.s(k) {
        "-" => None,
        v => {
            let (a, b) = v.split_once(':').unwrap();
            Some((a.parse().unwrap(), b.parse().unwrap()))
        }
    }
}
fn ctl_of(c: u64) -> TcpControl {
    match c {
        1 => TcpControl::Psh,
        2 => TcpControl::Syn,
        3 => TcpControl::Fin,
        4 => TcpControl::Rst,
        _ => TcpControl::None,
    }
}
fn ctl_n(c: TcpControl) -> u8 {
    match c {
        TcpControl::None => 0,
        TcpControl::Psh => 1,
        TcpControl::Syn => 2,
        TcpControl::Fin => 3,
        TcpControl::Rst => 4,
    }
}

fn show_repr(r: &TcpRepr) -> String {
    format!(
        "Ok sp={} dp={} ctl={} seq={} ack={} win={} ws={} mss={} sackp={} s0={} s1={} s2={} ts={} payload={}",
        r.src_port,
        r.dst_port,
        ctl_n(r.control),
        r.seq_number.0 as u32,
        opt_s(r.ack_number.map(|a| a.0 as u32)),
        r.window_len,
        opt_s(r.window_scale),
        opt_s(r.max_seg_size),
        r.sack_permitted as u8,
        pair_s(r.sack_ranges[0]),
        pair_s(r.sack_ranges[1]),
        pair_s(r.sack_ranges[2]),
        pair_s(r.timestamp.map(|t| (t.tsval, t.tsecr))),
        show_bytes(r.payload)
    )
}

fn gen_port(r: &mut Rng) -> u16 {
    loop {
        let p = gen_u16(r);
        if p != 0 {
            return p;
        }
    }
}

/// a well-formed repr (within the proviso): option space <= 40, ws <= 14, SACK ranges a prefix, only with
/// an ACK and without SACK-permitted; all option subsets are reached
pub fn gen_fields(r: &mut Rng, tier: &str, small: bool) -> String {
    loop {
        let ack = if r.chance(2, 3) { Some(gen_u32(r)) } else { None };
        let mss = if r.chance(1, 2) { Some(gen_u16(r)) } else { None };
        let ws = if r.chance(1, 2) { Some(*r.pick(&[0u8, 1, 7, 13, 14])) } else { None };
        let sackp = r.chance(1, 4);
        let nsack = if ack.is_some() && !sackp && r.chance(1, 2) { r.range(1, 3) } else { 0 };
        let mut s = [None, None, None];
        for x in s.iter_mut().take(nsack as usize) {
            *x = Some((gen_u32(r), gen_u32(r)));
        }
        let ts = if r.chance(1, 2) { Some((gen_u32(r), gen_u32(r))) } else { None };
        let mut hl = 20 + mss.map_or(0, |_| 4) + ws.map_or(0, |_| 3) + if sackp { 2 } else { 0 } + ts.map_or(0, |_| 10) + if nsack > 0 { 8 * nsack + 2 } else { 0 };
        hl = (hl + 3) / 4 * 4;
        if hl > 60 {
            continue;
        }
        let n = if small { gen_payload_len(r, tier, 1460).min(32) } else { gen_payload_len(r, tier, 9000) };
        return format!(
            "sp={} dp={} ctl={} seq={} ack={} win={} ws={} mss={} sackp={} s0={} s1={} s2={} ts={} payload={}",
            gen_port(r),
            gen_port(r),
            r.below(5),
            gen_u32(r),
            opt_s(ack),
            gen_u16(r),
            opt_s(ws),
            opt_s(mss),
            sackp as u8,
            pair_s(s[0]),
            pair_s(s[1]),
            pair_s(s[2]),
            pair_s(ts),
            hex(&gen_payload(r, n))
        );
    }
}

pub fn with_repr<T>(kv: &Kv, f: impl FnOnce(TcpRepr) -> T) -> T {
    let payload = kv.b("payload");
    let repr = TcpRepr {
        src_port: kv.u("sp") as u16,
        dst_port: kv.u("dp") as u16,
        control: ctl_of(kv.u("ctl")),
        seq_number: TcpSeqNumber(kv.u("seq") as u32 as i32),
        ack_number: get_o(kv, "ack").map(|a| TcpSeqNumber(a as u32 as i32)),
        window_len: kv.u("win") as u16,
        window_scale: get_o(kv, "ws").map(|v| v as u8),
        max_seg_size: get_o(kv, "mss").map(|v| v as u16),
        sack_permitted: kv.flag("sackp"),
        sack_ranges: [get_pair(kv, "s0"), get_pair(kv, "s1"), get_pair(kv, "s2")],
        timestamp: get_pair(kv, "ts").map(|(a, b)| TcpTimestampRepr::new(a, b)),
        payload: &payload,
    };
    f(repr)
}

fn gen_emit(r: &mut Rng, tier: &str) -> Vec<String> {
    let fields = gen_fields(r, tier, false);
    let kv = Kv::parse(&fields);
    let len = with_repr(&kv, |x| x.buffer_len());
    let (src, dst) = gen_addrs(r);
    let (tx, rx) = (r.chance(3, 4), r.chance(3, 4));
    gen_buffers(r, len).iter().map(|b| format!("emit buf={} {} src={} dst={} tx={} rx={}", hex(b), fields, hex(&src), hex(&dst), tx as u8, rx as u8)).collect()
}

/// structured option-area mutations: zero / one / oversized option lengths, every kind, truncated options
fn option_mutations(r: &mut Rng, base: &[u8]) -> Vec<Vec<u8>> {
    let mut out = vec![];
    if base.len() < 20 {
        return out;
    }
    // rebuild the packet with a hand-made option area of 4..40 octets
    for _ in 0..24 {
        let words = r.range(1, 10) as usize;
        let mut opts = vec![];
        while opts.len() < 4 * words {
            let kind = *r.pick(&[0u8, 1, 1, 2, 3, 4, 5, 5, 8, 6, 30, 254, 255]);
            opts.push(kind);
            if kind > 1 {
                let len = match r.below(8) {
                    0 => 0,
                    1 => 1,
                    2 => 2,
                    3 => 255,
                    4 => (4 * words - opts.len() + 1) as u8, // reaches exactly / just beyond the end
                    5 => *r.pick(&[3u8, 4, 10, 18, 26, 34, 11, 9, 12]),
                    _ => match kind {
                        2 => 4,
                        3 => 3,
                        4 => 2,
                        5 => *r.pick(&[10u8, 18, 26, 34]),
                        8 => 10,
                        _ => r.range(2, 12) as u8,
                    },
                };
                opts.push(len);
                let n = (len as usize).saturating_sub(2).min(40);
                opts.extend(r.bytes(n));
            }
        }
        opts.truncate(4 * words);
        let mut b = base[..20].to_vec();
        b.extend_from_slice(&opts);
        b.extend_from_slice(&base[20.min(base.len())..]);
        let hl = 20 + 4 * words;
        b[12] = (b[12] & 0x0f) | (((hl / 4) as u8) << 4);
        out.push(b.clone());
        // the same with the data offset pointing elsewhere
        let mut c = b.clone();
        c[12] = (c[12] & 0x0f) | ((r.below(16) as u8) << 4);
        out.push(c);
        if r.chance(1, 3) {
            b.truncate(r.range(20, b.len() as i64) as usize);
            out.push(b);
        }
    }
    out
}

fn gen_parse(r: &mut Rng, tier: &str) -> Vec<String> {
    let fields = gen_fields(r, tier, true);
    let kv = Kv::parse(&fields);
    let len = with_repr(&kv, |x| x.buffer_len());
    let (src, dst) = gen_addrs(r);
    let mut base = vec![0u8; len];
    with_repr(&kv, |x| x.emit(&mut TcpPacket::new_unchecked(&mut base[..]), &ipaddr(&src), &ipaddr(&dst), &caps(true, true)));
    let rx = r.chance(1, 3);
    let mut fl = vec![(0, 2), (2, 4), (4, 8), (8, 12), (12, 13), (13, 14), (14, 16), (16, 18), (18, 20)];
    let hl = with_repr(&kv, |x| x.header_len());
    for i in 20..hl.min(60) {
        fl.push((i, i + 1));
    }
    let mut out = mutations(r, &base, &fl, tier);
    out.extend(option_mutations(r, &base));
    out.iter().map(|b| format!("parse bytes={} src={} dst={} rx={}", hex(b), hex(&src), hex(&dst), rx as u8)).collect()
}

fn run_op(op: &str) -> String {
    let kv = Kv::parse(op);
    let cc = caps(kv.flag("tx"), kv.flag("rx"));
    let (src, dst) = (ipaddr(&kv.b("src")), ipaddr(&kv.b("dst")));
    let parse = |b: &[u8]| {
        acc(|| TcpRepr::parse(&TcpPacket::new_unchecked(b), &src, &dst, &cc).map(|r| show_repr(&r)), |x| match x {
            Ok(s) => s,
            Err(_) => "Err".into(),
        })
    };
    if op.starts_with("emit") {
        let mut buf = kv.b("buf");
        match guard(|| with_repr(&kv, |x| x.emit(&mut TcpPacket::new_unchecked(&mut buf[..]), &src, &dst, &cc))) {
            None => "ret PANIC | -".to_string(),
            Some(()) => format!("ret {} | {}", show_bytes(&buf), parse(&buf)),
        }
    } else {
        let bytes = kv.b("bytes");
        let chk = acc(|| TcpPacket::new_checked(&bytes[..]).is_ok(), |ok| if ok { "ok".into() } else { "err".into() });
        let mut s = format!("chk {}", chk);
        if chk == "ok" {
            let p = TcpPacket::new_unchecked(&bytes[..]);
            let b = |f: &dyn Fn() -> bool| acc(|| f(), |t| (t as u8).to_string());
            s += &format!(
                " acc sp={} dp={} seq={} ack={} fl={}{}{}{}{}{}{}{}{} hlen={} win={} ck={} urg={} opts={} payload={} seglen={} sum={} sackp={} sackr={} vck={}",
                acc(|| p.src_port(), |t| t.to_string()),
                acc(|| p.dst_port(), |t| t.to_string()),
                acc(|| p.seq_number(), |t| (t.0 as u32).to_string()),
                acc(|| p.ack_number(), |t| (t.0 as u32).to_string()),
                b(&|| p.fin()),
                b(&|| p.syn()),
                b(&|| p.rst()),
                b(&|| p.psh()),
                b(&|| p.ack()),
                b(&|| p.urg()),
                b(&|| p.ece()),
                b(&|| p.cwr()),
                b(&|| p.ns()),
                acc(|| p.header_len(), |t| t.to_string()),
                acc(|| p.window_len(), |t| t.to_string()),
                acc(|| p.checksum(), |t| t.to_string()),
                acc(|| p.urgent_at(), |t| t.to_string()),
                acc(|| p.options().to_vec(), |a| show_bytes(&a)),
                acc(|| p.payload().to_vec(), |a| show_bytes(&a)),
                acc(|| p.segment_len(), |t| t.to_string()),
                acc(|| p.options_summary().map(|o| format!(
                    "{},{},{},{},{},{},{}",
                    opt_s(o.max_segment_size),
                    opt_s(o.window_scale),
                    o.sack_permitted as u8,
                    pair_s(o.sack_ranges[0]),
                    pair_s(o.sack_ranges[1]),
                    pair_s(o.sack_ranges[2]),
                    pair_s(o.timestamp)
                )), |x| x.unwrap_or_else(|_| "Err".into())),
                acc(|| p.selective_ack_permitted(), |x| match x {
                    Ok(t) => (t as u8).to_string(),
                    Err(_) => "Err".into(),
                }),
                acc(|| p.selective_ack_ranges(), |x| match x {
                    Ok(t) => format!("{},{},{}", pair_s(t[0]), pair_s(t[1]), pair_s(t[2])),
                    Err(_) => "Err".into(),
                }),
                acc(|| p.verify_checksum(&src, &dst), |t| (t as u8).to_string()),
            );
        }
        format!("{} parse {}", s, parse(&bytes))
    }
}

pub const FORMAT: Format = Format { name: "tcp", gen_emit, gen_parse, run_op };
