//! C07 oracle: for every Packet / Frame / Header / Option type exported by smoltcp::wire (harness
//! feature set; RPL and IPsec are behind non-default features), arbitrary / mutated / truncated
//! byte strings -> `new_checked`; when it succeeds every read accessor that applies to the packet's
//! own message type, `Repr::parse` (also without a preceding new_checked where parse re-checks) and
//! the pretty printer, each under catch_unwind; a watchdog thread reports non-termination.
//!
//! Failure classes (`<type>-<kind>`, stable): accessor-panic, parse-panic, prettyprint-panic,
//! new-checked-panic, nonterminating.
//!
//! Oracle case: `case <id> fmt=oracle kind=c07 type=<type>` with ops `bytes <hex>`.
#![allow(dead_code)]
use super::super::common::*;
use super::arms;
use smoltcp::phy::{ChecksumCapabilities, Medium};
use smoltcp::wire::*;
use std::collections::BTreeMap;
use std::io::Write;
use std::sync::atomic::{AtomicU64, Ordering};
use std::sync::{Arc, Mutex};
use svh::*;

/// probe context: records which call panicked
pub struct P {
    pub panics: Vec<(&'static str, String)>, // (kind, what)
    pub calls: u64,
    pub checked_ok: bool,
    pub parse_ok: bool,
}
impl P {
    fn new() -> P {
        P { panics: vec![], calls: 0, checked_ok: false, parse_ok: false }
    }
    fn acc<T>(&mut self, what: &str, f: impl FnOnce() -> T) -> Option<T> {
        self.calls += 1;
        let r = guard(f);
        if r.is_none() {
            self.panics.push(("accessor-panic", what.to_string()));
        }
        r
    }
    fn parse<T>(&mut self, what: &str, f: impl FnOnce() -> std::result::Result<T, Error>) {
        self.calls += 1;
        match guard(f) {
            None => self.panics.push(("parse-panic", what.to_string())),
            Some(Ok(_)) => self.parse_ok = true,
            Some(Err(_)) => {}
        }
    }
    fn chk<T>(&mut self, f: impl FnOnce() -> std::result::Result<T, Error>) -> bool {
        self.calls += 1;
        match guard(f) {
            None => {
                self.panics.push(("new-checked-panic", "new_checked".into()));
                false
            }
            Some(r) => {
                self.checked_ok = r.is_ok();
                r.is_ok()
            }
        }
    }
    fn pretty<T: smoltcp::wire::pretty_print::PrettyPrint>(&mut self, b: &[u8]) {
        self.calls += 1;
        let v = b.to_vec();
        if guard(|| format!("{}", PrettyPrinter::<T>::new("", &v))).is_none() {
            self.panics.push(("prettyprint-panic", "PrettyPrinter".into()));
        }
    }
    fn display<T: std::fmt::Display>(&mut self, what: &str, f: impl FnOnce() -> T) {
        self.calls += 1;
        if guard(|| format!("{}", f())).is_none() {
            self.panics.push(("prettyprint-panic", format!("Display of {}", what)));
        }
    }
}

fn v4a() -> IpAddress {
    IpAddress::v4(10, 0, 0, 1)
}
fn v4b() -> IpAddress {
    IpAddress::v4(10, 0, 0, 2)
}
fn v6a() -> Ipv6Address {
    Ipv6Address::new(0xfe80, 0, 0, 0, 0, 0, 0, 1)
}
fn v6b() -> Ipv6Address {
    Ipv6Address::new(0xfe80, 0, 0, 0, 0, 0, 0, 2)
}
fn both_caps() -> [ChecksumCapabilities; 2] {
    [ChecksumCapabilities::default(), ChecksumCapabilities::ignored()]
}

// ---------------------------------------------------------------- probes
fn p_eth(b: &[u8], p: &mut P) {
    if p.chk(|| EthernetFrame::new_checked(b)) {
        let f = EthernetFrame::new_unchecked(b);
        p.acc("dst_addr", || f.dst_addr());
        p.acc("src_addr", || f.src_addr());
        p.acc("ethertype", || f.ethertype());
        p.acc("payload", || f.payload().len());
        p.display("frame", || EthernetFrame::new_unchecked(b));
    }
    p.parse("EthernetRepr::parse", || EthernetRepr::parse(&EthernetFrame::new_unchecked(b)));
    p.pretty::<EthernetFrame<&[u8]>>(b);
}
fn p_arp(b: &[u8], p: &mut P) {
    if p.chk(|| ArpPacket::new_checked(b)) {
        let f = ArpPacket::new_unchecked(b);
        p.acc("hardware_type", || f.hardware_type());
        p.acc("protocol_type", || f.protocol_type());
        p.acc("hardware_len", || f.hardware_len());
        p.acc("protocol_len", || f.protocol_len());
        p.acc("operation", || f.operation());
        p.acc("source_hardware_addr", || f.source_hardware_addr().len());
        p.acc("source_protocol_addr", || f.source_protocol_addr().len());
        p.acc("target_hardware_addr", || f.target_hardware_addr().len());
        p.acc("target_protocol_addr", || f.target_protocol_addr().len());
        p.display("packet", || ArpPacket::new_unchecked(b));
    }
    p.parse("ArpRepr::parse", || ArpRepr::parse(&ArpPacket::new_unchecked(b)));
    p.pretty::<ArpPacket<&[u8]>>(b);
}
fn p_ipv4(b: &[u8], p: &mut P) {
    if p.chk(|| Ipv4Packet::new_checked(b)) {
        let f = Ipv4Packet::new_unchecked(b);
        p.acc("version", || f.version());
        p.acc("header_len", || f.header_len());
        p.acc("dscp", || f.dscp());
        p.acc("ecn", || f.ecn());
        p.acc("total_len", || f.total_len());
        p.acc("ident", || f.ident());
        p.acc("dont_frag", || f.dont_frag());
        p.acc("more_frags", || f.more_frags());
        p.acc("frag_offset", || f.frag_offset());
        p.acc("hop_limit", || f.hop_limit());
        p.acc("next_header", || f.next_header());
        p.acc("checksum", || f.checksum());
        p.acc("src_addr", || f.src_addr());
        p.acc("dst_addr", || f.dst_addr());
        p.acc("verify_checksum", || f.verify_checksum());
        p.acc("get_key", || f.get_key());
        p.acc("payload", || f.payload().len());
        p.display("packet", || Ipv4Packet::new_unchecked(b));
    }
    for c in both_caps() {
        p.parse("Ipv4Repr::parse", || Ipv4Repr::parse(&Ipv4Packet::new_unchecked(b), &c));
    }
    p.pretty::<Ipv4Packet<&[u8]>>(b);
}
fn p_ipv6(b: &[u8], p: &mut P) {
    if p.chk(|| Ipv6Packet::new_checked(b)) {
        let f = Ipv6Packet::new_unchecked(b);
        p.acc("version", || f.version());
        p.acc("traffic_class", || f.traffic_class());
        p.acc("flow_label", || f.flow_label());
        p.acc("payload_len", || f.payload_len());
        p.acc("total_len", || f.total_len());
        p.acc("next_header", || f.next_header());
        p.acc("hop_limit", || f.hop_limit());
        p.acc("src_addr", || f.src_addr());
        p.acc("dst_addr", || f.dst_addr());
        p.acc("payload", || f.payload().len());
        p.display("packet", || Ipv6Packet::new_unchecked(b));
    }
    p.parse("Ipv6Repr::parse", || Ipv6Repr::parse(&Ipv6Packet::new_unchecked(b)));
    p.pretty::<Ipv6Packet<&[u8]>>(b);
}
fn p_ipv6ext(b: &[u8], p: &mut P) {
    if p.chk(|| Ipv6ExtHeader::new_checked(b)) {
        let f = Ipv6ExtHeader::new_unchecked(b);
        p.acc("next_header", || f.next_header());
        p.acc("header_len", || f.header_len());
        p.acc("payload", || f.payload().len());
        p.parse("Ipv6ExtHeaderRepr::parse", || Ipv6ExtHeaderRepr::parse(&f));
    }
}
fn p_ipv6frag(b: &[u8], p: &mut P) {
    if p.chk(|| Ipv6FragmentHeader::new_checked(b)) {
        let f = Ipv6FragmentHeader::new_unchecked(b);
        p.acc("frag_offset", || f.frag_offset());
        p.acc("more_frags", || f.more_frags());
        p.acc("ident", || f.ident());
        p.display("header", || Ipv6FragmentHeader::new_unchecked(b));
        p.parse("Ipv6FragmentRepr::parse", || Ipv6FragmentRepr::parse(&f));
    }
}
fn p_ipv6hbh(b: &[u8], p: &mut P) {
    if p.chk(|| Ipv6HopByHopHeader::new_checked(b)) {
        let f = Ipv6HopByHopHeader::new_unchecked(b);
        p.acc("options", || f.options().len());
        p.acc("options iterator", || {
            let mut n = 0;
            for o in Ipv6OptionsIterator::new(f.options()) {
                n += o.is_ok() as u32;
            }
            n
        });
        p.parse("Ipv6HopByHopRepr::parse", || Ipv6HopByHopRepr::parse(&f).map(|r| r.buffer_len()));
    }
    // the iterator itself over arbitrary bytes
    p.acc("Ipv6OptionsIterator", || Ipv6OptionsIterator::new(b).count());
}
fn p_ipv6opt(b: &[u8], p: &mut P) {
    if p.chk(|| Ipv6Option::new_checked(b)) {
        let f = Ipv6Option::new_unchecked(b);
        let ty = p.acc("option_type", || f.option_type());
        if ty != Some(Ipv6OptionType::Pad1) {
            p.acc("data_len", || f.data_len());
            p.acc("data", || f.data().len());
        }
        p.display("option", || Ipv6Option::new_unchecked(b));
    }
    p.parse("Ipv6OptionRepr::parse", || Ipv6OptionRepr::parse(&Ipv6Option::new_unchecked(b)).map(|r| format!("{}", r)));
}
fn p_ipv6routing(b: &[u8], p: &mut P) {
    if p.chk(|| Ipv6RoutingHeader::new_checked(b)) {
        let f = Ipv6RoutingHeader::new_unchecked(b);
        let ty = p.acc("routing_type", || f.routing_type());
        p.acc("segments_left", || f.segments_left());
        match ty {
            Some(Ipv6RoutingType::Type2) => {
                p.acc("home_address", || f.home_address());
            }
            Some(Ipv6RoutingType::Rpl) => {
                p.acc("cmpr_i", || f.cmpr_i());
                p.acc("cmpr_e", || f.cmpr_e());
                p.acc("pad", || f.pad());
                p.acc("addresses", || f.addresses().len());
            }
            _ => {}
        }
        p.display("header", || Ipv6RoutingHeader::new_unchecked(b));
        p.parse("Ipv6RoutingRepr::parse", || Ipv6RoutingRepr::parse(&f).map(|r| format!("{}", r)));
    }
}
fn p_icmpv4(b: &[u8], p: &mut P) {
    if p.chk(|| Icmpv4Packet::new_checked(b)) {
        let f = Icmpv4Packet::new_unchecked(b);
        let ty = p.acc("msg_type", || f.msg_type());
        p.acc("msg_code", || f.msg_code());
        p.acc("checksum", || f.checksum());
        if matches!(ty, Some(Icmpv4Message::EchoRequest) | Some(Icmpv4Message::EchoReply)) {
            p.acc("echo_ident", || f.echo_ident());
            p.acc("echo_seq_no", || f.echo_seq_no());
        }
        p.acc("header_len", || f.header_len());
        p.acc("verify_checksum", || f.verify_checksum());
        p.acc("data", || f.data().len());
        p.display("packet", || Icmpv4Packet::new_unchecked(b));
    }
    for c in both_caps() {
        p.parse("Icmpv4Repr::parse", || Icmpv4Repr::parse(&Icmpv4Packet::new_unchecked(b), &c).map(|r| format!("{}", r)));
    }
    p.pretty::<Icmpv4Packet<&[u8]>>(b);
}
fn p_icmpv6(b: &[u8], p: &mut P) {
    if p.chk(|| Icmpv6Packet::new_checked(b)) {
        let f = Icmpv6Packet::new_unchecked(b);
        let ty = p.acc("msg_type", || f.msg_type());
        p.acc("msg_code", || f.msg_code());
        p.acc("checksum", || f.checksum());
        p.acc("header_len", || f.header_len());
        p.acc("verify_checksum", || f.verify_checksum(&v6a(), &v6b()));
        p.acc("payload", || f.payload().len());
        match ty {
            Some(Icmpv6Message::EchoRequest) | Some(Icmpv6Message::EchoReply) => {
                p.acc("echo_ident", || f.echo_ident());
                p.acc("echo_seq_no", || f.echo_seq_no());
            }
            Some(Icmpv6Message::PktTooBig) => {
                p.acc("pkt_too_big_mtu", || f.pkt_too_big_mtu());
            }
            Some(Icmpv6Message::ParamProblem) => {
                p.acc("param_problem_ptr", || f.param_problem_ptr());
            }
            Some(Icmpv6Message::RouterAdvert) => {
                p.acc("current_hop_limit", || f.current_hop_limit());
                p.acc("router_flags", || f.router_flags());
                p.acc("router_lifetime", || f.router_lifetime());
                p.acc("reachable_time", || f.reachable_time());
                p.acc("retrans_time", || f.retrans_time());
            }
            Some(Icmpv6Message::NeighborSolicit) => {
                p.acc("target_addr", || f.target_addr());
            }
            Some(Icmpv6Message::NeighborAdvert) => {
                p.acc("neighbor_flags", || f.neighbor_flags());
                p.acc("target_addr", || f.target_addr());
            }
            Some(Icmpv6Message::Redirect) => {
                p.acc("target_addr", || f.target_addr());
                p.acc("dest_addr", || f.dest_addr());
            }
            Some(Icmpv6Message::MldQuery) => {
                p.acc("max_resp_code", || f.max_resp_code());
                p.acc("mcast_addr", || f.mcast_addr());
                p.acc("s_flag", || f.s_flag());
                p.acc("qrv", || f.qrv());
                p.acc("qqic", || f.qqic());
                p.acc("num_srcs", || f.num_srcs());
            }
            Some(Icmpv6Message::MldReport) => {
                p.acc("nr_mcast_addr_rcrds", || f.nr_mcast_addr_rcrds());
            }
            _ => {}
        }
    }
    for c in both_caps() {
        p.parse("Icmpv6Repr::parse", || Icmpv6Repr::parse(&v6a(), &v6b(), &Icmpv6Packet::new_unchecked(b), &c).map(|r| format!("{:?}", r)));
    }
    // the typed parsers directly (they re-check)
    p.parse("NdiscRepr::parse", || NdiscRepr::parse(&Icmpv6Packet::new_unchecked(b)).map(|r| format!("{:?}", r)));
    p.parse("MldRepr::parse", || MldRepr::parse(&Icmpv6Packet::new_unchecked(b)).map(|r| format!("{:?}", r)));
}
fn p_mldrecord(b: &[u8], p: &mut P) {
    if p.chk(|| MldAddressRecord::new_checked(b)) {
        let f = MldAddressRecord::new_unchecked(b);
        p.acc("record_type", || f.record_type());
        p.acc("aux_data_len", || f.aux_data_len());
        p.acc("num_srcs", || f.num_srcs());
        p.acc("mcast_addr", || f.mcast_addr());
        p.acc("payload", || f.payload().len());
        // MldAddressRecordRepr::parse does not re-check the length: it is covered only after new_checked
        p.parse("MldAddressRecordRepr::parse", || MldAddressRecordRepr::parse(&f).map(|r| r.buffer_len()));
    }
}
fn p_ndiscopt(b: &[u8], p: &mut P) {
    if p.chk(|| NdiscOption::new_checked(b)) {
        let f = NdiscOption::new_unchecked(b);
        let ty = p.acc("option_type", || f.option_type());
        p.acc("data_len", || f.data_len());
        match ty {
            Some(NdiscOptionType::SourceLinkLayerAddr) | Some(NdiscOptionType::TargetLinkLayerAddr) => {
                p.acc("link_layer_addr", || f.link_layer_addr());
            }
            Some(NdiscOptionType::Mtu) => {
                p.acc("mtu", || f.mtu());
            }
            Some(NdiscOptionType::PrefixInformation) => {
                p.acc("prefix_len", || f.prefix_len());
                p.acc("prefix_flags", || f.prefix_flags());
                p.acc("valid_lifetime", || f.valid_lifetime());
                p.acc("preferred_lifetime", || f.preferred_lifetime());
                p.acc("prefix", || f.prefix());
            }
            Some(NdiscOptionType::RedirectedHeader) => {
                p.acc("data", || f.data().len());
            }
            _ => {}
        }
    }
    p.parse("NdiscOptionRepr::parse", || NdiscOptionRepr::parse(&NdiscOption::new_unchecked(b)).map(|r| format!("{}", r)));
    p.pretty::<NdiscOption<&[u8]>>(b);
}
fn p_igmp(b: &[u8], p: &mut P) {
    if p.chk(|| IgmpPacket::new_checked(b)) {
        let f = IgmpPacket::new_unchecked(b);
        p.acc("msg_type", || f.msg_type());
        p.acc("max_resp_code", || f.max_resp_code());
        p.acc("checksum", || f.checksum());
        p.acc("group_addr", || f.group_addr());
        p.acc("verify_checksum", || f.verify_checksum());
        p.display("packet", || IgmpPacket::new_unchecked(b));
    }
    p.parse("IgmpRepr::parse", || IgmpRepr::parse(&IgmpPacket::new_unchecked(b)).map(|r| format!("{}", r)));
    p.pretty::<IgmpPacket<&[u8]>>(b);
}
fn p_udp(b: &[u8], p: &mut P) {
    if p.chk(|| UdpPacket::new_checked(b)) {
        let f = UdpPacket::new_unchecked(b);
        p.acc("src_port", || f.src_port());
        p.acc("dst_port", || f.dst_port());
        p.acc("len", || f.len());
        p.acc("checksum", || f.checksum());
        p.acc("payload", || f.payload().len());
        p.acc("verify_checksum v4", || f.verify_checksum(&v4a(), &v4b()));
        p.acc("verify_checksum v6", || f.verify_checksum(&IpAddress::Ipv6(v6a()), &IpAddress::Ipv6(v6b())));
        p.acc("verify_partial_checksum", || f.verify_partial_checksum(&v4a(), &v4b()));
        p.display("packet", || UdpPacket::new_unchecked(b));
    }
    for c in both_caps() {
        p.parse("UdpRepr::parse v4", || UdpRepr::parse(&UdpPacket::new_unchecked(b), &v4a(), &v4b(), &c));
        p.parse("UdpRepr::parse v6", || UdpRepr::parse(&UdpPacket::new_unchecked(b), &IpAddress::Ipv6(v6a()), &IpAddress::Ipv6(v6b()), &c));
    }
    p.pretty::<UdpPacket<&[u8]>>(b);
}
fn p_tcp(b: &[u8], p: &mut P) {
    if p.chk(|| TcpPacket::new_checked(b)) {
        let f = TcpPacket::new_unchecked(b);
        p.acc("src_port", || f.src_port());
        p.acc("dst_port", || f.dst_port());
        p.acc("seq_number", || f.seq_number());
        p.acc("ack_number", || f.ack_number());
        p.acc("flags", || (f.fin(), f.syn(), f.rst(), f.psh(), f.ack(), f.urg(), f.ece(), f.cwr(), f.ns()));
        p.acc("header_len", || f.header_len());
        p.acc("window_len", || f.window_len());
        p.acc("checksum", || f.checksum());
        p.acc("urgent_at", || f.urgent_at());
        p.acc("segment_len", || f.segment_len());
        p.acc("options", || f.options().len());
        p.acc("payload", || f.payload().len());
        p.acc("selective_ack_permitted", || f.selective_ack_permitted().is_ok());
        p.acc("selective_ack_ranges", || f.selective_ack_ranges().is_ok());
        p.acc("options_summary", || f.options_summary().is_ok());
        p.acc("verify_checksum", || f.verify_checksum(&v4a(), &v4b()));
        p.acc("verify_partial_checksum", || f.verify_partial_checksum(&v4a(), &v4b()));
        p.display("packet", || TcpPacket::new_unchecked(b));
    }
    for c in both_caps() {
        p.parse("TcpRepr::parse", || TcpRepr::parse(&TcpPacket::new_unchecked(b), &v4a(), &v4b(), &c).map(|r| format!("{}", r)));
    }
    // TcpOption::parse walk over arbitrary bytes
    p.acc("TcpOption::parse walk", || {
        let mut o = b;
        let mut n = 0;
        while !o.is_empty() {
            match TcpOption::parse(o) {
                Ok((rest, _)) => {
                    o = rest;
                    n += 1
                }
                Err(_) => break,
            }
        }
        n
    });
    p.pretty::<TcpPacket<&[u8]>>(b);
}
fn p_dhcp(b: &[u8], p: &mut P) {
    if p.chk(|| DhcpPacket::new_checked(b)) {
        let f = DhcpPacket::new_unchecked(b);
        p.acc("opcode", || f.opcode());
        p.acc("hardware_type", || f.hardware_type());
        p.acc("hardware_len", || f.hardware_len());
        p.acc("transaction_id", || f.transaction_id());
        p.acc("client_hardware_address", || f.client_hardware_address());
        p.acc("hops", || f.hops());
        p.acc("secs", || f.secs());
        p.acc("magic_number", || f.magic_number());
        p.acc("client_ip", || f.client_ip());
        p.acc("your_ip", || f.your_ip());
        p.acc("server_ip", || f.server_ip());
        p.acc("relay_agent_ip", || f.relay_agent_ip());
        p.acc("flags", || f.flags());
        p.acc("options", || f.options().map(|o| o.data.len()).sum::<usize>());
        p.acc("get_sname", || f.get_sname().is_ok());
        p.acc("get_boot_file", || f.get_boot_file().is_ok());
    }
    p.parse("DhcpRepr::parse", || {
        let pk = DhcpPacket::new_unchecked(b);
        DhcpRepr::parse(&pk).map(|r| r.buffer_len())
    });
}
/// labels of a name until the first error / end; a fallible iterator keeps yielding Err after an error,
/// so the caller (like the DNS socket's try_for_each) stops there.  More labels than octets = a loop.
fn name_labels<'a>(it: impl Iterator<Item = std::result::Result<&'a [u8], Error>>, limit: usize) -> usize {
    let mut n = 0;
    for x in it {
        if x.is_err() {
            break;
        }
        n += 1;
        if n > limit + 1 {
            panic!("parse_name yields more labels than the packet has octets");
        }
    }
    n
}
fn p_dns(b: &[u8], p: &mut P) {
    if p.chk(|| DnsPacket::new_checked(b)) {
        let f = DnsPacket::new_unchecked(b);
        p.acc("transaction_id", || f.transaction_id());
        p.acc("flags", || f.flags());
        p.acc("opcode", || f.opcode());
        p.acc("rcode", || f.rcode());
        p.acc("counts", || (f.question_count(), f.answer_record_count(), f.authority_record_count(), f.additional_record_count()));
        p.acc("payload", || f.payload().len());
        // the way the DNS socket walks a response: questions, then records, names through parse_name
        p.acc("walk", || {
            let mut payload = f.payload();
            let mut n = 0usize;
            for _ in 0..f.question_count().min(8) {
                match DnsQuestion::parse(payload) {
                    Ok((rest, q)) => {
                        n += name_labels(f.parse_name(q.name), b.len());
                        payload = rest
                    }
                    Err(_) => return n,
                }
            }
            for _ in 0..f.answer_record_count().min(16) {
                match DnsRecord::parse(payload) {
                    Ok((rest, r)) => {
                        n += name_labels(f.parse_name(r.name), b.len());
                        if let DnsRecordData::Cname(name) = r.data {
                            n += name_labels(f.parse_name(name), b.len());
                        }
                        payload = rest
                    }
                    Err(_) => return n,
                }
            }
            n
        });
        // parse_name from every offset (pointer loops, forward pointers, self references)
        p.acc("parse_name at every offset", || {
            let mut n = 0usize;
            let lim = b.len().min(96);
            for off in 0..lim {
                n += name_labels(f.parse_name(&b[off..]), b.len());
            }
            n
        });
    }
    p.parse("DnsQuestion::parse", || DnsQuestion::parse(b).map(|x| x.0.len()));
    p.parse("DnsRecord::parse", || DnsRecord::parse(b).map(|x| x.0.len()));
}
fn p_154(b: &[u8], p: &mut P) {
    if p.chk(|| Ieee802154Frame::new_checked(b)) {
        let f = Ieee802154Frame::new_unchecked(b);
        p.acc("frame_type", || f.frame_type());
        p.acc("fc bits", || (f.security_enabled(), f.frame_pending(), f.ack_request(), f.pan_id_compression(), f.sequence_number_suppression(), f.ie_present()));
        p.acc("dst_addressing_mode", || f.dst_addressing_mode());
        p.acc("frame_version", || f.frame_version());
        p.acc("src_addressing_mode", || f.src_addressing_mode());
        p.acc("sequence_number", || f.sequence_number());
        p.acc("dst_pan_id", || f.dst_pan_id());
        p.acc("dst_addr", || f.dst_addr());
        p.acc("src_pan_id", || f.src_pan_id());
        p.acc("src_addr", || f.src_addr());
        if f.security_enabled() {
            p.acc("security_level", || f.security_level());
            p.acc("key_identifier_mode", || f.key_identifier_mode());
            p.acc("frame_counter_suppressed", || f.frame_counter_suppressed());
            p.acc("frame_counter", || f.frame_counter());
            p.acc("key_source", || f.key_source().map(|x| x.len()));
            p.acc("key_index", || f.key_index());
            p.acc("message_integrity_code", || f.message_integrity_code().map(|x| x.len()));
        }
        p.acc("mac_header", || f.mac_header().len());
        p.acc("payload", || f.payload().map(|x| x.len()));
        p.display("frame", || Ieee802154Frame::new_unchecked(b));
    }
    p.parse("Ieee802154Repr::parse", || Ieee802154Repr::parse(&Ieee802154Frame::new_unchecked(b)).map(|r| r.buffer_len()));
}
fn lls() -> [Option<Ieee802154Address>; 3] {
    [None, Some(Ieee802154Address::Short([0x12, 0x34])), Some(Ieee802154Address::Extended([2, 0, 0, 0, 0, 0, 0, 1]))]
}
fn p_sixlowpan(b: &[u8], p: &mut P) {
    p.parse("SixlowpanPacket::dispatch", || SixlowpanPacket::dispatch(b));
    p.parse("SixlowpanNhcPacket::dispatch", || SixlowpanNhcPacket::dispatch(b));
}
fn p_sixfrag(b: &[u8], p: &mut P) {
    if p.chk(|| SixlowpanFragPacket::new_checked(b)) {
        let f = SixlowpanFragPacket::new_unchecked(b);
        p.acc("dispatch", || f.dispatch());
        p.acc("datagram_size", || f.datagram_size());
        p.acc("datagram_tag", || f.datagram_tag());
        p.acc("datagram_offset", || f.datagram_offset());
        p.acc("is_first_fragment", || f.is_first_fragment());
        p.acc("payload", || f.payload().len());
    }
    p.parse("SixlowpanFragRepr::parse", || SixlowpanFragRepr::parse(&SixlowpanFragPacket::new_unchecked(b)));
}
fn p_iphc(b: &[u8], p: &mut P) {
    if p.chk(|| SixlowpanIphcPacket::new_checked(b)) {
        let f = SixlowpanIphcPacket::new_unchecked(b);
        p.acc("next_header", || f.next_header());
        p.acc("hop_limit", || f.hop_limit());
        p.acc("src_context_id", || f.src_context_id());
        p.acc("dst_context_id", || f.dst_context_id());
        p.acc("ecn_field", || f.ecn_field());
        p.acc("dscp_field", || f.dscp_field());
        p.acc("flow_label_field", || f.flow_label_field());
        p.acc("src_addr", || f.src_addr().is_ok());
        p.acc("dst_addr", || f.dst_addr().is_ok());
        p.acc("header_len", || f.header_len());
        p.acc("payload", || f.payload().len());
        let c1 = arms::ctx1();
        for ll in arms::lls() {
            for ctx in [&[][..], &c1[..]] {
                p.acc("src_addr().resolve", || f.src_addr().map(|u| u.resolve(ll, ctx).is_ok()));
                p.acc("dst_addr().resolve", || f.dst_addr().map(|u| u.resolve(ll, ctx).is_ok()));
            }
        }
    }
    let ctx = [SixlowpanAddressContext([0x20, 0x01, 0x0d, 0xb8, 0, 0, 0, 1])];
    for s in lls() {
        for d in lls() {
            p.parse("SixlowpanIphcRepr::parse", || SixlowpanIphcRepr::parse(&SixlowpanIphcPacket::new_unchecked(b), s, d, &[]).map(|r| r.buffer_len()));
            p.parse("SixlowpanIphcRepr::parse ctx", || SixlowpanIphcRepr::parse(&SixlowpanIphcPacket::new_unchecked(b), s, d, &ctx).map(|r| r.buffer_len()));
        }
    }
}
fn p_nhcext(b: &[u8], p: &mut P) {
    if p.chk(|| SixlowpanExtHeaderPacket::new_checked(b)) {
        let f = SixlowpanExtHeaderPacket::new_unchecked(b);
        p.acc("extension_header_id", || f.extension_header_id());
        p.acc("IpProtocol::from(extension_header_id)", || IpProtocol::from(f.extension_header_id()));
        p.acc("length", || f.length());
        p.acc("next_header", || f.next_header());
        p.acc("payload", || f.payload().len());
    }
    p.parse("SixlowpanExtHeaderRepr::parse", || SixlowpanExtHeaderRepr::parse(&SixlowpanExtHeaderPacket::new_unchecked(b)).map(|r| r.buffer_len()));
}
fn p_nhcudp(b: &[u8], p: &mut P) {
    if p.chk(|| SixlowpanUdpNhcPacket::new_checked(b)) {
        let f = SixlowpanUdpNhcPacket::new_unchecked(b);
        p.acc("src_port", || f.src_port());
        p.acc("dst_port", || f.dst_port());
        p.acc("checksum", || f.checksum());
        p.acc("payload", || f.payload().len());
    }
    for c in both_caps() {
        p.parse("SixlowpanUdpNhcRepr::parse", || SixlowpanUdpNhcRepr::parse(&SixlowpanUdpNhcPacket::new_unchecked(b), &v6a(), &v6b(), &c).map(|r| r.header_len()));
    }
}

/// RawHardwareAddress (the link-layer address carried by NDISC options): from_bytes is documented
/// to panic beyond MAX_HARDWARE_ADDRESS_LEN, parse(medium) must answer Err for a wrong length
fn p_rawhw(b: &[u8], p: &mut P) {
    if b.len() > MAX_HARDWARE_ADDRESS_LEN {
        return;
    }
    let raw = RawHardwareAddress::from_bytes(b);
    p.acc("as_bytes / len / is_empty", || (raw.as_bytes().len(), raw.len(), raw.is_empty()));
    p.parse("RawHardwareAddress::parse(Ethernet)", || raw.parse(Medium::Ethernet));
    p.parse("RawHardwareAddress::parse(Ieee802154)", || raw.parse(Medium::Ieee802154));
    p.display("RawHardwareAddress", || raw);
}
/// 16 octets = an IPv6 destination: source address selection (the public path to
/// `Ipv6Address::x_multicast_scope`) must not panic for any destination but `::`
fn p_scope(b: &[u8], p: &mut P) {
    if b.len() != 16 {
        return;
    }
    let a = Ipv6Address::from_octets(b.try_into().unwrap());
    p.calls += 1;
    if arms::source_address_for(a).is_none() {
        p.panics.push(("accessor-panic", "Interface::get_source_address_ipv6".into()));
    }
    let cidr = Ipv6Cidr::new(a, (b[15] % 129) as u8);
    p.acc("Ipv6Cidr contains / network", || (cidr.contains_addr(&v6a()), cidr.address()));
}

// ---------------------------------------------------------------- base packets
type Probe = fn(&[u8], &mut P);
struct Ty {
    name: &'static str,
    probe: Probe,
    base: fn(&mut Rng) -> Vec<u8>,
    fields: &'static [(usize, usize)],
}

fn b_eth(r: &mut Rng) -> Vec<u8> {
    // Ethernet + a nested IPv4/UDP, IPv6/TCP or ARP packet so that the pretty printer descends
    let mut v = vec![];
    v.extend_from_slice(&gen_mac(r));
    v.extend_from_slice(&gen_mac(r));
    match r.below(4) {
        0 => {
            v.extend_from_slice(&[0x08, 0x06]);
            v.extend(b_arp(r));
        }
        1 => {
            v.extend_from_slice(&[0x08, 0x00]);
            v.extend(b_ipv4(r));
        }
        2 => {
            v.extend_from_slice(&[0x86, 0xdd]);
            v.extend(b_ipv6(r));
        }
        _ => {
            v.extend_from_slice(&gen_u16(r).to_be_bytes());
            let n = r.below(40) as usize;
            v.extend(r.bytes(n));
        }
    }
    v
}
fn b_arp(r: &mut Rng) -> Vec<u8> {
    let mut v = vec![0, 1, 8, 0, 6, 4, 0, 1 + r.below(2) as u8];
    v.extend_from_slice(&gen_mac(r));
    v.extend_from_slice(&gen_ipv4(r));
    v.extend_from_slice(&gen_mac(r));
    v.extend_from_slice(&gen_ipv4(r));
    v
}
fn b_ipv4(r: &mut Rng) -> Vec<u8> {
    let (proto, inner) = match r.below(4) {
        0 => (1u8, b_icmpv4(r)),
        1 => (17, b_udp(r)),
        2 => (6, b_tcp(r)),
        _ => (2, b_igmp(r)),
    };
    let repr = Ipv4Repr { src_addr: Ipv4Address::new(10, 0, 0, 1), dst_addr: Ipv4Address::new(10, 0, 0, 2), next_header: IpProtocol::from(proto), payload_len: inner.len(), hop_limit: 64 };
    let mut v = vec![0u8; 20];
    repr.emit(&mut Ipv4Packet::new_unchecked(&mut v[..]), &ChecksumCapabilities::default());
    v.extend(inner);
    v
}
fn b_ipv6(r: &mut Rng) -> Vec<u8> {
    let (proto, inner) = match r.below(3) {
        0 => (58u8, b_icmpv6(r)),
        1 => (17, b_udp(r)),
        _ => (6, b_tcp(r)),
    };
    let repr = Ipv6Repr { src_addr: v6a(), dst_addr: v6b(), next_header: IpProtocol::from(proto), payload_len: inner.len(), hop_limit: 64 };
    let mut v = vec![0u8; 40];
    repr.emit(&mut Ipv6Packet::new_unchecked(&mut v[..]));
    v.extend(inner);
    v
}
fn b_udp(r: &mut Rng) -> Vec<u8> {
    let n = r.below(24) as usize;
    let pl = r.bytes(n);
    let mut v = vec![0u8; 8 + n];
    UdpRepr { src_port: gen_u16(r), dst_port: gen_u16(r) | 1 }.emit(&mut UdpPacket::new_unchecked(&mut v[..]), &v4a(), &v4b(), n, |b| b.copy_from_slice(&pl), &ChecksumCapabilities::default());
    v
}
fn b_tcp(r: &mut Rng) -> Vec<u8> {
    let f = super::super::fmt_tcp::gen_fields(r, "quick", true);
    let kv = Kv::parse(&f);
    let len = super::super::fmt_tcp::with_repr(&kv, |x| x.buffer_len());
    let mut v = vec![0u8; len];
    super::super::fmt_tcp::with_repr(&kv, |x| x.emit(&mut TcpPacket::new_unchecked(&mut v[..]), &v4a(), &v4b(), &ChecksumCapabilities::default()));
    v
}
fn b_icmpv4(r: &mut Rng) -> Vec<u8> {
    let mut v = vec![*r.pick(&[0u8, 3, 8, 11, 5, 12]), gen_u8(r) & 3, 0, 0, 0, 0, 0, 0];
    if v[0] == 3 || v[0] == 11 {
        let mut inner = vec![0x45, 0, 0, 28, 0, 0, 0x40, 0, 64, 17, 0, 0, 10, 0, 0, 1, 10, 0, 0, 2];
        inner.extend(r.bytes(8));
        v.extend(inner);
    } else {
        let n = r.below(16) as usize;
        v.extend(r.bytes(n));
    }
    let mut p = Icmpv4Packet::new_unchecked(&mut v[..]);
    p.fill_checksum();
    v
}
fn b_icmpv6(r: &mut Rng) -> Vec<u8> {
    let ty = *r.pick(&[1u8, 2, 3, 4, 128, 129, 130, 133, 134, 135, 136, 137, 143]);
    let hl = match ty {
        134 => 16,
        135 | 136 => 24,
        137 => 40,
        130 => 28,
        _ => 8,
    };
    let mut v = vec![0u8; hl];
    v[0] = ty;
    for x in v[4..].iter_mut() {
        *x = gen_u8(r);
    }
    match ty {
        1..=4 => {
            let mut inner = vec![0x60, 0, 0, 0, 0, 8, 17, 64];
            inner.extend_from_slice(&v6a().octets());
            inner.extend_from_slice(&v6b().octets());
            inner.extend(r.bytes(8));
            v.extend(inner);
        }
        133..=137 => {
            // NDISC options
            for _ in 0..r.below(3) {
                match r.below(4) {
                    0 => v.extend_from_slice(&[1, 1, 2, 0, 0, 0, 0, 1]),
                    1 => v.extend_from_slice(&[5, 1, 0, 0, 0, 0, 5, 220]),
                    2 => {
                        v.extend_from_slice(&[3, 4, 64, 0xc0, 0, 0, 3, 132, 0, 0, 3, 132, 0, 0, 0, 0]);
                        v.extend_from_slice(&[0x20, 1, 0xd, 0xb8, 0, 0, 0, 0, 0, 0, 0, 0, 0, 0, 0, 0]);
                    }
                    _ => {
                        v.extend_from_slice(&[4, 6, 0, 0, 0, 0, 0, 0]);
                        v.extend(r.bytes(40));
                    }
                }
            }
        }
        143 => {
            v[6] = 0;
            v[7] = 1;
            v.extend_from_slice(&[1, 0, 0, 1]);
            v.extend_from_slice(&v6b().octets());
            v.extend_from_slice(&v6a().octets());
        }
        _ => {
            let n = r.below(16) as usize;
            v.extend(r.bytes(n));
        }
    }
    let (a, b) = (v6a(), v6b());
    let mut p = Icmpv6Packet::new_unchecked(&mut v[..]);
    p.fill_checksum(&a, &b);
    v
}
fn b_igmp(r: &mut Rng) -> Vec<u8> {
    let mut v = vec![*r.pick(&[0x11u8, 0x12, 0x16, 0x17, 0x22]), gen_u8(r), 0, 0, 224, 0, 0, gen_u8(r)];
    let mut p = IgmpPacket::new_unchecked(&mut v[..]);
    p.fill_checksum();
    v
}
fn b_ipv6ext(r: &mut Rng) -> Vec<u8> {
    let words = r.below(4) as usize;
    let mut v = vec![*r.pick(&[6u8, 17, 58, 0, 43, 44, 59, 60]), words as u8];
    v.extend(r.bytes(6 + 8 * words));
    v
}
fn b_ipv6frag(r: &mut Rng) -> Vec<u8> {
    r.bytes(6)
}
fn b_ipv6hbh(r: &mut Rng) -> Vec<u8> {
    let mut v = vec![];
    for _ in 0..r.range(1, 5) {
        match r.below(5) {
            0 => v.push(0),
            1 => {
                let n = r.below(6) as u8;
                v.push(1);
                v.push(n);
                v.extend(vec![0u8; n as usize]);
            }
            2 => v.extend_from_slice(&[5, 2, 0, 0]),
            3 => v.extend_from_slice(&[0x63, 4, 0, 0x1e, 0, 1]),
            _ => {
                let n = r.below(8) as u8;
                v.push(*r.pick(&[0x3eu8, 0x7e, 0xbe, 0xfe, 0x22]));
                v.push(n);
                v.extend(r.bytes(n as usize));
            }
        }
    }
    v
}
fn b_ipv6routing(r: &mut Rng) -> Vec<u8> {
    if r.chance(1, 2) {
        let mut v = vec![2, 1, 0, 0, 0, 0];
        v.extend_from_slice(&v6a().octets());
        v
    } else {
        let mut v = vec![3, gen_u8(r) & 7, (r.below(16) as u8) << 4 | r.below(16) as u8, (r.below(16) as u8) << 4, 0, 0];
        let n = r.below(40) as usize;
        v.extend(r.bytes(n));
        v
    }
}
fn b_mldrecord(r: &mut Rng) -> Vec<u8> {
    let n = r.below(3) as usize;
    let mut v = vec![r.range(1, 6) as u8, 0, 0, n as u8];
    v.extend_from_slice(&v6b().octets());
    for _ in 0..n {
        v.extend_from_slice(&v6a().octets());
    }
    v
}
fn b_ndiscopt(r: &mut Rng) -> Vec<u8> {
    match r.below(5) {
        0 => vec![1, 1, 2, 0, 0, 0, 0, 1],
        1 => vec![2, 2, 2, 0, 0, 0, 0, 0, 0, 1, 0, 0, 0, 0, 0, 0],
        2 => vec![5, 1, 0, 0, 0, 0, 5, 220],
        3 => {
            let mut v = vec![3, 4, 64, 0xc0, 0, 0, 3, 132, 0, 0, 3, 132, 0, 0, 0, 0];
            v.extend_from_slice(&[0x20, 1, 0xd, 0xb8, 0, 0, 0, 0, 0, 0, 0, 0, 0, 0, 0, 0]);
            v
        }
        _ => {
            let mut v = vec![4, 7, 0, 0, 0, 0, 0, 0];
            v.extend_from_slice(&[0x60, 0, 0, 0, 0, 8, 17, 64]);
            v.extend_from_slice(&v6a().octets());
            v.extend_from_slice(&v6b().octets());
            v.extend(r.bytes(8));
            v
        }
    }
}
fn b_dhcp(r: &mut Rng) -> Vec<u8> {
    let mut v = vec![0u8; 240];
    v[0] = 1 + r.below(2) as u8;
    v[1] = 1;
    v[2] = 6;
    for x in v[4..8].iter_mut() {
        *x = r.next() as u8
    }
    v[28..34].copy_from_slice(&gen_mac(r));
    v[236..240].copy_from_slice(&[0x63, 0x82, 0x53, 0x63]);
    v.extend_from_slice(&[53, 1, r.range(1, 8) as u8]);
    for _ in 0..r.below(8) {
        match r.below(8) {
            0 => v.extend_from_slice(&[54, 4, 10, 0, 0, 1]),
            1 => v.extend_from_slice(&[51, 4, 0, 0, 14, 16]),
            2 => v.extend_from_slice(&[1, 4, 255, 255, 255, 0]),
            3 => v.extend_from_slice(&[3, 4, 10, 0, 0, 1]),
            4 => v.extend_from_slice(&[6, 8, 8, 8, 8, 8, 1, 1, 1, 1]),
            5 => v.extend_from_slice(&[61, 7, 1, 2, 3, 4, 5, 6, 7]),
            6 => v.push(0),
            _ => {
                let n = r.below(12) as u8;
                v.push(gen_u8(r).max(2));
                v.push(n);
                v.extend(r.bytes(n as usize));
            }
        }
    }
    v.push(255);
    v
}
fn b_dns(r: &mut Rng) -> Vec<u8> {
    let mut v = vec![gen_u8(r), gen_u8(r), 0x81, 0x80, 0, 1, 0, r.below(3) as u8, 0, 0, 0, 0];
    v.extend_from_slice(&[3, b'w', b'w', b'w', 7, b'e', b'x', b'a', b'm', b'p', b'l', b'e', 3, b'c', b'o', b'm', 0, 0, 1, 0, 1]);
    for _ in 0..v[7] {
        match r.below(3) {
            0 => v.extend_from_slice(&[0xc0, 0x0c, 0, 1, 0, 1, 0, 0, 0, 60, 0, 4, 1, 2, 3, 4]),
            1 => v.extend_from_slice(&[0xc0, 0x0c, 0, 5, 0, 1, 0, 0, 0, 60, 0, 4, 1, b'a', 0xc0, 0x10]),
            _ => v.extend_from_slice(&[0xc0, 0x10, 0, 28, 0, 1, 0, 0, 0, 60, 0, 16, 0, 0, 0, 0, 0, 0, 0, 0, 0, 0, 0, 0, 0, 0, 0, 1]),
        }
    }
    v
}
fn b_154(r: &mut Rng) -> Vec<u8> {
    let repr = Ieee802154Repr {
        frame_type: *r.pick(&[Ieee802154FrameType::Data, Ieee802154FrameType::Beacon, Ieee802154FrameType::Acknowledgement, Ieee802154FrameType::MacCommand]),
        security_enabled: false,
        frame_pending: r.chance(1, 4),
        ack_request: r.chance(1, 2),
        sequence_number: Some(gen_u8(r)),
        pan_id_compression: r.chance(1, 2),
        frame_version: *r.pick(&[Ieee802154FrameVersion::Ieee802154_2003, Ieee802154FrameVersion::Ieee802154_2006, Ieee802154FrameVersion::Ieee802154]),
        dst_pan_id: Some(Ieee802154Pan(gen_u16(r))),
        dst_addr: lls()[r.below(3) as usize].or(Some(Ieee802154Address::Absent)),
        src_pan_id: Some(Ieee802154Pan(gen_u16(r))),
        src_addr: lls()[r.below(3) as usize].or(Some(Ieee802154Address::Absent)),
    };
    let mut v = vec![0u8; repr.buffer_len()];
    if guard(|| repr.emit(&mut Ieee802154Frame::new_unchecked(&mut v[..]))).is_none() {
        v = vec![0x41, 0xd8, 1, 0xcd, 0xab, 0xff, 0xff, 1, 2, 3, 4, 5, 6, 7, 8];
    }
    if r.chance(1, 4) && !v.is_empty() {
        v[0] |= 0x08; // security enabled: an auxiliary header follows the addressing fields
        let n = r.below(16) as usize;
        v.extend(r.bytes(n));
    }
    let n = r.below(24) as usize;
    v.extend(r.bytes(n));
    v
}
fn b_sixfrag(r: &mut Rng) -> Vec<u8> {
    let first = r.chance(1, 2);
    let mut v = vec![if first { 0xc0 } else { 0xe0 } | (gen_u8(r) & 7), gen_u8(r), gen_u8(r), gen_u8(r)];
    if !first {
        v.push(gen_u8(r));
    }
    let n = r.below(16) as usize;
    v.extend(r.bytes(n));
    v
}
fn b_iphc(r: &mut Rng) -> Vec<u8> {
    let mut v = vec![0x60 | (gen_u8(r) & 0x1f), gen_u8(r)];
    let n = r.below(44) as usize;
    v.extend(r.bytes(n));
    v
}
fn b_nhcext(r: &mut Rng) -> Vec<u8> {
    let n = r.below(12) as usize;
    let mut v = vec![0xe0 | (gen_u8(r) & 0x0f), 0];
    if v[0] & 1 == 0 {
        v.insert(1, *r.pick(&[6u8, 17, 58, 43, 44, 60, 0]));
    }
    let last = v.len() - 1;
    v[last] = n as u8;
    v.extend(r.bytes(n));
    v
}
fn b_nhcudp(r: &mut Rng) -> Vec<u8> {
    let mut v = vec![0xf0 | (gen_u8(r) & 7)];
    let n = r.below(16) as usize;
    v.extend(r.bytes(n));
    v
}
fn b_rawhw(r: &mut Rng) -> Vec<u8> {
    let n = *r.pick(&[6usize, 8, 2, 0, 1, 5, 7]);
    r.bytes(n)
}
fn b_scope(r: &mut Rng) -> Vec<u8> {
    let mut a = r.bytes(16);
    if r.chance(1, 2) {
        a[0] = 0xff;
    }
    a
}
fn b_rand(r: &mut Rng) -> Vec<u8> {
    let n = r.below(48) as usize;
    r.bytes(n)
}

const TYPES: &[Ty] = &[
    Ty { name: "ethernet", probe: p_eth, base: b_eth, fields: &[(0, 6), (6, 12), (12, 14), (14, 15), (16, 18), (23, 24)] },
    Ty { name: "arp", probe: p_arp, base: b_arp, fields: &[(0, 2), (2, 4), (4, 5), (5, 6), (6, 8)] },
    Ty { name: "ipv4", probe: p_ipv4, base: b_ipv4, fields: &[(0, 1), (2, 4), (4, 6), (6, 8), (9, 10), (10, 12), (20, 21), (22, 24), (24, 26), (32, 33)] },
    Ty { name: "ipv6", probe: p_ipv6, base: b_ipv6, fields: &[(0, 1), (4, 6), (6, 7), (40, 41), (42, 44), (44, 46), (52, 53)] },
    Ty { name: "ipv6ext", probe: p_ipv6ext, base: b_ipv6ext, fields: &[(0, 1), (1, 2)] },
    Ty { name: "ipv6frag", probe: p_ipv6frag, base: b_ipv6frag, fields: &[(0, 2), (2, 6)] },
    Ty { name: "ipv6hbh", probe: p_ipv6hbh, base: b_ipv6hbh, fields: &[(0, 1), (1, 2), (2, 3), (3, 4)] },
    Ty { name: "ipv6option", probe: p_ipv6opt, base: b_ipv6hbh, fields: &[(0, 1), (1, 2)] },
    Ty { name: "ipv6routing", probe: p_ipv6routing, base: b_ipv6routing, fields: &[(0, 1), (1, 2), (2, 3), (3, 4)] },
    Ty { name: "icmpv4", probe: p_icmpv4, base: b_icmpv4, fields: &[(0, 1), (1, 2), (2, 4), (4, 8), (8, 9), (10, 12)] },
    Ty { name: "icmpv6", probe: p_icmpv6, base: b_icmpv6, fields: &[(0, 1), (1, 2), (2, 4), (4, 8), (6, 8), (8, 9), (9, 10), (24, 25), (25, 26), (26, 28), (28, 30)] },
    Ty { name: "mld-record", probe: p_mldrecord, base: b_mldrecord, fields: &[(0, 1), (1, 2), (2, 4)] },
    Ty { name: "ndiscoption", probe: p_ndiscopt, base: b_ndiscopt, fields: &[(0, 1), (1, 2), (2, 3)] },
    Ty { name: "igmp", probe: p_igmp, base: b_igmp, fields: &[(0, 1), (1, 2), (2, 4), (4, 8)] },
    Ty { name: "udp", probe: p_udp, base: b_udp, fields: &[(0, 2), (2, 4), (4, 6), (6, 8)] },
    Ty { name: "tcp", probe: p_tcp, base: b_tcp, fields: &[(0, 2), (2, 4), (12, 13), (13, 14), (20, 21), (21, 22), (22, 23), (23, 24), (24, 25), (25, 26)] },
    Ty { name: "dhcpv4", probe: p_dhcp, base: b_dhcp, fields: &[(0, 1), (1, 2), (2, 3), (236, 240), (240, 241), (241, 242), (243, 244), (244, 245), (246, 247)] },
    Ty { name: "dns", probe: p_dns, base: b_dns, fields: &[(2, 4), (4, 6), (6, 8), (12, 13), (16, 17), (24, 25), (28, 29), (33, 34), (34, 35), (45, 46), (46, 47)] },
    Ty { name: "ieee802154", probe: p_154, base: b_154, fields: &[(0, 1), (1, 2), (2, 3), (3, 5)] },
    Ty { name: "sixlowpan-dispatch", probe: p_sixlowpan, base: b_rand, fields: &[(0, 1)] },
    Ty { name: "sixlowpan-frag", probe: p_sixfrag, base: b_sixfrag, fields: &[(0, 1), (0, 2), (2, 4), (4, 5)] },
    Ty { name: "sixlowpan-iphc", probe: p_iphc, base: b_iphc, fields: &[(0, 1), (1, 2), (2, 3)] },
    Ty { name: "sixlowpan-nhc-ext", probe: p_nhcext, base: b_nhcext, fields: &[(0, 1), (1, 2), (2, 3)] },
    Ty { name: "sixlowpan-udpnhc", probe: p_nhcudp, base: b_nhcudp, fields: &[(0, 1), (1, 2), (1, 3)] },
    Ty { name: "hardware-address", probe: p_rawhw, base: b_rawhw, fields: &[] },
    Ty { name: "ipv6-scope", probe: p_scope, base: b_scope, fields: &[(0, 1), (1, 2)] },
];

/// type-specific structured mutations on top of `mutations`
fn special(r: &mut Rng, name: &str, base: &[u8]) -> Vec<Vec<u8>> {
    let mut out = vec![];
    match name {
        "dns" => {
            // compression pointers: self reference, forward, mutual, to the header; odd label lengths
            for (off, hi, lo) in [(12usize, 0xc0u8, 12u8), (12, 0xc0, 13), (12, 0xc0, 0xff), (12, 0xff, 0xff), (12, 0xc0, 0), (13, 0xc0, 12), (12, 0x3f, 0), (12, 0x40, 0), (12, 0x80, 0)] {
                let mut b = base.to_vec();
                if b.len() > off + 1 {
                    b[off] = hi;
                    b[off + 1] = lo;
                    out.push(b);
                }
            }
            let mut b = base[..12.min(base.len())].to_vec();
            b.extend_from_slice(&[0xc0, 14, 0xc0, 12, 0, 1, 0, 1]);
            out.push(b);
            for _ in 0..6 {
                let mut b = base.to_vec();
                for _ in 0..3 {
                    if b.len() > 12 {
                        let i = r.range(12, b.len() as i64 - 1) as usize;
                        b[i] = *r.pick(&[0xc0u8, 0xc1, 0xff, 0x3f, 0x40, 0, 1]);
                    }
                }
                out.push(b);
            }
        }
        "dhcpv4" | "tcp" | "ipv6hbh" | "ipv6option" | "ndiscoption" | "icmpv6" | "ipv6ext" | "ipv6routing" => {
            // option / length octets: 0, 1, 2, 255, exactly to the end, one beyond
            let start = match name {
                "dhcpv4" => 240,
                "tcp" => 20,
                "icmpv6" => 8,
                _ => 0,
            };
            if base.len() > start {
                for _ in 0..24 {
                    let mut b = base.to_vec();
                    let i = r.range(start as i64, b.len() as i64 - 1) as usize;
                    let rest = (b.len() - i) as i64;
                    b[i] = *r.pick(&[0i64, 1, 2, 255, rest, rest + 1, rest - 1, rest - 2, rest / 8, rest / 8 + 1]) as u8;
                    out.push(b);
                }
            }
        }
        "ieee802154" => {
            for _ in 0..32 {
                let mut b = base.to_vec();
                if b.len() >= 2 {
                    b[0] = gen_u8(r);
                    b[1] = gen_u8(r);
                    if r.chance(1, 2) {
                        b.truncate(r.range(2, b.len() as i64) as usize);
                    }
                    out.push(b);
                }
            }
        }
        "sixlowpan-iphc" | "sixlowpan-nhc-ext" | "sixlowpan-udpnhc" | "sixlowpan-frag" => {
            for _ in 0..32 {
                let mut b = base.to_vec();
                if b.len() >= 2 {
                    b[0] = (b[0] & 0xe0) | (gen_u8(r) & 0x1f);
                    b[1] = gen_u8(r);
                    b.truncate(r.range(1, b.len() as i64) as usize);
                    out.push(b);
                }
            }
        }
        _ => {}
    }
    out
}

fn inputs(r: &mut Rng, t: &Ty, tier: &str) -> Vec<Vec<u8>> {
    let base = (t.base)(r);
    let mut v = mutations(r, &base, t.fields, tier);
    v.extend(special(r, t.name, &base));
    // dictionary inputs aimed at the rarely taken error / corner arms (wire/arms.rs)
    v.extend(arms::directed(t.name, r));
    v
}

// ---------------------------------------------------------------- driver
struct Watch {
    cur: Mutex<(String, Vec<u8>)>,
    tick: AtomicU64,
}

fn start_watchdog(w: Arc<Watch>) {
    std::thread::spawn(move || {
        let mut last = (0u64, std::time::Instant::now());
        loop {
            std::thread::sleep(std::time::Duration::from_millis(250));
            let t = w.tick.load(Ordering::Relaxed);
            if t != last.0 {
                last = (t, std::time::Instant::now());
            } else if t % 2 == 1 && last.1.elapsed().as_secs() >= 5 {
                // odd tick = inside a probe that has not finished for 5 s
                let (name, bytes) = w.cur.lock().unwrap().clone();
                // stdout is locked by the main thread for the whole run: report on stderr
                // (./check reads both)
                let so = std::io::stderr();
                let mut o = so.lock();
                writeln!(o, "FAILCASE").unwrap();
                writeln!(o, "case w-nonterm fmt=oracle kind=c07 type={}\nbytes {}\nend", name, hex(&bytes)).unwrap();
                writeln!(o, "FAIL {}-nonterminating :: a probe of {} did not return within 5 s on {}", name, name, hex(&bytes)).unwrap();
                writeln!(o, "STATS {{\"cases\":0,\"nonterminating\":1}}").unwrap();
                o.flush().unwrap();
                std::process::exit(3);
            }
        }
    });
}

fn run_one(t: &Ty, b: &[u8], w: &Watch) -> P {
    {
        let mut c = w.cur.lock().unwrap();
        c.0 = t.name.to_string();
        c.1 = b.to_vec();
    }
    w.tick.fetch_add(1, Ordering::Relaxed);
    let mut p = P::new();
    (t.probe)(b, &mut p);
    w.tick.fetch_add(1, Ordering::Relaxed);
    p
}

pub fn run(seed: u64, n: usize, tier: &str, out: &mut dyn Write) {
    let w = Arc::new(Watch { cur: Mutex::new((String::new(), vec![])), tick: AtomicU64::new(0) });
    start_watchdog(w.clone());
    let mut rng = Rng::new(seed ^ 0xC07);
    let mut per_class: BTreeMap<String, u64> = BTreeMap::new();
    let mut per_type: BTreeMap<String, u64> = BTreeMap::new();
    let mut fail_lines: Vec<String> = vec![];
    let (mut inputs_n, mut calls, mut chk_ok, mut parse_ok, mut panics) = (0u64, 0u64, 0u64, 0u64, 0u64);
    let mut buf: Vec<u8> = vec![];
    let mut hits: arms::Hits = arms::ARMS.iter().map(|a| (a.0, 0u64)).collect();
    for i in 0..n {
        let t = &TYPES[i % TYPES.len()];
        *per_type.entry(t.name.into()).or_default() += 1;
        for b in inputs(&mut rng, t, tier) {
            inputs_n += 1;
            arms::observe(t.name, &b, &mut hits);
            let p = run_one(t, &b, &w);
            calls += p.calls;
            chk_ok += p.checked_ok as u64;
            parse_ok += p.parse_ok as u64;
            for (kind, what) in &p.panics {
                panics += 1;
                let class = format!("{}-{}", t.name, kind);
                let k = per_class.entry(class.clone()).or_default();
                *k += 1;
                if *k > 3 || fail_lines.len() >= 60 {
                    continue;
                }
                writeln!(buf, "FAILCASE").unwrap();
                Case { id: format!("o{}-{}", seed, i), cfg: vec![("fmt".into(), "oracle".into()), ("kind".into(), "c07".into()), ("type".into(), t.name.into())], ops: vec![format!("bytes {}", hex(&b))] }.write(&mut buf);
                fail_lines.push(format!("{} :: {} panicked on {} ({} octets)", class, what, hex(&b), b.len()));
            }
        }
    }
    out.write_all(&buf).unwrap();
    for l in &fail_lines {
        writeln!(out, "FAIL {}", l).unwrap();
    }
    let pt: Vec<String> = per_type.iter().map(|(k, v)| format!("{}:{}", jstr(&format!("type_{}", k)), v)).collect();
    let pc: Vec<String> = per_class.iter().map(|(k, v)| format!("{}:{}", jstr(&format!("fail_{}", k)), v)).collect();
    let mut all = vec![format!("\"cases\":{}", n), format!("\"types\":{}", TYPES.len()), format!("\"inputs\":{}", inputs_n), format!("\"calls\":{}", calls), format!("\"new_checked_ok\":{}", chk_ok), format!("\"parse_ok\":{}", parse_ok), format!("\"panics\":{}", panics)];
    all.extend(pt);
    all.extend(pc);
    // hits of the error / corner arms listed in wire/arms.rs (all inputs, generic and directed)
    all.extend(hits.iter().map(|(k, v)| format!("{}:{}", jstr(&format!("arm_{}", k)), v)));
    writeln!(out, "STATS {{{}}}", all.join(",")).unwrap();
}

/// one watchdog for the whole process (replays run thousands of cases; a thread per case would
/// exhaust the thread limit under load)
fn shared_watch() -> Arc<Watch> {
    static W: std::sync::OnceLock<Arc<Watch>> = std::sync::OnceLock::new();
    W.get_or_init(|| {
        let w = Arc::new(Watch { cur: Mutex::new((String::new(), vec![])), tick: AtomicU64::new(0) });
        start_watchdog(w.clone());
        w
    })
    .clone()
}

fn case_fails(c: &Case) -> Vec<(String, String)> {
    let w = shared_watch();
    let ty = c.get("type").unwrap_or("?");
    let mut out = vec![];
    if let Some(t) = TYPES.iter().find(|t| t.name == ty) {
        for op in &c.ops {
            let tk: Vec<&str> = op.split_whitespace().collect();
            if tk.len() >= 2 && tk[0] == "bytes" {
                let b = unhex(tk[1]);
                let p = run_one(t, &b, &w);
                for (kind, what) in p.panics {
                    out.push((format!("{}-{}", t.name, kind), format!("{} panicked on {}", what, hex(&b))));
                }
            }
        }
    } else {
        out.push(("unknown-type".into(), ty.to_string()));
    }
    out
}

pub fn replay(c: &Case, out: &mut dyn Write) {
    for (class, d) in case_fails(c) {
        writeln!(out, "FAIL {} :: {}", class, d).unwrap();
    }
}

/// stream `wire-oracle`: one line per op, `ok` / `FAIL <classes>`
pub fn run_case(c: &Case, out: &mut dyn Write) {
    for op in &c.ops {
        let one = Case { id: c.id.clone(), cfg: c.cfg.clone(), ops: vec![op.clone()] };
        let fl = case_fails(&one);
        if fl.is_empty() {
            writeln!(out, "ok").unwrap();
        } else {
            let mut cl: Vec<String> = fl.into_iter().map(|x| x.0).collect();
            cl.sort();
            cl.dedup();
            writeln!(out, "FAIL {}", cl.join(" ")).unwrap();
        }
    }
}

/// cases of stream `wire-oracle` (kind c07): generated inputs as replayable `bytes` ops
pub fn gen_cases(seed: u64, n: usize, tier: &str, out: &mut dyn Write) {
    let mut rng = Rng::new(seed ^ 0xC07);
    for i in 0..n {
        let t = &TYPES[i % TYPES.len()];
        let ins = inputs(&mut rng, t, tier);
        let step = (ins.len() / 12).max(1);
        let ops: Vec<String> = ins.iter().step_by(step).map(|b| format!("bytes {}", hex(b))).collect();
        Case { id: format!("g{}-{}", seed, i), cfg: vec![("fmt".into(), "oracle".into()), ("kind".into(), "c07".into()), ("type".into(), t.name.into())], ops }.write(out);
    }
}
