//! placeholder (being written)
use std::io::Write;
use svh::*;
pub fn run(_seed: u64, _n: usize, _tier: &str, out: &mut dyn Write) {
    writeln!(out, "STATS {{\"cases\":0}}").unwrap();
}
pub fn replay(_c: &Case, _out: &mut dyn Write) {}
pub fn gen_cases(_seed: u64, _n: usize, _tier: &str, _out: &mut dyn Write) {}
pub fn run_case(c: &Case, out: &mut dyn Write) {
    for _ in &c.ops {
        writeln!(out, "ok").unwrap();
    }
}
