//! UDP: streams wire-udp-emit / wire-udp-parse.
//! Context fields of every op: src/dst = IP addresses of the pseudo header (4 or 16 octets),
//! v4 = both are IPv4, tx/rx = ChecksumCapabilities.udp.tx()/rx().
use super::common::*;
use smoltcp::wire::*;
use svh::*;

pub fn ipaddr(b: &[u8]) -> IpAddress {
    if b.len() == 4 {
        IpAddress::v4(b[0], b[1], b[2], b[3])
    } else {
        let mut a = [0u8; 16];
        a.copy_from_slice(b);
        IpAddress::Ipv6(Ipv6Address::from(a))
    }
}

pub fn gen_addrs(r: &mut Rng) -> (Vec<u8>, Vec<u8>) {
    if r.chance(1, 2) {
        (gen_ipv4(r).to_vec(), gen_ipv4(r).to_vec())
    } else {
        (gen_ipv6(r).to_vec(), gen_ipv6(r).to_vec())
    }
}

fn show_repr(r: &UdpRepr) -> String {
    format!("Ok sp={} dp={}", r.src_port, r.dst_port)
}

fn gen_dport(r: &mut Rng) -> u16 {
    loop {
        let p = gen_u16(r);
        if p != 0 {
            return p;
        }
    }
}

fn ctx(src: &[u8], dst: &[u8], tx: bool, rx: bool) -> String {
    format!("src={} dst={} v4={} tx={} rx={}", hex(src), hex(dst), (src.len() == 4) as u8, tx as u8, rx as u8)
}

fn gen_emit(r: &mut Rng, tier: &str) -> Vec<String> {
    let (sp, dp) = (gen_u16(r), gen_dport(r));
    let (src, dst) = gen_addrs(r);
    let plen = gen_payload_len(r, tier, 65535 - 8);
    let payload = gen_payload(r, plen);
    let (tx, rx) = (r.chance(3, 4), r.chance(3, 4));
    gen_buffers(r, 8 + plen)
        .iter()
        .map(|b| format!("emit buf={} sp={} dp={} payload={} {}", hex(b), sp, dp, hex(&payload), ctx(&src, &dst, tx, rx)))
        .collect()
}

fn gen_parse(r: &mut Rng, tier: &str) -> Vec<String> {
    let repr = UdpRepr { src_port: gen_u16(r), dst_port: gen_dport(r) };
    let (src, dst) = gen_addrs(r);
    let plen = gen_payload_len(r, tier, 1500).min(if r.chance(3, 4) { 48 } else { 1500 });
    let payload = gen_payload(r, plen);
    let mut base = vec![0u8; 8 + plen];
    let tx = r.chance(4, 5);
    repr.emit(&mut UdpPacket::new_unchecked(&mut base[..]), &ipaddr(&src), &ipaddr(&dst), plen, |b| b.copy_from_slice(&payload), &caps(tx, true));
    let rx = r.chance(1, 2);
    mutations(r, &base, &[(0, 2), (2, 4), (4, 6), (6, 8)], tier)
        .iter()
        .map(|b| format!("parse bytes={} {}", hex(b), ctx(&src, &dst, tx, rx)))
        .collect()
}

fn run_op(op: &str) -> String {
    let kv = Kv::parse(op);
    let (src, dst) = (ipaddr(&kv.b("src")), ipaddr(&kv.b("dst")));
    let cc = caps(kv.flag("tx"), kv.flag("rx"));
    let parse = |b: &[u8]| {
        acc(|| UdpRepr::parse(&UdpPacket::new_unchecked(b), &src, &dst, &cc), |x| match x {
            Ok(r) => show_repr(&r),
            Err(_) => "Err".into(),
        })
    };
    if op.starts_with("emit") {
        let repr = UdpRepr { src_port: kv.u("sp") as u16, dst_port: kv.u("dp") as u16 };
        let payload = kv.b("payload");
        let mut buf = kv.b("buf");
        match guard(|| repr.emit(&mut UdpPacket::new_unchecked(&mut buf[..]), &src, &dst, payload.len(), |b| b.copy_from_slice(&payload), &cc)) {
            None => "ret PANIC | -".to_string(),
            Some(()) => format!(
                "ret {} | {} payload={}",
                show_bytes(&buf),
                parse(&buf),
                acc(|| UdpPacket::new_unchecked(&buf[..]).payload().to_vec(), |p| show_bytes(&p))
            ),
        }
    } else {
        let bytes = kv.b("bytes");
        let chk = acc(|| UdpPacket::new_checked(&bytes[..]).is_ok(), |ok| if ok { "ok".into() } else { "err".into() });
        let mut s = format!("chk {}", chk);
        if chk == "ok" {
            let p = UdpPacket::new_unchecked(&bytes[..]);
            s += &format!(
                " acc sp={} dp={} len={} ck={} payload={} vck={}",
                acc(|| p.src_port(), |t| t.to_string()),
                acc(|| p.dst_port(), |t| t.to_string()),
                acc(|| p.len(), |t| t.to_string()),
                acc(|| p.checksum(), |t| t.to_string()),
                acc(|| p.payload().to_vec(), |a| show_bytes(&a)),
                acc(|| p.verify_checksum(&src, &dst), |t| (t as u8).to_string()),
            );
        }
        format!("{} parse {}", s, parse(&bytes))
    }
}

pub const FORMAT: Format = Format { name: "udp", gen_emit, gen_parse, run_op };
