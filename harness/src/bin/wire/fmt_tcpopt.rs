//! TcpOption as a stand-alone wire type: streams wire-tcpopt-emit / wire-tcpopt-parse (property C06/C07).
//!   emit buf=<hex> o=<spec>   TcpOption::emit into exactly that buffer
//!         -> `ret <bytes|PANIC> rest=<n> | <TcpOption::parse of the result>`
//!   parse bytes=<hex>         TcpOption::parse  -> `parse Ok rest=<n> o=<spec> | Err | PANIC`
//! spec: end | nop | mss:<u16> | ws:<u8> | sackp | sack:<r>,<r>,<r> (r = `-` | <l>:<r>) | ts:<a>:<b> | unk:<kind>:<hex|->
use super::common::*;
use smoltcp::wire::*;
use svh::*;

fn show_opt(o: &TcpOption) -> String {
    match o {
        TcpOption::EndOfList => "end".into(),
        TcpOption::NoOperation => "nop".into(),
        TcpOption::MaxSegmentSize(v) => format!("mss:{}", v),
        TcpOption::WindowScale(v) => format!("ws:{}", v),
        TcpOption::SackPermitted => "sackp".into(),
        TcpOption::SackRange(rs) => format!(
            "sack:{}",
            rs.iter().map(|r| r.map(|(a, b)| format!("{}:{}", a, b)).unwrap_or("-".into())).collect::<Vec<_>>().join(",")
        ),
        TcpOption::TimeStamp { tsval, tsecr } => format!("ts:{}:{}", tsval, tsecr),
        TcpOption::Unknown { kind, data } => format!("unk:{}:{}", kind, if data.is_empty() { "-".to_string() } else { hex(data) }),
    }
}

fn with_opt<T>(spec: &str, f: impl FnOnce(&TcpOption) -> T) -> T {
    let p: Vec<&str> = spec.split(':').collect();
    let data;
    let o = match p[0] {
        "end" => TcpOption::EndOfList,
        "nop" => TcpOption::NoOperation,
        "mss" => TcpOption::MaxSegmentSize(p[1].parse().unwrap()),
        "ws" => TcpOption::WindowScale(p[1].parse().unwrap()),
        "sackp" => TcpOption::SackPermitted,
        "sack" => {
            let rest = &spec[5..];
            let mut rs = [None; 3];
            for (i, r) in rest.split(',').enumerate() {
                if r != "-" {
                    let (a, b) = r.split_once(':').unwrap();
                    rs[i] = Some((a.parse().unwrap(), b.parse().unwrap()));
                }
            }
            TcpOption::SackRange(rs)
        }
        "ts" => TcpOption::TimeStamp { tsval: p[1].parse().unwrap(), tsecr: p[2].parse().unwrap() },
        "unk" => {
            data = if p[2] == "-" { vec![] } else { unhex(p[2]) };
            TcpOption::Unknown { kind: p[1].parse().unwrap(), data: &data }
        }
        x => panic!("bad option spec {}", x),
    };
    f(&o)
}

fn gen_spec(r: &mut Rng) -> String {
    let range = |r: &mut Rng| if r.chance(2, 3) { format!("{}:{}", gen_u32(r), gen_u32(r)) } else { "-".to_string() };
    match r.below(10) {
        0 => "end".into(),
        1 => "nop".into(),
        2 => format!("mss:{}", gen_u16(r)),
        3 => format!("ws:{}", gen_u8(r)),
        4 => "sackp".into(),
        5 | 6 => format!("sack:{},{},{}", range(r), range(r), range(r)),
        7 => format!("ts:{}:{}", gen_u32(r), gen_u32(r)),
        _ => {
            // any kind, also the known ones (with a data length their decoders do or do not accept)
            let kind = if r.chance(1, 2) { *r.pick(&[0u8, 1, 2, 3, 4, 5, 8, 6, 7, 9, 30, 253, 254, 255]) } else { gen_u8(r) };
            let n = match r.below(5) {
                0 => 0,
                1 => *r.pick(&[1usize, 2, 8, 16, 24, 38]),
                2 => *r.pick(&[253usize, 254, 255, 300]),
                _ => r.below(12) as usize,
            };
            let d = r.bytes(n);
            format!("unk:{}:{}", kind, if d.is_empty() { "-".to_string() } else { hex(&d) })
        }
    }
}

fn gen_emit(r: &mut Rng, _tier: &str) -> Vec<String> {
    let spec = gen_spec(r);
    let len = with_opt(&spec, |o| o.buffer_len());
    // exactly the declared length; sometimes one octet more (a rest) or one less (emit must not be called so: both sides panic)
    let len = match r.below(8) {
        0 => len + 1,
        1 => len + 3,
        2 => len.saturating_sub(1),
        _ => len,
    };
    gen_buffers(r, len).iter().map(|b| format!("emit buf={} o={}", if b.is_empty() { "-".to_string() } else { hex(b) }, spec)).collect()
}

fn gen_parse(r: &mut Rng, tier: &str) -> Vec<String> {
    let spec = gen_spec(r);
    let len = with_opt(&spec, |o| o.buffer_len());
    let mut base = vec![0u8; len + if r.chance(1, 3) { r.below(4) as usize } else { 0 }];
    let ok = guard(|| {
        with_opt(&spec, |o| {
            o.emit(&mut base[..]);
        })
    })
    .is_some();
    if !ok {
        base = r.bytes(len.max(2));
    }
    mutations(r, &base, &[(0, 1), (1, 2), (2, 4), (2, 6), (6, 10)], tier).iter().filter(|b| !b.is_empty()).map(|b| format!("parse bytes={}", hex(b))).collect()
}

fn show_parse(b: &[u8]) -> String {
    acc(|| TcpOption::parse(b).map(|(rest, o)| (rest.len(), show_opt(&o))), |x| match x {
        Ok((n, s)) => format!("Ok rest={} o={}", n, s),
        Err(_) => "Err".into(),
    })
}

fn run_op(op: &str) -> String {
    let kv = Kv::parse(op);
    if op.starts_with("emit") {
        let mut buf = if kv.s("buf") == "-" { vec![] } else { kv.b("buf") };
        let spec = kv.s("o").to_string();
        match guard(|| with_opt(&spec, |o| o.emit(&mut buf[..]).len())) {
            None => "ret PANIC | -".to_string(),
            Some(rest) => format!("ret {} rest={} | {}", show_bytes(&buf), rest, show_parse(&buf)),
        }
    } else {
        format!("parse {}", show_parse(&kv.b("bytes")))
    }
}

pub const FORMAT: Format = Format { name: "tcpopt", gen_emit, gen_parse, run_op };
