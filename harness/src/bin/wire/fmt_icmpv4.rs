//! ICMPv4 (echo request/reply, destination unreachable, time exceeded): streams wire-icmpv4-emit / -parse.
//! Repr fields: kind (0 echo request, 1 echo reply, 2 dst unreachable, 3 time exceeded), ident, seq,
//! reason, embedded header hsrc/hdst/hproto/hplen/hhop, data; tx/rx = caps.icmpv4, tx4 = caps.ipv4.tx().
use super::common::*;
use smoltcp::phy::{Checksum, ChecksumCapabilities};
use smoltcp::wire::*;
use svh::*;

fn a4(b: &[u8]) -> Ipv4Address {
    Ipv4Address::new(b[0], b[1], b[2], b[3])
}

pub fn caps4(tx: bool, rx: bool, tx4: bool) -> ChecksumCapabilities {
    let mut c = caps(tx, rx);
    c.ipv4 = if tx4 { Checksum::Both } else { Checksum::None };
    c
}

fn hdr_fields(h: &Ipv4Repr) -> String {
    format!("hsrc={} hdst={} hproto={} hplen={} hhop={}", hex(&h.src_addr.octets()), hex(&h.dst_addr.octets()), u8::from(h.next_header), h.payload_len, h.hop_limit)
}

fn show_repr(r: &Icmpv4Repr) -> String {
    match r {
        Icmpv4Repr::EchoRequest { ident, seq_no, data } => format!("Ok kind=0 ident={} seq={} data={}", ident, seq_no, show_bytes(data)),
        Icmpv4Repr::EchoReply { ident, seq_no, data } => format!("Ok kind=1 ident={} seq={} data={}", ident, seq_no, show_bytes(data)),
        Icmpv4Repr::DstUnreachable { reason, header, data } => format!("Ok kind=2 reason={} {} data={}", u8::from(*reason), hdr_fields(header), show_bytes(data)),
        Icmpv4Repr::TimeExceeded { reason, header, data } => format!("Ok kind=3 reason={} {} data={}", u8::from(*reason), hdr_fields(header), show_bytes(data)),
        _ => "Ok ?".into(),
    }
}

/// k=v fields of a generated well-formed repr
fn gen_fields(r: &mut Rng, tier: &str, small: bool) -> String {
    let kind = r.below(4);
    if kind < 2 {
        let n = if small { gen_payload_len(r, tier, 1472).min(48) } else { gen_payload_len(r, tier, 9000) };
        format!("kind={} ident={} seq={} data={}", kind, gen_u16(r), gen_u16(r), hex(&gen_payload(r, n)))
    } else {
        let reason = if kind == 2 { draw_raw::<Icmpv4DstUnreachable>(r) } else { draw_raw::<Icmpv4TimeExceeded>(r) } as u8;
        let n = if r.chance(1, 3) { r.range(8, if small { 48 } else { 528 }) as usize } else { *r.pick(&[8usize, 9, 16, 28]) };
        let n = if !small && r.chance(1, 6) { *r.pick(&[527usize, 528, 548, 1472]) } else { n };
        format!(
            "kind={} reason={} hsrc={} hdst={} hproto={} hplen={} hhop={} data={}",
            kind,
            reason,
            hex(&gen_ipv4(r)),
            hex(&gen_ipv4(r)),
            draw_raw::<IpProtocol>(r) as u8,
            n,
            gen_u8(r),
            hex(&gen_payload(r, n))
        )
    }
}

fn with_repr<T>(kv: &Kv, f: impl FnOnce(Icmpv4Repr) -> T) -> T {
    let data = kv.b("data");
    let hdr = |kv: &Kv| Ipv4Repr { src_addr: a4(&kv.b("hsrc")), dst_addr: a4(&kv.b("hdst")), next_header: of_raw::<IpProtocol>((kv.u("hproto") as u8) as u32), payload_len: kv.u("hplen") as usize, hop_limit: kv.u("hhop") as u8 };
    let repr = match kv.u("kind") {
        0 => Icmpv4Repr::EchoRequest { ident: kv.u("ident") as u16, seq_no: kv.u("seq") as u16, data: &data },
        1 => Icmpv4Repr::EchoReply { ident: kv.u("ident") as u16, seq_no: kv.u("seq") as u16, data: &data },
        2 => Icmpv4Repr::DstUnreachable { reason: of_raw::<Icmpv4DstUnreachable>((kv.u("reason") as u8) as u32), header: hdr(kv), data: &data },
        _ => Icmpv4Repr::TimeExceeded { reason: of_raw::<Icmpv4TimeExceeded>((kv.u("reason") as u8) as u32), header: hdr(kv), data: &data },
    };
    f(repr)
}

fn gen_emit(r: &mut Rng, tier: &str) -> Vec<String> {
    let fields = gen_fields(r, tier, false);
    let kv = Kv::parse(&fields);
    let len = with_repr(&kv, |x| x.buffer_len());
    let (tx, rx, tx4) = (r.chance(3, 4), r.chance(3, 4), r.chance(1, 2));
    gen_buffers(r, len).iter().map(|b| format!("emit buf={} {} tx={} rx={} tx4={}", hex(b), fields, tx as u8, rx as u8, tx4 as u8)).collect()
}

fn gen_parse(r: &mut Rng, tier: &str) -> Vec<String> {
    let fields = gen_fields(r, tier, true);
    let kv = Kv::parse(&fields);
    let len = with_repr(&kv, |x| x.buffer_len());
    let mut base = vec![0u8; len];
    with_repr(&kv, |x| x.emit(&mut Icmpv4Packet::new_unchecked(&mut base[..]), &caps4(true, true, true)));
    let rx = r.chance(1, 2);
    let mut fl = vec![(0, 1), (1, 2), (2, 4), (4, 6), (6, 8)];
    if kv.u("kind") >= 2 {
        fl.extend_from_slice(&[(8, 9), (9, 10), (10, 12), (12, 14), (14, 16), (16, 17), (17, 18), (18, 20), (20, 24), (24, 28)]);
    }
    mutations(r, &base, &fl, tier).iter().map(|b| format!("parse bytes={} rx={}", hex(b), rx as u8)).collect()
}

fn run_op(op: &str) -> String {
    let kv = Kv::parse(op);
    let cc = caps4(kv.flag("tx"), kv.flag("rx"), kv.flag("tx4"));
    let parse = |b: &[u8]| {
        acc(|| Icmpv4Repr::parse(&Icmpv4Packet::new_unchecked(b), &cc).map(|r| show_repr(&r)), |x| match x {
            Ok(s) => s,
            Err(_) => "Err".into(),
        })
    };
    if op.starts_with("emit") {
        let mut buf = kv.b("buf");
        match guard(|| with_repr(&kv, |x| x.emit(&mut Icmpv4Packet::new_unchecked(&mut buf[..]), &cc))) {
            None => "ret PANIC | -".to_string(),
            Some(()) => format!("ret {} | {}", show_bytes(&buf), parse(&buf)),
        }
    } else {
        let bytes = kv.b("bytes");
        let chk = acc(|| Icmpv4Packet::new_checked(&bytes[..]).is_ok(), |ok| if ok { "ok".into() } else { "err".into() });
        let mut s = format!("chk {}", chk);
        if chk == "ok" {
            let p = Icmpv4Packet::new_unchecked(&bytes[..]);
            s += &format!(
                " acc type={} code={} ck={} ident={} seq={} hlen={} data={} vck={}",
                acc(|| p.msg_type(), |t| u8::from(t).to_string()),
                acc(|| p.msg_code(), |t| t.to_string()),
                acc(|| p.checksum(), |t| t.to_string()),
                acc(|| p.echo_ident(), |t| t.to_string()),
                acc(|| p.echo_seq_no(), |t| t.to_string()),
                acc(|| p.header_len(), |t| t.to_string()),
                acc(|| p.data().to_vec(), |a| show_bytes(&a)),
                acc(|| p.verify_checksum(), |t| (t as u8).to_string()),
            );
        }
        format!("{} parse {}", s, parse(&bytes))
    }
}

pub const FORMAT: Format = Format { name: "icmpv4", gen_emit, gen_parse, run_op };
