//! Per-type generators / emit / parse adapters of the C06 oracle (see oracle_c06.rs).
#![allow(dead_code)]
use super::super::super::common::*;
use super::{check, RunFn, WireType};
use smoltcp::wire::*;
use svh::*;

#[path = "oracle_c06_types2.rs"]
mod types2;

pub fn all() -> Vec<(&'static str, RunFn)> {
    let mut v = all1();
    v.extend(types2::all());
    v
}

fn all1() -> Vec<(&'static str, RunFn)> {
    vec![
        ("sixlowpan-udpnhc", check::<UdpNhc>),
        ("sixlowpan-iphc", check::<Iphc>),
        ("sixlowpan-iphc-tf", check::<IphcTf>),
        ("dns", check::<Dns>),
        ("icmpv4", check::<Icmp4>),
        ("icmpv6", check::<Icmp6>),
        ("wire-enums", check_enums),
    ]
}

/// Table obligation over every numeric enum of smoltcp::wire (frozen tables in common.rs): distinct
/// named variants emit distinct, assigned numbers and parse back to themselves; unassigned numbers
/// survive as Unknown(x).  Plus the enums that are not `enum_with_unknown!` types: the IGMP message
/// numbers (through IgmpRepr::emit), Ipv6OptionFailureType (two bits) and the 6LoWPAN NHC extension
/// header ids (through the packet accessor and `IpProtocol::from`).  Pure: evaluated once per process.
fn check_enums(_r: &mut Rng, _tier: &str, _e: Option<&Kv>, stats: &mut std::collections::BTreeMap<String, u64>) -> (Vec<super::Fail>, Option<String>) {
    static RES: std::sync::OnceLock<(u64, Vec<(String, String)>)> = std::sync::OnceLock::new();
    let (n, fl) = RES.get_or_init(|| {
        let mut f: Vec<(String, String)> = vec![];
        let mut n = 0u64;
        for c in all_enum_checks() {
            n += 1;
            f.extend(guard(c).unwrap_or_else(|| vec![("enum-table-panic".into(), "a conversion panicked".into())]));
        }
        // IGMP message numbers
        n += 1;
        let g = Ipv4Address::new(224, 0, 0, 5);
        let z = smoltcp::time::Duration::from_millis(0);
        for (want, name, repr) in [
            (0x11u8, "MembershipQuery", IgmpRepr::MembershipQuery { max_resp_time: z, group_addr: g, version: IgmpVersion::Version1 }),
            (0x12, "MembershipReport V1", IgmpRepr::MembershipReport { group_addr: g, version: IgmpVersion::Version1 }),
            (0x16, "MembershipReport V2", IgmpRepr::MembershipReport { group_addr: g, version: IgmpVersion::Version2 }),
            (0x17, "LeaveGroup", IgmpRepr::LeaveGroup { group_addr: g }),
        ] {
            let mut b = vec![0u8; repr.buffer_len()];
            if guard(|| repr.emit(&mut IgmpPacket::new_unchecked(&mut b[..]))).is_none() || b[0] != want {
                f.push(("enum-igmpmessage-emit-number".into(), format!("IgmpRepr {} emits type 0x{:02x}, assigned 0x{:02x}", name, b[0], want)));
            }
            match guard(|| IgmpPacket::new_checked(&b[..]).and_then(|p| IgmpRepr::parse(&p))) {
                Some(Ok(back)) if back == repr => {}
                other => f.push(("enum-igmpmessage-roundtrip".into(), format!("IgmpRepr {} emits {} which parses as {:?}", name, hex(&b), other))),
            }
        }
        // Ipv6OptionFailureType: the two high bits of the option type
        n += 1;
        for (want, var) in [(0x00u8, Ipv6OptionFailureType::Skip), (0x40, Ipv6OptionFailureType::Discard), (0x80, Ipv6OptionFailureType::DiscardSendAll), (0xc0, Ipv6OptionFailureType::DiscardSendUnicast)] {
            if u8::from(var) != want || Ipv6OptionFailureType::from(want) != var {
                f.push(("enum-ipv6optionfailuretype-number".into(), format!("{:?} emits 0x{:02x}, 0x{:02x} parses as {:?}", var, u8::from(var), want, Ipv6OptionFailureType::from(want))));
            }
        }
        for x in 0..=255u8 {
            if guard(|| u8::from(Ipv6OptionFailureType::from(x))) != Some(x & 0xc0) {
                f.push(("enum-ipv6optionfailuretype-number".into(), format!("0x{:02x} does not map to its two high bits", x)));
                break;
            }
        }
        // 6LoWPAN NHC extension header ids
        n += 1;
        let want: [(SixlowpanExtHeaderId, IpProtocol); 8] = [
            (SixlowpanExtHeaderId::HopByHopHeader, IpProtocol::HopByHop),
            (SixlowpanExtHeaderId::RoutingHeader, IpProtocol::Ipv6Route),
            (SixlowpanExtHeaderId::FragmentHeader, IpProtocol::Ipv6Frag),
            (SixlowpanExtHeaderId::DestinationOptionsHeader, IpProtocol::Ipv6Opts),
            (SixlowpanExtHeaderId::MobilityHeader, IpProtocol::Unknown(0)),
            (SixlowpanExtHeaderId::Reserved, IpProtocol::Unknown(0)),
            (SixlowpanExtHeaderId::Reserved, IpProtocol::Unknown(0)),
            (SixlowpanExtHeaderId::Header, IpProtocol::Unknown(0)),
        ];
        for eid in 0..8u8 {
            let b = [0xe0 | (eid << 1) | 1, 0];
            let got = guard(|| SixlowpanExtHeaderPacket::new_unchecked(&b[..]).extension_header_id());
            if got != Some(want[eid as usize].0) || got.map(IpProtocol::from) != Some(want[eid as usize].1) {
                f.push(("enum-sixlowpanextheaderid-number".into(), format!("EID {} reads as {:?} -> {:?}, expected {:?} -> {:?}", eid, got, got.map(IpProtocol::from), want[eid as usize].0, want[eid as usize].1)));
            }
        }
        (n, f)
    });
    *stats.entry("enum_tables".into()).or_default() = *n;
    (fl.iter().map(|(c, d)| super::Fail { class: c.clone(), detail: d.clone() }).collect(), None)
}

fn v6(a: &[u8; 16]) -> Ipv6Address {
    Ipv6Address::from(*a)
}
fn v4(a: &[u8; 4]) -> Ipv4Address {
    Ipv4Address::new(a[0], a[1], a[2], a[3])
}
fn arr16(b: &[u8]) -> [u8; 16] {
    let mut a = [0u8; 16];
    a.copy_from_slice(b);
    a
}
fn arr4(b: &[u8]) -> [u8; 4] {
    let mut a = [0u8; 4];
    a.copy_from_slice(b);
    a
}
fn ll_enc(a: &Option<Ieee802154Address>) -> String {
    match a {
        None => "none".into(),
        Some(x) => hex(x.as_bytes()),
    }
}
fn ll_dec(s: &str) -> Option<Ieee802154Address> {
    if s == "none" {
        None
    } else {
        Some(Ieee802154Address::from_bytes(&unhex(s)))
    }
}

// ---------------------------------------------------------------- 6LoWPAN NHC UDP
#[derive(Debug, PartialEq, Clone)]
pub struct UdpNhcR {
    src_port: u16,
    dst_port: u16,
    payload: Vec<u8>,
    // context
    src: [u8; 16],
    dst: [u8; 16],
    cksum: bool,
}
pub struct UdpNhc;
fn nhc_port(r: &mut Rng) -> u16 {
    match r.below(8) {
        0 => 0xf0b0 + r.below(16) as u16,
        1 => 0xf000 + r.below(256) as u16,
        2 => *r.pick(&[0xf0b0u16, 0xf0bf, 0xf000, 0xf0ff, 0xf0af, 0xf0c0, 0xefff, 0xf100]),
        _ => gen_u16(r),
    }
}
impl WireType for UdpNhc {
    type R = UdpNhcR;
    const NAME: &'static str = "sixlowpan-udpnhc";
    fn gen(r: &mut Rng, tier: &str) -> UdpNhcR {
        let n = gen_payload_len(r, tier, 1200).min(if r.chance(3, 4) { 40 } else { 1200 });
        UdpNhcR { src_port: nhc_port(r), dst_port: nhc_port(r), payload: gen_payload(r, n), src: gen_ipv6(r), dst: gen_ipv6(r), cksum: r.chance(7, 8) }
    }
    fn buffer_len(x: &UdpNhcR) -> usize {
        SixlowpanUdpNhcRepr(UdpRepr { src_port: x.src_port, dst_port: x.dst_port }).header_len() + x.payload.len()
    }
    fn emit(x: &UdpNhcR, buf: &mut [u8]) {
        let repr = SixlowpanUdpNhcRepr(UdpRepr { src_port: x.src_port, dst_port: x.dst_port });
        let mut p = SixlowpanUdpNhcPacket::new_unchecked(buf);
        repr.emit(&mut p, &v6(&x.src), &v6(&x.dst), x.payload.len(), |b| b.copy_from_slice(&x.payload), &caps(x.cksum, x.cksum));
    }
    fn parse(buf: &[u8], c: &UdpNhcR) -> Option<UdpNhcR> {
        let p = SixlowpanUdpNhcPacket::new_checked(buf).ok()?;
        let r = SixlowpanUdpNhcRepr::parse(&p, &v6(&c.src), &v6(&c.dst), &caps(c.cksum, c.cksum)).ok()?;
        Some(UdpNhcR { src_port: r.src_port, dst_port: r.dst_port, payload: p.payload().to_vec(), src: c.src, dst: c.dst, cksum: c.cksum })
    }
    fn fields() -> Vec<(usize, usize)> {
        vec![(0, 1), (1, 3), (3, 5), (5, 7)]
    }
    fn encode(x: &UdpNhcR) -> Option<String> {
        Some(format!("sp={} dp={} payload={} src={} dst={} ck={}", x.src_port, x.dst_port, hex(&x.payload), hex(&x.src), hex(&x.dst), x.cksum as u8))
    }
    fn decode(kv: &Kv) -> Option<UdpNhcR> {
        Some(UdpNhcR { src_port: kv.u("sp") as u16, dst_port: kv.u("dp") as u16, payload: kv.b("payload"), src: arr16(&kv.b("src")), dst: arr16(&kv.b("dst")), cksum: kv.flag("ck") })
    }
}

// ---------------------------------------------------------------- 6LoWPAN IPHC
pub struct Iphc;
fn ll_addr(r: &mut Rng) -> Option<Ieee802154Address> {
    match r.below(4) {
        0 => None,
        1 => Some(Ieee802154Address::Short([r.next() as u8, r.next() as u8])),
        _ => {
            let mut a = [0u8; 8];
            for x in a.iter_mut() {
                *x = r.next() as u8
            }
            Some(Ieee802154Address::Extended(a))
        }
    }
}
/// the "almost special" dictionary of common.rs with IIDs derived from this link-layer address
fn iphc_special(r: &mut Rng, ll: Option<Ieee802154Address>, multicast: bool) -> [u8; 16] {
    let (ext, short) = match ll {
        Some(Ieee802154Address::Extended(e)) => (Some(e), None),
        Some(Ieee802154Address::Short(s)) => (None, Some(s)),
        _ => (None, None),
    };
    loop {
        let a = gen_ipv6_special(r, ext, short);
        if (a[0] == 0xff) == multicast {
            return a;
        }
    }
}
fn iphc_unicast(r: &mut Rng, ll: Option<Ieee802154Address>) -> [u8; 16] {
    if r.chance(1, 3) {
        return iphc_special(r, ll, false);
    }
    let mut a = [0u8; 16];
    match r.below(7) {
        0 => {
            // link-local derived from the link-layer address
            a[0] = 0xfe;
            a[1] = 0x80;
            match ll {
                Some(Ieee802154Address::Extended(e)) => {
                    a[8..].copy_from_slice(&e);
                    a[8] ^= 0x02;
                }
                Some(Ieee802154Address::Short(s)) => {
                    a[11] = 0xff;
                    a[12] = 0xfe;
                    a[14] = s[0];
                    a[15] = s[1];
                }
                _ => a[15] = 1,
            }
        }
        1 => {
            // link-local, 16-bit form
            a[0] = 0xfe;
            a[1] = 0x80;
            a[11] = 0xff;
            a[12] = 0xfe;
            a[14] = r.next() as u8;
            a[15] = r.next() as u8;
        }
        2 => {
            // link-local, 64-bit IID
            a[0] = 0xfe;
            a[1] = 0x80;
            for x in a[8..].iter_mut() {
                *x = r.next() as u8
            }
        }
        3 => {
            // global
            a[0] = 0x20;
            a[1] = 0x01;
            a[2] = 0x0d;
            a[3] = 0xb8;
            for x in a[4..].iter_mut() {
                *x = r.next() as u8
            }
        }
        4 => {
            a[0] = 0xfd;
            for x in a[1..].iter_mut() {
                *x = gen_u8(r)
            }
        }
        5 => a[15] = 1, // loopback
        _ => a = gen_ipv6(r),
    }
    a
}
fn iphc_multicast(r: &mut Rng) -> [u8; 16] {
    if r.chance(1, 3) {
        return iphc_special(r, None, true);
    }
    let mut a = [0u8; 16];
    a[0] = 0xff;
    match r.below(6) {
        0 => {
            a[1] = 0x02;
            a[15] = gen_u8(r);
        }
        1 => {
            a[1] = gen_u8(r);
            a[13] = gen_u8(r);
            a[14] = gen_u8(r);
            a[15] = gen_u8(r);
        }
        2 => {
            a[1] = gen_u8(r);
            for x in a[11..].iter_mut() {
                *x = gen_u8(r)
            }
        }
        3 => {
            // needs all 128 bits
            a[1] = 0x05;
            a[3] = 1;
            a[11] = 1;
            a[15] = 3;
        }
        4 => {
            a[1] = *r.pick(&[0x01u8, 0x02, 0x05, 0x0e]);
            for x in a[2..].iter_mut() {
                *x = gen_u8(r)
            }
        }
        _ => {
            for x in a[1..].iter_mut() {
                *x = r.next() as u8
            }
        }
    }
    a
}
impl WireType for Iphc {
    type R = SixlowpanIphcRepr;
    const NAME: &'static str = "sixlowpan-iphc";
    fn gen(r: &mut Rng, _tier: &str) -> SixlowpanIphcRepr {
        let (lls, lld) = (ll_addr(r), ll_addr(r));
        let src = if r.chance(1, 8) { [0u8; 16] } else { iphc_unicast(r, lls) };
        let dst = if r.chance(1, 2) { iphc_multicast(r) } else { iphc_unicast(r, lld) };
        SixlowpanIphcRepr {
            src_addr: v6(&src),
            ll_src_addr: lls,
            dst_addr: v6(&dst),
            ll_dst_addr: lld,
            next_header: if r.chance(1, 3) { SixlowpanNextHeader::Compressed } else { SixlowpanNextHeader::Uncompressed(draw::<IpProtocol>(r)) },
            hop_limit: *r.pick(&[1u8, 64, 255, 0, 2, 63, 65, 254, 128]),
            ecn: None,
            dscp: None,
            flow_label: None,
        }
    }
    fn buffer_len(x: &SixlowpanIphcRepr) -> usize {
        x.buffer_len()
    }
    fn emit(x: &SixlowpanIphcRepr, buf: &mut [u8]) {
        x.emit(&mut SixlowpanIphcPacket::new_unchecked(buf))
    }
    fn parse(buf: &[u8], c: &SixlowpanIphcRepr) -> Option<SixlowpanIphcRepr> {
        let p = SixlowpanIphcPacket::new_checked(buf).ok()?;
        SixlowpanIphcRepr::parse(&p, c.ll_src_addr, c.ll_dst_addr, &[]).ok()
    }
    fn wf(x: &SixlowpanIphcRepr) -> bool {
        // emit never encodes the traffic-class / flow-label fields (documented FIXME): see known findings
        x.ecn.is_none() && x.dscp.is_none() && x.flow_label.is_none()
    }
    fn fields() -> Vec<(usize, usize)> {
        vec![(0, 1), (1, 2), (2, 3), (3, 4)]
    }
    fn encode(x: &SixlowpanIphcRepr) -> Option<String> {
        if !Self::wf(x) {
            return None;
        }
        let nh = match x.next_header {
            SixlowpanNextHeader::Compressed => "c".to_string(),
            SixlowpanNextHeader::Uncompressed(p) => u8::from(p).to_string(),
        };
        Some(format!("src={} llsrc={} dst={} lldst={} nh={} hop={}", hex(&x.src_addr.octets()), ll_enc(&x.ll_src_addr), hex(&x.dst_addr.octets()), ll_enc(&x.ll_dst_addr), nh, x.hop_limit))
    }
    fn decode(kv: &Kv) -> Option<SixlowpanIphcRepr> {
        Some(SixlowpanIphcRepr {
            src_addr: v6(&arr16(&kv.b("src"))),
            ll_src_addr: ll_dec(kv.s("llsrc")),
            dst_addr: v6(&arr16(&kv.b("dst"))),
            ll_dst_addr: ll_dec(kv.s("lldst")),
            next_header: if kv.s("nh") == "c" { SixlowpanNextHeader::Compressed } else { SixlowpanNextHeader::Uncompressed(of_raw::<IpProtocol>((kv.u("nh") as u8) as u32)) },
            hop_limit: kv.u("hop") as u8,
            ecn: None,
            dscp: None,
            flow_label: None,
        })
    }
}

/// IPHC representations that carry traffic-class / flow-label values (`ecn`, `dscp`, `flow_label` = Some):
/// `Repr::emit` always elides the TF field (the FIXME in the source), so they do not round-trip.
/// Listed in known_findings.txt (class sixlowpan-iphc-tf-roundtrip-mismatch).
pub struct IphcTf;
impl WireType for IphcTf {
    type R = SixlowpanIphcRepr;
    const NAME: &'static str = "sixlowpan-iphc-tf";
    fn gen(r: &mut Rng, tier: &str) -> SixlowpanIphcRepr {
        let mut x = Iphc::gen(r, tier);
        // the three combinations parse produces / buffer_len accepts: TF = 00, 01, 10
        x.ecn = Some(r.below(4) as u8);
        match r.below(3) {
            0 => {
                x.dscp = Some(r.below(64) as u8);
                x.flow_label = Some(gen_u16(r));
            }
            1 => x.flow_label = Some(gen_u16(r)),
            _ => x.dscp = Some(r.below(64) as u8),
        }
        x
    }
    fn buffer_len(x: &SixlowpanIphcRepr) -> usize {
        x.buffer_len()
    }
    fn emit(x: &SixlowpanIphcRepr, buf: &mut [u8]) {
        Iphc::emit(x, buf)
    }
    fn parse(buf: &[u8], c: &SixlowpanIphcRepr) -> Option<SixlowpanIphcRepr> {
        Iphc::parse(buf, c)
    }
    fn wf(_x: &SixlowpanIphcRepr) -> bool {
        false // only the direct round trip of the generated repr is of interest here
    }
}

// ---------------------------------------------------------------- DNS (query representation)
#[derive(Debug, PartialEq, Clone)]
pub struct DnsR {
    id: u16,
    opcode: u8,
    flags: u16,
    name: Vec<u8>,
    qtype: u16,
}
pub struct Dns;
fn dns_name(r: &mut Rng) -> Vec<u8> {
    let mut v = vec![];
    let labels = r.below(5);
    for _ in 0..labels {
        let l = match r.below(6) {
            0 => 1,
            1 => 63,
            _ => r.range(1, 12),
        } as usize;
        if v.len() + l + 2 > 255 {
            break;
        }
        v.push(l as u8);
        for _ in 0..l {
            v.push(b'a' + r.below(26) as u8);
        }
    }
    v.push(0);
    v
}
impl WireType for Dns {
    type R = DnsR;
    const NAME: &'static str = "dns";
    fn gen(r: &mut Rng, _tier: &str) -> DnsR {
        let all = DnsFlags::all().bits();
        DnsR {
            id: gen_u16(r),
            opcode: (draw_raw::<DnsOpcode>(r) & 0x0f) as u8, // a 4-bit field
            flags: match r.below(4) {
                0 => 0,
                1 => all,
                2 => DnsFlags::RECURSION_DESIRED.bits(),
                _ => (r.next() as u16) & all,
            },
            name: dns_name(r),
            qtype: draw_raw::<DnsQueryType>(r) as u16,
        }
    }
    fn buffer_len(x: &DnsR) -> usize {
        DnsRepr { transaction_id: x.id, opcode: of_raw::<DnsOpcode>((x.opcode) as u32), flags: DnsFlags::from_bits_truncate(x.flags), question: DnsQuestion { name: &x.name, type_: of_raw::<DnsQueryType>((x.qtype) as u32) } }
            .buffer_len()
    }
    fn emit(x: &DnsR, buf: &mut [u8]) {
        let repr = DnsRepr { transaction_id: x.id, opcode: of_raw::<DnsOpcode>((x.opcode) as u32), flags: DnsFlags::from_bits_truncate(x.flags), question: DnsQuestion { name: &x.name, type_: of_raw::<DnsQueryType>((x.qtype) as u32) } };
        repr.emit(&mut DnsPacket::new_unchecked(buf))
    }
    // there is no DnsRepr::parse: read the header back through the Packet accessors and Question::parse
    fn parse(buf: &[u8], _c: &DnsR) -> Option<DnsR> {
        let p = DnsPacket::new_checked(buf).ok()?;
        if p.question_count() != 1 || p.answer_record_count() != 0 || p.authority_record_count() != 0 || p.additional_record_count() != 0 {
            return None;
        }
        if u8::from(p.rcode()) != 0 {
            return None;
        }
        let (rest, q) = DnsQuestion::parse(p.payload()).ok()?;
        if !rest.is_empty() {
            return None;
        }
        // a compressed name cannot be re-emitted verbatim by Question::emit
        if q.name.iter().any(|b| *b & 0xc0 == 0xc0) && q.name.last() != Some(&0) {
            return None;
        }
        Some(DnsR { id: p.transaction_id(), opcode: p.opcode().into(), flags: p.flags().bits(), name: q.name.to_vec(), qtype: q.type_.into() })
    }
    fn fields() -> Vec<(usize, usize)> {
        vec![(0, 2), (2, 4), (4, 6), (6, 8), (8, 10), (10, 12)]
    }
    fn encode(x: &DnsR) -> Option<String> {
        Some(format!("id={} opcode={} flags={} name={} qtype={}", x.id, x.opcode, x.flags, hex(&x.name), x.qtype))
    }
    fn decode(kv: &Kv) -> Option<DnsR> {
        Some(DnsR { id: kv.u("id") as u16, opcode: kv.u("opcode") as u8, flags: kv.u("flags") as u16, name: kv.b("name"), qtype: kv.u("qtype") as u16 })
    }
}

// ---------------------------------------------------------------- ICMPv4
#[derive(Debug, PartialEq, Clone)]
pub struct Icmp4R {
    kind: u8, // 0 echo request, 1 echo reply, 2 dst unreachable, 3 time exceeded
    ident: u16,
    seq_no: u16,
    reason: u8,
    h_src: [u8; 4],
    h_dst: [u8; 4],
    h_proto: u8,
    h_hop: u8,
    h_payload_len: usize,
    data: Vec<u8>,
    cksum: bool,
}
pub struct Icmp4;
impl Icmp4 {
    fn with<T>(x: &Icmp4R, f: impl FnOnce(Icmpv4Repr) -> T) -> T {
        let header = Ipv4Repr { src_addr: v4(&x.h_src), dst_addr: v4(&x.h_dst), next_header: of_raw::<IpProtocol>((x.h_proto) as u32), payload_len: x.h_payload_len, hop_limit: x.h_hop };
        let repr = match x.kind {
            0 => Icmpv4Repr::EchoRequest { ident: x.ident, seq_no: x.seq_no, data: &x.data },
            1 => Icmpv4Repr::EchoReply { ident: x.ident, seq_no: x.seq_no, data: &x.data },
            2 => Icmpv4Repr::DstUnreachable { reason: of_raw::<Icmpv4DstUnreachable>((x.reason) as u32), header, data: &x.data },
            _ => Icmpv4Repr::TimeExceeded { reason: of_raw::<Icmpv4TimeExceeded>((x.reason) as u32), header, data: &x.data },
        };
        f(repr)
    }
    fn from(r: &Icmpv4Repr, cksum: bool) -> Option<Icmp4R> {
        let z = Icmp4R { kind: 0, ident: 0, seq_no: 0, reason: 0, h_src: [0; 4], h_dst: [0; 4], h_proto: 0, h_hop: 0, h_payload_len: 0, data: vec![], cksum };
        let hdr = |z: Icmp4R, kind: u8, reason: u8, h: &Ipv4Repr, data: &[u8]| Icmp4R {
            kind,
            reason,
            h_src: h.src_addr.octets(),
            h_dst: h.dst_addr.octets(),
            h_proto: h.next_header.into(),
            h_hop: h.hop_limit,
            h_payload_len: h.payload_len,
            data: data.to_vec(),
            ..z
        };
        Some(match r {
            Icmpv4Repr::EchoRequest { ident, seq_no, data } => Icmp4R { kind: 0, ident: *ident, seq_no: *seq_no, data: data.to_vec(), ..z },
            Icmpv4Repr::EchoReply { ident, seq_no, data } => Icmp4R { kind: 1, ident: *ident, seq_no: *seq_no, data: data.to_vec(), ..z },
            Icmpv4Repr::DstUnreachable { reason, header, data } => hdr(z, 2, (*reason).into(), header, data),
            Icmpv4Repr::TimeExceeded { reason, header, data } => hdr(z, 3, (*reason).into(), header, data),
            _ => return None,
        })
    }
}
impl WireType for Icmp4 {
    type R = Icmp4R;
    const NAME: &'static str = "icmpv4";
    fn gen(r: &mut Rng, tier: &str) -> Icmp4R {
        let kind = r.below(4) as u8;
        let mut x = Icmp4R { kind, ident: 0, seq_no: 0, reason: 0, h_src: [0; 4], h_dst: [0; 4], h_proto: 0, h_hop: 0, h_payload_len: 0, data: vec![], cksum: r.chance(7, 8) };
        if kind < 2 {
            x.ident = gen_u16(r);
            x.seq_no = gen_u16(r);
            let n = gen_payload_len(r, tier, 1472);
            x.data = gen_payload(r, n);
        } else {
            x.reason = if kind == 2 { draw_raw::<Icmpv4DstUnreachable>(r) } else { draw_raw::<Icmpv4TimeExceeded>(r) } as u8;
            x.h_src = gen_ipv4(r);
            x.h_dst = gen_ipv4(r);
            x.h_proto = draw_raw::<IpProtocol>(r) as u8;
            x.h_hop = gen_u8(r);
            // the documented cut: an ICMPv4 error carries the offending IP header + at least 8 octets,
            // at most what fits IPV4_MIN_MTU (576 - 20 - 8 - 20 = 528); header.payload_len = data.len()
            let n = *r.pick(&[8usize, 9, 16, 64, 527, 528]);
            let n = if r.chance(1, 3) { r.range(8, 528) as usize } else { n };
            x.data = gen_payload(r, n);
            x.h_payload_len = n;
        }
        x
    }
    fn buffer_len(x: &Icmp4R) -> usize {
        Self::with(x, |r| r.buffer_len())
    }
    fn emit(x: &Icmp4R, buf: &mut [u8]) {
        Self::with(x, |r| r.emit(&mut Icmpv4Packet::new_unchecked(buf), &caps(x.cksum, x.cksum)))
    }
    fn parse(buf: &[u8], c: &Icmp4R) -> Option<Icmp4R> {
        let p = Icmpv4Packet::new_checked(buf).ok()?;
        let r = Icmpv4Repr::parse(&p, &caps(c.cksum, c.cksum)).ok()?;
        Self::from(&r, c.cksum)
    }
    fn wf(x: &Icmp4R) -> bool {
        x.kind < 2 || (x.h_payload_len == x.data.len() && x.data.len() + 20 <= 65535)
    }
    fn fields() -> Vec<(usize, usize)> {
        vec![(0, 1), (1, 2), (2, 4), (4, 6), (6, 8), (8, 9), (10, 12), (14, 16), (17, 18)]
    }
    fn encode(x: &Icmp4R) -> Option<String> {
        Some(format!(
            "kind={} ident={} seq={} reason={} hsrc={} hdst={} hproto={} hhop={} hplen={} data={} ck={}",
            x.kind, x.ident, x.seq_no, x.reason, hex(&x.h_src), hex(&x.h_dst), x.h_proto, x.h_hop, x.h_payload_len, hex(&x.data), x.cksum as u8
        ))
    }
    fn decode(kv: &Kv) -> Option<Icmp4R> {
        Some(Icmp4R {
            kind: kv.u("kind") as u8,
            ident: kv.u("ident") as u16,
            seq_no: kv.u("seq") as u16,
            reason: kv.u("reason") as u8,
            h_src: arr4(&kv.b("hsrc")),
            h_dst: arr4(&kv.b("hdst")),
            h_proto: kv.u("hproto") as u8,
            h_hop: kv.u("hhop") as u8,
            h_payload_len: kv.u("hplen") as usize,
            data: kv.b("data"),
            cksum: kv.flag("ck"),
        })
    }
}

// ---------------------------------------------------------------- ICMPv6 (non-NDISC, non-MLD)
#[derive(Debug, PartialEq, Clone)]
pub struct Icmp6R {
    kind: u8, // 0 dst unreachable, 1 pkt too big, 2 time exceeded, 3 param problem, 4 echo request, 5 echo reply
    ident: u16,
    seq_no: u16,
    reason: u8,
    word: u32, // mtu / pointer
    h_src: [u8; 16],
    h_dst: [u8; 16],
    h_proto: u8,
    h_hop: u8,
    h_payload_len: usize,
    data: Vec<u8>,
    // context
    src: [u8; 16],
    dst: [u8; 16],
    cksum: bool,
}
pub struct Icmp6;
impl Icmp6 {
    fn with<T>(x: &Icmp6R, f: impl FnOnce(Icmpv6Repr) -> T) -> T {
        let header = Ipv6Repr { src_addr: v6(&x.h_src), dst_addr: v6(&x.h_dst), next_header: of_raw::<IpProtocol>((x.h_proto) as u32), payload_len: x.h_payload_len, hop_limit: x.h_hop };
        let repr = match x.kind {
            0 => Icmpv6Repr::DstUnreachable { reason: of_raw::<Icmpv6DstUnreachable>((x.reason) as u32), header, data: &x.data },
            1 => Icmpv6Repr::PktTooBig { mtu: x.word, header, data: &x.data },
            2 => Icmpv6Repr::TimeExceeded { reason: of_raw::<Icmpv6TimeExceeded>((x.reason) as u32), header, data: &x.data },
            3 => Icmpv6Repr::ParamProblem { reason: of_raw::<Icmpv6ParamProblem>((x.reason) as u32), pointer: x.word, header, data: &x.data },
            4 => Icmpv6Repr::EchoRequest { ident: x.ident, seq_no: x.seq_no, data: &x.data },
            _ => Icmpv6Repr::EchoReply { ident: x.ident, seq_no: x.seq_no, data: &x.data },
        };
        f(repr)
    }
    fn from(r: &Icmpv6Repr, c: &Icmp6R) -> Option<Icmp6R> {
        let z = Icmp6R { kind: 0, ident: 0, seq_no: 0, reason: 0, word: 0, h_src: [0; 16], h_dst: [0; 16], h_proto: 0, h_hop: 0, h_payload_len: 0, data: vec![], src: c.src, dst: c.dst, cksum: c.cksum };
        let hdr = |z: Icmp6R, kind: u8, reason: u8, word: u32, h: &Ipv6Repr, data: &[u8]| Icmp6R {
            kind,
            reason,
            word,
            h_src: h.src_addr.octets(),
            h_dst: h.dst_addr.octets(),
            h_proto: h.next_header.into(),
            h_hop: h.hop_limit,
            h_payload_len: h.payload_len,
            data: data.to_vec(),
            ..z
        };
        Some(match r {
            Icmpv6Repr::DstUnreachable { reason, header, data } => hdr(z, 0, (*reason).into(), 0, header, data),
            Icmpv6Repr::PktTooBig { mtu, header, data } => hdr(z, 1, 0, *mtu, header, data),
            Icmpv6Repr::TimeExceeded { reason, header, data } => hdr(z, 2, (*reason).into(), 0, header, data),
            Icmpv6Repr::ParamProblem { reason, pointer, header, data } => hdr(z, 3, (*reason).into(), *pointer, header, data),
            Icmpv6Repr::EchoRequest { ident, seq_no, data } => Icmp6R { kind: 4, ident: *ident, seq_no: *seq_no, data: data.to_vec(), ..z },
            Icmpv6Repr::EchoReply { ident, seq_no, data } => Icmp6R { kind: 5, ident: *ident, seq_no: *seq_no, data: data.to_vec(), ..z },
            _ => return None,
        })
    }
}
impl WireType for Icmp6 {
    type R = Icmp6R;
    const NAME: &'static str = "icmpv6";
    fn gen(r: &mut Rng, tier: &str) -> Icmp6R {
        let kind = r.below(6) as u8;
        let mut x = Icmp6R { kind, ident: 0, seq_no: 0, reason: 0, word: 0, h_src: [0; 16], h_dst: [0; 16], h_proto: 0, h_hop: 0, h_payload_len: 0, data: vec![], src: gen_ipv6(r), dst: gen_ipv6(r), cksum: r.chance(7, 8) };
        if kind >= 4 {
            x.ident = gen_u16(r);
            x.seq_no = gen_u16(r);
            let n = gen_payload_len(r, tier, 1452);
            x.data = gen_payload(r, n);
        } else {
            x.reason = match kind {
                0 => draw_raw::<Icmpv6DstUnreachable>(r),
                2 => draw_raw::<Icmpv6TimeExceeded>(r),
                3 => draw_raw::<Icmpv6ParamProblem>(r),
                _ => 0,
            } as u8;
            x.word = if kind == 1 || kind == 3 { gen_u32(r) } else { 0 };
            x.h_src = gen_ipv6(r);
            x.h_dst = gen_ipv6(r);
            x.h_proto = draw_raw::<IpProtocol>(r) as u8;
            x.h_hop = gen_u8(r);
            x.h_payload_len = gen_u16(r) as usize;
            // cut to IPV6_MIN_MTU by design: at most 1280 - 40 - 8 - 40 = 1192 octets of the offending packet
            let n = *r.pick(&[0usize, 1, 8, 64, 1191, 1192]);
            let n = if r.chance(1, 3) { r.range(0, 1192) as usize } else { n };
            x.data = gen_payload(r, n);
        }
        x
    }
    fn buffer_len(x: &Icmp6R) -> usize {
        Self::with(x, |r| r.buffer_len())
    }
    fn emit(x: &Icmp6R, buf: &mut [u8]) {
        Self::with(x, |r| r.emit(&v6(&x.src), &v6(&x.dst), &mut Icmpv6Packet::new_unchecked(buf), &caps(x.cksum, x.cksum)))
    }
    fn parse(buf: &[u8], c: &Icmp6R) -> Option<Icmp6R> {
        let p = Icmpv6Packet::new_checked(buf).ok()?;
        let r = Icmpv6Repr::parse(&v6(&c.src), &v6(&c.dst), &p, &caps(c.cksum, c.cksum)).ok()?;
        Self::from(&r, c)
    }
    fn wf(x: &Icmp6R) -> bool {
        x.kind >= 4 || x.data.len() <= 1192
    }
    fn fields() -> Vec<(usize, usize)> {
        vec![(0, 1), (1, 2), (2, 4), (4, 8), (8, 12), (12, 14), (14, 15), (15, 16)]
    }
    fn encode(x: &Icmp6R) -> Option<String> {
        Some(format!(
            "kind={} ident={} seq={} reason={} word={} hsrc={} hdst={} hproto={} hhop={} hplen={} data={} src={} dst={} ck={}",
            x.kind, x.ident, x.seq_no, x.reason, x.word, hex(&x.h_src), hex(&x.h_dst), x.h_proto, x.h_hop, x.h_payload_len, hex(&x.data), hex(&x.src), hex(&x.dst), x.cksum as u8
        ))
    }
    fn decode(kv: &Kv) -> Option<Icmp6R> {
        Some(Icmp6R {
            kind: kv.u("kind") as u8,
            ident: kv.u("ident") as u16,
            seq_no: kv.u("seq") as u16,
            reason: kv.u("reason") as u8,
            word: kv.u("word") as u32,
            h_src: arr16(&kv.b("hsrc")),
            h_dst: arr16(&kv.b("hdst")),
            h_proto: kv.u("hproto") as u8,
            h_hop: kv.u("hhop") as u8,
            h_payload_len: kv.u("hplen") as usize,
            data: kv.b("data"),
            src: arr16(&kv.b("src")),
            dst: arr16(&kv.b("dst")),
            cksum: kv.flag("ck"),
        })
    }
}
