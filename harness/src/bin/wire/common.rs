//! Helpers shared by the wire-format modules of h_wire (streams `wire-<fmt>-emit|parse`).
#![allow(dead_code)]
use smoltcp::phy::{Checksum, ChecksumCapabilities};
use smoltcp::wire::{
    ArpHardware, ArpOperation, DhcpOpCode, DhcpMessageType, DnsOpcode, DnsRcode, DnsQueryType, EthernetProtocol, Icmpv4Message, Icmpv4DstUnreachable, Icmpv4Redirect, Icmpv4TimeExceeded, Icmpv4ParamProblem, Icmpv6Message, Icmpv6DstUnreachable, Icmpv6ParamProblem, Icmpv6TimeExceeded, Ieee802154FrameType, Ieee802154AddressingMode, Ieee802154FrameVersion, IpProtocol, Ipv6OptionType, Ipv6OptionRouterAlert, Ipv6RoutingType, MldRecordType, NdiscOptionType,
};
use std::collections::BTreeMap;
use std::panic::{catch_unwind, AssertUnwindSafe};
use svh::*;

/// One wire format of the correspondence streams.
pub struct Format {
    pub name: &'static str,
    /// op lines of one `-emit` case: one generated repr emitted into several initial buffers
    pub gen_emit: fn(&mut Rng, &str) -> Vec<String>,
    /// op lines of one `-parse` case: a well-formed packet, its truncations / corruptions, random bytes
    pub gen_parse: fn(&mut Rng, &str) -> Vec<String>,
    /// run one `emit …` / `parse …` op on the real crate; returns the observation line
    pub run_op: fn(&str) -> String,
}

pub fn guard<T>(f: impl FnOnce() -> T) -> Option<T> {
    catch_unwind(AssertUnwindSafe(f)).ok()
}

pub struct Kv(pub BTreeMap<String, String>);
impl Kv {
    pub fn parse(op: &str) -> Kv {
        let mut m = BTreeMap::new();
        for w in op.split_whitespace() {
            if let Some((k, v)) = w.split_once('=') {
                m.insert(k.to_string(), v.to_string());
            }
        }
        Kv(m)
    }
    pub fn s(&self, k: &str) -> &str {
        self.0.get(k).map(|s| s.as_str()).unwrap_or_else(|| panic!("missing field {}", k))
    }
    pub fn opt(&self, k: &str) -> Option<&str> {
        self.0.get(k).map(|s| s.as_str())
    }
    pub fn u(&self, k: &str) -> u64 {
        self.s(k).parse().unwrap_or_else(|_| panic!("bad int {}", k))
    }
    pub fn b(&self, k: &str) -> Vec<u8> {
        unhex(self.s(k))
    }
    pub fn flag(&self, k: &str) -> bool {
        self.opt(k) == Some("1")
    }
}

/// hex up to 24 octets, otherwise `#len:hash` (h = h*31 + b mod 2^30 from 7); same in drv_wire.ml
pub fn show_bytes(b: &[u8]) -> String {
    if b.len() <= 24 {
        hex(b)
    } else {
        let mut h: u64 = 7;
        for x in b {
            h = (h * 31 + *x as u64) & 0x3fff_ffff;
        }
        format!("#{}:{:x}", b.len(), h)
    }
}

/// accessor result: value or PANIC
pub fn acc<T>(f: impl FnOnce() -> T, show: impl FnOnce(T) -> String) -> String {
    match guard(f) {
        Some(v) => show(v),
        None => "PANIC".to_string(),
    }
}

pub fn caps(tx: bool, rx: bool) -> ChecksumCapabilities {
    let c = match (tx, rx) {
        (true, true) => Checksum::Both,
        (true, false) => Checksum::Tx,
        (false, true) => Checksum::Rx,
        (false, false) => Checksum::None,
    };
    let mut cc = ChecksumCapabilities::default();
    cc.ipv4 = c;
    cc.udp = c;
    cc.tcp = c;
    cc.icmpv4 = c;
    cc.icmpv6 = c;
    cc
}

// ---------- generators ----------

pub fn gen_u8(r: &mut Rng) -> u8 {
    match r.below(8) {
        0 => 0,
        1 => 1,
        2 => 0xff,
        3 => 0xfe,
        4 => 0x7f,
        5 => 0x80,
        _ => r.next() as u8,
    }
}

pub fn gen_u16(r: &mut Rng) -> u16 {
    match r.below(10) {
        0 => 0,
        1 => 1,
        2 => 0xffff,
        3 => 0xfffe,
        4 => 0x7fff,
        5 => 0x8000,
        6 => 0x00ff,
        7 => 0x0100,
        _ => r.next() as u16,
    }
}

pub fn gen_u32(r: &mut Rng) -> u32 {
    match r.below(10) {
        0 => 0,
        1 => 1,
        2 => 0xffff_ffff,
        3 => 0xffff_fffe,
        4 => 0x7fff_ffff,
        5 => 0x8000_0000,
        6 => 0x0000_ffff,
        7 => 0x0001_0000,
        _ => r.next() as u32,
    }
}

pub fn gen_mac(r: &mut Rng) -> [u8; 6] {
    let mut a = [0u8; 6];
    match r.below(6) {
        0 => a = [0xff; 6],
        1 => a = [0; 6],
        2 => a = [0x01, 0x00, 0x5e, 0, 0, 1],
        3 => a = [0x33, 0x33, 0, 0, 0, 1],
        _ => {
            for x in a.iter_mut() {
                *x = r.next() as u8
            }
        }
    }
    a
}

pub fn gen_ipv4(r: &mut Rng) -> [u8; 4] {
    match r.below(8) {
        0 => [0, 0, 0, 0],
        1 => [255, 255, 255, 255],
        2 => [127, 0, 0, 1],
        3 => [224, 0, 0, 1],
        4 => [10, 0, 0, 255],
        5 => [169, 254, 1, 1],
        _ => (r.next() as u32).to_be_bytes(),
    }
}

/// "Almost special" IPv6 addresses: one step away from a class the stack (and LOWPAN_IPHC in
/// particular) treats specially.  `ext` / `short` are the link-layer addresses the interface
/// identifiers are derived from (random ones when None).
///   fe80::/10 outside fe80::/64 (non-zero bits 10..63);  ffFS:: with every flags / scope nibble in
///   the 8-, 32-, 48- and 128-bit forms;  solicited-node ff02::1:ffXX:XXXX and its neighbours
///   (ff02::1:feXX…, ff02::2:ff…, scope != 2);  ::ffff:a.b.c.d, ::a.b.c.d, ::1, ::, 64:ff9b::/96;
///   IID = EUI-64 of the extended address exactly / one bit off / without the universal-local flip;
///   IID = 0000:00ff:fe00:XXXX of the short address exactly / one bit off, under the link-local,
///   a global and a site-local prefix.
pub fn gen_ipv6_special(r: &mut Rng, ext: Option<[u8; 8]>, short: Option<[u8; 2]>) -> [u8; 16] {
    let mut a = [0u8; 16];
    let ext = ext.unwrap_or_else(|| {
        let mut e = [0u8; 8];
        for x in e.iter_mut() {
            *x = r.next() as u8
        }
        e
    });
    let short = short.unwrap_or_else(|| [r.next() as u8, r.next() as u8]);
    // interface identifier
    let mut iid = [0u8; 8];
    match r.below(8) {
        0 => {
            iid.copy_from_slice(&ext);
            iid[0] ^= 0x02; // EUI-64
        }
        1 => iid.copy_from_slice(&ext), // universal/local bit NOT flipped
        2 => {
            iid.copy_from_slice(&ext);
            iid[0] ^= 0x02;
            let bit = r.below(64) as usize;
            iid[bit / 8] ^= 1 << (bit % 8); // one bit off the EUI-64
        }
        3 => iid = [0, 0, 0, 0xff, 0xfe, 0, short[0], short[1]],
        4 => {
            iid = [0, 0, 0, 0xff, 0xfe, 0, short[0], short[1]];
            let bit = r.below(64) as usize;
            iid[bit / 8] ^= 1 << (bit % 8); // one bit off the short-address form
        }
        5 => iid = [0, 0, 0, 0, 0, 0, 0, r.below(3) as u8],
        6 => iid = [0xff; 8],
        _ => {
            for x in iid.iter_mut() {
                *x = r.next() as u8
            }
        }
    }
    match r.below(14) {
        0 => {
            // link-local scope, non-zero subnet bits: fe80:0:0:1::/64
            a[0] = 0xfe;
            a[1] = 0x80;
            a[7] = 1;
            a[8..].copy_from_slice(&iid);
        }
        1 => {
            // fe9a:7::/64, febf:ffff:ffff:ffff::/64, fe80 + one bit in octets 1..8
            match r.below(3) {
                0 => a[..8].copy_from_slice(&[0xfe, 0x9a, 0, 7, 0, 0, 0, 0]),
                1 => a[..8].copy_from_slice(&[0xfe, 0xbf, 0xff, 0xff, 0xff, 0xff, 0xff, 0xff]),
                _ => {
                    a[0] = 0xfe;
                    a[1] = 0x80;
                    let bit = r.range(10, 63) as usize;
                    a[bit / 8] |= 0x80 >> (bit % 8);
                }
            }
            a[8..].copy_from_slice(&iid);
        }
        2 => {
            // exact fe80::/64 with the special IIDs
            a[0] = 0xfe;
            a[1] = 0x80;
            a[8..].copy_from_slice(&iid);
        }
        3 => {
            // just outside fe80::/10: fec0:: (site-local), fe00::, fe7f:…
            a[0] = 0xfe;
            a[1] = *r.pick(&[0xc0u8, 0x00, 0x7f, 0x40]);
            a[8..].copy_from_slice(&iid);
        }
        4 => {
            // global / ULA prefixes with the special IIDs (context-based compression candidates)
            let pre: [u8; 8] = *r.pick(&[[0x20u8, 0x01, 0x0d, 0xb8, 0, 0, 0, 1], [0x20, 0x01, 0x0d, 0xb8, 0, 0, 0, 0], [0xfd, 0, 0, 0, 0, 0, 0, 0], [0xfc, 0, 0, 0, 0, 0, 0, 1]]);
            a[..8].copy_from_slice(&pre);
            a[8..].copy_from_slice(&iid);
        }
        5 => {
            // ffFS::XX : every flags / scope nibble, 8-bit group id
            a[0] = 0xff;
            a[1] = r.next() as u8;
            a[15] = *r.pick(&[1u8, 2, 0xfb, 0, 0xff]);
        }
        6 => {
            // 32-bit form ffFS::00XX:XXXX and one octet beyond it
            a[0] = 0xff;
            a[1] = r.next() as u8;
            a[13] = r.next() as u8;
            a[14] = r.next() as u8;
            a[15] = r.next() as u8;
            if r.chance(1, 3) {
                a[12] = 1;
            }
        }
        7 => {
            // 48-bit form ffFS::00XX:XXXX:XXXX and one octet beyond it
            a[0] = 0xff;
            a[1] = r.next() as u8;
            for x in a[11..].iter_mut() {
                *x = r.next() as u8
            }
            if r.chance(1, 3) {
                a[*r.pick(&[2usize, 5, 10])] = 1;
            }
        }
        8 => {
            // solicited-node and its neighbours
            a[0] = 0xff;
            a[1] = *r.pick(&[0x02u8, 0x02, 0x02, 0x01, 0x05, 0x12, 0x0e]);
            a[11] = *r.pick(&[1u8, 1, 1, 2, 0]);
            a[12] = *r.pick(&[0xffu8, 0xff, 0xff, 0xfe, 0x7f]);
            a[13] = iid[5];
            a[14] = iid[6];
            a[15] = iid[7];
        }
        9 => {
            // IPv4-mapped / IPv4-compatible
            if r.chance(2, 3) {
                a[10] = 0xff;
                a[11] = 0xff;
            }
            a[12..].copy_from_slice(&gen_ipv4(r));
        }
        10 => {
            // NAT64 well-known prefix 64:ff9b::/96 (and one bit off)
            a[..4].copy_from_slice(&[0x00, 0x64, 0xff, 0x9b]);
            if r.chance(1, 4) {
                a[7] = 1;
            }
            a[12..].copy_from_slice(&gen_ipv4(r));
        }
        11 => a[15] = *r.pick(&[1u8, 0, 2]), // ::1, ::, ::2
        12 => {
            // all-nodes / all-routers / mDNS / all-DHCP, and the same group under another scope
            a[0] = 0xff;
            a[1] = *r.pick(&[0x02u8, 0x02, 0x01, 0x05, 0x0e, 0x03]);
            match r.below(4) {
                0 => a[15] = 1,
                1 => a[15] = 2,
                2 => a[15] = 0xfb,
                _ => {
                    a[13] = 1;
                    a[15] = 2
                }
            }
        }
        _ => {
            // multicast with flags and a full-width group id
            a[0] = 0xff;
            a[1] = r.next() as u8;
            a[2..10].copy_from_slice(&iid);
            a[15] = r.next() as u8;
        }
    }
    a
}

pub fn gen_ipv6(r: &mut Rng) -> [u8; 16] {
    if r.chance(1, 3) {
        return gen_ipv6_special(r, None, None);
    }
    let mut a = [0u8; 16];
    match r.below(9) {
        0 => {}
        1 => a[15] = 1,
        2 => {
            a[0] = 0xff;
            a[1] = 0x02;
            a[15] = 1
        }
        3 => {
            a[0] = 0xfe;
            a[1] = 0x80;
            for x in a[8..].iter_mut() {
                *x = r.next() as u8
            }
        }
        4 => {
            a[10] = 0xff;
            a[11] = 0xff;
            for x in a[12..].iter_mut() {
                *x = r.next() as u8
            }
        }
        5 => a = [0xff; 16],
        6 => {
            a[0] = 0xff;
            a[1] = 0x05;
            a[3] = 1;
            a[11] = 1;
            a[15] = 3
        }
        _ => {
            for x in a.iter_mut() {
                *x = r.next() as u8
            }
        }
    }
    a
}

/// payload length: boundaries around 0, small sizes, MTU edges; up to 1500 (9216 in thorough)
pub fn gen_payload_len(r: &mut Rng, tier: &str, max: usize) -> usize {
    let big = if tier == "thorough" { 9216 } else { 1500 };
    let l = match r.below(16) {
        0 => 0,
        1 => 1,
        2 => 2,
        3 => 3,
        4 => 7,
        5 => 8,
        6 => 9,
        7 => r.below(64) as usize,
        8 => 1472,
        9 => 1480,
        10 => 1500 - r.below(4) as usize,
        11 => big,
        12 => r.below(big as u64 + 1) as usize,
        _ => r.below(200) as usize,
    };
    l.min(max)
}

pub fn gen_payload(r: &mut Rng, len: usize) -> Vec<u8> {
    match r.below(4) {
        0 => vec![0u8; len],
        1 => vec![0xffu8; len],
        _ => r.bytes(len),
    }
}

/// the initial buffers every repr is emitted into: zeros, 0xff, 0xa5, random garbage
pub fn gen_buffers(r: &mut Rng, len: usize) -> Vec<Vec<u8>> {
    vec![vec![0u8; len], vec![0xffu8; len], vec![0xa5u8; len], r.bytes(len)]
}

/// Byte strings of a `-parse` case derived from one well-formed packet:
/// the packet, truncations, single-field boundary corruptions, extensions, random bytes.
/// `fields` = (lo, hi) byte ranges of the format's header fields.
pub fn mutations(r: &mut Rng, base: &[u8], fields: &[(usize, usize)], tier: &str) -> Vec<Vec<u8>> {
    let mut out: Vec<Vec<u8>> = vec![base.to_vec()];
    let l = base.len();
    // truncations: every prefix for short packets; all prefixes up to 72 + samples otherwise
    let dense = if tier == "thorough" { 160 } else { 72 };
    for k in 0..l.min(dense) {
        out.push(base[..k].to_vec());
    }
    if l > dense {
        for _ in 0..6 {
            out.push(base[..r.range(dense as i64, l as i64 - 1) as usize].to_vec());
        }
        out.push(base[..l - 1].to_vec());
    }
    // single-field corruptions with boundary values
    for &(lo, hi) in fields {
        if hi > l {
            continue;
        }
        let w = hi - lo;
        let mut vals: Vec<u64> = vec![0, 1, u64::MAX];
        if w <= 4 {
            let max = if w == 4 { 0xffff_ffffu64 } else { (1u64 << (8 * w)) - 1 };
            vals.extend_from_slice(&[max - 1, max / 2, max / 2 + 1]);
            for d in [0i64, 1, -1, 2, 4, -4, 8, -8, 20, -20] {
                let v = l as i64 + d;
                if v >= 0 {
                    vals.push(v as u64 & max);
                }
            }
            for v in [2u64, 3, 4, 5, 6, 7, 8, 9, 10, 14, 15, 16, 19, 20, 21, 26, 34, 39, 40, 41, 60] {
                vals.push(v & max);
            }
            vals.push(r.next() & max);
        }
        for v in vals {
            let mut b = base.to_vec();
            if v == u64::MAX {
                for x in b[lo..hi].iter_mut() {
                    *x = 0xff
                }
            } else {
                for i in 0..w {
                    let sh = 8 * (w - 1 - i);
                    b[lo + i] = if sh >= 64 { 0 } else { (v >> sh) as u8 };
                }
            }
            out.push(b);
        }
        // nibble-level corruption of the first octet of the field
        for v in [0x0fu8, 0xf0, 0x40, 0x45, 0x4f, 0x50, 0x60, 0x6f, 0x5f] {
            let mut b = base.to_vec();
            b[lo] = v;
            out.push(b);
        }
    }
    // random single-byte corruptions and bit flips
    if l > 0 {
        for _ in 0..8 {
            let mut b = base.to_vec();
            let i = r.below(l as u64) as usize;
            b[i] = gen_u8(r);
            out.push(b);
        }
        for _ in 0..6 {
            let mut b = base.to_vec();
            let i = r.below(l as u64) as usize;
            b[i] ^= 1 << r.below(8);
            out.push(b);
        }
    }
    // extension with trailing bytes
    for k in [1usize, 2, 7, 8, 40] {
        let mut b = base.to_vec();
        b.extend(r.bytes(k));
        out.push(b);
    }
    // random byte strings 0..=2048
    for _ in 0..8 {
        let n = match r.below(6) {
            0 => r.below(16) as usize,
            1 => r.below(64) as usize,
            2 => r.below(2049) as usize,
            3 => 2048,
            _ => r.below(128) as usize,
        };
        let mut b = r.bytes(n);
        // half of them start like the base packet so that the header checks pass more often
        if r.chance(1, 2) {
            let k = n.min(l).min(r.below(24) as usize + 1);
            b[..k].copy_from_slice(&base[..k]);
        }
        out.push(b);
    }
    out
}

// ---------------------------------------------------------------- named values of the wire enums
// Frozen tables (name = number) of every `enum_with_unknown!` type exported by smoltcp::wire,
// transcribed from the RFC-assigned values in the pinned source.  Generators draw every named
// variant (and numbers adjacent to each named one) from these tables and build a named variant by
// its PATH (`of_raw`), never through the crate's own `From<number>`: a representation value the
// documentation names must emit its assigned number and parse back to itself even when the stack
// itself never produces it.  `check_enum` is the pure table obligation of the C06 oracle.
pub trait WireEnum: Copy + PartialEq + std::fmt::Debug + 'static {
    const LABEL: &'static str;
    const RAW_MAX: u32;
    /// (variant name, assigned number, the variant built by path)
    fn named() -> Vec<(&'static str, u32, Self)>;
    /// the crate's `From<number>`
    fn from_raw(x: u32) -> Self;
    /// the crate's `Into<number>`
    fn to_raw(self) -> u32;
}

macro_rules! wire_enum {
    ($T:ident, $raw:ty, $label:expr, [$($V:ident = $val:expr),*]) => {
        impl WireEnum for $T {
            const LABEL: &'static str = $label;
            const RAW_MAX: u32 = <$raw>::MAX as u32;
            fn named() -> Vec<(&'static str, u32, Self)> {
                vec![$((stringify!($V), $val as u32, $T::$V)),*]
            }
            fn from_raw(x: u32) -> Self {
                <$T>::from(x as $raw)
            }
            fn to_raw(self) -> u32 {
                <$raw>::from(self) as u32
            }
        }
    };
}

wire_enum!(ArpHardware, u16, "ArpHardware (src/wire/arp.rs Hardware)", [Ethernet = 1]);
wire_enum!(ArpOperation, u16, "ArpOperation (src/wire/arp.rs Operation)", [Request = 1, Reply = 2]);
wire_enum!(DhcpOpCode, u8, "DhcpOpCode (src/wire/dhcpv4.rs OpCode)", [Request = 1, Reply = 2]);
wire_enum!(DhcpMessageType, u8, "DhcpMessageType (src/wire/dhcpv4.rs MessageType)", [Discover = 1, Offer = 2, Request = 3, Decline = 4, Ack = 5, Nak = 6, Release = 7, Inform = 8]);
wire_enum!(DnsOpcode, u8, "DnsOpcode (src/wire/dns.rs Opcode)", [Query = 0x00, Status = 0x01]);
wire_enum!(DnsRcode, u8, "DnsRcode (src/wire/dns.rs Rcode)", [NoError = 0x00, FormErr = 0x01, ServFail = 0x02, NXDomain = 0x03, NotImp = 0x04, Refused = 0x05, YXDomain = 0x06, YXRRSet = 0x07, NXRRSet = 0x08, NotAuth = 0x09, NotZone = 0x0a]);
wire_enum!(DnsQueryType, u16, "DnsQueryType (src/wire/dns.rs Type)", [A = 0x0001, Ns = 0x0002, Cname = 0x0005, Soa = 0x0006, Aaaa = 0x001c]);
wire_enum!(EthernetProtocol, u16, "EthernetProtocol (src/wire/ethernet.rs EtherType)", [Ipv4 = 0x0800, Arp = 0x0806, Ipv6 = 0x86DD]);
wire_enum!(Icmpv4Message, u8, "Icmpv4Message (src/wire/icmpv4.rs Message)", [EchoReply = 0, DstUnreachable = 3, Redirect = 5, EchoRequest = 8, RouterAdvert = 9, RouterSolicit = 10, TimeExceeded = 11, ParamProblem = 12, Timestamp = 13, TimestampReply = 14]);
wire_enum!(Icmpv4DstUnreachable, u8, "Icmpv4DstUnreachable (src/wire/icmpv4.rs DstUnreachable)", [NetUnreachable = 0, HostUnreachable = 1, ProtoUnreachable = 2, PortUnreachable = 3, FragRequired = 4, SrcRouteFailed = 5, DstNetUnknown = 6, DstHostUnknown = 7, SrcHostIsolated = 8, NetProhibited = 9, HostProhibited = 10, NetUnreachToS = 11, HostUnreachToS = 12, CommProhibited = 13, HostPrecedViol = 14, PrecedCutoff = 15]);
wire_enum!(Icmpv4Redirect, u8, "Icmpv4Redirect (src/wire/icmpv4.rs Redirect)", [Net = 0, Host = 1, NetToS = 2, HostToS = 3]);
wire_enum!(Icmpv4TimeExceeded, u8, "Icmpv4TimeExceeded (src/wire/icmpv4.rs TimeExceeded)", [TtlExpired = 0, FragExpired = 1]);
wire_enum!(Icmpv4ParamProblem, u8, "Icmpv4ParamProblem (src/wire/icmpv4.rs ParamProblem)", [AtPointer = 0, MissingOption = 1, BadLength = 2]);
wire_enum!(Icmpv6Message, u8, "Icmpv6Message (src/wire/icmpv6.rs Message)", [DstUnreachable = 0x01, PktTooBig = 0x02, TimeExceeded = 0x03, ParamProblem = 0x04, EchoRequest = 0x80, EchoReply = 0x81, MldQuery = 0x82, RouterSolicit = 0x85, RouterAdvert = 0x86, NeighborSolicit = 0x87, NeighborAdvert = 0x88, Redirect = 0x89, MldReport = 0x8f, RplControl = 0x9b]);
wire_enum!(Icmpv6DstUnreachable, u8, "Icmpv6DstUnreachable (src/wire/icmpv6.rs DstUnreachable)", [NoRoute = 0, AdminProhibit = 1, BeyondScope = 2, AddrUnreachable = 3, PortUnreachable = 4, FailedPolicy = 5, RejectRoute = 6]);
wire_enum!(Icmpv6ParamProblem, u8, "Icmpv6ParamProblem (src/wire/icmpv6.rs ParamProblem)", [ErroneousHdrField = 0, UnrecognizedNxtHdr = 1, UnrecognizedOption = 2]);
wire_enum!(Icmpv6TimeExceeded, u8, "Icmpv6TimeExceeded (src/wire/icmpv6.rs TimeExceeded)", [HopLimitExceeded = 0, FragReassemExceeded = 1]);
wire_enum!(Ieee802154FrameType, u8, "Ieee802154FrameType (src/wire/ieee802154.rs FrameType)", [Beacon = 0b000, Data = 0b001, Acknowledgement = 0b010, MacCommand = 0b011, Multipurpose = 0b101, FragmentOrFrak = 0b110, Extended = 0b111]);
wire_enum!(Ieee802154AddressingMode, u8, "Ieee802154AddressingMode (src/wire/ieee802154.rs AddressingMode)", [Absent = 0b00, Short = 0b10, Extended = 0b11]);
wire_enum!(Ieee802154FrameVersion, u8, "Ieee802154FrameVersion (src/wire/ieee802154.rs FrameVersion)", [Ieee802154_2003 = 0b00, Ieee802154_2006 = 0b01, Ieee802154 = 0b10]);
wire_enum!(IpProtocol, u8, "IpProtocol (src/wire/ip.rs Protocol)", [HopByHop = 0x00, Icmp = 0x01, Igmp = 0x02, Tcp = 0x06, Udp = 0x11, Ipv6Route = 0x2b, Ipv6Frag = 0x2c, IpSecEsp = 0x32, IpSecAh = 0x33, Icmpv6 = 0x3a, Ipv6NoNxt = 0x3b, Ipv6Opts = 0x3c]);
wire_enum!(Ipv6OptionType, u8, "Ipv6OptionType (src/wire/ipv6option.rs Type)", [Pad1 = 0, PadN = 1, RouterAlert = 5, Rpl = 0x63]);
wire_enum!(Ipv6OptionRouterAlert, u16, "Ipv6OptionRouterAlert (src/wire/ipv6option.rs RouterAlert)", [MulticastListenerDiscovery = 0, Rsvp = 1, ActiveNetworks = 2]);
wire_enum!(Ipv6RoutingType, u8, "Ipv6RoutingType (src/wire/ipv6routing.rs Type)", [Type0 = 0, Nimrod = 1, Type2 = 2, Rpl = 3, Experiment1 = 253, Experiment2 = 254, Reserved = 252]);
wire_enum!(MldRecordType, u8, "MldRecordType (src/wire/mld.rs RecordType)", [ModeIsInclude = 0x01, ModeIsExclude = 0x02, ChangeToInclude = 0x03, ChangeToExclude = 0x04, AllowNewSources = 0x05, BlockOldSources = 0x06]);
wire_enum!(NdiscOptionType, u8, "NdiscOptionType (src/wire/ndiscoption.rs Type)", [SourceLinkLayerAddr = 0x1, TargetLinkLayerAddr = 0x2, PrefixInformation = 0x3, RedirectedHeader = 0x4, Mtu = 0x5]);

/// the representation value for wire number `x`: the named variant (built by path) when the
/// frozen table names `x`, the crate's conversion (`Unknown(x)`) otherwise
pub fn of_raw<T: WireEnum>(x: u32) -> T {
    match T::named().into_iter().find(|e| e.1 == x) {
        Some(e) => e.2,
        None => T::from_raw(x),
    }
}

/// a wire number for a field of type T: every named value, the numbers adjacent to each named
/// value, 0, the maximum, and arbitrary ones
pub fn draw_raw<T: WireEnum>(r: &mut Rng) -> u32 {
    let n = T::named();
    let v = n[r.below(n.len() as u64) as usize].1;
    match r.below(10) {
        0..=4 => v,
        5 => v.wrapping_add(1) & T::RAW_MAX,
        6 => v.wrapping_sub(1) & T::RAW_MAX,
        7 => *r.pick(&[0u32, T::RAW_MAX, T::RAW_MAX - 1, 1]),
        _ => (r.next() as u32) & T::RAW_MAX,
    }
}
pub fn draw<T: WireEnum>(r: &mut Rng) -> T {
    of_raw::<T>(draw_raw::<T>(r))
}

/// "distinct named variants emit distinct numbers and parse back to themselves": each named variant
/// converts to its assigned number and that number converts back to it; no two named variants share a
/// number; every other number converts to a value that converts back to the same number and is not a
/// named variant.  Returns (class, detail) failures.
pub fn check_enum<T: WireEnum>() -> Vec<(String, String)> {
    let mut f = vec![];
    let n = T::named();
    let slug = T::LABEL.split(' ').next().unwrap_or("?").to_lowercase();
    for (name, v, var) in &n {
        let out = var.to_raw();
        if out != *v {
            f.push((format!("enum-{}-emit-number", slug), format!("{}::{} emits {} (0x{:x}), its assigned number is {} (0x{:x})", T::LABEL, name, out, out, v, v)));
        }
        let back = T::from_raw(*v);
        if back != *var {
            f.push((format!("enum-{}-parse-number", slug), format!("{}: the number {} (0x{:x}) assigned to {} parses as {:?}", T::LABEL, v, v, name, back)));
        }
        let rt = T::from_raw(out);
        if rt != *var {
            f.push((format!("enum-{}-roundtrip", slug), format!("{}::{} emits {} which parses back as {:?}", T::LABEL, name, out, rt)));
        }
    }
    for i in 0..n.len() {
        for j in i + 1..n.len() {
            if n[i].2.to_raw() == n[j].2.to_raw() {
                f.push((format!("enum-{}-collision", slug), format!("{}::{} and ::{} both emit {}", T::LABEL, n[i].0, n[j].0, n[i].2.to_raw())));
            }
        }
    }
    for x in 0..=T::RAW_MAX {
        if f.len() > 8 {
            break;
        }
        let t = T::from_raw(x);
        let y = t.to_raw();
        if y != x {
            f.push((format!("enum-{}-roundtrip", slug), format!("{}: the number {} parses as {:?} which emits {}", T::LABEL, x, t, y)));
        }
        let named_here = n.iter().any(|e| e.1 == x);
        let is_named = n.iter().any(|e| e.2 == t);
        if is_named && !named_here {
            f.push((format!("enum-{}-parse-number", slug), format!("{}: the unassigned number {} parses as the named {:?}", T::LABEL, x, t)));
        }
    }
    f
}

pub fn all_enum_checks() -> Vec<fn() -> Vec<(String, String)>> {
    vec![
        check_enum::<ArpHardware>,
        check_enum::<ArpOperation>,
        check_enum::<DhcpOpCode>,
        check_enum::<DhcpMessageType>,
        check_enum::<DnsOpcode>,
        check_enum::<DnsRcode>,
        check_enum::<DnsQueryType>,
        check_enum::<EthernetProtocol>,
        check_enum::<Icmpv4Message>,
        check_enum::<Icmpv4DstUnreachable>,
        check_enum::<Icmpv4Redirect>,
        check_enum::<Icmpv4TimeExceeded>,
        check_enum::<Icmpv4ParamProblem>,
        check_enum::<Icmpv6Message>,
        check_enum::<Icmpv6DstUnreachable>,
        check_enum::<Icmpv6ParamProblem>,
        check_enum::<Icmpv6TimeExceeded>,
        check_enum::<Ieee802154FrameType>,
        check_enum::<Ieee802154AddressingMode>,
        check_enum::<Ieee802154FrameVersion>,
        check_enum::<IpProtocol>,
        check_enum::<Ipv6OptionType>,
        check_enum::<Ipv6OptionRouterAlert>,
        check_enum::<Ipv6RoutingType>,
        check_enum::<MldRecordType>,
        check_enum::<NdiscOptionType>,
    ]
}
