//! Helpers shared by the wire-format modules of h_wire (streams `wire-<fmt>-emit|parse`).
#![allow(dead_code)]
use smoltcp::phy::{Checksum, ChecksumCapabilities};
use std::collections::BTreeMap;
use std::panic::{catch_unwind, AssertUnwindSafe};
use svh::*;

/// One wire format of the correspondence streams.
pub struct Format {
    pub name: &'static str,
    /// op lines of one `-emit` case: one generated repr emitted into several initial buffers
    pub gen_emit: fn(&mut Rng, &str) -> Vec<String>,
    /// op lines of one `-parse` case: a well-formed packet, its truncations / corruptions, random bytes
    pub gen_parse: fn(&mut Rng, &str) -> Vec<String>,
    /// run one `emit …` / `parse …` op on the real crate; returns the observation line
    pub run_op: fn(&str) -> String,
}

pub fn guard<T>(f: impl FnOnce() -> T) -> Option<T> {
    catch_unwind(AssertUnwindSafe(f)).ok()
}

pub struct Kv(pub BTreeMap<String, String>);
impl Kv {
    pub fn parse(op: &str) -> Kv {
        let mut m = BTreeMap::new();
        for w in op.split_whitespace() {
            if let Some((k, v)) = w.split_once('=') {
                m.insert(k.to_string(), v.to_string());
            }
        }
        Kv(m)
    }
    pub fn s(&self, k: &str) -> &str {
        self.0.get(k).map(|s| s.as_str()).unwrap_or_else(|| panic!("missing field {}", k))
    }
    pub fn opt(&self, k: &str) -> Option<&str> {
        self.0.get(k).map(|s| s.as_str())
    }
    pub fn u(&self, k: &str) -> u64 {
        self.s(k).parse().unwrap_or_else(|_| panic!("bad int {}", k))
    }
    pub fn b(&self, k: &str) -> Vec<u8> {
        unhex(self.s(k))
    }
    pub fn flag(&self, k: &str) -> bool {
        self.opt(k) == Some("1")
    }
}

/// hex up to 24 octets, otherwise `#len:hash` (h = h*31 + b mod 2^30 from 7); same in drv_wire.ml
pub fn show_bytes(b: &[u8]) -> String {
    if b.len() <= 24 {
        hex(b)
    } else {
        let mut h: u64 = 7;
        for x in b {
            h = (h * 31 + *x as u64) & 0x3fff_ffff;
        }
        format!("#{}:{:x}", b.len(), h)
    }
}

/// accessor result: value or PANIC
pub fn acc<T>(f: impl FnOnce() -> T, show: impl FnOnce(T) -> String) -> String {
    match guard(f) {
        Some(v) => show(v),
        None => "PANIC".to_string(),
    }
}

pub fn caps(tx: bool, rx: bool) -> ChecksumCapabilities {
    let c = match (tx, rx) {
        (true, true) => Checksum::Both,
        (true, false) => Checksum::Tx,
        (false, true) => Checksum::Rx,
        (false, false) => Checksum::None,
    };
    let mut cc = ChecksumCapabilities::default();
    cc.ipv4 = c;
    cc.udp = c;
    cc.tcp = c;
    cc.icmpv4 = c;
    cc.icmpv6 = c;
    cc
}

// ---------- generators ----------

pub fn gen_u8(r: &mut Rng) -> u8 {
    match r.below(8) {
        0 => 0,
        1 => 1,
        2 => 0xff,
        3 => 0xfe,
        4 => 0x7f,
        5 => 0x80,
        _ => r.next() as u8,
    }
}

pub fn gen_u16(r: &mut Rng) -> u16 {
    match r.below(10) {
        0 => 0,
        1 => 1,
        2 => 0xffff,
        3 => 0xfffe,
        4 => 0x7fff,
        5 => 0x8000,
        6 => 0x00ff,
        7 => 0x0100,
        _ => r.next() as u16,
    }
}

pub fn gen_u32(r: &mut Rng) -> u32 {
    match r.below(10) {
        0 => 0,
        1 => 1,
        2 => 0xffff_ffff,
        3 => 0xffff_fffe,
        4 => 0x7fff_ffff,
        5 => 0x8000_0000,
        6 => 0x0000_ffff,
        7 => 0x0001_0000,
        _ => r.next() as u32,
    }
}

pub fn gen_mac(r: &mut Rng) -> [u8; 6] {
    let mut a = [0u8; 6];
    match r.below(6) {
        0 => a = [0xff; 6],
        1 => a = [0; 6],
        2 => a = [0x01, 0x00, 0x5e, 0, 0, 1],
        3 => a = [0x33, 0x33, 0, 0, 0, 1],
        _ => {
            for x in a.iter_mut() {
                *x = r.next() as u8
            }
        }
    }
    a
}

pub fn gen_ipv4(r: &mut Rng) -> [u8; 4] {
    match r.below(8) {
        0 => [0, 0, 0, 0],
        1 => [255, 255, 255, 255],
        2 => [127, 0, 0, 1],
        3 => [224, 0, 0, 1],
        4 => [10, 0, 0, 255],
        5 => [169, 254, 1, 1],
        _ => (r.next() as u32).to_be_bytes(),
    }
}

/// "Almost special" IPv6 addresses: one step away from a class the stack (and LOWPAN_IPHC in
/// particular) treats specially.  `ext` / `short` are the link-layer addresses the interface
/// identifiers are derived from (random ones when None).
///   fe80::/10 outside fe80::/64 (non-zero bits 10..63);  ffFS:: with every flags / scope nibble in
///   the 8-, 32-, 48- and 128-bit forms;  solicited-node ff02::1:ffXX:XXXX and its neighbours
///   (ff02::1:feXX…, ff02::2:ff…, scope != 2);  ::ffff:a.b.c.d, ::a.b.c.d, ::1, ::, 64:ff9b::/96;
///   IID = EUI-64 of the extended address exactly / one bit off / without the universal-local flip;
///   IID = 0000:00ff:fe00:XXXX of the short address exactly / one bit off, under the link-local,
///   a global and a site-local prefix.
pub fn gen_ipv6_special(r: &mut Rng, ext: Option<[u8; 8]>, short: Option<[u8; 2]>) -> [u8; 16] {
    let mut a = [0u8; 16];
    let ext = ext.unwrap_or_else(|| {
        let mut e = [0u8; 8];
        for x in e.iter_mut() {
            *x = r.next() as u8
        }
        e
    });
    let short = short.unwrap_or_else(|| [r.next() as u8, r.next() as u8]);
    // interface identifier
    let mut iid = [0u8; 8];
    match r.below(8) {
        0 => {
            iid.copy_from_slice(&ext);
            iid[0] ^= 0x02; // EUI-64
        }
        1 => iid.copy_from_slice(&ext), // universal/local bit NOT flipped
        2 => {
            iid.copy_from_slice(&ext);
            iid[0] ^= 0x02;
            let bit = r.below(64) as usize;
            iid[bit / 8] ^= 1 << (bit % 8); // one bit off the EUI-64
        }
        3 => iid = [0, 0, 0, 0xff, 0xfe, 0, short[0], short[1]],
        4 => {
            iid = [0, 0, 0, 0xff, 0xfe, 0, short[0], short[1]];
            let bit = r.below(64) as usize;
            iid[bit / 8] ^= 1 << (bit % 8); // one bit off the short-address form
        }
        5 => iid = [0, 0, 0, 0, 0, 0, 0, r.below(3) as u8],
        6 => iid = [0xff; 8],
        _ => {
            for x in iid.iter_mut() {
                *x = r.next() as u8
            }
        }
    }
    match r.below(14) {
        0 => {
            // link-local scope, non-zero subnet bits: fe80:0:0:1::/64
            a[0] = 0xfe;
            a[1] = 0x80;
            a[7] = 1;
            a[8..].copy_from_slice(&iid);
        }
        1 => {
            // fe9a:7::/64, febf:ffff:ffff:ffff::/64, fe80 + one bit in octets 1..8
            match r.below(3) {
                0 => a[..8].copy_from_slice(&[0xfe, 0x9a, 0, 7, 0, 0, 0, 0]),
                1 => a[..8].copy_from_slice(&[0xfe, 0xbf, 0xff, 0xff, 0xff, 0xff, 0xff, 0xff]),
                _ => {
                    a[0] = 0xfe;
                    a[1] = 0x80;
                    let bit = r.range(10, 63) as usize;
                    a[bit / 8] |= 0x80 >> (bit % 8);
                }
            }
            a[8..].copy_from_slice(&iid);
        }
        2 => {
            // exact fe80::/64 with the special IIDs
            a[0] = 0xfe;
            a[1] = 0x80;
            a[8..].copy_from_slice(&iid);
        }
        3 => {
            // just outside fe80::/10: fec0:: (site-local), fe00::, fe7f:…
            a[0] = 0xfe;
            a[1] = *r.pick(&[0xc0u8, 0x00, 0x7f, 0x40]);
            a[8..].copy_from_slice(&iid);
        }
        4 => {
            // global / ULA prefixes with the special IIDs (context-based compression candidates)
            let pre: [u8; 8] = *r.pick(&[[0x20u8, 0x01, 0x0d, 0xb8, 0, 0, 0, 1], [0x20, 0x01, 0x0d, 0xb8, 0, 0, 0, 0], [0xfd, 0, 0, 0, 0, 0, 0, 0], [0xfc, 0, 0, 0, 0, 0, 0, 1]]);
            a[..8].copy_from_slice(&pre);
            a[8..].copy_from_slice(&iid);
        }
        5 => {
            // ffFS::XX : every flags / scope nibble, 8-bit group id
            a[0] = 0xff;
            a[1] = r.next() as u8;
            a[15] = *r.pick(&[1u8, 2, 0xfb, 0, 0xff]);
        }
        6 => {
            // 32-bit form ffFS::00XX:XXXX and one octet beyond it
            a[0] = 0xff;
            a[1] = r.next() as u8;
            a[13] = r.next() as u8;
            a[14] = r.next() as u8;
            a[15] = r.next() as u8;
            if r.chance(1, 3) {
                a[12] = 1;
            }
        }
        7 => {
            // 48-bit form ffFS::00XX:XXXX:XXXX and one octet beyond it
            a[0] = 0xff;
            a[1] = r.next() as u8;
            for x in a[11..].iter_mut() {
                *x = r.next() as u8
            }
            if r.chance(1, 3) {
                a[*r.pick(&[2usize, 5, 10])] = 1;
            }
        }
        8 => {
            // solicited-node and its neighbours
            a[0] = 0xff;
            a[1] = *r.pick(&[0x02u8, 0x02, 0x02, 0x01, 0x05, 0x12, 0x0e]);
            a[11] = *r.pick(&[1u8, 1, 1, 2, 0]);
            a[12] = *r.pick(&[0xffu8, 0xff, 0xff, 0xfe, 0x7f]);
            a[13] = iid[5];
            a[14] = iid[6];
            a[15] = iid[7];
        }
        9 => {
            // IPv4-mapped / IPv4-compatible
            if r.chance(2, 3) {
                a[10] = 0xff;
                a[11] = 0xff;
            }
            a[12..].copy_from_slice(&gen_ipv4(r));
        }
        10 => {
            // NAT64 well-known prefix 64:ff9b::/96 (and one bit off)
            a[..4].copy_from_slice(&[0x00, 0x64, 0xff, 0x9b]);
            if r.chance(1, 4) {
                a[7] = 1;
            }
            a[12..].copy_from_slice(&gen_ipv4(r));
        }
        11 => a[15] = *r.pick(&[1u8, 0, 2]), // ::1, ::, ::2
        12 => {
            // all-nodes / all-routers / mDNS / all-DHCP, and the same group under another scope
            a[0] = 0xff;
            a[1] = *r.pick(&[0x02u8, 0x02, 0x01, 0x05, 0x0e, 0x03]);
            match r.below(4) {
                0 => a[15] = 1,
                1 => a[15] = 2,
                2 => a[15] = 0xfb,
                _ => {
                    a[13] = 1;
                    a[15] = 2
                }
            }
        }
        _ => {
            // multicast with flags and a full-width group id
            a[0] = 0xff;
            a[1] = r.next() as u8;
            a[2..10].copy_from_slice(&iid);
            a[15] = r.next() as u8;
        }
    }
    a
}

pub fn gen_ipv6(r: &mut Rng) -> [u8; 16] {
    if r.chance(1, 3) {
        return gen_ipv6_special(r, None, None);
    }
    let mut a = [0u8; 16];
    match r.below(9) {
        0 => {}
        1 => a[15] = 1,
        2 => {
            a[0] = 0xff;
            a[1] = 0x02;
            a[15] = 1
        }
        3 => {
            a[0] = 0xfe;
            a[1] = 0x80;
            for x in a[8..].iter_mut() {
                *x = r.next() as u8
            }
        }
        4 => {
            a[10] = 0xff;
            a[11] = 0xff;
            for x in a[12..].iter_mut() {
                *x = r.next() as u8
            }
        }
        5 => a = [0xff; 16],
        6 => {
            a[0] = 0xff;
            a[1] = 0x05;
            a[3] = 1;
            a[11] = 1;
            a[15] = 3
        }
        _ => {
            for x in a.iter_mut() {
                *x = r.next() as u8
            }
        }
    }
    a
}

/// payload length: boundaries around 0, small sizes, MTU edges; up to 1500 (9216 in thorough)
pub fn gen_payload_len(r: &mut Rng, tier: &str, max: usize) -> usize {
    let big = if tier == "thorough" { 9216 } else { 1500 };
    let l = match r.below(16) {
        0 => 0,
        1 => 1,
        2 => 2,
        3 => 3,
        4 => 7,
        5 => 8,
        6 => 9,
        7 => r.below(64) as usize,
        8 => 1472,
        9 => 1480,
        10 => 1500 - r.below(4) as usize,
        11 => big,
        12 => r.below(big as u64 + 1) as usize,
        _ => r.below(200) as usize,
    };
    l.min(max)
}

pub fn gen_payload(r: &mut Rng, len: usize) -> Vec<u8> {
    match r.below(4) {
        0 => vec![0u8; len],
        1 => vec![0xffu8; len],
        _ => r.bytes(len),
    }
}

/// the initial buffers every repr is emitted into: zeros, 0xff, 0xa5, random garbage
pub fn gen_buffers(r: &mut Rng, len: usize) -> Vec<Vec<u8>> {
    vec![vec![0u8; len], vec![0xffu8; len], vec![0xa5u8; len], r.bytes(len)]
}

/// Byte strings of a `-parse` case derived from one well-formed packet:
/// the packet, truncations, single-field boundary corruptions, extensions, random bytes.
/// `fields` = (lo, hi) byte ranges of the format's header fields.
pub fn mutations(r: &mut Rng, base: &[u8], fields: &[(usize, usize)], tier: &str) -> Vec<Vec<u8>> {
    let mut out: Vec<Vec<u8>> = vec![base.to_vec()];
    let l = base.len();
    // truncations: every prefix for short packets; all prefixes up to 72 + samples otherwise
    let dense = if tier == "thorough" { 160 } else { 72 };
    for k in 0..l.min(dense) {
        out.push(base[..k].to_vec());
    }
    if l > dense {
        for _ in 0..6 {
            out.push(base[..r.range(dense as i64, l as i64 - 1) as usize].to_vec());
        }
        out.push(base[..l - 1].to_vec());
    }
    // single-field corruptions with boundary values
    for &(lo, hi) in fields {
        if hi > l {
            continue;
        }
        let w = hi - lo;
        let mut vals: Vec<u64> = vec![0, 1, u64::MAX];
        if w <= 4 {
            let max = if w == 4 { 0xffff_ffffu64 } else { (1u64 << (8 * w)) - 1 };
            vals.extend_from_slice(&[max - 1, max / 2, max / 2 + 1]);
            for d in [0i64, 1, -1, 2, 4, -4, 8, -8, 20, -20] {
                let v = l as i64 + d;
                if v >= 0 {
                    vals.push(v as u64 & max);
                }
            }
            for v in [2u64, 3, 4, 5, 6, 7, 8, 9, 10, 14, 15, 16, 19, 20, 21, 26, 34, 39, 40, 41, 60] {
                vals.push(v & max);
            }
            vals.push(r.next() & max);
        }
        for v in vals {
            let mut b = base.to_vec();
            if v == u64::MAX {
                for x in b[lo..hi].iter_mut() {
                    *x = 0xff
                }
            } else {
                for i in 0..w {
                    let sh = 8 * (w - 1 - i);
                    b[lo + i] = if sh >= 64 { 0 } else { (v >> sh) as u8 };
                }
            }
            out.push(b);
        }
        // nibble-level corruption of the first octet of the field
        for v in [0x0fu8, 0xf0, 0x40, 0x45, 0x4f, 0x50, 0x60, 0x6f, 0x5f] {
            let mut b = base.to_vec();
            b[lo] = v;
            out.push(b);
        }
    }
    // random single-byte corruptions and bit flips
    if l > 0 {
        for _ in 0..8 {
            let mut b = base.to_vec();
            let i = r.below(l as u64) as usize;
            b[i] = gen_u8(r);
            out.push(b);
        }
        for _ in 0..6 {
            let mut b = base.to_vec();
            let i = r.below(l as u64) as usize;
            b[i] ^= 1 << r.below(8);
            out.push(b);
        }
    }
    // extension with trailing bytes
    for k in [1usize, 2, 7, 8, 40] {
        let mut b = base.to_vec();
        b.extend(r.bytes(k));
        out.push(b);
    }
    // random byte strings 0..=2048
    for _ in 0..8 {
        let n = match r.below(6) {
            0 => r.below(16) as usize,
            1 => r.below(64) as usize,
            2 => r.below(2049) as usize,
            3 => 2048,
            _ => r.below(128) as usize,
        };
        let mut b = r.bytes(n);
        // half of them start like the base packet so that the header checks pass more often
        if r.chance(1, 2) {
            let k = n.min(l).min(r.below(24) as usize + 1);
            b[..k].copy_from_slice(&base[..k]);
        }
        out.push(b);
    }
    out
}
