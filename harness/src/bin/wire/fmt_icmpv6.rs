//! ICMPv6, RFC 4443 messages: streams wire-icmpv6-emit / wire-icmpv6-parse.
//! Repr fields: kind (0 dst unreachable, 1 pkt too big, 2 time exceeded, 3 param problem, 4 echo request,
//! 5 echo reply), ident, seq, reason, word (mtu / pointer), embedded header h*, data; context src/dst
//! (pseudo header), tx/rx = caps.icmpv6.  For NDISC / MLD message types the parse result is printed
//! as DELEGATED (NdiscRepr / MldRepr are other formats); accessors: those of the packet's own type.
use super::common::*;
use smoltcp::wire::*;
use svh::*;

fn a16(b: &[u8]) -> Ipv6Address {
    let mut a = [0u8; 16];
    a.copy_from_slice(b);
    Ipv6Address::from(a)
}

fn hdr_fields(h: &Ipv6Repr) -> String {
    format!("hsrc={} hdst={} hnxt={} hplen={} hhop={}", hex(&h.src_addr.octets()), hex(&h.dst_addr.octets()), u8::from(h.next_header), h.payload_len, h.hop_limit)
}

fn show_repr(r: &Icmpv6Repr) -> String {
    match r {
        Icmpv6Repr::DstUnreachable { reason, header, data } => format!("Ok kind=0 reason={} {} data={}", u8::from(*reason), hdr_fields(header), show_bytes(data)),
        Icmpv6Repr::PktTooBig { mtu, header, data } => format!("Ok kind=1 word={} {} data={}", mtu, hdr_fields(header), show_bytes(data)),
        Icmpv6Repr::TimeExceeded { reason, header, data } => format!("Ok kind=2 reason={} {} data={}", u8::from(*reason), hdr_fields(header), show_bytes(data)),
        Icmpv6Repr::ParamProblem { reason, pointer, header, data } => format!("Ok kind=3 reason={} word={} {} data={}", u8::from(*reason), pointer, hdr_fields(header), show_bytes(data)),
        Icmpv6Repr::EchoRequest { ident, seq_no, data } => format!("Ok kind=4 ident={} seq={} data={}", ident, seq_no, show_bytes(data)),
        Icmpv6Repr::EchoReply { ident, seq_no, data } => format!("Ok kind=5 ident={} seq={} data={}", ident, seq_no, show_bytes(data)),
        _ => "DELEGATED".into(),
    }
}

fn gen_fields(r: &mut Rng, tier: &str, small: bool) -> String {
    let kind = r.below(6);
    let ctx = format!("src={} dst={}", hex(&gen_ipv6(r)), hex(&gen_ipv6(r)));
    if kind >= 4 {
        let n = if small { gen_payload_len(r, tier, 1452).min(48) } else { gen_payload_len(r, tier, 9000) };
        format!("kind={} ident={} seq={} data={} {}", kind, gen_u16(r), gen_u16(r), hex(&gen_payload(r, n)), ctx)
    } else {
        let reason = match kind {
            0 => draw_raw::<Icmpv6DstUnreachable>(r),
            2 => draw_raw::<Icmpv6TimeExceeded>(r),
            3 => draw_raw::<Icmpv6ParamProblem>(r),
            _ => 0,
        } as u8;
        let word = if kind == 1 || kind == 3 { gen_u32(r) } else { 0 };
        let n = if small { *r.pick(&[0usize, 1, 8, 20, 48]) } else { *r.pick(&[0usize, 1, 8, 64, 1191, 1192, 500]) };
        let n = if r.chance(1, 3) { r.range(0, if small { 48 } else { 1192 }) as usize } else { n };
        format!(
            "kind={} reason={} word={} hsrc={} hdst={} hproto={} hplen={} hhop={} data={} {}",
            kind,
            reason,
            word,
            hex(&gen_ipv6(r)),
            hex(&gen_ipv6(r)),
            draw_raw::<IpProtocol>(r) as u8,
            gen_u16(r),
            gen_u8(r),
            hex(&gen_payload(r, n)),
            ctx
        )
    }
}

fn with_repr<T>(kv: &Kv, f: impl FnOnce(Icmpv6Repr) -> T) -> T {
    let data = kv.b("data");
    let hdr = |kv: &Kv| Ipv6Repr { src_addr: a16(&kv.b("hsrc")), dst_addr: a16(&kv.b("hdst")), next_header: of_raw::<IpProtocol>((kv.u("hproto") as u8) as u32), payload_len: kv.u("hplen") as usize, hop_limit: kv.u("hhop") as u8 };
    let repr = match kv.u("kind") {
        0 => Icmpv6Repr::DstUnreachable { reason: of_raw::<Icmpv6DstUnreachable>((kv.u("reason") as u8) as u32), header: hdr(kv), data: &data },
        1 => Icmpv6Repr::PktTooBig { mtu: kv.u("word") as u32, header: hdr(kv), data: &data },
        2 => Icmpv6Repr::TimeExceeded { reason: of_raw::<Icmpv6TimeExceeded>((kv.u("reason") as u8) as u32), header: hdr(kv), data: &data },
        3 => Icmpv6Repr::ParamProblem { reason: of_raw::<Icmpv6ParamProblem>((kv.u("reason") as u8) as u32), pointer: kv.u("word") as u32, header: hdr(kv), data: &data },
        4 => Icmpv6Repr::EchoRequest { ident: kv.u("ident") as u16, seq_no: kv.u("seq") as u16, data: &data },
        _ => Icmpv6Repr::EchoReply { ident: kv.u("ident") as u16, seq_no: kv.u("seq") as u16, data: &data },
    };
    f(repr)
}

fn gen_emit(r: &mut Rng, tier: &str) -> Vec<String> {
    let fields = gen_fields(r, tier, false);
    let kv = Kv::parse(&fields);
    let len = with_repr(&kv, |x| x.buffer_len());
    let (tx, rx) = (r.chance(3, 4), r.chance(3, 4));
    gen_buffers(r, len).iter().map(|b| format!("emit buf={} {} tx={} rx={}", hex(b), fields, tx as u8, rx as u8)).collect()
}

fn gen_parse(r: &mut Rng, tier: &str) -> Vec<String> {
    let fields = gen_fields(r, tier, true);
    let kv = Kv::parse(&fields);
    let len = with_repr(&kv, |x| x.buffer_len());
    let mut base = vec![0u8; len];
    let (src, dst) = (a16(&kv.b("src")), a16(&kv.b("dst")));
    with_repr(&kv, |x| x.emit(&src, &dst, &mut Icmpv6Packet::new_unchecked(&mut base[..]), &caps(true, true)));
    let rx = r.chance(1, 2);
    let mut fl = vec![(0, 1), (1, 2), (2, 4), (4, 6), (6, 8)];
    if kv.u("kind") < 4 {
        fl.extend_from_slice(&[(4, 8), (8, 9), (12, 14), (14, 15), (15, 16), (16, 32), (32, 48)]);
    }
    let mut out: Vec<Vec<u8>> = mutations(r, &base, &fl, tier);
    // every message type value (incl. NDISC / MLD / RPL / unknown) on the same body
    for t in [0u8, 1, 2, 3, 4, 5, 127, 128, 129, 130, 131, 132, 133, 134, 135, 136, 137, 138, 143, 155, 200, 255] {
        let mut b = base.clone();
        if !b.is_empty() {
            b[0] = t;
            out.push(b.clone());
            if b.len() > 1 {
                b[1] = 0;
                out.push(b);
            }
        }
    }
    out.iter().map(|b| format!("parse bytes={} src={} dst={} rx={}", hex(b), kv.s("src"), kv.s("dst"), rx as u8)).collect()
}

fn run_op(op: &str) -> String {
    let kv = Kv::parse(op);
    let cc = caps(kv.flag("tx"), kv.flag("rx"));
    let (src, dst) = (a16(&kv.b("src")), a16(&kv.b("dst")));
    let parse = |b: &[u8]| {
        let p = Icmpv6Packet::new_unchecked(b);
        // NDISC / MLD messages with code 0 are parsed by NdiscRepr / MldRepr (other formats): still called
        // (a panic is reported), the result is canonicalised as DELEGATED
        let delegated = guard(|| b.len() >= 2 && (p.msg_type().is_ndisc() || p.msg_type().is_mld()) && p.msg_code() == 0 && p.check_len().is_ok()).unwrap_or(false);
        acc(|| Icmpv6Repr::parse(&src, &dst, &p, &cc).map(|r| show_repr(&r)), |x| match x {
            Ok(s) => s,
            Err(_) if delegated && (!cc.icmpv6.rx() || p.verify_checksum(&src, &dst)) => "DELEGATED".into(),
            Err(_) => "Err".into(),
        })
    };
    if op.starts_with("emit") {
        let mut buf = kv.b("buf");
        match guard(|| with_repr(&kv, |x| x.emit(&src, &dst, &mut Icmpv6Packet::new_unchecked(&mut buf[..]), &cc))) {
            None => "ret PANIC | -".to_string(),
            Some(()) => format!("ret {} | {}", show_bytes(&buf), parse(&buf)),
        }
    } else {
        let bytes = kv.b("bytes");
        let chk = acc(|| Icmpv6Packet::new_checked(&bytes[..]).is_ok(), |ok| if ok { "ok".into() } else { "err".into() });
        let mut s = format!("chk {}", chk);
        if chk == "ok" {
            let p = Icmpv6Packet::new_unchecked(&bytes[..]);
            s += &format!(
                " acc type={} code={} ck={} hlen={} payload={} vck={}",
                acc(|| p.msg_type(), |t| u8::from(t).to_string()),
                acc(|| p.msg_code(), |t| t.to_string()),
                acc(|| p.checksum(), |t| t.to_string()),
                acc(|| p.header_len(), |t| t.to_string()),
                acc(|| p.payload().to_vec(), |a| show_bytes(&a)),
                acc(|| p.verify_checksum(&src, &dst), |t| (t as u8).to_string()),
            );
            let ty = bytes[0];
            if ty == 128 || ty == 129 {
                s += &format!(" ident={} seq={}", acc(|| p.echo_ident(), |t| t.to_string()), acc(|| p.echo_seq_no(), |t| t.to_string()));
            } else if ty == 2 {
                s += &format!(" mtu={}", acc(|| p.pkt_too_big_mtu(), |t| t.to_string()));
            } else if ty == 4 {
                s += &format!(" ptr={}", acc(|| p.param_problem_ptr(), |t| t.to_string()));
            }
        }
        format!("{} parse {}", s, parse(&bytes))
    }
}

pub const FORMAT: Format = Format { name: "icmpv6", gen_emit, gen_parse, run_op };
