//! placeholder (being written)
use std::io::Write;
use svh::*;
pub fn run(_seed: u64, _n: usize, _tier: &str, out: &mut dyn Write) {
    writeln!(out, "STATS {{\"cases\":0}}").unwrap();
}
pub fn replay(_c: &Case, _out: &mut dyn Write) {}
