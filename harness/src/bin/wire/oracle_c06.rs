//! C06 oracle: for every Repr type exported by smoltcp::wire (harness feature set; RPL and IPsec
//! are behind non-default features), generated representations within the documented field
//! ranges are emitted by the real `Repr::emit` into 0x00-, 0xff-, 0xa5- and random-filled
//! buffers of `buffer_len()`; the outputs must be identical, parse back to an equal repr, and
//! every repr obtained by parsing a mutated emitted packet must re-emit and re-parse to itself.
//!
//! Failure classes (`<type>-<kind>`, stable):
//!   emit-panic, emit-depends-on-buffer, roundtrip-parse-error, roundtrip-mismatch, parse-panic,
//!   reemit-panic, reemit-depends-on-buffer, reparse-parse-error, reparse-mismatch
//!
//! An oracle case is `case <id> fmt=oracle kind=c06 type=<type>` with one op `seed <u64> <tier>`:
//! the whole check of that case (generated repr, buffers, mutations) is a function of the seed.
//!
//! To add a type: implement `WireType` and add `run_type::<T>` to `TYPES`.
#![allow(dead_code)]
use super::super::common::*;
use super::arms;
use smoltcp::phy::ChecksumCapabilities;
use smoltcp::wire::*;
use std::collections::BTreeMap;
use std::fmt::Debug;
use std::io::Write;
use svh::*;

pub struct Fail {
    pub class: String,
    pub detail: String,
}

pub trait WireType {
    /// owned description of a representation + the context its parse needs (addresses …)
    type R: Debug + PartialEq + Clone;
    const NAME: &'static str;
    fn gen(r: &mut Rng, tier: &str) -> Self::R;
    /// `Repr::buffer_len()` (the declared length)
    fn buffer_len(x: &Self::R) -> usize;
    /// octets that follow a header-only representation so that it can be parsed back
    fn trailer(_x: &Self::R) -> Vec<u8> {
        vec![]
    }
    /// real `Repr::emit` into a buffer of exactly `buffer_len`
    fn emit(x: &Self::R, buf: &mut [u8]);
    /// real `Repr::parse` (None = Err); context (addresses, caps) taken from `ctx`
    fn parse(buf: &[u8], ctx: &Self::R) -> Option<Self::R>;
    /// the property's proviso for representations obtained by parsing (default: none)
    fn wf(_x: &Self::R) -> bool {
        true
    }
    /// header field ranges used for boundary corruptions
    fn fields() -> Vec<(usize, usize)> {
        vec![]
    }
    /// false for types that have no `Repr::parse` (emit-only check)
    const HAS_PARSE: bool = true;
    /// explicit `k=v …` form of a representation for hand-written / corpus witnesses (`repr …` op)
    fn encode(_x: &Self::R) -> Option<String> {
        None
    }
    fn decode(_kv: &Kv) -> Option<Self::R> {
        None
    }
}

fn fills(r: &mut Rng, len: usize) -> Vec<(&'static str, Vec<u8>)> {
    vec![("00", vec![0u8; len]), ("ff", vec![0xffu8; len]), ("a5", vec![0xa5u8; len]), ("random", r.bytes(len))]
}

fn emit_all<T: WireType>(r: &mut Rng, x: &T::R, what: &str, fails: &mut Vec<Fail>) -> Option<Vec<u8>> {
    let len = match guard(|| T::buffer_len(x)) {
        Some(l) => l,
        None => {
            fails.push(Fail { class: format!("{}-{}-panic", T::NAME, what), detail: format!("buffer_len() panicked for {:?}", x) });
            return None;
        }
    };
    let trailer = T::trailer(x);
    let mut outs: Vec<(&str, Vec<u8>)> = vec![];
    for (name, mut buf) in fills(r, len) {
        if guard(|| T::emit(x, &mut buf[..])).is_none() {
            fails.push(Fail {
                class: format!("{}-{}-panic", T::NAME, what),
                detail: format!("emit into a {}-filled buffer of buffer_len()={} panicked for {:?}", name, len, x),
            });
            return None;
        }
        buf.extend_from_slice(&trailer);
        outs.push((name, buf));
    }
    for (name, o) in &outs[1..] {
        if *o != outs[0].1 {
            fails.push(Fail {
                class: format!("{}-{}-depends-on-buffer", T::NAME, what),
                detail: format!("{:?}: zero-filled buffer gives {} but {}-filled buffer gives {}", x, hex(&outs[0].1), name, hex(o)),
            });
            return Some(outs[0].1.clone());
        }
    }
    Some(outs[0].1.clone())
}

pub fn check<T: WireType>(r: &mut Rng, tier: &str, explicit: Option<&Kv>, stats: &mut BTreeMap<String, u64>) -> (Vec<Fail>, Option<String>) {
    let x = match explicit {
        Some(kv) => match T::decode(kv) {
            Some(x) => x,
            None => return (vec![Fail { class: format!("{}-bad-witness", T::NAME), detail: "cannot decode the explicit repr".into() }], None),
        },
        None => T::gen(r, tier),
    };
    let enc = T::encode(&x);
    (check_repr::<T>(r, tier, x, stats), enc)
}

pub fn check_repr<T: WireType>(r: &mut Rng, tier: &str, x: T::R, stats: &mut BTreeMap<String, u64>) -> Vec<Fail> {
    let mut fails = vec![];
    *stats.entry("reprs".into()).or_default() += 1;
    let out = match emit_all::<T>(r, &x, "emit", &mut fails) {
        Some(o) => o,
        None => return fails,
    };
    if !T::HAS_PARSE {
        return fails;
    }
    match guard(|| T::parse(&out, &x)) {
        None => fails.push(Fail { class: format!("{}-parse-panic", T::NAME), detail: format!("parse of emitted {} panicked ({:?})", hex(&out), x) }),
        Some(None) => fails.push(Fail {
            class: format!("{}-roundtrip-parse-error", T::NAME),
            detail: format!("{:?} emits {} which does not parse", x, hex(&out)),
        }),
        Some(Some(y)) => {
            if y != x {
                fails.push(Fail {
                    class: format!("{}-roundtrip-mismatch", T::NAME),
                    detail: format!("{:?} emits {} which parses as {:?}", x, hex(&out), y),
                });
            }
        }
    }
    // parse(mutated emitted packet) = Ok y  ->  emit y -> parse = Ok y
    let muts = mutations(r, &out, &T::fields(), "quick");
    let take = if tier == "thorough" { 60 } else { 24 };
    let step = (muts.len() / take).max(1);
    let off = r.below(step as u64) as usize;
    // dictionary inputs aimed at rarely taken error / corner arms of this type's parser
    // (wire/arms.rs): same obligation, parse = Ok y -> y re-emits and re-parses to itself
    let directed = arms::directed(T::NAME, r);
    let mut hits = arms::Hits::new();
    for m in muts.iter().skip(off).step_by(step).chain(directed.iter()) {
        arms::observe(T::NAME, m, &mut hits);
        *stats.entry("mutated".into()).or_default() += 1;
        let y = match guard(|| T::parse(m, &x)) {
            None => {
                fails.push(Fail { class: format!("{}-parse-panic", T::NAME), detail: format!("parse of {} panicked", hex(m)) });
                continue;
            }
            Some(None) => continue,
            Some(Some(y)) => y,
        };
        if !T::wf(&y) {
            *stats.entry("reparse_outside_proviso".into()).or_default() += 1;
            continue;
        }
        *stats.entry("reparsed".into()).or_default() += 1;
        let out2 = match emit_all::<T>(r, &y, "reemit", &mut fails) {
            Some(o) => o,
            None => continue,
        };
        match guard(|| T::parse(&out2, &y)) {
            None => fails.push(Fail { class: format!("{}-parse-panic", T::NAME), detail: format!("parse of re-emitted {} panicked", hex(&out2)) }),
            Some(None) => fails.push(Fail {
                class: format!("{}-reparse-parse-error", T::NAME),
                detail: format!("{} parses as {:?}, which re-emits as {} and then does not parse", hex(m), y, hex(&out2)),
            }),
            Some(Some(z)) => {
                if z != y {
                    fails.push(Fail {
                        class: format!("{}-reparse-mismatch", T::NAME),
                        detail: format!("{} parses as {:?}, re-emits as {}, which parses as {:?}", hex(m), y, hex(&out2), z),
                    });
                }
            }
        }
    }
    for (k, v) in hits {
        *stats.entry(format!("arm_{}", k)).or_default() += v;
    }
    fails
}

pub type RunFn = fn(&mut Rng, &str, Option<&Kv>, &mut BTreeMap<String, u64>) -> (Vec<Fail>, Option<String>);

#[path = "oracle_c06_types.rs"]
mod types;

pub fn types_list() -> Vec<(&'static str, RunFn)> {
    types::all()
}

fn subseed(seed: u64, i: usize) -> u64 {
    let mut r = Rng::new(seed ^ 0xC06C06);
    let a = r.next();
    a ^ (i as u64).wrapping_mul(0x9E37_79B9_7F4A_7C15)
}

pub fn run(seed: u64, n: usize, tier: &str, out: &mut dyn Write) {
    let types = types_list();
    let mut stats: BTreeMap<String, u64> = BTreeMap::new();
    let mut per_type: BTreeMap<String, u64> = BTreeMap::new();
    let mut per_class: BTreeMap<String, u64> = BTreeMap::new();
    let mut fail_lines: Vec<String> = vec![];
    for i in 0..n {
        let (name, f) = types[i % types.len()];
        let s = subseed(seed, i);
        let mut rng = Rng::new(s);
        let (fails, enc) = f(&mut rng, tier, None, &mut stats);
        *per_type.entry(name.into()).or_default() += 1;
        for fl in fails {
            let k = per_class.entry(fl.class.clone()).or_default();
            *k += 1;
            if *k > 3 || fail_lines.len() >= 60 {
                continue;
            }
            writeln!(out, "FAILCASE").unwrap();
            Case { id: format!("o{}-{}", seed, i), cfg: vec![("fmt".into(), "oracle".into()), ("kind".into(), "c06".into()), ("type".into(), name.into())], ops: vec![match &enc {
                Some(e) => format!("repr seed={} tier={} {}", s, tier, e),
                None => format!("seed {} {}", s, tier),
            }] }
                .write(out);
            let mut d = fl.detail.clone();
            if d.len() > 700 {
                d.truncate(700);
                d.push_str("…");
            }
            fail_lines.push(format!("{} :: {}", fl.class, d));
        }
    }
    for l in &fail_lines {
        writeln!(out, "FAIL {}", l).unwrap();
    }
    let st: Vec<String> = stats.iter().map(|(k, v)| format!("{}:{}", jstr(k), v)).collect();
    let pt: Vec<String> = per_type.iter().map(|(k, v)| format!("{}:{}", jstr(&format!("type_{}", k)), v)).collect();
    let pc: Vec<String> = per_class.iter().map(|(k, v)| format!("{}:{}", jstr(&format!("fail_{}", k)), v)).collect();
    let mut all = vec![format!("\"cases\":{}", n), format!("\"types\":{}", types.len())];
    all.extend(st);
    all.extend(pt);
    all.extend(pc);
    writeln!(out, "STATS {{{}}}", all.join(",")).unwrap();
}

pub fn replay(c: &Case, out: &mut dyn Write) {
    let ty = c.get("type").unwrap_or("?");
    let types = types_list();
    let f = match types.iter().find(|(n, _)| *n == ty) {
        Some((_, f)) => *f,
        None => return,
    };
    for fl in replay_fails(c, f) {
        let mut d = fl.detail.clone();
        if d.len() > 700 {
            d.truncate(700);
            d.push_str("…");
        }
        writeln!(out, "FAIL {} :: {}", fl.class, d).unwrap();
    }
}

/// all failures of one oracle case (`seed <s> <tier>` or `repr seed=<s> tier=<t> <k=v …>` ops)
pub fn replay_fails(c: &Case, f: RunFn) -> Vec<Fail> {
    let mut all = vec![];
    for op in &c.ops {
        let t: Vec<&str> = op.split_whitespace().collect();
        let mut stats = BTreeMap::new();
        if t.len() >= 2 && t[0] == "seed" {
            let s: u64 = t[1].parse().unwrap();
            let tier = t.get(2).copied().unwrap_or("quick");
            let mut rng = Rng::new(s);
            all.extend(f(&mut rng, tier, None, &mut stats).0);
        } else if t.len() >= 2 && t[0] == "repr" {
            let kv = Kv::parse(op);
            let s: u64 = kv.opt("seed").and_then(|x| x.parse().ok()).unwrap_or(1);
            let tier = kv.opt("tier").unwrap_or("quick").to_string();
            let mut rng = Rng::new(s);
            all.extend(f(&mut rng, &tier, Some(&kv), &mut stats).0);
        }
    }
    all
}

/// `ok` / `FAIL <classes>` per op: the observation of stream `wire-oracle` (expected: ok)
pub fn run_case(c: &Case, out: &mut dyn Write) {
    let ty = c.get("type").unwrap_or("?");
    let types = types_list();
    for op in &c.ops {
        let one = Case { id: c.id.clone(), cfg: c.cfg.clone(), ops: vec![op.clone()] };
        let line = match types.iter().find(|(n, _)| *n == ty) {
            None => "FAIL unknown-type".to_string(),
            Some((_, f)) => {
                let fl = replay_fails(&one, *f);
                if fl.is_empty() {
                    "ok".to_string()
                } else {
                    let mut cl: Vec<String> = fl.iter().map(|x| x.class.clone()).collect();
                    cl.sort();
                    cl.dedup();
                    format!("FAIL {}", cl.join(" "))
                }
            }
        };
        writeln!(out, "{}", line).unwrap();
    }
}

/// cases of stream `wire-oracle`: the same cases the oracle runs, as replayable blocks
pub fn gen_cases(seed: u64, n: usize, tier: &str, out: &mut dyn Write) {
    // types whose failures are listed as known findings are searched by the oracle only; this stream
    // expects `ok` for every case
    let types: Vec<(&'static str, RunFn)> = types_list().into_iter().filter(|(n, _)| *n != "sixlowpan-iphc-tf" && *n != "ieee802154-outside-layout").collect();
    for i in 0..n {
        let (name, _) = types[i % types.len()];
        Case { id: format!("g{}-{}", seed, i), cfg: vec![("fmt".into(), "oracle".into()), ("kind".into(), "c06".into()), ("type".into(), name.into())], ops: vec![format!("seed {} {}", subseed(seed, i), tier)] }
            .write(out);
    }
}

pub fn caps_default() -> ChecksumCapabilities {
    ChecksumCapabilities::default()
}
