//! IPv6 header: streams wire-ipv6-emit / wire-ipv6-parse.
use super::common::*;
use smoltcp::wire::*;
use svh::*;

fn show_repr(r: &Ipv6Repr) -> String {
    format!("Ok src={} dst={} nxt={} plen={} hop={}", hex(&r.src_addr.octets()), hex(&r.dst_addr.octets()), u8::from(r.next_header), r.payload_len, r.hop_limit)
}

fn a16(b: &[u8]) -> Ipv6Address {
    let mut a = [0u8; 16];
    a.copy_from_slice(b);
    Ipv6Address::from(a)
}

fn gen_nxt(r: &mut Rng) -> u8 {
    draw_raw::<IpProtocol>(r) as u8
}

fn gen_emit(r: &mut Rng, _tier: &str) -> Vec<String> {
    let (src, dst, nxt, hop, plen) = (gen_ipv6(r), gen_ipv6(r), gen_nxt(r), gen_u8(r), gen_u16(r));
    gen_buffers(r, 40 + if plen <= 1500 { plen as usize } else { 0 })
        .iter()
        .map(|b| format!("emit buf={} src={} dst={} nxt={} plen={} hop={}", hex(b), hex(&src), hex(&dst), nxt, plen, hop))
        .collect()
}

fn gen_parse(r: &mut Rng, tier: &str) -> Vec<String> {
    let plen = gen_payload_len(r, tier, 1460).min(if r.chance(3, 4) { 40 } else { 1460 });
    let repr = Ipv6Repr { src_addr: a16(&gen_ipv6(r)), dst_addr: a16(&gen_ipv6(r)), next_header: of_raw::<IpProtocol>((gen_nxt(r)) as u32), payload_len: plen, hop_limit: gen_u8(r) };
    let mut base = vec![0u8; 40 + plen];
    repr.emit(&mut Ipv6Packet::new_unchecked(&mut base[..]));
    let p = gen_payload(r, plen);
    base[40..].copy_from_slice(&p);
    mutations(r, &base, &[(0, 1), (1, 2), (2, 4), (4, 6), (6, 7), (7, 8), (8, 24), (24, 40)], tier)
        .iter()
        .map(|b| format!("parse bytes={}", hex(b)))
        .collect()
}

fn run_op(op: &str) -> String {
    let kv = Kv::parse(op);
    let parse = |b: &[u8]| {
        acc(|| Ipv6Repr::parse(&Ipv6Packet::new_unchecked(b)), |x| match x {
            Ok(r) => show_repr(&r),
            Err(_) => "Err".into(),
        })
    };
    if op.starts_with("emit") {
        let repr = Ipv6Repr { src_addr: a16(&kv.b("src")), dst_addr: a16(&kv.b("dst")), next_header: of_raw::<IpProtocol>((kv.u("nxt") as u8) as u32), payload_len: kv.u("plen") as usize, hop_limit: kv.u("hop") as u8 };
        let mut buf = kv.b("buf");
        match guard(|| repr.emit(&mut Ipv6Packet::new_unchecked(&mut buf[..]))) {
            None => "ret PANIC | -".to_string(),
            Some(()) => format!("ret {} | {}", show_bytes(&buf), parse(&buf)),
        }
    } else {
        let bytes = kv.b("bytes");
        let chk = acc(|| Ipv6Packet::new_checked(&bytes[..]).is_ok(), |ok| if ok { "ok".into() } else { "err".into() });
        let mut s = format!("chk {}", chk);
        if chk == "ok" {
            let p = Ipv6Packet::new_unchecked(&bytes[..]);
            s += &format!(
                " acc ver={} tc={} flow={} plen={} tlen={} nxt={} hop={} src={} dst={} payload={}",
                acc(|| p.version(), |t| t.to_string()),
                acc(|| p.traffic_class(), |t| t.to_string()),
                acc(|| p.flow_label(), |t| t.to_string()),
                acc(|| p.payload_len(), |t| t.to_string()),
                acc(|| p.total_len(), |t| t.to_string()),
                acc(|| p.next_header(), |t| u8::from(t).to_string()),
                acc(|| p.hop_limit(), |t| t.to_string()),
                acc(|| p.src_addr(), |a| show_bytes(&a.octets())),
                acc(|| p.dst_addr(), |a| show_bytes(&a.octets())),
                acc(|| p.payload().to_vec(), |a| show_bytes(&a)),
            );
        }
        format!("{} parse {}", s, parse(&bytes))
    }
}

pub const FORMAT: Format = Format { name: "ipv6", gen_emit, gen_parse, run_op };
