//! ARP: streams wire-arp-emit / wire-arp-parse.
use super::common::*;
use smoltcp::wire::*;
use svh::*;

fn show_repr(r: &ArpRepr) -> String {
    match r {
        ArpRepr::EthernetIpv4 { operation, source_hardware_addr, source_protocol_addr, target_hardware_addr, target_protocol_addr } => format!(
            "Ok op={} sha={} spa={} tha={} tpa={}",
            u16::from(*operation),
            hex(source_hardware_addr.as_bytes()),
            hex(&source_protocol_addr.octets()),
            hex(target_hardware_addr.as_bytes()),
            hex(&target_protocol_addr.octets())
        ),
        _ => "Ok ?".into(),
    }
}

fn gen_op(r: &mut Rng) -> u16 {
    draw_raw::<ArpOperation>(r) as u16
}

fn mk(op: u16, sha: &[u8], spa: &[u8], tha: &[u8], tpa: &[u8]) -> ArpRepr {
    let a4 = |b: &[u8]| Ipv4Address::new(b[0], b[1], b[2], b[3]);
    ArpRepr::EthernetIpv4 {
        operation: of_raw::<ArpOperation>((op) as u32),
        source_hardware_addr: EthernetAddress::from_bytes(sha),
        source_protocol_addr: a4(spa),
        target_hardware_addr: EthernetAddress::from_bytes(tha),
        target_protocol_addr: a4(tpa),
    }
}

fn gen_emit(r: &mut Rng, _tier: &str) -> Vec<String> {
    let (op, sha, spa, tha, tpa) = (gen_op(r), gen_mac(r), gen_ipv4(r), gen_mac(r), gen_ipv4(r));
    gen_buffers(r, 28)
        .iter()
        .map(|b| format!("emit buf={} op={} sha={} spa={} tha={} tpa={}", hex(b), op, hex(&sha), hex(&spa), hex(&tha), hex(&tpa)))
        .collect()
}

fn gen_parse(r: &mut Rng, tier: &str) -> Vec<String> {
    let repr = mk(gen_op(r), &gen_mac(r), &gen_ipv4(r), &gen_mac(r), &gen_ipv4(r));
    let mut base = vec![0u8; 28];
    repr.emit(&mut ArpPacket::new_unchecked(&mut base[..]));
    if r.chance(1, 3) {
        let k = r.below(40) as usize;
        base.extend(r.bytes(k));
    }
    mutations(r, &base, &[(0, 2), (2, 4), (4, 5), (5, 6), (6, 8), (8, 14), (14, 18), (18, 24), (24, 28)], tier)
        .iter()
        .map(|b| format!("parse bytes={}", hex(b)))
        .collect()
}

fn run_op(op: &str) -> String {
    let kv = Kv::parse(op);
    let parse = |b: &[u8]| {
        acc(|| ArpRepr::parse(&ArpPacket::new_unchecked(b)), |x| match x {
            Ok(r) => show_repr(&r),
            Err(_) => "Err".into(),
        })
    };
    if op.starts_with("emit") {
        let repr = mk(kv.u("op") as u16, &kv.b("sha"), &kv.b("spa"), &kv.b("tha"), &kv.b("tpa"));
        let mut buf = kv.b("buf");
        match guard(|| repr.emit(&mut ArpPacket::new_unchecked(&mut buf[..]))) {
            None => "ret PANIC | -".to_string(),
            Some(()) => format!("ret {} | {}", hex(&buf), parse(&buf)),
        }
    } else {
        let bytes = kv.b("bytes");
        let chk = acc(|| ArpPacket::new_checked(&bytes[..]).is_ok(), |ok| if ok { "ok".into() } else { "err".into() });
        let mut s = format!("chk {}", chk);
        if chk == "ok" {
            let p = ArpPacket::new_unchecked(&bytes[..]);
            s += &format!(
                " acc htype={} ptype={} hlen={} plen={} op={} sha={} spa={} tha={} tpa={}",
                acc(|| p.hardware_type(), |t| u16::from(t).to_string()),
                acc(|| p.protocol_type(), |t| u16::from(t).to_string()),
                acc(|| p.hardware_len(), |t| t.to_string()),
                acc(|| p.protocol_len(), |t| t.to_string()),
                acc(|| p.operation(), |t| u16::from(t).to_string()),
                acc(|| p.source_hardware_addr().to_vec(), |a| show_bytes(&a)),
                acc(|| p.source_protocol_addr().to_vec(), |a| show_bytes(&a)),
                acc(|| p.target_hardware_addr().to_vec(), |a| show_bytes(&a)),
                acc(|| p.target_protocol_addr().to_vec(), |a| show_bytes(&a)),
            );
        }
        format!("{} parse {}", s, parse(&bytes))
    }
}

pub const FORMAT: Format = Format { name: "arp", gen_emit, gen_parse, run_op };
