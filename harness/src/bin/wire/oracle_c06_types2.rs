//! C06 oracle adapters, part 2: first-wave formats (also modelled in Coq) and the remaining exported
//! Repr types.  Generators stay inside the documented field ranges / the property's proviso; the
//! reason for every restriction is given next to it.
#![allow(dead_code)]
use crate::common::*;
use crate::oracle::c06::{check, RunFn, WireType};
use smoltcp::time::Duration;
use smoltcp::wire::*;
use svh::*;

pub fn all() -> Vec<(&'static str, RunFn)> {
    vec![
        ("ethernet", check::<Eth>),
        ("arp", check::<Arp>),
        ("ipv4", check::<Ip4>),
        ("ipv6", check::<Ip6>),
        ("udp", check::<Udp>),
        ("tcp", check::<Tcp>),
        ("tcp-option", check::<TcpOpt>),
        ("igmp", check::<Igmp>),
        ("ipv6frag", check::<V6Frag>),
        ("ipv6ext", check::<V6Ext>),
        ("ipv6option", check::<V6Opt>),
        ("ipv6hbh", check::<V6Hbh>),
        ("ipv6routing", check::<V6Routing>),
        ("ndiscoption", check::<NdOpt>),
        ("ndisc", check::<Ndisc>),
        ("mld", check::<Mld>),
        ("mld-record", check::<MldRec>),
        ("dhcpv4", check::<Dhcp>),
        ("ieee802154", check::<I154>),
        (I154_OUTSIDE, check_154_outside),
        ("sixlowpan-frag", check::<SixFrag>),
        ("sixlowpan-nhc-ext", check::<NhcExt>),
    ]
}

fn v6(a: &[u8; 16]) -> Ipv6Address {
    Ipv6Address::from(*a)
}
fn v4(a: &[u8; 4]) -> Ipv4Address {
    Ipv4Address::new(a[0], a[1], a[2], a[3])
}
fn payload_like(n: usize) -> Vec<u8> {
    (0..n).map(|i| (i * 7 + 3) as u8).collect()
}

// ---------------------------------------------------------------- Ethernet
pub struct Eth;
impl WireType for Eth {
    type R = EthernetRepr;
    const NAME: &'static str = "ethernet";
    fn gen(r: &mut Rng, _t: &str) -> EthernetRepr {
        EthernetRepr { src_addr: EthernetAddress(gen_mac(r)), dst_addr: EthernetAddress(gen_mac(r)), ethertype: draw::<EthernetProtocol>(r) }
    }
    fn buffer_len(x: &EthernetRepr) -> usize {
        x.buffer_len()
    }
    fn emit(x: &EthernetRepr, b: &mut [u8]) {
        x.emit(&mut EthernetFrame::new_unchecked(b))
    }
    fn parse(b: &[u8], _c: &EthernetRepr) -> Option<EthernetRepr> {
        EthernetRepr::parse(&EthernetFrame::new_checked(b).ok()?).ok()
    }
    fn fields() -> Vec<(usize, usize)> {
        vec![(0, 6), (6, 12), (12, 14)]
    }
}

// ---------------------------------------------------------------- ARP
pub struct Arp;
impl WireType for Arp {
    type R = ArpRepr;
    const NAME: &'static str = "arp";
    fn gen(r: &mut Rng, _t: &str) -> ArpRepr {
        ArpRepr::EthernetIpv4 {
            operation: draw::<ArpOperation>(r),
            source_hardware_addr: EthernetAddress(gen_mac(r)),
            source_protocol_addr: v4(&gen_ipv4(r)),
            target_hardware_addr: EthernetAddress(gen_mac(r)),
            target_protocol_addr: v4(&gen_ipv4(r)),
        }
    }
    fn buffer_len(x: &ArpRepr) -> usize {
        x.buffer_len()
    }
    fn emit(x: &ArpRepr, b: &mut [u8]) {
        x.emit(&mut ArpPacket::new_unchecked(b))
    }
    fn parse(b: &[u8], _c: &ArpRepr) -> Option<ArpRepr> {
        ArpRepr::parse(&ArpPacket::new_checked(b).ok()?).ok()
    }
    fn fields() -> Vec<(usize, usize)> {
        vec![(0, 2), (2, 4), (4, 5), (5, 6), (6, 8)]
    }
}

// ---------------------------------------------------------------- IPv4 / IPv6 headers
pub struct Ip4;
impl WireType for Ip4 {
    type R = Ipv4Repr;
    const NAME: &'static str = "ipv4";
    fn gen(r: &mut Rng, tier: &str) -> Ipv4Repr {
        // payload_len <= 65515: the total length field has 16 bits
        Ipv4Repr { src_addr: v4(&gen_ipv4(r)), dst_addr: v4(&gen_ipv4(r)), next_header: draw::<IpProtocol>(r), payload_len: gen_payload_len(r, tier, 65515), hop_limit: gen_u8(r) }
    }
    fn buffer_len(x: &Ipv4Repr) -> usize {
        x.buffer_len()
    }
    fn trailer(x: &Ipv4Repr) -> Vec<u8> {
        payload_like(x.payload_len)
    }
    fn emit(x: &Ipv4Repr, b: &mut [u8]) {
        x.emit(&mut Ipv4Packet::new_unchecked(b), &caps(true, true))
    }
    fn parse(b: &[u8], _c: &Ipv4Repr) -> Option<Ipv4Repr> {
        Ipv4Repr::parse(&Ipv4Packet::new_checked(b).ok()?, &caps(true, true)).ok()
    }
    fn fields() -> Vec<(usize, usize)> {
        vec![(0, 1), (2, 4), (6, 8), (8, 9), (9, 10), (10, 12)]
    }
}
pub struct Ip6;
impl WireType for Ip6 {
    type R = Ipv6Repr;
    const NAME: &'static str = "ipv6";
    fn gen(r: &mut Rng, tier: &str) -> Ipv6Repr {
        Ipv6Repr { src_addr: v6(&gen_ipv6(r)), dst_addr: v6(&gen_ipv6(r)), next_header: draw::<IpProtocol>(r), payload_len: gen_payload_len(r, tier, 65535), hop_limit: gen_u8(r) }
    }
    fn buffer_len(x: &Ipv6Repr) -> usize {
        x.buffer_len()
    }
    fn trailer(x: &Ipv6Repr) -> Vec<u8> {
        payload_like(x.payload_len)
    }
    fn emit(x: &Ipv6Repr, b: &mut [u8]) {
        x.emit(&mut Ipv6Packet::new_unchecked(b))
    }
    fn parse(b: &[u8], _c: &Ipv6Repr) -> Option<Ipv6Repr> {
        Ipv6Repr::parse(&Ipv6Packet::new_checked(b).ok()?).ok()
    }
    fn fields() -> Vec<(usize, usize)> {
        vec![(0, 1), (4, 6), (6, 7), (7, 8)]
    }
}

// ---------------------------------------------------------------- UDP
#[derive(Debug, PartialEq, Clone)]
pub struct UdpR {
    sp: u16,
    dp: u16,
    payload: Vec<u8>,
    v6: bool,
    cksum: bool,
}
pub struct Udp;
fn udp_addrs(v6_: bool) -> (IpAddress, IpAddress) {
    if v6_ {
        (IpAddress::Ipv6(Ipv6Address::new(0xfe80, 0, 0, 0, 0, 0, 0, 1)), IpAddress::Ipv6(Ipv6Address::new(0xfe80, 0, 0, 0, 0, 0, 0, 2)))
    } else {
        (IpAddress::v4(10, 0, 0, 1), IpAddress::v4(10, 0, 0, 2))
    }
}
impl WireType for Udp {
    type R = UdpR;
    const NAME: &'static str = "udp";
    fn gen(r: &mut Rng, tier: &str) -> UdpR {
        let n = gen_payload_len(r, tier, 65527);
        let v6_ = r.chance(1, 2);
        // dst_port 0 is rejected by parse; without checksum the datagram is only valid over IPv4
        UdpR { sp: gen_u16(r), dp: gen_u16(r).max(1), payload: gen_payload(r, n), v6: v6_, cksum: v6_ || r.chance(3, 4) }
    }
    fn buffer_len(x: &UdpR) -> usize {
        8 + x.payload.len()
    }
    fn emit(x: &UdpR, b: &mut [u8]) {
        let (s, d) = udp_addrs(x.v6);
        UdpRepr { src_port: x.sp, dst_port: x.dp }.emit(&mut UdpPacket::new_unchecked(b), &s, &d, x.payload.len(), |p| p.copy_from_slice(&x.payload), &caps(x.cksum, true))
    }
    fn parse(b: &[u8], c: &UdpR) -> Option<UdpR> {
        let (s, d) = udp_addrs(c.v6);
        let p = UdpPacket::new_checked(b).ok()?;
        let r = UdpRepr::parse(&p, &s, &d, &caps(c.cksum, true)).ok()?;
        Some(UdpR { sp: r.src_port, dp: r.dst_port, payload: p.payload().to_vec(), v6: c.v6, cksum: c.cksum })
    }
    fn wf(x: &UdpR) -> bool {
        x.payload.len() <= 65527
    }
    fn fields() -> Vec<(usize, usize)> {
        vec![(0, 2), (2, 4), (4, 6), (6, 8)]
    }
}

// ---------------------------------------------------------------- TCP
#[derive(Debug, PartialEq, Clone)]
pub struct TcpR {
    f: String, // the k=v form of fmt_tcp (canonical)
}
pub struct Tcp;
fn tcp_canon(r: &TcpRepr) -> String {
    let o = |x: Option<u64>| x.map(|v| v.to_string()).unwrap_or_else(|| "-".into());
    let p = |x: Option<(u32, u32)>| x.map(|(a, b)| format!("{}:{}", a, b)).unwrap_or_else(|| "-".into());
    format!(
        "sp={} dp={} ctl={} seq={} ack={} win={} ws={} mss={} sackp={} s0={} s1={} s2={} ts={} payload={}",
        r.src_port,
        r.dst_port,
        match r.control {
            TcpControl::None => 0,
            TcpControl::Psh => 1,
            TcpControl::Syn => 2,
            TcpControl::Fin => 3,
            TcpControl::Rst => 4,
        },
        r.seq_number.0 as u32,
        o(r.ack_number.map(|a| a.0 as u32 as u64)),
        r.window_len,
        o(r.window_scale.map(|v| v as u64)),
        o(r.max_seg_size.map(|v| v as u64)),
        r.sack_permitted as u8,
        p(r.sack_ranges[0]),
        p(r.sack_ranges[1]),
        p(r.sack_ranges[2]),
        p(r.timestamp.map(|t| (t.tsval, t.tsecr))),
        hex(r.payload)
    )
}
impl WireType for Tcp {
    type R = TcpR;
    const NAME: &'static str = "tcp";
    fn gen(r: &mut Rng, tier: &str) -> TcpR {
        // fmt_tcp::gen_fields stays inside the proviso: option space <= 40, ws <= 14, SACK ranges a prefix,
        // only with an ACK and without SACK-permitted (D15 decision, see Model/WireTcp.v)
        let small = r.chance(3, 4);
        let f = crate::fmt_tcp::gen_fields(r, tier, small);
        let kv = Kv::parse(&f);
        TcpR { f: crate::fmt_tcp::with_repr(&kv, |x| tcp_canon(&x)) }
    }
    fn buffer_len(x: &TcpR) -> usize {
        crate::fmt_tcp::with_repr(&Kv::parse(&x.f), |r| r.buffer_len())
    }
    fn emit(x: &TcpR, b: &mut [u8]) {
        let (s, d) = udp_addrs(false);
        crate::fmt_tcp::with_repr(&Kv::parse(&x.f), |r| r.emit(&mut TcpPacket::new_unchecked(b), &s, &d, &caps(true, true)))
    }
    fn parse(b: &[u8], _c: &TcpR) -> Option<TcpR> {
        let (s, d) = udp_addrs(false);
        let p = TcpPacket::new_checked(b).ok()?;
        let r = TcpRepr::parse(&p, &s, &d, &caps(true, true)).ok()?;
        Some(TcpR { f: tcp_canon(&r) })
    }
    fn wf(x: &TcpR) -> bool {
        // a parsed repr is re-emittable unless it carries SACK ranges together with SACK-permitted or without ACK
        let kv = Kv::parse(&x.f);
        let any = kv.s("s0") != "-" || kv.s("s1") != "-" || kv.s("s2") != "-";
        !any || (kv.s("ack") != "-" && !kv.flag("sackp"))
    }
    fn fields() -> Vec<(usize, usize)> {
        vec![(0, 2), (2, 4), (12, 13), (13, 14), (14, 16), (20, 21), (21, 22), (22, 23), (24, 25)]
    }
}

// ---------------------------------------------------------------- TcpOption
#[derive(Debug, PartialEq, Clone)]
pub enum TcpOptR {
    End,
    Nop,
    Mss(u16),
    Ws(u8),
    SackPerm,
    Sack([Option<(u32, u32)>; 3]),
    Ts(u32, u32),
    Unknown(u8, Vec<u8>),
}
pub struct TcpOpt;
impl TcpOpt {
    fn with<T>(x: &TcpOptR, f: impl FnOnce(TcpOption) -> T) -> T {
        f(match x {
            TcpOptR::End => TcpOption::EndOfList,
            TcpOptR::Nop => TcpOption::NoOperation,
            TcpOptR::Mss(v) => TcpOption::MaxSegmentSize(*v),
            TcpOptR::Ws(v) => TcpOption::WindowScale(*v),
            TcpOptR::SackPerm => TcpOption::SackPermitted,
            TcpOptR::Sack(s) => TcpOption::SackRange(*s),
            TcpOptR::Ts(a, b) => TcpOption::TimeStamp { tsval: *a, tsecr: *b },
            TcpOptR::Unknown(k, d) => TcpOption::Unknown { kind: *k, data: d },
        })
    }
}
impl WireType for TcpOpt {
    type R = TcpOptR;
    const NAME: &'static str = "tcp-option";
    fn gen(r: &mut Rng, _t: &str) -> TcpOptR {
        match r.below(8) {
            0 => TcpOptR::End,
            1 => TcpOptR::Nop,
            2 => TcpOptR::Mss(gen_u16(r)),
            3 => TcpOptR::Ws(gen_u8(r)),
            4 => TcpOptR::SackPerm,
            5 => {
                // 1..3 ranges, a prefix of the array (a hole is not re-emittable; 0 ranges would be a 2-octet
                // option that parse rejects)
                let n = r.range(1, 3) as usize;
                let mut s = [None, None, None];
                for x in s.iter_mut().take(n) {
                    *x = Some((gen_u32(r), gen_u32(r)));
                }
                TcpOptR::Sack(s)
            }
            6 => TcpOptR::Ts(gen_u32(r), gen_u32(r)),
            _ => {
                // kinds without a dedicated variant
                let k = *r.pick(&[6u8, 7, 9, 30, 254, 255]);
                let n = r.below(12) as usize;
                TcpOptR::Unknown(k, r.bytes(n))
            }
        }
    }
    fn buffer_len(x: &TcpOptR) -> usize {
        Self::with(x, |o| o.buffer_len())
    }
    fn emit(x: &TcpOptR, b: &mut [u8]) {
        Self::with(x, |o| {
            o.emit(b);
        })
    }
    fn parse(b: &[u8], _c: &TcpOptR) -> Option<TcpOptR> {
        let (rest, o) = TcpOption::parse(b).ok()?;
        if !rest.is_empty() {
            return None;
        }
        Some(match o {
            TcpOption::EndOfList => TcpOptR::End,
            TcpOption::NoOperation => TcpOptR::Nop,
            TcpOption::MaxSegmentSize(v) => TcpOptR::Mss(v),
            TcpOption::WindowScale(v) => TcpOptR::Ws(v),
            TcpOption::SackPermitted => TcpOptR::SackPerm,
            TcpOption::SackRange(s) => TcpOptR::Sack(s),
            TcpOption::TimeStamp { tsval, tsecr } => TcpOptR::Ts(tsval, tsecr),
            TcpOption::Unknown { kind, data } => TcpOptR::Unknown(kind, data.to_vec()),
        })
    }
    fn wf(x: &TcpOptR) -> bool {
        match x {
            // a 4-block SACK option is parsed into three slots (documented truncation)
            TcpOptR::Sack(_) => true,
            _ => true,
        }
    }
    fn fields() -> Vec<(usize, usize)> {
        vec![(0, 1), (1, 2)]
    }
}

// ---------------------------------------------------------------- IGMP
pub struct Igmp;
fn igmp_group(r: &mut Rng) -> Ipv4Address {
    // parse accepts 0.0.0.0 or a multicast group only
    if r.chance(1, 4) {
        Ipv4Address::new(0, 0, 0, 0)
    } else {
        Ipv4Address::new(224 + r.below(16) as u8, gen_u8(r), gen_u8(r), gen_u8(r))
    }
}
impl WireType for Igmp {
    type R = IgmpRepr;
    const NAME: &'static str = "igmp";
    fn gen(r: &mut Rng, _t: &str) -> IgmpRepr {
        match r.below(3) {
            0 => {
                if r.chance(1, 3) {
                    // a v1 query has max response code 0
                    IgmpRepr::MembershipQuery { max_resp_time: Duration::from_millis(0), group_addr: igmp_group(r), version: IgmpVersion::Version1 }
                } else {
                    // v2: a duration the 8-bit code can represent exactly (code 1..=255)
                    let code = r.range(1, 255) as u64;
                    let ds = if code < 128 { code } else { ((code & 0xf) | 0x10) << (((code >> 4) & 7) + 3) };
                    IgmpRepr::MembershipQuery { max_resp_time: Duration::from_millis(ds * 100), group_addr: igmp_group(r), version: IgmpVersion::Version2 }
                }
            }
            1 => IgmpRepr::MembershipReport { group_addr: igmp_group(r), version: if r.chance(1, 2) { IgmpVersion::Version1 } else { IgmpVersion::Version2 } },
            _ => IgmpRepr::LeaveGroup { group_addr: igmp_group(r) },
        }
    }
    fn buffer_len(x: &IgmpRepr) -> usize {
        x.buffer_len()
    }
    fn emit(x: &IgmpRepr, b: &mut [u8]) {
        x.emit(&mut IgmpPacket::new_unchecked(b))
    }
    fn parse(b: &[u8], _c: &IgmpRepr) -> Option<IgmpRepr> {
        IgmpRepr::parse(&IgmpPacket::new_checked(b).ok()?).ok()
    }
    fn fields() -> Vec<(usize, usize)> {
        vec![(0, 1), (1, 2), (2, 4), (4, 8)]
    }
}

// ---------------------------------------------------------------- IPv6 fragment / ext header / option / hbh / routing
pub struct V6Frag;
impl WireType for V6Frag {
    type R = Ipv6FragmentRepr;
    const NAME: &'static str = "ipv6frag";
    fn gen(r: &mut Rng, _t: &str) -> Ipv6FragmentRepr {
        // frag_offset is the 13-bit field value (units of 8 octets), as frag_offset() / set_frag_offset() use it
        Ipv6FragmentRepr { frag_offset: r.below(8192) as u16, more_frags: r.chance(1, 2), ident: gen_u32(r) }
    }
    fn buffer_len(x: &Ipv6FragmentRepr) -> usize {
        x.buffer_len()
    }
    fn emit(x: &Ipv6FragmentRepr, b: &mut [u8]) {
        x.emit(&mut Ipv6FragmentHeader::new_unchecked(b))
    }
    fn parse(b: &[u8], _c: &Ipv6FragmentRepr) -> Option<Ipv6FragmentRepr> {
        Ipv6FragmentRepr::parse(&Ipv6FragmentHeader::new_checked(b).ok()?).ok()
    }
    fn fields() -> Vec<(usize, usize)> {
        vec![(0, 2), (2, 6)]
    }
}

#[derive(Debug, PartialEq, Clone)]
pub struct V6ExtR {
    nh: u8,
    length: u8,
    data: Vec<u8>,
}
pub struct V6Ext;
impl WireType for V6Ext {
    type R = V6ExtR;
    const NAME: &'static str = "ipv6ext";
    fn gen(r: &mut Rng, _t: &str) -> V6ExtR {
        // `length` counts 8-octet units beyond the first 8 octets; data = the 6 + 8*length octets after the two header octets
        let length = r.below(5) as u8;
        V6ExtR { nh: draw_raw::<IpProtocol>(r) as u8, length, data: payload_like(6 + 8 * length as usize) }
    }
    fn buffer_len(_x: &V6ExtR) -> usize {
        2
    }
    fn trailer(x: &V6ExtR) -> Vec<u8> {
        x.data.clone()
    }
    fn emit(x: &V6ExtR, b: &mut [u8]) {
        Ipv6ExtHeaderRepr { next_header: of_raw::<IpProtocol>((x.nh) as u32), length: x.length, data: &x.data }.emit(&mut Ipv6ExtHeader::new_unchecked(b))
    }
    fn parse(b: &[u8], _c: &V6ExtR) -> Option<V6ExtR> {
        let h = Ipv6ExtHeader::new_checked(b).ok()?;
        let r = Ipv6ExtHeaderRepr::parse(&h).ok()?;
        Some(V6ExtR { nh: r.next_header.into(), length: r.length, data: r.data.to_vec() })
    }
    fn wf(x: &V6ExtR) -> bool {
        x.data.len() == 6 + 8 * x.length as usize
    }
    fn fields() -> Vec<(usize, usize)> {
        vec![(0, 1), (1, 2)]
    }
}

#[derive(Debug, PartialEq, Clone)]
pub enum V6OptR {
    Pad1,
    PadN(u8),
    RouterAlert(u16),
    Unknown(u8, Vec<u8>),
}
pub struct V6Opt;
impl V6Opt {
    fn with<T>(x: &V6OptR, f: impl FnOnce(Ipv6OptionRepr) -> T) -> T {
        f(match x {
            V6OptR::Pad1 => Ipv6OptionRepr::Pad1,
            V6OptR::PadN(n) => Ipv6OptionRepr::PadN(*n),
            V6OptR::RouterAlert(v) => Ipv6OptionRepr::RouterAlert(of_raw::<Ipv6OptionRouterAlert>((*v) as u32)),
            V6OptR::Unknown(t, d) => Ipv6OptionRepr::Unknown { type_: of_raw::<Ipv6OptionType>((*t) as u32), length: d.len() as u8, data: d },
        })
    }
    fn from(r: &Ipv6OptionRepr) -> Option<V6OptR> {
        Some(match r {
            Ipv6OptionRepr::Pad1 => V6OptR::Pad1,
            Ipv6OptionRepr::PadN(n) => V6OptR::PadN(*n),
            Ipv6OptionRepr::RouterAlert(v) => V6OptR::RouterAlert((*v).into()),
            Ipv6OptionRepr::Unknown { type_, length, data } => {
                if *length as usize != data.len() {
                    return None;
                }
                V6OptR::Unknown((*type_).into(), data.to_vec())
            }
            _ => return None,
        })
    }
    fn gen1(r: &mut Rng) -> V6OptR {
        match r.below(4) {
            0 => V6OptR::Pad1,
            1 => V6OptR::PadN(r.below(12) as u8),
            2 => V6OptR::RouterAlert(draw_raw::<Ipv6OptionRouterAlert>(r) as u16),
            _ => {
                // option types without a dedicated variant (0 Pad1, 1 PadN, 5 RouterAlert are named; 0x63 is RPL)
                let t = *r.pick(&[0x3eu8, 0x7e, 0xbe, 0xfe, 0x22, 0x63]);
                let n = r.below(10) as usize;
                V6OptR::Unknown(t, r.bytes(n))
            }
        }
    }
}
impl WireType for V6Opt {
    type R = V6OptR;
    const NAME: &'static str = "ipv6option";
    fn gen(r: &mut Rng, _t: &str) -> V6OptR {
        Self::gen1(r)
    }
    fn buffer_len(x: &V6OptR) -> usize {
        Self::with(x, |o| o.buffer_len())
    }
    fn emit(x: &V6OptR, b: &mut [u8]) {
        Self::with(x, |o| o.emit(&mut Ipv6Option::new_unchecked(b)))
    }
    fn parse(b: &[u8], _c: &V6OptR) -> Option<V6OptR> {
        let o = Ipv6Option::new_checked(b).ok()?;
        // the option must span the whole buffer for the comparison
        let r = Ipv6OptionRepr::parse(&o).ok()?;
        if r.buffer_len() != b.len() {
            return None;
        }
        Self::from(&r)
    }
    fn fields() -> Vec<(usize, usize)> {
        vec![(0, 1), (1, 2)]
    }
}

#[derive(Debug, PartialEq, Clone)]
pub struct V6HbhR {
    opts: Vec<V6OptR>,
}
pub struct V6Hbh;
impl V6Hbh {
    fn with<T>(x: &V6HbhR, f: impl FnOnce(Ipv6HopByHopRepr) -> T) -> T {
        let mut rep = Ipv6HopByHopRepr { options: Default::default() };
        for o in &x.opts {
            let or = match o {
                V6OptR::Pad1 => Ipv6OptionRepr::Pad1,
                V6OptR::PadN(n) => Ipv6OptionRepr::PadN(*n),
                V6OptR::RouterAlert(v) => Ipv6OptionRepr::RouterAlert(of_raw::<Ipv6OptionRouterAlert>((*v) as u32)),
                V6OptR::Unknown(t, d) => Ipv6OptionRepr::Unknown { type_: of_raw::<Ipv6OptionType>((*t) as u32), length: d.len() as u8, data: d },
            };
            let _ = rep.options.push(or);
        }
        f(rep)
    }
}
impl WireType for V6Hbh {
    type R = V6HbhR;
    const NAME: &'static str = "ipv6hbh";
    fn gen(r: &mut Rng, _t: &str) -> V6HbhR {
        // 1..=IPV6_HBH_MAX_OPTIONS (config, default 4) options: a hop-by-hop header is never empty
        let n = r.range(1, 4) as usize;
        V6HbhR { opts: (0..n).map(|_| V6Opt::gen1(r)).collect() }
    }
    fn buffer_len(x: &V6HbhR) -> usize {
        Self::with(x, |h| h.buffer_len())
    }
    fn emit(x: &V6HbhR, b: &mut [u8]) {
        Self::with(x, |h| h.emit(&mut Ipv6HopByHopHeader::new_unchecked(b)))
    }
    fn parse(b: &[u8], _c: &V6HbhR) -> Option<V6HbhR> {
        let h = Ipv6HopByHopHeader::new_checked(b).ok()?;
        let r = Ipv6HopByHopRepr::parse(&h).ok()?;
        let mut opts = vec![];
        for o in r.options.iter() {
            opts.push(V6Opt::from(o)?);
        }
        let x = V6HbhR { opts };
        // parse stops silently after IPV6_HBH_MAX_OPTIONS options: only complete parses are compared
        if Self::with(&x, |h| h.buffer_len()) != b.len() {
            return None;
        }
        Some(x)
    }
}

#[derive(Debug, PartialEq, Clone)]
pub enum V6RoutingR {
    Type2 { segments_left: u8, home: [u8; 16] },
    Rpl { segments_left: u8, cmpr_i: u8, cmpr_e: u8, pad: u8, addresses: Vec<u8> },
}
pub struct V6Routing;
impl V6Routing {
    fn with<T>(x: &V6RoutingR, f: impl FnOnce(Ipv6RoutingRepr) -> T) -> T {
        f(match x {
            V6RoutingR::Type2 { segments_left, home } => Ipv6RoutingRepr::Type2 { segments_left: *segments_left, home_address: v6(home) },
            V6RoutingR::Rpl { segments_left, cmpr_i, cmpr_e, pad, addresses } => Ipv6RoutingRepr::Rpl { segments_left: *segments_left, cmpr_i: *cmpr_i, cmpr_e: *cmpr_e, pad: *pad, addresses },
        })
    }
}
impl WireType for V6Routing {
    type R = V6RoutingR;
    const NAME: &'static str = "ipv6routing";
    fn gen(r: &mut Rng, _t: &str) -> V6RoutingR {
        if r.chance(1, 2) {
            V6RoutingR::Type2 { segments_left: gen_u8(r), home: gen_ipv6(r) }
        } else {
            // cmpr_i, cmpr_e, pad are 4-bit fields
            let n = r.below(33) as usize;
            V6RoutingR::Rpl { segments_left: gen_u8(r), cmpr_i: r.below(16) as u8, cmpr_e: r.below(16) as u8, pad: r.below(16) as u8, addresses: r.bytes(n) }
        }
    }
    fn buffer_len(x: &V6RoutingR) -> usize {
        Self::with(x, |h| h.buffer_len())
    }
    fn emit(x: &V6RoutingR, b: &mut [u8]) {
        Self::with(x, |h| h.emit(&mut Ipv6RoutingHeader::new_unchecked(b)))
    }
    fn parse(b: &[u8], _c: &V6RoutingR) -> Option<V6RoutingR> {
        let h = Ipv6RoutingHeader::new_checked(b).ok()?;
        Some(match Ipv6RoutingRepr::parse(&h).ok()? {
            Ipv6RoutingRepr::Type2 { segments_left, home_address } => V6RoutingR::Type2 { segments_left, home: home_address.octets() },
            Ipv6RoutingRepr::Rpl { segments_left, cmpr_i, cmpr_e, pad, addresses } => V6RoutingR::Rpl { segments_left, cmpr_i, cmpr_e, pad, addresses: addresses.to_vec() },
            _ => return None,
        })
    }
    fn wf(x: &V6RoutingR) -> bool {
        match x {
            V6RoutingR::Type2 { .. } => true,
            V6RoutingR::Rpl { .. } => true,
        }
    }
    fn fields() -> Vec<(usize, usize)> {
        vec![(0, 1), (1, 2), (2, 3), (3, 4)]
    }
}

// ---------------------------------------------------------------- NDISC option / NDISC
#[derive(Debug, PartialEq, Clone)]
pub enum NdOptR {
    Sll(Vec<u8>),
    Tll(Vec<u8>),
    Prefix { len: u8, flags: u8, valid: u32, pref: u32, prefix: [u8; 16] },
    Redirected { h_src: [u8; 16], h_dst: [u8; 16], h_nh: u8, h_hop: u8, data: Vec<u8> },
    Mtu(u32),
    Unknown { ty: u8, data: Vec<u8> },
}
pub struct NdOpt;
impl NdOpt {
    fn with<T>(x: &NdOptR, f: impl FnOnce(NdiscOptionRepr) -> T) -> T {
        f(match x {
            NdOptR::Sll(a) => NdiscOptionRepr::SourceLinkLayerAddr(RawHardwareAddress::from_bytes(a)),
            NdOptR::Tll(a) => NdiscOptionRepr::TargetLinkLayerAddr(RawHardwareAddress::from_bytes(a)),
            NdOptR::Prefix { len, flags, valid, pref, prefix } => NdiscOptionRepr::PrefixInformation(NdiscPrefixInformation {
                prefix_len: *len,
                flags: NdiscPrefixInfoFlags::from_bits_truncate(*flags),
                valid_lifetime: Duration::from_secs(*valid as u64),
                preferred_lifetime: Duration::from_secs(*pref as u64),
                prefix: v6(prefix),
            }),
            NdOptR::Redirected { h_src, h_dst, h_nh, h_hop, data } => NdiscOptionRepr::RedirectedHeader(NdiscRedirectedHeader {
                header: Ipv6Repr { src_addr: v6(h_src), dst_addr: v6(h_dst), next_header: of_raw::<IpProtocol>((*h_nh) as u32), payload_len: data.len(), hop_limit: *h_hop },
                data,
            }),
            NdOptR::Mtu(m) => NdiscOptionRepr::Mtu(*m),
            NdOptR::Unknown { ty, data } => NdiscOptionRepr::Unknown { type_: *ty, length: ((data.len() + 2) / 8) as u8, data },
        })
    }
    fn from(r: &NdiscOptionRepr) -> Option<NdOptR> {
        Some(match r {
            NdiscOptionRepr::SourceLinkLayerAddr(a) => NdOptR::Sll(a.as_bytes().to_vec()),
            NdiscOptionRepr::TargetLinkLayerAddr(a) => NdOptR::Tll(a.as_bytes().to_vec()),
            NdiscOptionRepr::PrefixInformation(p) => NdOptR::Prefix { len: p.prefix_len, flags: p.flags.bits(), valid: p.valid_lifetime.secs() as u32, pref: p.preferred_lifetime.secs() as u32, prefix: p.prefix.octets() },
            NdiscOptionRepr::RedirectedHeader(h) => {
                if h.header.payload_len != h.data.len() {
                    return None;
                }
                NdOptR::Redirected { h_src: h.header.src_addr.octets(), h_dst: h.header.dst_addr.octets(), h_nh: h.header.next_header.into(), h_hop: h.header.hop_limit, data: h.data.to_vec() }
            }
            NdiscOptionRepr::Mtu(m) => NdOptR::Mtu(*m),
            NdiscOptionRepr::Unknown { type_, length, data } => {
                if (*length as usize) * 8 != data.len() + 2 {
                    return None;
                }
                NdOptR::Unknown { ty: *type_, data: data.to_vec() }
            }
        })
    }
    fn gen1(r: &mut Rng) -> NdOptR {
        match r.below(6) {
            // 6-octet (Ethernet) or 8-octet (IEEE 802.15.4) link-layer addresses
            0 => NdOptR::Sll(if r.chance(1, 2) { gen_mac(r).to_vec() } else { r.bytes(8) }),
            1 => NdOptR::Tll(if r.chance(1, 2) { gen_mac(r).to_vec() } else { r.bytes(8) }),
            2 => NdOptR::Prefix { len: r.below(129) as u8, flags: *r.pick(&[0u8, 0x80, 0x40, 0xc0]), valid: gen_u32(r), pref: gen_u32(r), prefix: gen_ipv6(r) },
            3 => {
                // the option length is counted in 8-octet units: 8 + 40 + data must be a multiple of 8
                let n = 8 * r.below(5) as usize;
                NdOptR::Redirected { h_src: gen_ipv6(r), h_dst: gen_ipv6(r), h_nh: draw_raw::<IpProtocol>(r) as u8, h_hop: gen_u8(r), data: r.bytes(n) }
            }
            4 => NdOptR::Mtu(gen_u32(r)),
            _ => {
                let units = r.range(1, 4) as usize;
                NdOptR::Unknown { ty: *r.pick(&[0u8, 6, 7, 24, 25, 31, 200, 255]), data: r.bytes(8 * units - 2) }
            }
        }
    }
}
impl WireType for NdOpt {
    type R = NdOptR;
    const NAME: &'static str = "ndiscoption";
    fn gen(r: &mut Rng, _t: &str) -> NdOptR {
        Self::gen1(r)
    }
    fn buffer_len(x: &NdOptR) -> usize {
        Self::with(x, |o| o.buffer_len())
    }
    fn emit(x: &NdOptR, b: &mut [u8]) {
        Self::with(x, |o| o.emit(&mut NdiscOption::new_unchecked(b)))
    }
    fn parse(b: &[u8], _c: &NdOptR) -> Option<NdOptR> {
        let o = NdiscOption::new_checked(b).ok()?;
        let r = NdiscOptionRepr::parse(&o).ok()?;
        if r.buffer_len() != b.len() {
            return None;
        }
        Self::from(&r)
    }
    fn fields() -> Vec<(usize, usize)> {
        vec![(0, 1), (1, 2), (2, 3), (3, 4)]
    }
}

#[derive(Debug, PartialEq, Clone)]
pub enum NdiscR {
    Rs { ll: Option<Vec<u8>> },
    Ra { hop: u8, flags: u8, lifetime: u16, reachable: u32, retrans: u32, ll: Option<Vec<u8>>, mtu: Option<u32>, prefix: Option<(u8, u8, u32, u32, [u8; 16])> },
    Ns { target: [u8; 16], ll: Option<Vec<u8>> },
    Na { flags: u8, target: [u8; 16], ll: Option<Vec<u8>> },
    Redirect { target: [u8; 16], dest: [u8; 16], ll: Option<Vec<u8>> },
}
pub struct Ndisc;
fn raw(a: &Option<Vec<u8>>) -> Option<RawHardwareAddress> {
    a.as_ref().map(|x| RawHardwareAddress::from_bytes(x))
}
fn unraw(a: &Option<RawHardwareAddress>) -> Option<Vec<u8>> {
    a.as_ref().map(|x| x.as_bytes().to_vec())
}
impl Ndisc {
    fn with<T>(x: &NdiscR, f: impl FnOnce(NdiscRepr) -> T) -> T {
        f(match x {
            NdiscR::Rs { ll } => NdiscRepr::RouterSolicit { lladdr: raw(ll) },
            NdiscR::Ra { hop, flags, lifetime, reachable, retrans, ll, mtu, prefix } => NdiscRepr::RouterAdvert {
                hop_limit: *hop,
                flags: NdiscRouterFlags::from_bits_truncate(*flags),
                router_lifetime: Duration::from_secs(*lifetime as u64),
                reachable_time: Duration::from_millis(*reachable as u64),
                retrans_time: Duration::from_millis(*retrans as u64),
                lladdr: raw(ll),
                mtu: *mtu,
                prefix_info: prefix.map(|(l, f, v, p, a)| NdiscPrefixInformation { prefix_len: l, flags: NdiscPrefixInfoFlags::from_bits_truncate(f), valid_lifetime: Duration::from_secs(v as u64), preferred_lifetime: Duration::from_secs(p as u64), prefix: v6(&a) }),
            },
            NdiscR::Ns { target, ll } => NdiscRepr::NeighborSolicit { target_addr: v6(target), lladdr: raw(ll) },
            NdiscR::Na { flags, target, ll } => NdiscRepr::NeighborAdvert { flags: NdiscNeighborFlags::from_bits_truncate(*flags), target_addr: v6(target), lladdr: raw(ll) },
            NdiscR::Redirect { target, dest, ll } => NdiscRepr::Redirect { target_addr: v6(target), dest_addr: v6(dest), lladdr: raw(ll), redirected_hdr: None },
        })
    }
}
impl WireType for Ndisc {
    type R = NdiscR;
    const NAME: &'static str = "ndisc";
    fn gen(r: &mut Rng, _t: &str) -> NdiscR {
        let ll = |r: &mut Rng| if r.chance(1, 2) { Some(if r.chance(1, 2) { gen_mac(r).to_vec() } else { r.bytes(8) }) } else { None };
        match r.below(5) {
            0 => NdiscR::Rs { ll: ll(r) },
            1 => NdiscR::Ra {
                hop: gen_u8(r),
                flags: *r.pick(&[0u8, 0x80, 0x40, 0xc0]),
                lifetime: gen_u16(r),
                reachable: gen_u32(r),
                retrans: gen_u32(r),
                ll: ll(r),
                mtu: if r.chance(1, 2) { Some(gen_u32(r)) } else { None },
                prefix: if r.chance(1, 2) { Some((r.below(129) as u8, *r.pick(&[0u8, 0x80, 0x40, 0xc0]), gen_u32(r), gen_u32(r), gen_ipv6(r))) } else { None },
            },
            2 => NdiscR::Ns { target: gen_ipv6(r), ll: ll(r) },
            3 => NdiscR::Na { flags: *r.pick(&[0u8, 0x80, 0x40, 0x20, 0xe0]), target: gen_ipv6(r), ll: ll(r) },
            _ => NdiscR::Redirect { target: gen_ipv6(r), dest: gen_ipv6(r), ll: ll(r) },
        }
    }
    fn buffer_len(x: &NdiscR) -> usize {
        Self::with(x, |n| n.buffer_len())
    }
    fn emit(x: &NdiscR, b: &mut [u8]) {
        // the ICMPv6 type/code/checksum octets belong to Icmpv6Repr::emit; only the NDISC part is compared
        Self::with(x, |n| n.emit(&mut Icmpv6Packet::new_unchecked(b)));
        b[1] = 0;
        b[2] = 0;
        b[3] = 0;
    }
    fn parse(b: &[u8], _c: &NdiscR) -> Option<NdiscR> {
        let p = Icmpv6Packet::new_checked(b).ok()?;
        Some(match NdiscRepr::parse(&p).ok()? {
            NdiscRepr::RouterSolicit { lladdr } => NdiscR::Rs { ll: unraw(&lladdr) },
            NdiscRepr::RouterAdvert { hop_limit, flags, router_lifetime, reachable_time, retrans_time, lladdr, mtu, prefix_info } => NdiscR::Ra {
                hop: hop_limit,
                flags: flags.bits(),
                lifetime: router_lifetime.secs() as u16,
                reachable: reachable_time.total_millis() as u32,
                retrans: retrans_time.total_millis() as u32,
                ll: unraw(&lladdr),
                mtu,
                prefix: prefix_info.map(|p| (p.prefix_len, p.flags.bits(), p.valid_lifetime.secs() as u32, p.preferred_lifetime.secs() as u32, p.prefix.octets())),
            },
            NdiscRepr::NeighborSolicit { target_addr, lladdr } => NdiscR::Ns { target: target_addr.octets(), ll: unraw(&lladdr) },
            NdiscRepr::NeighborAdvert { flags, target_addr, lladdr } => NdiscR::Na { flags: flags.bits(), target: target_addr.octets(), ll: unraw(&lladdr) },
            NdiscRepr::Redirect { target_addr, dest_addr, lladdr, redirected_hdr } => {
                if redirected_hdr.is_some() {
                    return None;
                }
                NdiscR::Redirect { target: target_addr.octets(), dest: dest_addr.octets(), ll: unraw(&lladdr) }
            }
        })
    }
    fn fields() -> Vec<(usize, usize)> {
        vec![(0, 1), (4, 5), (5, 6), (6, 8), (8, 9), (9, 10), (16, 17), (17, 18), (24, 25), (25, 26)]
    }
}

// ---------------------------------------------------------------- MLD
#[derive(Debug, PartialEq, Clone)]
pub enum MldR {
    Query { code: u16, group: [u8; 16], s: bool, qrv: u8, qqic: u8, srcs: Vec<[u8; 16]> },
    Report { n: u16, data: Vec<u8> },
}
pub struct Mld;
impl Mld {
    fn with<T>(x: &MldR, f: impl FnOnce(MldRepr) -> T) -> T {
        match x {
            MldR::Query { code, group, s, qrv, qqic, srcs } => {
                let data: Vec<u8> = srcs.iter().flat_map(|a| a.iter().copied()).collect();
                f(MldRepr::Query { max_resp_code: *code, mcast_addr: v6(group), s_flag: *s, qrv: *qrv, qqic: *qqic, num_srcs: srcs.len() as u16, data: &data })
            }
            MldR::Report { n, data } => f(MldRepr::Report { nr_mcast_addr_rcrds: *n, data }),
        }
    }
}
impl WireType for Mld {
    type R = MldR;
    const NAME: &'static str = "mld";
    fn gen(r: &mut Rng, _t: &str) -> MldR {
        if r.chance(1, 2) {
            // qrv is a 3-bit field; num_srcs = number of 16-octet source addresses in data
            let n = r.below(4) as usize;
            MldR::Query { code: gen_u16(r), group: gen_ipv6(r), s: r.chance(1, 2), qrv: r.below(8) as u8, qqic: gen_u8(r), srcs: (0..n).map(|_| gen_ipv6(r)).collect() }
        } else {
            let n = r.below(3) as usize;
            let mut data = vec![];
            for _ in 0..n {
                data.extend_from_slice(&[r.range(1, 6) as u8, 0, 0, 0]);
                data.extend_from_slice(&gen_ipv6(r));
            }
            MldR::Report { n: n as u16, data }
        }
    }
    fn buffer_len(x: &MldR) -> usize {
        Self::with(x, |m| m.buffer_len())
    }
    fn emit(x: &MldR, b: &mut [u8]) {
        Self::with(x, |m| m.emit(&mut Icmpv6Packet::new_unchecked(b)));
        b[1] = 0;
        b[2] = 0;
        b[3] = 0;
    }
    fn parse(b: &[u8], _c: &MldR) -> Option<MldR> {
        let p = Icmpv6Packet::new_checked(b).ok()?;
        Some(match MldRepr::parse(&p).ok()? {
            MldRepr::Query { max_resp_code, mcast_addr, s_flag, qrv, qqic, num_srcs, data } => {
                if data.len() != 16 * num_srcs as usize {
                    return None;
                }
                MldR::Query { code: max_resp_code, group: mcast_addr.octets(), s: s_flag, qrv, qqic, srcs: data.chunks(16).map(|c| { let mut a = [0u8; 16]; a.copy_from_slice(c); a }).collect() }
            }
            MldRepr::Report { nr_mcast_addr_rcrds, data } => MldR::Report { n: nr_mcast_addr_rcrds, data: data.to_vec() },
            _ => return None,
        })
    }
    fn fields() -> Vec<(usize, usize)> {
        vec![(0, 1), (4, 6), (6, 8), (24, 25), (25, 26), (26, 28)]
    }
}

#[derive(Debug, PartialEq, Clone)]
pub struct MldRecR {
    ty: u8,
    aux: u8,
    nsrc: u16,
    group: [u8; 16],
}
pub struct MldRec;
impl WireType for MldRec {
    type R = MldRecR;
    const NAME: &'static str = "mld-record";
    fn gen(r: &mut Rng, _t: &str) -> MldRecR {
        // the group is a multicast address (set_mcast_addr asserts it)
        let mut g = gen_ipv6(r);
        g[0] = 0xff;
        MldRecR { ty: *r.pick(&[1u8, 2, 3, 4, 5, 6, 0, 7, 255]), aux: gen_u8(r), nsrc: gen_u16(r), group: g }
    }
    fn buffer_len(_x: &MldRecR) -> usize {
        20
    }
    fn emit(x: &MldRecR, b: &mut [u8]) {
        MldAddressRecordRepr { record_type: of_raw::<MldRecordType>((x.ty) as u32), aux_data_len: x.aux, num_srcs: x.nsrc, mcast_addr: v6(&x.group), payload: &[] }.emit(&mut MldAddressRecord::new_unchecked(b))
    }
    fn parse(b: &[u8], _c: &MldRecR) -> Option<MldRecR> {
        let rec = MldAddressRecord::new_checked(b).ok()?;
        let r = MldAddressRecordRepr::parse(&rec).ok()?;
        Some(MldRecR { ty: r.record_type.into(), aux: r.aux_data_len, nsrc: r.num_srcs, group: r.mcast_addr.octets() })
    }
    fn wf(x: &MldRecR) -> bool {
        x.group[0] == 0xff
    }
    fn fields() -> Vec<(usize, usize)> {
        vec![(0, 1), (1, 2), (2, 4), (4, 20)]
    }
}

// ---------------------------------------------------------------- DHCPv4
#[derive(Debug, PartialEq, Clone)]
pub struct DhcpR {
    mt: u8,
    xid: u32,
    secs: u16,
    chaddr: [u8; 6],
    ciaddr: [u8; 4],
    yiaddr: [u8; 4],
    siaddr: [u8; 4],
    giaddr: [u8; 4],
    router: Option<[u8; 4]>,
    mask: Option<[u8; 4]>,
    broadcast: bool,
    requested: Option<[u8; 4]>,
    client_id: Option<[u8; 6]>,
    server_id: Option<[u8; 4]>,
    params: Option<Vec<u8>>,
    dns: Option<Vec<[u8; 4]>>,
    max_size: Option<u16>,
    lease: Option<u32>,
    renew: Option<u32>,
    rebind: Option<u32>,
}
pub struct Dhcp;
impl Dhcp {
    fn with<T>(x: &DhcpR, f: impl FnOnce(DhcpRepr) -> T) -> T {
        let mut repr = DhcpRepr {
            message_type: of_raw::<DhcpMessageType>((x.mt) as u32),
            transaction_id: x.xid,
            secs: x.secs,
            client_hardware_address: EthernetAddress(x.chaddr),
            client_ip: v4(&x.ciaddr),
            your_ip: v4(&x.yiaddr),
            server_ip: v4(&x.siaddr),
            router: x.router.map(|a| v4(&a)),
            subnet_mask: x.mask.map(|a| v4(&a)),
            relay_agent_ip: v4(&x.giaddr),
            broadcast: x.broadcast,
            requested_ip: x.requested.map(|a| v4(&a)),
            client_identifier: x.client_id.map(EthernetAddress),
            server_identifier: x.server_id.map(|a| v4(&a)),
            parameter_request_list: x.params.as_deref(),
            dns_servers: None,
            max_size: x.max_size,
            lease_duration: x.lease,
            renew_duration: x.renew,
            rebind_duration: x.rebind,
            additional_options: &[],
        };
        if let Some(d) = &x.dns {
            // heapless::Vec is not nameable from here: obtain an empty one through the field's type
            let mut v = repr.dns_servers.take().unwrap_or_default();
            for a in d {
                let _ = v.push(v4(a));
            }
            repr.dns_servers = Some(v);
        }
        f(repr)
    }
}
impl WireType for Dhcp {
    type R = DhcpR;
    const NAME: &'static str = "dhcpv4";
    fn gen(r: &mut Rng, _t: &str) -> DhcpR {
        let o4 = |r: &mut Rng| if r.chance(1, 2) { Some(gen_ipv4(r)) } else { None };
        DhcpR {
            // the message types of RFC 2131 (parse requires a message-type option; 0 / unknown values are canonical Unknown)
            mt: r.range(1, 8) as u8,
            xid: gen_u32(r),
            secs: gen_u16(r),
            chaddr: gen_mac(r),
            ciaddr: gen_ipv4(r),
            yiaddr: gen_ipv4(r),
            siaddr: gen_ipv4(r),
            giaddr: gen_ipv4(r),
            router: o4(r),
            mask: o4(r),
            broadcast: r.chance(1, 2),
            requested: o4(r),
            client_id: if r.chance(1, 2) { Some(gen_mac(r)) } else { None },
            server_id: o4(r),
            params: if r.chance(1, 2) {
                let n = r.range(1, 8) as usize;
                Some(r.bytes(n))
            } else {
                None
            },
            // 1..=MAX_DNS_SERVER_COUNT (3) servers; more are dropped by design
            dns: if r.chance(1, 2) {
                let n = r.range(1, 3) as usize;
                Some((0..n).map(|_| gen_ipv4(r)).collect())
            } else {
                None
            },
            max_size: if r.chance(1, 2) { Some(gen_u16(r)) } else { None },
            lease: if r.chance(1, 2) { Some(gen_u32(r)) } else { None },
            renew: if r.chance(1, 2) { Some(gen_u32(r)) } else { None },
            rebind: if r.chance(1, 2) { Some(gen_u32(r)) } else { None },
        }
    }
    fn buffer_len(x: &DhcpR) -> usize {
        Self::with(x, |d| d.buffer_len())
    }
    fn emit(x: &DhcpR, b: &mut [u8]) {
        Self::with(x, |d| d.emit(&mut DhcpPacket::new_unchecked(b)).unwrap())
    }
    fn parse(b: &[u8], _c: &DhcpR) -> Option<DhcpR> {
        let p = DhcpPacket::new_checked(b).ok()?;
        let r = DhcpRepr::parse(&p).ok()?;
        if !r.additional_options.is_empty() {
            return None;
        }
        Some(DhcpR {
            mt: r.message_type.into(),
            xid: r.transaction_id,
            secs: r.secs,
            chaddr: r.client_hardware_address.0,
            ciaddr: r.client_ip.octets(),
            yiaddr: r.your_ip.octets(),
            siaddr: r.server_ip.octets(),
            giaddr: r.relay_agent_ip.octets(),
            router: r.router.map(|a| a.octets()),
            mask: r.subnet_mask.map(|a| a.octets()),
            broadcast: r.broadcast,
            requested: r.requested_ip.map(|a| a.octets()),
            client_id: r.client_identifier.map(|a| a.0),
            server_id: r.server_identifier.map(|a| a.octets()),
            params: r.parameter_request_list.map(|x| x.to_vec()),
            dns: r.dns_servers.as_ref().map(|v| v.iter().map(|a| a.octets()).collect()),
            max_size: r.max_size,
            lease: r.lease_duration,
            renew: r.renew_duration,
            rebind: r.rebind_duration,
        })
    }
    fn fields() -> Vec<(usize, usize)> {
        vec![(0, 1), (1, 2), (2, 3), (10, 12), (236, 240), (240, 241), (241, 242), (242, 243), (243, 244), (244, 245)]
    }
}

// ---------------------------------------------------------------- IEEE 802.15.4
pub struct I154;
impl WireType for I154 {
    type R = Ieee802154Repr;
    const NAME: &'static str = "ieee802154";
    fn gen(r: &mut Rng, _t: &str) -> Ieee802154Repr {
        let addr = |r: &mut Rng| match r.below(2) {
            0 => Ieee802154Address::Short([gen_u8(r), gen_u8(r)]),
            _ => {
                let mut a = [0u8; 8];
                for x in a.iter_mut() {
                    *x = gen_u8(r)
                }
                Ieee802154Address::Extended(a)
            }
        };
        let comp = r.chance(1, 2);
        // data / command frames with both addresses present (the combinations the interface emits);
        // with PAN-ID compression the source PAN is elided and parse reports it as None
        Ieee802154Repr {
            // only the frame types whose addressing fields the crate lays out (others: known finding
            // ieee802154-emit-single-layout); the numbers of all seven are checked by `wire-enums`
            frame_type: *r.pick(&[Ieee802154FrameType::Data, Ieee802154FrameType::MacCommand, Ieee802154FrameType::Beacon]),
            security_enabled: false,
            frame_pending: r.chance(1, 2),
            ack_request: r.chance(1, 2),
            sequence_number: Some(gen_u8(r)),
            pan_id_compression: comp,
            frame_version: *r.pick(&[Ieee802154FrameVersion::Ieee802154_2003, Ieee802154FrameVersion::Ieee802154_2006]),
            dst_pan_id: Some(Ieee802154Pan(gen_u16(r))),
            dst_addr: Some(addr(r)),
            src_pan_id: if comp { None } else { Some(Ieee802154Pan(gen_u16(r))) },
            src_addr: Some(addr(r)),
        }
    }
    fn buffer_len(x: &Ieee802154Repr) -> usize {
        x.buffer_len()
    }
    fn emit(x: &Ieee802154Repr, b: &mut [u8]) {
        x.emit(&mut Ieee802154Frame::new_unchecked(b))
    }
    fn parse(b: &[u8], _c: &Ieee802154Repr) -> Option<Ieee802154Repr> {
        Ieee802154Repr::parse(&Ieee802154Frame::new_checked(b).ok()?).ok()
    }
    fn wf(x: &Ieee802154Repr) -> bool {
        // only the shapes the generator covers are re-emitted
        !x.security_enabled
            && x.sequence_number.is_some()
            && x.dst_pan_id.is_some()
            && matches!(x.dst_addr, Some(Ieee802154Address::Short(_)) | Some(Ieee802154Address::Extended(_)))
            && matches!(x.src_addr, Some(Ieee802154Address::Short(_)) | Some(Ieee802154Address::Extended(_)))
            && (x.pan_id_compression == x.src_pan_id.is_none())
            && matches!(x.frame_version, Ieee802154FrameVersion::Ieee802154_2003 | Ieee802154FrameVersion::Ieee802154_2006)
            && matches!(x.frame_type, Ieee802154FrameType::Data | Ieee802154FrameType::MacCommand | Ieee802154FrameType::Beacon)
    }
    fn fields() -> Vec<(usize, usize)> {
        vec![(0, 1), (1, 2), (2, 3)]
    }
}

/// Known finding `ieee802154-emit-single-layout` (known_findings.txt): Ieee802154Repr::buffer_len /
/// emit know ONE addressing layout, Repr::parse follows Frame::addr_present_flags.  This oracle type
/// takes parsable frames whose representation is OUTSIDE that layout (`!I154::wf`: no destination PAN
/// id, an absent address, security enabled, frame types without addressing fields, version 2015 /
/// reserved) and runs parse -> emit -> compare: a re-emission that depends on the old buffer contents,
/// does not parse, or parses to another representation is reported under exactly the class
/// `ieee802154-reparse-outside-emit-layout` (the known finding; the check prints it and exits 0).  A
/// panic of emit, and any mismatch of a frame INSIDE the layout (type `ieee802154`), are other classes
/// = violations.  The type is left out of the `wire-oracle` stream (which expects `ok`).
pub const I154_OUTSIDE: &str = "ieee802154-outside-layout";
pub const I154_KNOWN_CLASS: &str = "ieee802154-reparse-outside-emit-layout";

fn gen_154_frame(r: &mut Rng) -> Vec<u8> {
    // frame control dictionary aimed at the classes the Coq refutations name
    let (ftype, sec, dam, sam, pic, ver): (u8, bool, u8, u8, bool, u8) = match r.below(8) {
        0 => (0, false, 0, *r.pick(&[2u8, 3]), false, *r.pick(&[0u8, 1])), // beacon without destination (2006 beacon 00 90 …)
        1 => (2, false, 0, 0, false, *r.pick(&[0u8, 1])),                  // acknowledgement: no addressing fields
        2 => (*r.pick(&[1u8, 3]), true, *r.pick(&[2u8, 3]), *r.pick(&[2u8, 3]), r.chance(1, 2), *r.pick(&[0u8, 1])), // security enabled
        3 => (*r.pick(&[1u8, 3, 0]), false, *r.pick(&[0u8, 2, 3]), *r.pick(&[0u8, 2, 3]), r.chance(1, 2), 2), // version 2015: 14 layouts
        4 => (1, false, *r.pick(&[2u8, 3]), 0, false, *r.pick(&[0u8, 1])), // no source address
        5 => (1, false, *r.pick(&[2u8, 3]), *r.pick(&[2u8, 3]), r.chance(1, 2), 3), // reserved version
        6 => (*r.pick(&[5u8, 6, 7, 4]), false, *r.pick(&[0u8, 2, 3]), *r.pick(&[0u8, 2, 3]), r.chance(1, 2), r.below(3) as u8), // other frame types
        _ => (r.below(8) as u8, r.chance(1, 4), *r.pick(&[0u8, 2, 3]), *r.pick(&[0u8, 2, 3]), r.chance(1, 2), r.below(4) as u8),
    };
    let fc0 = ftype | if sec { 0x08 } else { 0 } | if r.chance(1, 4) { 0x10 } else { 0 } | if r.chance(1, 2) { 0x20 } else { 0 } | if pic { 0x40 } else { 0 };
    let fc1 = (dam << 2) | (ver << 4) | (sam << 6) | if ver == 2 && r.chance(1, 4) { 1 } else { 0 };
    let mut v = vec![fc0, fc1, r.next() as u8];
    // generous room: both PAN ids, both extended addresses, an auxiliary security header, a MIC
    let n = 20 + r.below(30) as usize;
    v.extend(r.bytes(n));
    if sec {
        // security control octet: level | key id mode << 3 (placed where the 2003/2006 layout puts it)
        let at = 3 + if dam >= 2 { 2 + if dam == 3 { 8 } else { 2 } } else { 0 } + if sam >= 2 { (if pic { 0 } else { 2 }) + if sam == 3 { 8 } else { 2 } } else { 0 };
        if at < v.len() {
            v[at] = (r.below(8) as u8) | ((r.below(4) as u8) << 3);
        }
    }
    v
}

fn check_154_outside(r: &mut Rng, _tier: &str, explicit: Option<&Kv>, stats: &mut std::collections::BTreeMap<String, u64>) -> (Vec<crate::oracle::c06::Fail>, Option<String>) {
    use crate::oracle::c06::Fail;
    let mut fails: Vec<Fail> = vec![];
    let frames: Vec<Vec<u8>> = match explicit {
        Some(kv) => vec![kv.b("frame")],
        None => (0..6).map(|_| gen_154_frame(r)).collect(),
    };
    let mut enc = None;
    for m in frames {
        *stats.entry("i154_frames".into()).or_default() += 1;
        let y = match guard(|| I154::parse(&m, &I154::gen(&mut Rng::new(0), "quick"))) {
            None => {
                fails.push(Fail { class: "ieee802154-parse-panic".into(), detail: format!("parse of {} panicked", hex(&m)) });
                continue;
            }
            Some(None) => continue,
            Some(Some(y)) => y,
        };
        if I154::wf(&y) {
            continue; // inside the emittable layout: the obligation of type `ieee802154`
        }
        *stats.entry("i154_outside_layout".into()).or_default() += 1;
        let len = match guard(|| y.buffer_len()) {
            Some(l) => l,
            None => {
                fails.push(Fail { class: "ieee802154-outside-layout-reemit-panic".into(), detail: format!("buffer_len panicked for {:?}", y) });
                continue;
            }
        };
        let mut outs: Vec<Vec<u8>> = vec![];
        let mut panicked = false;
        for fill in [0x00u8, 0xff, 0xa5] {
            let mut b = vec![fill; len];
            if guard(|| y.emit(&mut Ieee802154Frame::new_unchecked(&mut b[..]))).is_none() {
                panicked = true;
                break;
            }
            outs.push(b);
        }
        if panicked {
            fails.push(Fail { class: "ieee802154-outside-layout-reemit-panic".into(), detail: format!("{} parses as {:?}; emit into buffer_len() = {} octets panicked", hex(&m), y, len) });
            continue;
        }
        let what = if outs[1] != outs[0] || outs[2] != outs[0] {
            Some(format!("re-emits as {} into a zero-filled and {} into a 0xff-filled buffer", hex(&outs[0]), hex(&outs[1])))
        } else {
            match guard(|| I154::parse(&outs[0], &y)) {
                None => {
                    fails.push(Fail { class: "ieee802154-parse-panic".into(), detail: format!("parse of re-emitted {} panicked", hex(&outs[0])) });
                    continue;
                }
                Some(None) => Some(format!("re-emits as {} which does not parse", hex(&outs[0]))),
                Some(Some(z)) if z != y => Some(format!("re-emits as {} which parses as {:?}", hex(&outs[0]), z)),
                _ => None,
            }
        };
        if let Some(w) = what {
            *stats.entry("i154_outside_layout_mismatch".into()).or_default() += 1;
            if fails.iter().all(|f| f.class != I154_KNOWN_CLASS) {
                enc = Some(format!("frame={}", hex(&m)));
                fails.push(Fail { class: I154_KNOWN_CLASS.into(), detail: format!("{} parses as {:?} (outside the layout Repr::emit produces), {}", hex(&m), y, w) });
            }
        }
    }
    (fails, enc)
}

// ---------------------------------------------------------------- 6LoWPAN fragment header / NHC extension header
pub struct SixFrag;
impl WireType for SixFrag {
    type R = SixlowpanFragRepr;
    const NAME: &'static str = "sixlowpan-frag";
    fn gen(r: &mut Rng, _t: &str) -> SixlowpanFragRepr {
        // datagram_size is an 11-bit field
        if r.chance(1, 2) {
            SixlowpanFragRepr::FirstFragment { size: r.below(2048) as u16, tag: gen_u16(r) }
        } else {
            SixlowpanFragRepr::Fragment { size: r.below(2048) as u16, tag: gen_u16(r), offset: gen_u8(r) }
        }
    }
    fn buffer_len(x: &SixlowpanFragRepr) -> usize {
        x.buffer_len()
    }
    fn emit(x: &SixlowpanFragRepr, b: &mut [u8]) {
        x.emit(&mut SixlowpanFragPacket::new_unchecked(b))
    }
    fn parse(b: &[u8], _c: &SixlowpanFragRepr) -> Option<SixlowpanFragRepr> {
        SixlowpanFragRepr::parse(&SixlowpanFragPacket::new_checked(b).ok()?).ok()
    }
    fn fields() -> Vec<(usize, usize)> {
        vec![(0, 1), (0, 2), (2, 4), (4, 5)]
    }
}

pub struct NhcExt;
impl WireType for NhcExt {
    type R = SixlowpanExtHeaderRepr;
    const NAME: &'static str = "sixlowpan-nhc-ext";
    fn gen(r: &mut Rng, _t: &str) -> SixlowpanExtHeaderRepr {
        SixlowpanExtHeaderRepr {
            ext_header_id: *r.pick(&[
                SixlowpanExtHeaderId::HopByHopHeader,
                SixlowpanExtHeaderId::RoutingHeader,
                SixlowpanExtHeaderId::FragmentHeader,
                SixlowpanExtHeaderId::DestinationOptionsHeader,
                SixlowpanExtHeaderId::MobilityHeader,
                SixlowpanExtHeaderId::Header,
            ]),
            next_header: if r.chance(1, 2) { SixlowpanNextHeader::Compressed } else { SixlowpanNextHeader::Uncompressed(draw::<IpProtocol>(r)) },
            length: r.below(40) as u8,
        }
    }
    fn buffer_len(x: &SixlowpanExtHeaderRepr) -> usize {
        x.buffer_len()
    }
    fn trailer(x: &SixlowpanExtHeaderRepr) -> Vec<u8> {
        // the `length` octets of extension header content that follow the NHC octets
        payload_like(x.length as usize)
    }
    fn emit(x: &SixlowpanExtHeaderRepr, b: &mut [u8]) {
        x.emit(&mut SixlowpanExtHeaderPacket::new_unchecked(b))
    }
    fn parse(b: &[u8], _c: &SixlowpanExtHeaderRepr) -> Option<SixlowpanExtHeaderRepr> {
        SixlowpanExtHeaderRepr::parse(&SixlowpanExtHeaderPacket::new_checked(b).ok()?).ok()
    }
    fn wf(x: &SixlowpanExtHeaderRepr) -> bool {
        // EID 5 / 6 are reserved values that collapse into one `Reserved` variant
        x.ext_header_id != SixlowpanExtHeaderId::Reserved
    }
    fn fields() -> Vec<(usize, usize)> {
        vec![(0, 1), (1, 2), (2, 3)]
    }
}
