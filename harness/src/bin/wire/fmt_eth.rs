//! Ethernet II: streams wire-eth-emit / wire-eth-parse.
use super::common::*;
use smoltcp::wire::*;
use svh::*;

fn show_repr(r: &EthernetRepr) -> String {
    format!("Ok src={} dst={} type={}", hex(r.src_addr.as_bytes()), hex(r.dst_addr.as_bytes()), u16::from(r.ethertype))
}

fn gen_type(r: &mut Rng) -> u16 {
    draw_raw::<EthernetProtocol>(r) as u16
}

fn gen_emit(r: &mut Rng, _tier: &str) -> Vec<String> {
    let (src, dst, ty) = (gen_mac(r), gen_mac(r), gen_type(r));
    gen_buffers(r, 14)
        .iter()
        .map(|b| format!("emit buf={} src={} dst={} type={}", hex(b), hex(&src), hex(&dst), ty))
        .collect()
}

fn gen_parse(r: &mut Rng, tier: &str) -> Vec<String> {
    let repr = EthernetRepr {
        src_addr: EthernetAddress(gen_mac(r)),
        dst_addr: EthernetAddress(gen_mac(r)),
        ethertype: of_raw::<EthernetProtocol>((gen_type(r)) as u32),
    };
    let plen = gen_payload_len(r, tier, 1500).min(if r.chance(3, 4) { 64 } else { 1500 });
    let mut base = vec![0u8; 14 + plen];
    repr.emit(&mut EthernetFrame::new_unchecked(&mut base[..]));
    let p = gen_payload(r, plen);
    base[14..].copy_from_slice(&p);
    mutations(r, &base, &[(0, 6), (6, 12), (12, 14)], tier)
        .iter()
        .map(|b| format!("parse bytes={}", hex(b)))
        .collect()
}

fn run_op(op: &str) -> String {
    let kv = Kv::parse(op);
    if op.starts_with("emit") {
        let repr = EthernetRepr {
            src_addr: EthernetAddress::from_bytes(&kv.b("src")),
            dst_addr: EthernetAddress::from_bytes(&kv.b("dst")),
            ethertype: of_raw::<EthernetProtocol>((kv.u("type") as u16) as u32),
        };
        let mut buf = kv.b("buf");
        match guard(|| repr.emit(&mut EthernetFrame::new_unchecked(&mut buf[..]))) {
            None => "ret PANIC | -".to_string(),
            Some(()) => {
                let p = acc(|| EthernetRepr::parse(&EthernetFrame::new_unchecked(&buf[..])), |x| match x {
                    Ok(r) => show_repr(&r),
                    Err(_) => "Err".into(),
                });
                format!("ret {} | {}", hex(&buf), p)
            }
        }
    } else {
        let bytes = kv.b("bytes");
        let chk = acc(|| EthernetFrame::new_checked(&bytes[..]).is_ok(), |ok| if ok { "ok".into() } else { "err".into() });
        let mut s = format!("chk {}", chk);
        if chk == "ok" {
            let f = EthernetFrame::new_unchecked(&bytes[..]);
            s += &format!(
                " acc dst={} src={} type={} payload={}",
                acc(|| f.dst_addr(), |a| show_bytes(a.as_bytes())),
                acc(|| f.src_addr(), |a| show_bytes(a.as_bytes())),
                acc(|| f.ethertype(), |t| u16::from(t).to_string()),
                acc(|| f.payload(), |p| show_bytes(p)),
            );
        }
        let p = acc(|| EthernetRepr::parse(&EthernetFrame::new_unchecked(&bytes[..])), |x| match x {
            Ok(r) => show_repr(&r),
            Err(_) => "Err".into(),
        });
        format!("{} parse {}", s, p)
    }
}

pub const FORMAT: Format = Format { name: "eth", gen_emit, gen_parse, run_op };
