//! Streams `wire-<fmt>-emit` / `wire-<fmt>-parse` (properties C06, C07) and the oracles over all
//! exported wire types.
//!
//!   h_wire gen <fmt>-emit|<fmt>-parse <seed> <n> <tier>   cases on stdout
//!   h_wire run                                            cases on stdin -> observations
//!   h_wire oracle-c06|oracle-c07 <seed> <n> <tier>        FAILCASE / FAIL <class> :: … / STATS {json}
//!   h_wire oracle-replay                                  oracle cases on stdin -> FAIL lines
//!   h_wire gen oracle-c06|oracle-c07 <seed> <n> <tier>    stream `wire-oracle`: oracle cases as blocks
//!                                                         (`case <id> fmt=oracle kind=c06|c07 type=<T>`); `run`
//!                                                         prints `ok` / `FAIL <classes>` per op, the model side
//!                                                         (the property) expects `ok`.  corpus/C06|C07/wire-oracle-*.case
//!                                                         keep the witnesses of fixed defects.
//!
//! Case: `case <id> fmt=<fmt>` + ops + `end`.
//!   emit  buf=<hex> <repr fields>     real `Repr::emit` into exactly that buffer (zero-filled and
//!                                     garbage-filled variants are generated for every repr)
//!         -> `ret <bytes|PANIC> | <Repr::parse of the result>`
//!   parse bytes=<hex> <context>       `new_checked`, every accessor, `Repr::parse`, each under catch_unwind
//!         -> `chk <ok|err|PANIC> [acc k=v …] parse <Ok fields…|Err|PANIC>`
//! To add a format: a module `wire/fmt_<x>.rs` exporting `FORMAT`, one line in `FORMATS`.
use std::io::Write;
use svh::*;

#[path = "wire/common.rs"]
mod common;
#[path = "wire/fmt_arp.rs"]
mod fmt_arp;
#[path = "wire/fmt_eth.rs"]
mod fmt_eth;
#[path = "wire/fmt_icmpv4.rs"]
mod fmt_icmpv4;
#[path = "wire/fmt_icmpv6.rs"]
mod fmt_icmpv6;
#[path = "wire/fmt_ipv4.rs"]
mod fmt_ipv4;
#[path = "wire/fmt_ipv6.rs"]
mod fmt_ipv6;
#[path = "wire/fmt_tcp.rs"]
mod fmt_tcp;
#[path = "wire/fmt_tcpopt.rs"]
mod fmt_tcpopt;
#[path = "wire/fmt_udp.rs"]
mod fmt_udp;
#[path = "wire/oracle.rs"]
mod oracle;

use common::Format;

const FORMATS: &[&Format] = &[&fmt_eth::FORMAT, &fmt_arp::FORMAT, &fmt_udp::FORMAT, &fmt_ipv4::FORMAT, &fmt_ipv6::FORMAT, &fmt_icmpv4::FORMAT, &fmt_icmpv6::FORMAT, &fmt_tcp::FORMAT, &fmt_tcpopt::FORMAT];

fn format(name: &str) -> &'static Format {
    FORMATS.iter().find(|f| f.name == name).unwrap_or_else(|| panic!("unknown format {}", name))
}

fn main() {
    quiet_panics();
    let a: Vec<String> = std::env::args().collect();
    let sub = a.get(1).cloned().unwrap_or_else(|| "run".into());
    let stdout = std::io::stdout();
    let mut out = std::io::BufWriter::new(stdout.lock());
    match sub.as_str() {
        "gen" => {
            let stream = a[2].clone();
            let seed: u64 = a[3].parse().unwrap();
            let n: usize = a[4].parse().unwrap();
            let tier = a.get(5).cloned().unwrap_or_else(|| "quick".into());
            if stream == "oracle-c06" || stream == "oracle-c07" {
                // stream `wire-oracle`: the oracle's own cases as replayable blocks (expected observation: ok)
                oracle::gen_cases(&stream[7..], seed, n, &tier, &mut out);
                return;
            }
            let (fmt, kind) = stream.rsplit_once('-').expect("stream = <fmt>-emit|parse");
            let f = format(fmt);
            let mut rng = Rng::new(seed ^ if kind == "emit" { 0x06 } else { 0x07 });
            for i in 0..n {
                let ops = if kind == "emit" { (f.gen_emit)(&mut rng, &tier) } else { (f.gen_parse)(&mut rng, &tier) };
                Case { id: format!("{}{}-{}", &kind[..1], seed, i), cfg: vec![("fmt".into(), fmt.into())], ops }.write(&mut out);
            }
        }
        "run" => {
            for c in stdin_cases() {
                writeln!(out, "case {}", c.id).unwrap();
                if c.get("fmt") == Some("oracle") {
                    oracle::run_case(&c, &mut out);
                    continue;
                }
                let f = format(c.get("fmt").expect("fmt="));
                for op in &c.ops {
                    writeln!(out, "{}", (f.run_op)(op)).unwrap();
                }
            }
        }
        "oracle-c06" | "oracle-c07" => {
            let seed: u64 = a[2].parse().unwrap();
            let n: usize = a[3].parse().unwrap();
            let tier = a.get(4).cloned().unwrap_or_else(|| "quick".into());
            if sub == "oracle-c06" {
                oracle::oracle_c06(seed, n, &tier, &mut out)
            } else {
                oracle::oracle_c07(seed, n, &tier, &mut out)
            }
        }
        "oracle-replay" => oracle::oracle_replay(&stdin_cases(), &mut out),
        x => panic!("unknown subcommand {}", x),
    }
}
