// Case generator for stream `tcp` (included by h_tcp.rs).
//
// The generator is a *live peer*: it drives the real implementation while it writes the case, and
// learns everything a real peer would learn from the frames the socket emits (the socket's ISN,
// SND.NXT, its ACK number and window).  Segments are then written with ABSOLUTE sequence / ACK
// numbers, so the model is never told anything that was assumed rather than observed, and a case
// stays meaningful when the shrinker deletes events.

use std::collections::HashMap;

thread_local! {
    static ISN_CACHE: std::cell::RefCell<HashMap<u64, Vec<u32>>> = std::cell::RefCell::new(HashMap::new());
    static SPECIAL_SEEDS: std::cell::RefCell<Option<Vec<u64>>> = std::cell::RefCell::new(None);
}

const ISN_COUNT: usize = 6;

/// ISNs handed out by an interface created with `seed`: observed on a scratch instance.
fn learn_isns(seed: u64) -> Vec<u32> {
    if let Some(v) = ISN_CACHE.with(|c| c.borrow().get(&seed).cloned()) {
        return v;
    }
    let cfg = Cfg { rx: 64, tx: 64, mtu: 1500, cc: "none".into(), ts: false, fill: 0, seed, isns: vec![] };
    let mut sim = Sim::new(&cfg);
    let mut v = vec![];
    for i in 0..ISN_COUNT {
        sim.step(&format!("connect rp=4000 lp={}", 50000 + i));
        let st = sim.step("poll t=0");
        let syn = st.txs.iter().find(|t| t.ctl == TcpControl::Syn).expect("SYN after connect");
        v.push(syn.seq);
        sim.step("abort");
        sim.step("poll t=0");
    }
    ISN_CACHE.with(|c| c.borrow_mut().insert(seed, v.clone()));
    v
}

/// src/rand.rs sPCG32, replicated ONLY to search for interesting seeds; the result is always verified
/// by observation (learn_isns).
fn spcg32(state: &mut u64) -> u32 {
    const M: u64 = 0xbb2efcec3c39611d;
    const A: u64 = 0x7590ef39;
    let s = state.wrapping_mul(M).wrapping_add(A);
    *state = s;
    let shift = 29 - (s >> 61);
    (s >> shift) as u32
}

fn near_wrap(x: u32) -> bool {
    let d31 = (x as i64 - (1i64 << 31)).abs();
    let d32 = (x as i64).min((1i64 << 32) - x as i64);
    d31 < 6000 || d32 < 6000
}

/// Seeds whose first or second ISN is within 6000 of 2^31 or 2^32.
fn special_seeds(rng: &mut Rng) -> Vec<u64> {
    if let Some(v) = SPECIAL_SEEDS.with(|c| c.borrow().clone()) {
        return v;
    }
    // calibrate: how many draws does Interface::new make before the first ISN?
    let probe = 0x1234_5678_9abc_u64;
    let seen = learn_isns(probe);
    let mut skip = None;
    for d in 0..8 {
        let mut s = probe;
        for _ in 0..d {
            spcg32(&mut s);
        }
        if spcg32(&mut s) == seen[0] && spcg32(&mut s) == seen[1] {
            skip = Some(d);
            break;
        }
    }
    let mut found = vec![];
    if let Some(d) = skip {
        let mut tries = 0u64;
        while found.len() < 6 && tries < 6_000_000 {
            tries += 1;
            let seed = rng.next();
            let mut s = seed;
            for _ in 0..d {
                spcg32(&mut s);
            }
            let a = spcg32(&mut s);
            let b = spcg32(&mut s);
            if near_wrap(a) || near_wrap(b) {
                let obs = learn_isns(seed);
                if near_wrap(obs[0]) || near_wrap(obs[1]) {
                    found.push(seed);
                }
            }
        }
    }
    SPECIAL_SEEDS.with(|c| *c.borrow_mut() = Some(found.clone()));
    found
}

struct Gen<'r> {
    rng: &'r mut Rng,
    sim: Sim,
    cfg: Cfg,
    ops: Vec<String>,
    t: i64,
    // peer side
    lp: u16,
    pp: u16,
    p_isn: u32,
    p_off: i64,       // next new peer stream offset
    p_fin: bool,      // peer FIN sent
    p_win: u16,
    p_mss: Option<u16>,
    p_ws: Option<u8>,
    p_sackp: bool,
    p_ts: bool,
    last_ack_sent: Option<u32>,
    // learned from emitted frames
    s_iss: Option<u32>,
    s_nxt: Option<u32>,
    s_ack: Option<u32>,
    s_win: u16,
    s_ws: Option<u8>,
    conn_budget: usize,
    /// receive buffer above 64 KiB: window scaling in use, probes around the unscaled SYN window
    bigwin: bool,
    /// interface address (last octet 1 or 3) the peer's segments are addressed to, and the address the
    /// listener is bound to (None = any)
    da: u8,
    bound: Option<u8>,
    stats: BTreeMap<String, u64>,
}

fn wadd(a: u32, d: i64) -> u32 {
    ((a as i64 + d).rem_euclid(M32)) as u32
}
fn sdiff(a: u32, b: u32) -> i64 {
    (a.wrapping_sub(b) as i32) as i64
}

impl<'r> Gen<'r> {
    fn ev(&mut self, line: String) -> Step {
        let k = line.split_whitespace().next().unwrap().to_string();
        *self.stats.entry(k).or_default() += 1;
        if std::env::var("H_TCP_TRACE").is_ok() {
            eprintln!("{}", line);
        }
        let st = self.sim.step(&line);
        self.ops.push(line);
        for t in &st.txs {
            if t.ctl == TcpControl::Syn {
                self.s_iss = Some(t.seq);
                self.s_ws = t.ws;
                self.s_nxt = Some(wadd(t.seq, 1));
            } else if t.ctl != TcpControl::Rst {
                let e = wadd(t.seq, t.seg_len() as i64);
                match self.s_nxt {
                    Some(n) if sdiff(e, n) <= 0 => {}
                    _ => self.s_nxt = Some(e),
                }
            }
            if let Some(a) = t.ack {
                self.s_ack = Some(a);
                self.s_win = t.win;
            }
        }
        st
    }
    fn p_seq(&self, off: i64) -> u32 {
        wadd(self.p_isn, 1 + off + self.p_fin as i64)
    }
    fn shift(&self) -> u32 {
        match (self.s_ws, self.p_ws) {
            (Some(s), Some(_)) => s.min(14) as u32,
            _ => 0,
        }
    }
    fn ack_now(&self) -> Option<u32> {
        self.s_nxt.or(self.s_iss.map(|i| wadd(i, 1)))
    }
    fn ts_opt(&mut self) -> String {
        if self.p_ts { format!("{}:{}", 5000 + self.t, self.rng.below(1000)) } else { "-".into() }
    }
    #[allow(clippy::too_many_arguments)]
    fn seg(&mut self, seq: u32, ack: Option<u32>, fl: &str, win: u16, len: usize, po: String, opts: &str) -> Step {
        let ts = self.ts_opt();
        let line = format!(
            "seg t={} da={} sp={} dp={} seq={} ack={} fl={} win={} len={} po={} {} ts={}",
            self.t,
            self.da,
            self.pp,
            self.lp,
            seq,
            ack.map(|a| a.to_string()).unwrap_or_else(|| "-".into()),
            if fl.is_empty() { "-" } else { fl },
            win,
            len,
            po,
            opts,
            ts
        );
        if let Some(a) = ack {
            self.last_ack_sent = Some(a);
        }
        self.ev(line)
    }
    fn syn_opts(&self) -> String {
        format!(
            "mss={} ws={} sackp={}",
            self.p_mss.map(|m| m.to_string()).unwrap_or_else(|| "-".into()),
            self.p_ws.map(|m| m.to_string()).unwrap_or_else(|| "-".into()),
            self.p_sackp as u8
        )
    }
    fn plain_opts() -> &'static str {
        "mss=- ws=- sackp=0"
    }
    fn poll(&mut self) {
        let r = self.rng.below(100);
        if r < 35 {
        } else if r < 55 {
            self.t += self.rng.range(1, 50);
        } else if r < 85 && !self.sim.dead {
            let now = Instant::from_millis(self.t);
            if let Some(d) = self.sim.iface.poll_at(now, &self.sim.sockets) {
                let ms = (d.total_micros() + 999) / 1000;
                if ms > self.t {
                    self.t = ms + if self.rng.chance(1, 5) { self.rng.range(-2, 2) } else { 0 };
                    if self.t < 0 {
                        self.t = 0;
                    }
                }
            } else {
                self.t += self.rng.range(1, 300);
            }
        } else {
            self.t += *self.rng.pick(&[200, 999, 1000, 1001, 3000, 9999, 10000, 10001, 60000]);
        }
        let b = if self.rng.chance(1, 10) { self.rng.pick(&[0u64, 0, 1, 2]).to_string() } else { "-".into() };
        self.ev(format!("poll t={} b={}", self.t, b));
    }
    /// device back-pressure: a poll at the current time (or at the pending deadline) whose frame the
    /// device refuses (b=0) or of which it takes only one (b=1), usually followed by an unlimited one
    fn poll_refused(&mut self, at_deadline: bool) {
        if at_deadline && !self.sim.dead {
            let now = Instant::from_millis(self.t);
            if let Some(d) = self.sim.iface.poll_at(now, &self.sim.sockets) {
                let ms = (d.total_micros() + 999) / 1000;
                if ms > self.t {
                    self.t = ms;
                }
            }
        }
        let b = *self.rng.pick(&[0u64, 0, 0, 1]);
        self.ev(format!("poll t={} b={}", self.t, b));
        if self.rng.chance(1, 3) {
            self.ev(format!("poll t={} b=0", self.t));
        }
        if self.rng.chance(3, 4) {
            self.ev(format!("poll t={} b=-", self.t));
        }
    }
    /// a SYN addressed to the interface's OTHER address: a bound listener must not take it (RST reply)
    fn syn_to_other_address(&mut self) {
        let keep = self.da;
        self.da = if keep == 1 { 3 } else { 1 };
        let o = self.syn_opts();
        let w = self.p_win;
        let seq = self.rng.next() as u32;
        let las = self.last_ack_sent;
        self.seg(seq, None, "S", w, 0, "0".into(), &o);
        if self.rng.chance(1, 2) {
            self.ev(format!("poll t={} b=-", self.t));
        }
        self.last_ack_sent = las;
        self.da = keep;
    }
    /// one segment around the window the SYN / SYN|ACK put on the wire (unscaled field, at most 65535)
    /// and around the buffer size, sent before the socket has emitted anything else
    fn edge_probe(&mut self) {
        let sh = match (self.s_ws, self.p_ws) {
            (Some(s), Some(_)) => s.min(14) as i64,
            _ => 0,
        };
        let rx = self.cfg.rx as i64;
        let offs = [
            65534i64, 65535, 65536, 65537, 70000,
            ((65535 >> sh) << sh) - 1, (65535 >> sh) << sh, ((65535 >> sh) << sh) + 1,
            rx - 1, rx, rx + 1, (rx >> sh) << sh,
        ];
        let off = *self.rng.pick(&offs);
        let seq = wadd(self.p_isn, 1 + off);
        let w = self.p_win;
        let ack = self.s_iss.map(|i| wadd(i, 1));
        match self.rng.below(5) {
            0 | 1 => {
                let a = if self.rng.chance(1, 2) { ack } else { None };
                self.seg(seq, a, "R", w, 0, "0".into(), Gen::plain_opts());
            }
            2 | 3 => {
                let len = *self.rng.pick(&[1usize, 10, 100]);
                self.seg(seq, ack, "", w, len, off.to_string(), Gen::plain_opts());
            }
            _ => {
                self.seg(seq, ack, "", w, 0, "0".into(), Gen::plain_opts());
            }
        }
    }
    /// data in flight, a partial ACK that closes the window (probe timer armed with octets still
    /// unacknowledged), [a probe, possibly refused], then the window reopens
    fn zero_window_reopen(&mut self) {
        let n = *self.rng.pick(&[600usize, 1500, 3000]);
        self.ev(format!("send {}", n));
        self.ev(format!("poll t={} b=-", self.t));
        if let (Some(nxt), Some(una)) = (self.s_nxt, self.last_ack_sent.or(self.s_iss.map(|i| wadd(i, 1)))) {
            let span = sdiff(nxt, una);
            if span > 2 {
                let a = wadd(una, self.rng.range(1, span - 1));
                let seq = self.p_seq(self.p_off);
                self.seg(seq, Some(a), "", 0, 0, "0".into(), Gen::plain_opts());
                self.p_win = 0;
                if self.rng.chance(1, 2) {
                    self.poll_refused(true);
                }
                let w = *self.rng.pick(&[1u16, 536, 65535]);
                self.p_win = w;
                self.seg(seq, Some(a), "", w, 0, "0".into(), Gen::plain_opts());
                self.poll();
            }
        }
    }
    /// A fast retransmit that becomes pending while the learned window is 0, with something else to emit:
    /// several segments in flight; a fresh partial ACK and three duplicates, where either all of them
    /// advertise window 0 or a window update to 0 follows, all in one ingress burst (no dispatch in
    /// between); peer data so that an ACK is owed; then the dispatch (sometimes first into a busy device).
    /// Variants afterwards: the RTO fires while the retransmit is still pending; the window reopens.
    fn fast_retransmit_zero_window(&mut self) {
        let seq = self.p_seq(self.p_off);
        let a0 = self.ack_now();
        self.p_win = 65535;
        self.seg(seq, a0, "", 65535, 0, "0".into(), Gen::plain_opts());
        let n = *self.rng.pick(&[3000usize, 6000, 9000]);
        self.ev(format!("send {}", n));
        self.ev(format!("poll t={} b=-", self.t));
        let (nxt, una) = match (self.s_nxt, self.last_ack_sent) {
            (Some(n), Some(u)) => (n, u),
            _ => return,
        };
        let span = sdiff(nxt, una);
        if span <= 2 {
            return;
        }
        let a = wadd(una, if self.rng.chance(1, 4) { 0 } else { self.rng.range(1, span - 1) });
        let zero_first = self.rng.chance(1, 2);
        let w = if zero_first { 0 } else { *self.rng.pick(&[536u16, 4096, 65535]) };
        self.p_win = w;
        for _ in 0..4 {
            self.seg(seq, Some(a), "", w, 0, "0".into(), Gen::plain_opts());
        }
        if !zero_first || self.rng.chance(1, 4) {
            self.seg(seq, Some(a), "", 0, 0, "0".into(), Gen::plain_opts());
        }
        self.p_win = 0;
        // an ACK becomes owed
        if self.rng.chance(4, 5) {
            let len = self.rng.range(1, 50) as usize;
            let po = self.p_off.to_string();
            self.seg(seq, Some(a), "", 0, len, po, Gen::plain_opts());
            self.p_off += len as i64;
        }
        match self.rng.below(4) {
            0 => self.poll_refused(false),
            1 => {
                self.t += 10;
                self.ev(format!("poll t={} b=-", self.t));
            }
            2 => {
                self.ev(format!("poll t={} b=-", self.t));
                self.t += 10;
                self.ev(format!("poll t={} b=-", self.t));
            }
            _ => self.poll(),
        }
        if self.rng.chance(1, 3) {
            // the retransmission timeout fires while the fast retransmit is still pending
            self.poll_refused(true);
        }
        // the window reopens
        let w = *self.rng.pick(&[1u16, 536, 4096, 65535]);
        self.p_win = w;
        let seq = self.p_seq(self.p_off);
        self.seg(seq, Some(a), "", w, 0, "0".into(), Gen::plain_opts());
        self.ev(format!("poll t={} b=-", self.t));
        if self.rng.chance(1, 2) {
            self.poll();
        }
    }
    /// data in flight, a fresh ACK of part of it, then duplicate ACKs: fast retransmit (often into a busy device)
    fn dup_ack_burst(&mut self) {
        let n = *self.rng.pick(&[600usize, 1500, 3000, 5000]);
        self.ev(format!("send {}", n));
        self.ev(format!("poll t={} b=-", self.t));
        if let (Some(nxt), Some(una)) = (self.s_nxt, self.last_ack_sent.or(self.s_iss.map(|i| wadd(i, 1)))) {
            let span = sdiff(nxt, una);
            if span > 1 {
                let a = wadd(una, self.rng.range(0, span - 1));
                let w = self.p_win;
                let seq = self.p_seq(self.p_off);
                let k = *self.rng.pick(&[2i64, 3, 3, 3, 4, 5]);
                for _ in 0..=k {
                    self.seg(seq, Some(a), "", w, 0, "0".into(), Gen::plain_opts());
                }
                if self.rng.chance(2, 3) {
                    self.poll_refused(false);
                } else {
                    self.poll();
                }
            }
        }
    }
    fn new_peer(&mut self) {
        self.p_isn = match self.rng.below(10) {
            0 => wadd(1u32 << 31, self.rng.range(-3000, 3000)),
            1 | 2 => wadd(0, self.rng.range(-3000, 3000)),
            _ => self.rng.next() as u32,
        };
        self.p_off = 0;
        self.p_fin = false;
        self.p_win = *self.rng.pick(&[0u16, 1, 7, 64, 536, 1000, 4096, 16384, 65535, 65535]);
        self.p_mss = *self.rng.pick(&[None, None, Some(0u16), Some(1), Some(47), Some(48), Some(100), Some(536), Some(1460), Some(1460), Some(65535)]);
        self.p_ws = *self.rng.pick(&[None, None, Some(0u8), Some(2), Some(7), Some(14), Some(15), Some(200)]);
        self.p_sackp = self.rng.chance(1, 2);
        self.p_ts = self.rng.chance(1, 2);
        if self.bigwin {
            // peers that do (2 of 3) and do not offer window scaling; SACK often, so that accepted
            // out-of-order data shows up in the SACK blocks
            self.p_ws = if self.rng.chance(2, 3) { Some(*self.rng.pick(&[0u8, 2, 7, 14])) } else { None };
            self.p_sackp = self.rng.chance(3, 4);
            self.p_win = *self.rng.pick(&[1000u16, 16384, 65535]);
        }
        self.s_iss = None;
        self.s_nxt = None;
        self.s_ack = None;
        self.s_ws = None;
        self.last_ack_sent = None;
    }
    /// open a connection (as client, server or simultaneously); each step may be perturbed
    fn open(&mut self) {
        if self.conn_budget == 0 {
            return;
        }
        self.conn_budget -= 1;
        self.new_peer();
        self.lp = *self.rng.pick(&[80u16, 80, 1, 65535, 49152]);
        self.pp = *self.rng.pick(&[4000u16, 4000, 1, 65535]);
        let kind = self.rng.below(10);
        if kind < 4 {
            // client
            self.da = 1;
            self.bound = None;
            self.ev(format!("connect rp={} lp={}", self.pp, self.lp));
            self.poll();
            if self.rng.chance(1, 8) {
                return;
            }
            let ack = self.s_iss.map(|i| wadd(i, 1 + self.pert()));
            let o = self.syn_opts();
            let w = self.p_win;
            if self.rng.chance(1, 10) {
                // simultaneous open: SYN without ACK, then the ACK of our SYN
                self.seg(self.p_isn, None, "S", w, 0, "0".into(), &o);
                self.poll();
                self.seg(wadd(self.p_isn, 1), ack, "", w, 0, "0".into(), Gen::plain_opts());
            } else {
                self.seg(self.p_isn, ack, "S", w, 0, "0".into(), &o);
                if self.bigwin && self.rng.chance(3, 4) {
                    self.edge_probe();
                }
            }
            self.poll();
        } else if kind < 9 {
            // server
            self.bound = *self.rng.pick(&[None, None, None, Some(1u8), Some(3u8)]);
            self.da = self.bound.unwrap_or(*self.rng.pick(&[1u8, 1, 3]));
            let a = match self.bound { Some(x) => format!(" a={}", x), None => String::new() };
            self.ev(format!("listen {}{}", self.lp, a));
            if self.bound.is_some() && self.rng.chance(1, 4) {
                self.syn_to_other_address();
            }
            if self.rng.chance(1, 10) {
                return;
            }
            let o = self.syn_opts();
            let w = self.p_win;
            let len = if self.rng.chance(1, 10) { 5 } else { 0 };
            self.seg(self.p_isn, None, "S", w, len, "0".into(), &o);
            self.poll();
            if self.bigwin {
                if self.s_iss.is_none() {
                    self.ev(format!("poll t={} b=-", self.t));
                }
                if self.rng.chance(3, 4) {
                    self.edge_probe();
                }
            }
            if self.rng.chance(1, 8) {
                return;
            }
            // relisten: the peer resets the half-open connection (back to LISTEN) and a new incarnation
            // (fresh peer ISN and options) connects; per-incarnation state must not leak
            let mut relisten = 0;
            while self.conn_budget > 0 && relisten < 2 && self.rng.chance(1, 5) {
                relisten += 1;
                self.conn_budget -= 1;
                if self.rng.chance(1, 2) {
                    self.t += *self.rng.pick(&[0i64, 1, 1000, 3000]);
                    self.poll();
                }
                let a = if self.rng.chance(1, 2) { None } else { self.s_iss.map(|i| wadd(i, 1)) };
                self.seg(wadd(self.p_isn, 1 + len as i64), a, "R", w, 0, "0".into(), Gen::plain_opts());
                self.new_peer();
                // back in LISTEN the listener must still be bound to the address given to listen()
                if self.bound.is_some() && self.rng.chance(1, 2) {
                    self.syn_to_other_address();
                }
                let o = self.syn_opts();
                let w = self.p_win;
                self.seg(self.p_isn, None, "S", w, 0, "0".into(), &o);
                self.poll();
            }
            let w = self.p_win;
            let ack = self.s_iss.map(|i| wadd(i, 1 + self.pert()));
            self.seg(wadd(self.p_isn, 1), ack, "", w, 0, "0".into(), Gen::plain_opts());
            if relisten > 0 {
                // data both ways and a keep-alive in the new incarnation
                let l = self.rng.range(1, 100) as usize;
                let seq = self.p_seq(self.p_off);
                let po = self.p_off.to_string();
                self.seg(seq, ack, "", w, l, po, Gen::plain_opts());
                self.p_off += l as i64;
                self.poll();
                let n = self.rng.range(1, 600);
                self.ev(format!("send {}", n));
                self.poll();
                let ka = *self.rng.pick(&[1i64, 50, 1000]);
                self.ev(format!("set keepalive={}", ka));
                self.t += *self.rng.pick(&[1i64, 50, 1000, 1001]);
                self.ev(format!("poll t={} b=-", self.t));
            }
        } else {
            // simultaneous open, SYN crossing
            self.da = 1;
            self.bound = None;
            self.ev(format!("connect rp={} lp={}", self.pp, self.lp));
            let o = self.syn_opts();
            let w = self.p_win;
            if self.rng.chance(5, 6) {
                self.poll();
            }
            self.seg(self.p_isn, None, "S", w, 0, "0".into(), &o);
            self.poll();
            let ack = self.s_iss.map(|i| wadd(i, 1 + self.pert()));
            if self.rng.chance(1, 2) {
                self.seg(self.p_isn, ack, "S", w, 0, "0".into(), &o);
            } else {
                self.seg(wadd(self.p_isn, 1), ack, "", w, 0, "0".into(), Gen::plain_opts());
            }
        }
    }
    /// small perturbation, mostly 0
    fn pert(&mut self) -> i64 {
        if self.rng.chance(1, 12) { *self.rng.pick(&[-2i64, -1, 1, 2]) } else { 0 }
    }
    fn len_choice(&mut self) -> usize {
        let wnd = ((self.s_win as usize) << self.shift()).min(70000);
        match self.rng.below(12) {
            0 | 1 => 1,
            2 | 3 => self.rng.range(2, 10) as usize,
            4 => 100,
            5 => 536,
            6 => 1460,
            7 => wnd,
            8 => wnd + 1,
            9 => wnd.saturating_sub(1),
            10 => self.cfg.rx.min(3000),
            _ => self.rng.range(1, 1500) as usize,
        }
        .min(3000)
    }
    fn win_choice(&mut self) -> u16 {
        if self.rng.chance(3, 4) {
            self.p_win
        } else {
            self.p_win = *self.rng.pick(&[0u16, 0, 1, 2, 10, 100, 535, 536, 1000, 5000, 65535]);
            self.p_win
        }
    }
    fn step(&mut self) {
        let r = self.rng.below(100);
        let ack = self.ack_now().map(|a| wadd(a, self.pert()));
        match r {
            8..=9 => {
                // closure API: 0, a few, or more than the contiguous slice
                let k = match self.rng.below(6) {
                    0 => 0,
                    1 => 1,
                    2 => self.rng.range(2, 20) as usize,
                    3 => self.cfg.tx,
                    4 => self.cfg.tx / 2 + 1,
                    _ => self.rng.range(1, 3000) as usize,
                };
                self.ev(format!("sendf {}", k.min(300000)));
            }
            0..=7 => {
                let n = match self.rng.below(8) {
                    0 => 1,
                    1 | 2 => self.rng.range(2, 20) as usize,
                    3 => 536,
                    4 => 1000,
                    5 => 3000,
                    6 => self.cfg.tx,
                    _ => self.rng.range(1, 2000) as usize,
                };
                self.ev(format!("send {}", n.min(300000)));
            }
            15..=16 => {
                let k = match self.rng.below(6) {
                    0 => 0,
                    1 => 1,
                    2 => self.rng.range(2, 20) as usize,
                    3 => self.cfg.rx,
                    4 => self.cfg.rx / 2 + 1,
                    _ => self.rng.range(1, 3000) as usize,
                };
                self.ev(format!("recvf {}", k.min(300000)));
            }
            10..=14 => {
                let n = match self.rng.below(5) {
                    0 => 1,
                    1 => self.rng.range(2, 20) as usize,
                    2 => 1000,
                    3 => self.cfg.rx,
                    _ => self.rng.range(1, 3000) as usize,
                };
                self.ev(format!("recv {}", n.min(300000)));
            }
            17 => {
                let n = self.rng.range(0, 100);
                if self.rng.chance(1, 2) {
                    self.ev(format!("peek {}", n));
                } else {
                    self.ev(format!("peekc {}", n));
                }
            }
            18 => {
                // error arms of the user calls, from whatever state the socket is in: listen on port 0 or on
                // another endpoint while open, connect with port 0 / unspecified or IPv6 remote / unspecified
                // local address (all of these must fail and leave the state alone)
                let open = !matches!(self.sim.state(), tcp::State::Closed | tcp::State::TimeWait) || self.sim.dead;
                let (rp, lp) = (self.pp, self.lp);
                let e = match self.rng.below(if open { 10 } else { 8 }) {
                    0 => "listen 0".to_string(),
                    1 => format!("connect rp=0 lp={}", lp),
                    2 => format!("connect rp={} lp={} ra=0", rp, lp),
                    3 => format!("connect rp={} lp=0", rp),
                    4 => format!("connect rp={} lp={} la=0", rp, lp),
                    5 => format!("connect rp={} lp={} ra=6 la=4", rp, lp),
                    6 => format!("connect rp={} lp={} ra=60", rp, lp),
                    7 => format!("connect rp=0 lp=0 ra=60 la=0"),
                    8 => format!("connect rp={} lp={}{}", rp, lp, if self.rng.chance(1, 2) { " la=4" } else { "" }),
                    _ => format!("listen {}{}", lp.wrapping_add(self.rng.range(0, 1) as u16).max(1), if self.rng.chance(1, 3) { " a=1" } else { "" }),
                };
                self.ev(e);
            }
            19..=34 => self.poll(),
            35..=46 => {
                // in-order data (possibly with FIN)
                let len = self.len_choice();
                let w = self.win_choice();
                let fin = self.rng.chance(1, 12);
                let psh = self.rng.chance(1, 4);
                let seq = wadd(self.p_seq(self.p_off), self.pert());
                let fl = if fin { "F" } else if psh { "P" } else { "" };
                let po = self.p_off.to_string();
                self.seg(seq, ack, fl, w, len, po, Gen::plain_opts());
                self.p_off += len as i64;
                if fin {
                    self.p_fin = true;
                }
            }
            47..=51 => {
                // retransmission from the acknowledged point (or a bit before it)
                if let Some(a) = self.s_ack {
                    let back = if self.rng.chance(1, 3) { self.rng.range(1, 20) } else { 0 };
                    let seq = wadd(a, -back);
                    let off = sdiff(seq, wadd(self.p_isn, 1));
                    let len = self.rng.range(1, 600) as usize;
                    let w = self.win_choice();
                    let po = if self.rng.chance(1, 10) { format!("x{}", off) } else { off.to_string() };
                    self.seg(seq, ack, "", w, len, po, Gen::plain_opts());
                }
            }
            52..=56 => {
                // out of order: leaves a hole
                let gap = *self.rng.pick(&[1i64, 2, 5, 100, 600, 1460]);
                let len = self.rng.range(1, 200) as usize;
                let w = self.win_choice();
                let fin = self.rng.chance(1, 10);
                let seq = self.p_seq(self.p_off + gap);
                let po = (self.p_off + gap).to_string();
                self.seg(seq, ack, if fin { "F" } else { "" }, w, len, po, Gen::plain_opts());
                if self.rng.chance(1, 2) {
                    // several disjoint blocks to fill the assembler
                    for k in 1..self.rng.range(2, 6) {
                        let seq = self.p_seq(self.p_off + gap + 300 * k);
                        let po = (self.p_off + gap + 300 * k).to_string();
                        self.seg(seq, ack, "", w, len.min(100), po, Gen::plain_opts());
                    }
                }
            }
            57..=62 => {
                // pure ACK of everything seen, window choice
                let w = self.win_choice();
                let seq = self.p_seq(self.p_off);
                self.seg(seq, ack, "", w, 0, "0".into(), Gen::plain_opts());
                if w == 0 && self.rng.chance(1, 3) {
                    let n = self.rng.range(1, 600);
                    self.ev(format!("send {}", n));
                    self.poll_refused(true); // zero-window probe into a busy device
                }
            }
            63 => {
                if self.rng.chance(1, 2) {
                    self.dup_ack_burst()
                } else {
                    self.fast_retransmit_zero_window()
                }
            }
            64 => self.zero_window_reopen(),
            65..=68 => {
                // duplicate ACKs
                if let Some(a) = self.last_ack_sent {
                    let n = self.rng.range(1, 4);
                    let w = self.p_win;
                    let seq = self.p_seq(self.p_off);
                    for _ in 0..n {
                        self.seg(seq, Some(a), "", w, 0, "0".into(), Gen::plain_opts());
                    }
                    if n >= 3 && self.rng.chance(1, 2) {
                        self.poll_refused(false);
                    }
                }
            }
            69..=72 => {
                // partial / stale ACK
                if let (Some(a), Some(n)) = (self.last_ack_sent, self.s_nxt) {
                    let span = sdiff(n, a);
                    let d = if span > 0 { self.rng.range(0, span) } else { self.rng.range(-5, 0) };
                    let w = self.win_choice();
                    let seq = self.p_seq(self.p_off);
                    self.seg(seq, Some(wadd(a, d)), "", w, 0, "0".into(), Gen::plain_opts());
                }
            }
            73..=78 => {
                // around the boundaries: window edges, rcv_nxt, snd_una, snd_nxt
                let d = *self.rng.pick(&[-2i64, -1, 0, 1, 2]);
                let len = *self.rng.pick(&[0usize, 0, 1, 5, 600]);
                let fl = *self.rng.pick(&["", "", "F", "R", "S", "P"]);
                let w = self.p_win;
                let (seq, a) = match self.rng.below(4) {
                    0 => (
                        self.s_ack.map(|x| wadd(x, ((self.s_win as i64) << self.shift()) + d)).unwrap_or(0),
                        ack,
                    ),
                    1 => (self.s_ack.map(|x| wadd(x, d)).unwrap_or(d as u32), ack),
                    2 => (self.p_seq(self.p_off), self.s_nxt.map(|x| wadd(x, d))),
                    _ => (self.p_seq(self.p_off), self.last_ack_sent.map(|x| wadd(x, d))),
                };
                let po = sdiff(seq, wadd(self.p_isn, 1)).to_string();
                self.seg(seq, a, fl, w, len, po, Gen::plain_opts());
            }
            79..=81 => {
                // FIN in order
                let w = self.p_win;
                let seq = self.p_seq(self.p_off);
                self.seg(seq, ack, "F", w, 0, "0".into(), Gen::plain_opts());
                self.p_fin = true;
            }
            82..=83 => {
                // RST variants
                let w = self.p_win;
                let base = self.s_ack.unwrap_or_else(|| self.p_seq(self.p_off));
                let seq = match self.rng.below(5) {
                    0 | 1 => base,
                    2 => wadd(base, self.rng.range(1, 50)),
                    3 => wadd(base, -self.rng.range(1, 50)),
                    _ => wadd(base, ((self.s_win as i64) << self.shift()) + self.rng.range(-1, 2)),
                };
                let a = if self.rng.chance(1, 3) { None } else { ack };
                self.seg(seq, a, "R", w, 0, "0".into(), Gen::plain_opts());
            }
            84 => {
                // SYN in a synchronized state / repeated SYN
                let w = self.p_win;
                let o = self.syn_opts();
                let a = if self.rng.chance(1, 2) { None } else { ack };
                let seq = if self.rng.chance(1, 2) { self.p_isn } else { self.p_seq(self.p_off) };
                self.seg(seq, a, "S", w, 0, "0".into(), &o);
            }
            85..=86 => {
                self.ev("close".into());
                if self.rng.chance(1, 3) {
                    self.poll_refused(false); // the FIN meets a busy device
                }
            }
            87 => {
                if self.rng.chance(1, 3) {
                    self.ev("abort".into());
                } else {
                    self.open();
                }
            }
            88..=89 => {
                let v = |g: &mut Gen| if g.rng.chance(1, 4) { "-".to_string() } else { g.rng.pick(&[0i64, 1, 10, 100, 1000, 5000, 20000]).to_string() };
                let e = match self.rng.below(5) {
                    0 => format!("set timeout={}", v(self)),
                    // keep-alive interval 0 makes Interface::poll emit keep-alives forever (every
                    // dispatch re-arms the timer at `now`): excluded from the generated cases
                    1 => format!("set keepalive={}", { let x = v(self); if x == "0" { "1".to_string() } else { x } }),
                    2 => format!("set ackdelay={}", v(self)),
                    3 => format!("set nagle={}", self.rng.below(2)),
                    _ => format!("set hoplimit={}", if self.rng.chance(1, 4) { "-".to_string() } else { self.rng.range(1, 255).to_string() }),
                };
                self.ev(e);
            }
            90 => {
                // wrong ports (or, one time in three, the interface's other address): not for this socket
                let w = self.p_win;
                let keep_da = self.da;
                if self.rng.chance(1, 3) {
                    self.da = if keep_da == 1 { 3 } else { 1 };
                }
                let (sp, dp) = if self.rng.chance(1, 2) { (self.pp.wrapping_add(1).max(1), self.lp) } else { (self.pp, self.lp.wrapping_add(1).max(1)) };
                let fl = *self.rng.pick(&["", "S", "R", "F"]);
                let (osp, odp) = (self.pp, self.lp);
                self.pp = sp;
                self.lp = dp;
                let seq = self.p_seq(self.p_off);
                let las = self.last_ack_sent;
                self.seg(seq, ack, fl, w, 0, "0".into(), Gen::plain_opts());
                self.last_ack_sent = las;
                self.pp = osp;
                self.lp = odp;
                self.da = keep_da;
            }
            91 => {
                // invalid flag combinations: dropped by the parser
                let fl = *self.rng.pick(&["SF", "SR", "FR", "SFR", "SFP"]);
                let w = self.p_win;
                let seq = self.p_seq(self.p_off);
                let las = self.last_ack_sent;
                self.seg(seq, ack, fl, w, 0, "0".into(), Gen::plain_opts());
                self.last_ack_sent = las;
            }
            92..=93 => {
                // fully random segment
                let seq = self.rng.next() as u32;
                let a = if self.rng.chance(1, 4) { None } else { Some(self.rng.next() as u32) };
                let fl = *self.rng.pick(&["", "S", "F", "R", "P"]);
                let len = self.rng.range(0, 50) as usize;
                let w = self.rng.below(65536) as u16;
                let las = self.last_ack_sent;
                self.seg(seq, a, fl, w, len, "0".into(), Gen::plain_opts());
                self.last_ack_sent = las;
            }
            94..=95 => {
                // time passes
                self.t += *self.rng.pick(&[1i64, 10, 100, 1000, 5000, 10000, 30000]);
                if self.rng.chance(1, 3) {
                    self.poll_refused(true); // RTO / probe / keep-alive / TIME-WAIT deadline with a busy device
                } else {
                    self.poll();
                }
            }
            _ => {
                // data with options / zero-length keep-alive probe (seq = rcv_nxt - 1)
                if let Some(a) = self.s_ack {
                    let w = self.p_win;
                    let len = self.rng.below(2) as usize;
                    let off = sdiff(wadd(a, -1), wadd(self.p_isn, 1));
                    self.seg(wadd(a, -1), ack, "", w, len, off.to_string(), Gen::plain_opts());
                }
            }
        }
    }
}

fn gen_case(rng: &mut Rng, id: String, tier: &str, stats: &mut BTreeMap<String, u64>) -> Case {
    let small = [1usize, 2, 3, 4, 5, 7, 8, 13, 16];
    let mid = [64usize, 100, 536, 1000, 2048, 4096, 16384];
    let big = [65535usize, 65536, 70000, 131072, 200000];
    let pick_cap = |rng: &mut Rng| -> usize {
        match rng.below(20) {
            0..=3 => *rng.pick(&small),
            4..=17 => *rng.pick(&mid),
            _ => *rng.pick(&big),
        }
    };
    // one walk in eight: receive buffer above 64 KiB, so that the window-scale shift is not zero and the
    // (unscaled, saturated) window of the SYN / SYN|ACK differs from the buffer size
    let huge = [65536usize, 70000, 98304, 131072, 262144];
    let bigwin = rng.chance(1, 8);
    let rx = if bigwin { *rng.pick(&huge) } else { pick_cap(rng) };
    let tx = if bigwin && rng.chance(1, 3) { *rng.pick(&huge) } else { pick_cap(rng) };
    let seed = if rng.chance(1, 5) {
        let sp = special_seeds(rng);
        if sp.is_empty() { rng.next() } else { *rng.pick(&sp) }
    } else {
        rng.next()
    };
    let mut isns = learn_isns(seed);
    // cases whose first connection should see the near-wrap ISN: nothing to do, it is first or second
    let cfg = Cfg {
        rx,
        tx,
        mtu: *rng.pick(&[80usize, 100, 576, 1500, 1500, 1500, 9000]),
        cc: if rng.chance(2, 5) { "reno".into() } else { "none".into() },
        ts: rng.chance(1, 4),
        fill: rng.below(256) as u8,
        seed,
        isns: std::mem::take(&mut isns),
    };
    if std::env::var("H_TCP_TRACE").is_ok() {
        let c = Case { id: id.clone(), cfg: cfg.header(), ops: vec![] };
        let mut v = vec![];
        c.write(&mut v);
        eprint!("{}", String::from_utf8(v).unwrap().replace("end\n", ""));
    }
    let sim = Sim::new(&cfg);
    let mut g = Gen {
        rng,
        sim,
        cfg: cfg.clone(),
        ops: vec![],
        t: 0,
        lp: 80,
        pp: 4000,
        p_isn: 0,
        p_off: 0,
        p_fin: false,
        p_win: 1000,
        p_mss: None,
        p_ws: None,
        p_sackp: false,
        p_ts: false,
        last_ack_sent: None,
        s_iss: None,
        s_nxt: None,
        s_ack: None,
        s_win: 0,
        s_ws: None,
        conn_budget: ISN_COUNT - 1,
        bigwin,
        da: 1,
        bound: None,
        stats: BTreeMap::new(),
    };
    let max_steps = if tier == "thorough" { 220 } else { 110 };
    let nsteps = g.rng.range(5, max_steps);
    // big buffers are expensive for the list-based model: keep those cases shorter
    let nsteps = if rx > 20000 || tx > 20000 { nsteps.min(50) } else { nsteps };
    let random_stream = g.rng.chance(1, 12);
    if !random_stream {
        g.open();
    } else {
        g.new_peer();
    }
    for _ in 0..nsteps {
        if g.sim.dead {
            break;
        }
        g.step();
        // re-open from time to time once the connection is gone
        if !random_stream && g.sim.state() == tcp::State::Closed && g.rng.chance(1, 4) {
            g.open();
        }
    }
    for (k, v) in &g.stats {
        *stats.entry(k.clone()).or_default() += v;
    }
    Case { id, cfg: cfg.header(), ops: g.ops }
}
