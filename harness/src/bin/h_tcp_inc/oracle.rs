// placeholder (replaced below)
fn oracle_case(_c: &Case, _fails: &mut Vec<String>, _stats: &mut BTreeMap<String, u64>) {}
fn oracle_main(_seed: u64, _n: usize, _tier: &str, out: &mut dyn Write) {
    writeln!(out, "STATS {{\"cases\":0}}").unwrap();
}
