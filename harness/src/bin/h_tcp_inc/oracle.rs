// Implementation-side oracle for C17 (included by h_tcp.rs): an independent Rust transcription of
// the relation `allowed` of coq/Proofs/TcpStateProofs.v, evaluated on every observed transition
// of the REAL socket along generated walks.  Everything it uses is observable from outside the
// socket: state(), recv_queue(), the bytes returned by recv, the frames emitted, the segments
// injected, the ISNs learned by observation (case header) and the time.
//
// FAIL classes (stable slugs):
//   st-illegal-edge            a state change that is no edge of the RFC 793/9293 diagram for that event kind
//   st-established-wrong-ack   ESTABLISHED entered by a segment whose ACK is not ISS+1
//   st-fin-out-of-order        CLOSE-WAIT / CLOSING / TIME-WAIT entered through a FIN that is not in sequence
//   st-finack-mismatch         FIN-WAIT-2 / TIME-WAIT / CLOSED(from LAST-ACK) without ACK = own FIN + 1
//   st-rst-not-acceptable      connection reset by an RST outside the receive window / not the expected handshake RST
//   st-timewait-early          TIME-WAIT left by a poll earlier than 10 s after it was (re)entered
//   st-timewait-late           still TIME-WAIT after a complete poll at or after the 10 s deadline
//   st-listener-wrong-address / st-segment-wrong-address  a listener bound to one interface address (or a connection)
//                              changed state by a segment addressed to the interface's other address
//   st-closed-by-poll          a poll closed a connection with no timeout configured and not from TIME-WAIT
//   st-failed-call-changed-state  listen/connect returned an error but the state changed
//   api-connect-result / api-predicates  connect's result or is_open/is_active/is_listening/may_send differ from their RFC 9293 definition
//   c04-ack-beyond-advertised-window / c04-sack-beyond-advertised-window (C04 on this stream): an emitted ACK number
//                              or SACK block lies beyond the largest right edge put on the wire before (SYN: unscaled field)
//   impl-panic / poll-livelock the real socket panicked / Interface::poll did not stop emitting (not C17 proper,
//                              but a concrete failing input of the code the model covers)

const CLOSE_DELAY_MS: i64 = 10_000; // "TIME-WAIT ends by itself after 10 s" (property text)

/// every branch tag the model can report AND that is reachable through this stream (coverage
/// denominator).  Tags of the model that cannot occur here, with the reason:
///   104+ACK (Panic arm), 140 (LISTEN,RST)        accepts() never hands such a segment to process()
///   2120 2122 2124                               "payload not empty" exit of an empty-segment case
///   192                                          payload taken in order while ack_to_transmit() is false
///                                                needs remote_last_ack = None, i.e. a zero window
///   206 (address removed), 221 (LISTEN dispatch) the interface keeps its address; LISTEN has no tuple
///   300 301                                      unspecified address / port 0: never built by the frame builder
fn all_tags() -> Vec<u32> {
    let mut v: Vec<u32> = vec![];
    v.extend(100..=116);
    v.extend([121, 123, 126, 128]);
    for t in [120, 122, 124, 125, 127] {
        v.extend([t + 1000, t + 2000, t + 3000]);
    }
    v.extend(141..=162);
    v.extend(170..=173);
    v.extend(180..=188);
    v.extend(190..=191);
    for t in 192..=197 {
        v.extend([t, t + 10000]);
    }
    v.extend([200, 201, 202, 203, 205]);
    v.extend(210..=217);
    v.extend([220, 222, 223, 224, 225, 226, 227, 228]);
    v.extend(240..=246);
    v.extend(302..=303);
    v.retain(|t| ![2120, 2122, 2124, 192].contains(t));
    v
}

struct Conn {
    /// right edge of the receive window as last advertised in an emitted frame (largest seen), our
    /// window-scale offer and whether the peer offered one too
    adv_edge: Option<u32>,
    ws_ours: Option<u8>,
    ws_peer: bool,
    /// window field of our own SYN (active open: it has no ACK number to anchor the edge yet)
    syn_win: Option<u16>,
    iss: Option<u32>,
    irs: Option<u32>,
    consumed: u64,
    sent: u64,
    fin_rcvd: bool,
    listener: bool,
}

pub fn keep_class(f: &str, prefix: &str) -> bool {
    f.starts_with(prefix) || f.starts_with("impl-panic") || f.starts_with("poll-livelock")
}

fn oracle_case(c: &Case, fails: &mut Vec<String>, stats: &mut BTreeMap<String, u64>) {
    let cfg = Cfg::from_case(c);
    let mut sim = Sim::new(&cfg);
    let mut isns = cfg.isns.clone();
    let mut conn = Conn { adv_edge: None, ws_ours: None, ws_peer: false, syn_win: None, iss: None, irs: None, consumed: 0, sent: 0, fin_rcvd: false, listener: false };
    let mut timeout: Option<i64> = None;
    // address given to listen() (None = any) and local address of the current connection (last octets)
    let mut bound: Option<i64> = None;
    let mut conn_local: Option<i64> = None;
    let mut tw_enter: i64 = 0; // time TIME-WAIT was entered: the timer never expires before this + 10 s
    let mut tw_since: i64 = 0; // time of the last event that may have refreshed it (upper bound)
    let mut pre = sim.state();
    let mut pre_rq = 0usize;
    use tcp::State as S;
    for (k, op) in c.ops.iter().enumerate() {
        let toks: Vec<&str> = op.split_whitespace().collect();
        let st = sim.step(op);
        if st.panicked {
            *stats.entry("impl_panics".into()).or_default() += 1;
            fails.push(format!("impl-panic :: case {} op#{} `{}`: the implementation panicked in state {:?}", c.id, k, op, pre));
            return;
        }
        if st.livelock {
            *stats.entry("poll_livelocks".into()).or_default() += 1;
            fails.push(format!("poll-livelock :: case {} op#{} `{}`: Interface::poll emitted more than {} frames", c.id, k, op, POLL_FRAME_LIMIT));
            return;
        }
        let post = sim.state();
        let post_rq = sim.sock().recv_queue();
        let now = sim.now_ms;
        let mut fail = |class: &str, why: String| {
            fails.push(format!("{} :: case {} op#{} `{}`: {:?} -> {:?}: {}", class, c.id, k, op, pre, post, why));
        };
        *stats.entry(format!("edge_{}>{}", state_name(pre), state_name(post))).or_default() += (pre != post) as u64;
        if let Some(cap) = st.lines.iter().find_map(|l| l.strip_prefix("cap ")) {
            let cv: Vec<bool> = cap.chars().map(|x| x == '1').collect();
            let sq = sim.sock().send_queue();
            let want = [
                matches!(post, S::Established | S::CloseWait),
                matches!(post, S::Established | S::FinWait1 | S::FinWait2) || post_rq > 0,
                matches!(post, S::Established | S::CloseWait) && sq < sim.tx_cap,
                post_rq > 0,
                post == S::Listen,
                !matches!(post, S::Closed | S::TimeWait | S::Listen),
                !matches!(post, S::Closed | S::TimeWait),
            ];
            if cv.len() != 7 || cv.iter().zip(want.iter()).any(|(a, b)| a != b) {
                fail("api-predicates", format!("cap {} expected {:?} (send queue {}, recv queue {})", cap, want, sq, post_rq));
            }
        }
        // the window edge advertised BEFORE this event is what the event is judged against
        let conn_edge_before = conn.adv_edge;
        let _ = conn_edge_before;
        match toks[0] {
            "listen" => {
                if st.ret == "ok" && !(pre == S::Listen) {
                    conn = Conn { adv_edge: None, ws_ours: None, ws_peer: false, syn_win: None, iss: None, irs: None, consumed: 0, sent: 0, fin_rcvd: false, listener: true };
                }
                let ok = pre == post || (matches!(pre, S::Closed | S::TimeWait) && post == S::Listen);
                if !ok {
                    fail("st-illegal-edge", "listen".into());
                }
                if st.ret != "ok" && pre != post {
                    fail("st-failed-call-changed-state", format!("listen returned {}", st.ret));
                }
                if st.ret == "ok" {
                    bound = opt_i(kv(&toks, "a"));
                    conn_local = None;
                }
            }
            "connect" => {
                if st.ret == "ok" {
                    let iss = if isns.is_empty() { None } else { Some(isns.remove(0)) };
                    conn = Conn { adv_edge: None, ws_ours: None, ws_peer: false, syn_win: None, iss, irs: None, consumed: 0, sent: 0, fin_rcvd: false, listener: false };
                }
                let ok = pre == post || (matches!(pre, S::Closed | S::TimeWait) && post == S::SynSent);
                if !ok {
                    fail("st-illegal-edge", "connect".into());
                }
                if st.ret != "ok" && pre != post {
                    fail("st-failed-call-changed-state", format!("connect returned {}", st.ret));
                }
                if st.ret == "ok" {
                    bound = None;
                    conn_local = Some(1);
                }
                // the four Unaddressable arms and InvalidState, independently of the code
                let rp = opt_i(kv(&toks, "rp")).unwrap_or(0);
                let lp = opt_i(kv(&toks, "lp")).unwrap_or(0);
                let ra = kv(&toks, "ra").unwrap_or("4");
                let la = kv(&toks, "la").unwrap_or("-");
                let want = if !matches!(pre, S::Closed | S::TimeWait) {
                    "E1"
                } else if rp == 0 || ra == "0" || ra == "60" || lp == 0 || la == "0" || (ra == "6" && la == "4") {
                    "E2"
                } else {
                    "ok"
                };
                if st.ret != want {
                    fail("api-connect-result", format!("returned {} expected {}", st.ret, want));
                }
            }
            "close" => {
                let ok = pre == post
                    || matches!(
                        (pre, post),
                        (S::Listen, S::Closed) | (S::SynSent, S::Closed) | (S::SynReceived, S::FinWait1) | (S::Established, S::FinWait1) | (S::CloseWait, S::LastAck)
                    );
                if !ok {
                    fail("st-illegal-edge", "close".into());
                }
            }
            "abort" => {
                if post != S::Closed {
                    fail("st-illegal-edge", "abort must end in CLOSED".into());
                }
            }
            "send" | "sendf" => {
                if let Some(Ok(n)) = st.ret.split_whitespace().next().map(|x| x.parse::<u64>()) {
                    conn.sent += n;
                }
                if pre != post {
                    fail("st-illegal-edge", "send changed the state".into());
                }
            }
            "recv" | "recvf" => {
                conn.consumed += st.data.len() as u64;
                if pre != post {
                    fail("st-illegal-edge", "recv changed the state".into());
                }
            }
            "peek" | "peekc" | "set" => {
                if let Some(v) = kv(&toks, "timeout") {
                    timeout = opt_i(Some(v));
                }
                if pre != post {
                    fail("st-illegal-edge", "state changed by a call that must not".into());
                }
            }
            "seg" => {
                let fl = kv(&toks, "fl").unwrap_or("-");
                let seq = opt_i(kv(&toks, "seq")).unwrap_or(0) as u32;
                let ack = opt_i(kv(&toks, "ack")).map(|a| a as u32);
                let len = opt_i(kv(&toks, "len")).unwrap_or(0);
                let (syn, fin, rst) = (fl.contains('S'), fl.contains('F'), fl.contains('R'));
                // destination-address filter: a listener bound to A takes nothing addressed to B (also after
                // a handshake RST put it back to LISTEN); a connection takes only segments for its own address
                let da = opt_i(kv(&toks, "da")).unwrap_or(1);
                if pre != post {
                    if pre == S::Listen {
                        if let Some(b) = bound {
                            if b != da {
                                fail("st-listener-wrong-address", format!("listening on 10.0.0.{} took a segment addressed to 10.0.0.{}", b, da));
                            }
                        }
                    } else if let Some(l) = conn_local {
                        if l != da && pre != S::Closed {
                            fail("st-segment-wrong-address", format!("connection on 10.0.0.{} changed state by a segment addressed to 10.0.0.{}", l, da));
                        }
                    }
                }
                if pre == S::Listen && post == S::SynReceived {
                    conn_local = Some(da);
                }
                let one_ctl = (syn as u8 + fin as u8 + rst as u8) <= 1;
                if pre == S::Listen && post == S::SynReceived {
                    // a new incarnation (also after a handshake RST returned the listener to LISTEN)
                    let iss = if isns.is_empty() { None } else { Some(isns.remove(0)) };
                    conn = Conn { adv_edge: None, ws_ours: None, ws_peer: false, syn_win: None, iss, irs: Some(seq), consumed: 0, sent: 0, fin_rcvd: false, listener: true };
                }
                if pre == S::SynSent && matches!(post, S::Established | S::SynReceived) {
                    conn.irs = Some(seq);
                    if let (None, Some(w)) = (conn.adv_edge, conn.syn_win) {
                        conn.adv_edge = Some(wadd(seq, 1 + w as i64)); // the SYN offered w octets from IRS+1
                    }
                }
                // receiver quantities seen from outside
                let rcv_nxt_pre = conn.irs.map(|i| wadd(i, 1 + conn.consumed as i64 + pre_rq as i64 + conn.fin_rcvd as i64));
                let iss1 = conn.iss.map(|i| wadd(i, 1));
                let fin_ack = conn.iss.map(|i| wadd(i, 1 + conn.sent as i64 + 1));
                let acks_iss = ack.is_some() && ack == iss1;
                let acks_fin = ack.is_some() && ack == fin_ack;
                let fin_seq = wadd(seq, len);
                let fin_in_order = fin
                    && one_ctl
                    && rcv_nxt_pre.map_or(false, |rn| {
                        let need = sdiff(fin_seq, rn); // octets still missing in front of the FIN
                        sdiff(seq, rn) <= 0 && need >= 0 && (post_rq as i64 - pre_rq as i64) >= need && need <= sim.rx_cap as i64 - pre_rq as i64
                    });
                let rst_acceptable = rst
                    && one_ctl
                    && rcv_nxt_pre.map_or(false, |rn| {
                        // RFC 9293 segment acceptability test (3.10.7.4, the `segment_in_window` the property
                        // anchors in), with the largest window this socket can ever advertise (its capacity):
                        // the first or, for a segment with data, the last octet lies in the window
                        // when the socket has advertised a window in some frame, the largest right edge it
                        // ever advertised bounds the window (a zero window still accepts seq = RCV.NXT)
                        let wnd = match conn.adv_edge {
                            Some(edge) => sdiff(edge, rn).max(0),
                            None => sim.rx_cap as i64,
                        };
                        let inw = |x: u32| {
                            let d = sdiff(x, rn);
                            d >= 0 && (d < wnd || (wnd == 0 && d == 0 && len == 0))
                        };
                        inw(seq) || (len > 0 && wnd > 0 && inw(wadd(seq, len - 1)))
                    });
                if pre != post {
                    match (pre, post) {
                        (S::Listen, S::SynReceived) => {
                            if !(syn && one_ctl && ack.is_none()) {
                                fail("st-illegal-edge", "LISTEN left without a plain SYN".into());
                            }
                        }
                        (S::SynSent, S::Established) => {
                            if !(syn && one_ctl) {
                                fail("st-illegal-edge", "SYN-SENT -> ESTABLISHED without SYN".into());
                            } else if !acks_iss {
                                fail("st-established-wrong-ack", format!("ack {:?} iss+1 {:?}", ack, iss1));
                            }
                        }
                        (S::SynSent, S::SynReceived) => {
                            if !(syn && one_ctl && ack.is_none()) {
                                fail("st-illegal-edge", "simultaneous open needs SYN without ACK".into());
                            }
                        }
                        (S::SynSent, S::Closed) => {
                            if !(rst && one_ctl && acks_iss) {
                                fail("st-rst-not-acceptable", format!("handshake RST ack {:?} iss+1 {:?}", ack, iss1));
                            }
                        }
                        (S::SynReceived, S::Established) => {
                            if syn || rst {
                                fail("st-illegal-edge", "SYN-RECEIVED -> ESTABLISHED by a SYN or RST segment".into());
                            } else if !acks_iss {
                                fail("st-established-wrong-ack", format!("ack {:?} iss+1 {:?}", ack, iss1));
                            }
                        }
                        (S::SynReceived, S::CloseWait) => {
                            if !acks_iss {
                                fail("st-established-wrong-ack", format!("ack {:?} iss+1 {:?}", ack, iss1));
                            } else if !fin_in_order {
                                fail("st-fin-out-of-order", format!("seq {} len {} rcv_nxt {:?} rq {}->{}", seq, len, rcv_nxt_pre, pre_rq, post_rq));
                            }
                        }
                        (S::SynReceived, S::Listen) => {
                            if !(rst_acceptable && conn.listener) {
                                fail("st-rst-not-acceptable", format!("seq {} rcv_nxt {:?} listener {}", seq, rcv_nxt_pre, conn.listener));
                            }
                        }
                        (S::Established, S::CloseWait) | (S::FinWait1, S::Closing) | (S::FinWait2, S::TimeWait) => {
                            if !fin_in_order {
                                fail("st-fin-out-of-order", format!("seq {} len {} rcv_nxt {:?} rq {}->{}", seq, len, rcv_nxt_pre, pre_rq, post_rq));
                            }
                        }
                        (S::FinWait1, S::FinWait2) | (S::Closing, S::TimeWait) | (S::LastAck, S::Closed) if !rst => {
                            if !acks_fin {
                                fail("st-finack-mismatch", format!("ack {:?} fin+1 {:?}", ack, fin_ack));
                            }
                        }
                        (S::FinWait1, S::TimeWait) => {
                            if !fin_in_order {
                                fail("st-fin-out-of-order", format!("seq {} len {} rcv_nxt {:?}", seq, len, rcv_nxt_pre));
                            } else if !acks_fin {
                                fail("st-finack-mismatch", format!("ack {:?} fin+1 {:?}", ack, fin_ack));
                            }
                        }
                        (_, S::Closed) if !matches!(pre, S::Listen | S::SynSent) => {
                            if !rst_acceptable {
                                fail("st-rst-not-acceptable", format!("seq {} rcv_nxt {:?} cap {}", seq, rcv_nxt_pre, sim.rx_cap));
                            }
                        }
                        _ => fail("st-illegal-edge", "no such edge for a segment".into()),
                    }
                    if matches!(post, S::CloseWait | S::Closing | S::TimeWait) && !conn.fin_rcvd && fin {
                        conn.fin_rcvd = true;
                    }
                }
                if post == S::TimeWait {
                    tw_since = now; // entered, or possibly refreshed by this segment
                }
                *stats.entry("segments".into()).or_default() += 1;
            }
            "poll" => {
                let limited = kv(&toks, "b").map_or(false, |b| b != "-");
                if pre != post {
                    if post != S::Closed {
                        fail("st-illegal-edge", "a poll may only move to CLOSED".into());
                    } else if pre == S::TimeWait {
                        if now < tw_enter + CLOSE_DELAY_MS && timeout.is_none() {
                            fail("st-timewait-early", format!("now {} entered {}", now, tw_enter));
                        }
                    } else if timeout.is_none() {
                        fail("st-closed-by-poll", "no timeout configured".into());
                    }
                } else if pre == S::TimeWait && !limited && now >= tw_since + CLOSE_DELAY_MS {
                    fail("st-timewait-late", format!("now {} entered/refreshed {}", now, tw_since));
                }
                *stats.entry("polls".into()).or_default() += 1;
            }
            _ => {}
        }
        if toks[0] == "seg" && kv(&toks, "fl").unwrap_or("-").contains('S') && opt_i(kv(&toks, "ws")).is_some() {
            conn.ws_peer = true;
        }
        for t in &st.txs {
            if t.ctl == TcpControl::Syn {
                conn.ws_ours = t.ws;
                if t.ack.is_none() {
                    conn.syn_win = Some(t.win);
                }
            }
            if t.ctl == TcpControl::Rst {
                continue;
            }
            if let Some(a) = t.ack {
                // C04 on the wire: neither the ACK number nor a SACK block may lie beyond the right edge
                // the socket had advertised before this frame (largest edge of all earlier frames)
                if let Some(edge) = conn.adv_edge {
                    // a received FIN takes one sequence number but no buffer space: once it is in, the ACK
                    // number (and the SACK blocks, which smoltcp offsets from it) may be one past the edge
                    let fin_slack = (conn.fin_rcvd || matches!(post, S::CloseWait | S::LastAck | S::Closing | S::TimeWait)) as i64;
                    if sdiff(a, edge) > fin_slack {
                        fail("c04-ack-beyond-advertised-window", format!("ack {} advertised edge {}", a, edge));
                    }
                    for (l, r) in &t.sack {
                        if sdiff(*r, edge) > fin_slack {
                            fail("c04-sack-beyond-advertised-window", format!("sack {}-{} advertised edge {}", l, r, edge));
                        }
                    }
                }
                let shift = match (conn.ws_ours, conn.ws_peer) {
                    (Some(w), true) => w.min(14) as u32,
                    _ => 0,
                };
                // what this frame puts on the wire: the window field of a SYN is never scaled
                let w = if t.ctl == TcpControl::Syn { t.win as i64 } else { (t.win as i64) << shift };
                let e = wadd(a, w);
                conn.adv_edge = Some(match conn.adv_edge {
                    Some(old) if sdiff(old, e) > 0 => old,
                    _ => e,
                });
            }
        }
        if pre != post {
            *stats.entry("transitions".into()).or_default() += 1;
            if post == S::TimeWait {
                tw_since = now;
                tw_enter = now;
            }
        }
        *stats.entry("events".into()).or_default() += 1;
        pre = post;
        pre_rq = post_rq;
    }
}

/// `only`: keep only the failure classes with this prefix (plus impl-panic / poll-livelock); the
/// model-coverage pass is skipped then (sub-commands oracle-c04 / oracle-replay-c04 for C04's check)
fn oracle_main(seed: u64, n: usize, tier: &str, out: &mut dyn Write, only: Option<&str>) {
    let mut rng = Rng::new(seed ^ 0x7C17);
    let mut fails = vec![];
    let mut stats: BTreeMap<String, u64> = BTreeMap::new();
    let mut gstats = BTreeMap::new();
    let mut cases = vec![];
    for i in 0..n {
        cases.push(gen_case(&mut rng, format!("o{}-{}", seed, i), tier, &mut gstats));
    }
    for c in &cases {
        let before = fails.len();
        oracle_case(c, &mut fails, &mut stats);
        if let Some(pre) = only {
            let kept: Vec<String> = fails.drain(before..).filter(|f| keep_class(f, pre)).collect();
            fails.extend(kept);
        }
        if fails.len() > before {
            writeln!(out, "FAILCASE").unwrap();
            c.write(out);
        }
        if fails.len() > 20 {
            break;
        }
    }
    // branch coverage of the model on these very cases: ask the extracted model (drv_tcp cov)
    let mut cov: BTreeMap<u32, u64> = BTreeMap::new();
    let drv = std::env::current_exe().ok().and_then(|p| Some(p.parent()?.parent()?.parent()?.parent()?.join("ocaml/bin/drv_tcp")));
    let drv = if only.is_some() { None } else { drv };
    if let Some(drv) = drv.filter(|p| p.exists()) {
        let mut text = vec![];
        for c in &cases {
            c.write(&mut text);
        }
        if let Ok(mut ch) = std::process::Command::new(&drv).arg("cov").stdin(std::process::Stdio::piped()).stdout(std::process::Stdio::piped()).spawn() {
            let mut stdin = ch.stdin.take().unwrap();
            let h = std::thread::spawn(move || {
                let _ = stdin.write_all(&text);
            });
            if let Ok(o) = ch.wait_with_output() {
                for l in String::from_utf8_lossy(&o.stdout).lines() {
                    if let Some(r) = l.strip_prefix("COV ") {
                        for kvp in r.split_whitespace() {
                            if let Some((a, b)) = kvp.split_once(':') {
                                cov.insert(a.parse().unwrap_or(0), b.parse().unwrap_or(0));
                            }
                        }
                    }
                }
            }
            let _ = h.join();
        }
    }
    for f in &fails {
        writeln!(out, "FAIL {}", f).unwrap();
    }
    let mut st: Vec<String> = stats.iter().map(|(k, v)| format!("{}:{}", jstr(k), v)).collect();
    let all = all_tags();
    for t in &all {
        st.push(format!("\"tag_{}\":{}", t, cov.get(t).cloned().unwrap_or(0)));
    }
    for (t, v) in &cov {
        if !all.contains(t) {
            st.push(format!("\"tag_{}\":{}", t, v));
        }
    }
    let hit = all.iter().filter(|t| cov.get(t).cloned().unwrap_or(0) > 0).count();
    writeln!(
        out,
        "STATS {{\"cases\":{},\"branch_tags_defined\":\"{}\",\"branch_tags_hit_this_shard\":\"{}\",{}}}",
        cases.len(),
        all.len(),
        hit,
        st.join(",")
    )
    .unwrap();
}
