//! Oracle stream `cubic` (property C02, CUBIC half): one real `tcp::Socket` with
//! `CongestionControl::Cubic` behind a real `Interface` (Medium::Ip, IPv4, svh::dev::QDev), driven by a
//! scripted peer through whole connections - including re-use of the same socket for several
//! connections with different peer MSS values, because `Socket::reset` keeps the congestion controller.
//!
//! The controller is private, so its window is observed through what the socket is willing to send:
//!
//!   class `cubic-window-below-mss`: when a poll emits a data segment that starts at SND.UNA (nothing in
//!   flight from the socket's point of view: everything was acknowledged, or the retransmission timer
//!   just rewound SND.NXT, or it is the fast retransmission), that segment must carry exactly
//!   min(effective MSS, octets queued, peer window) octets.  The only other limit in `dispatch` is
//!   `cwnd_remaining()`, so a shorter segment means window() < MSS ("the sender must always be allowed
//!   at least one segment by its congestion window"; Coq: cubic_window_ge_mss over Model/Cubic.v).
//!   Likewise, when the peer has acknowledged everything, data is queued and the peer window is open, a
//!   poll that sends no data at all means the window is 0.
//!   class `cubic-oracle-mismatch`: the segment is LONGER than that bound (would be a harness error or a
//!   C05 violation; reported so that it is never silently ignored).
//!   class `c03-panic`: the stack panicked.
//!
//! Case:  case <id> mtu=<n> tx=<cap> seed=<u64>
//! Interface 10.0.0.1/24, peer 10.0.0.2:4000, local port 80 (listen) or 49152+k (connect).
//! Events (all peer segments are relative to what the socket emitted, so a case replays with any ISN):
//!   listen | connect | abort | nagle <0|1> | send <n>
//!   syn mss=<v|-> win=<octets>   peer SYN (socket in LISTEN) or SYN|ACK (socket in SYN-SENT), window scale 7
//!   ack n=<k|all> win=<octets>   peer acknowledges k more octets (at most what was sent), announcing win
//!   dupack k=<n>                  n duplicate ACKs (same number, same window, no payload)
//!   rst                           peer resets the connection
//!   poll dt=<us>                  advance the clock by dt, Interface::poll, run the check
//!   wait                          advance the clock to Interface::poll_at (if later), poll, run the check
//! The tx buffer is never allowed to wrap inside one connection (`send` is capped), so a short segment
//! is never a ring-buffer artefact.
use smoltcp::iface::{Config, Interface, SocketHandle, SocketSet};
use smoltcp::phy::{ChecksumCapabilities, Medium};
use smoltcp::socket::tcp;
use smoltcp::time::Instant;
use smoltcp::wire::*;
use std::collections::BTreeMap;
use std::io::Write;
use svh::dev::QDev;
use svh::*;

const LOCAL: [u8; 4] = [10, 0, 0, 1];
const PEER: [u8; 4] = [10, 0, 0, 2];
const PEER_PORT: u16 = 4000;
const PEER_WS: u8 = 7;
const MIN_REMOTE_MSS: usize = 48; // tcp.rs MIN_REMOTE_MSS (also read by the translator: tcp_MIN_REMOTE_MSS)
const DEFAULT_MSS: usize = 536; // tcp.rs DEFAULT_MSS
const FRAME_LIMIT: usize = 60000;

fn kv<'a>(toks: &[&'a str], k: &str) -> Option<&'a str> {
    toks.iter().find_map(|t| t.strip_prefix(k).and_then(|r| r.strip_prefix('=')))
}

struct Tx {
    seq: u32,
    ctl: TcpControl,
    len: usize,
    sp: u16,
}

fn parse_tx(frame: &[u8]) -> Option<Tx> {
    let ip = Ipv4Packet::new_checked(frame).ok()?;
    let ipr = Ipv4Repr::parse(&ip, &ChecksumCapabilities::default()).ok()?;
    if ipr.next_header != IpProtocol::Tcp {
        return None;
    }
    let t = TcpPacket::new_checked(ip.payload()).ok()?;
    let r = TcpRepr::parse(&t, &ipr.src_addr.into(), &ipr.dst_addr.into(), &ChecksumCapabilities::default()).ok()?;
    Some(Tx { seq: r.seq_number.0 as u32, ctl: r.control, len: r.payload.len(), sp: r.src_port })
}

/// What the scripted peer knows about the current connection.
struct Conn {
    lport: u16,
    iss: Option<u32>, // the socket's ISN, read from its SYN / SYN|ACK
    una: u64,         // octets (incl. the SYN) acknowledged by the peer so far, relative to iss
    max: u64,         // highest relative sequence number the socket has sent
    peer_isn: u32,
    synced: bool,     // peer SYN sent
    win_field: u16,
    win_seen: usize,  // the window the socket currently believes (after scaling)
    remote_mss: usize,
    enq: usize,       // octets written into the tx buffer in this connection
}

struct Sim {
    iface: Interface,
    dev: QDev,
    sockets: SocketSet<'static>,
    h: SocketHandle,
    now_us: i64,
    mtu: usize,
    tx_cap: usize,
    conn: Option<Conn>,
    nconn: u16,
    trace: bool,
    // statistics
    checks: u64,
    polls: u64,
    frames: u64,
    short_by_queue: u64,
    short_by_window: u64,
    full_mss: u64,
    fails: Vec<String>,
}

impl Sim {
    fn new(c: &Case, trace: bool) -> Sim {
        let mtu = c.get_i("mtu", 1500) as usize;
        let tx_cap = c.get_i("tx", 262144) as usize;
        let mut dev = QDev::new(Medium::Ip, mtu);
        let mut cfg = Config::new(HardwareAddress::Ip);
        cfg.random_seed = c.get("seed").map(|s| s.parse().unwrap()).unwrap_or(0);
        let mut iface = Interface::new(cfg, &mut dev, Instant::ZERO);
        iface.update_ip_addrs(|a| {
            a.push(IpCidr::new(IpAddress::v4(LOCAL[0], LOCAL[1], LOCAL[2], LOCAL[3]), 24)).unwrap();
        });
        let mut s = tcp::Socket::new(tcp::SocketBuffer::new(vec![0u8; 65535]), tcp::SocketBuffer::new(vec![0u8; tx_cap]));
        s.set_congestion_control(tcp::CongestionControl::Cubic);
        s.set_nagle_enabled(false);
        let mut sockets = SocketSet::new(vec![]);
        let h = sockets.add(s);
        Sim {
            iface, dev, sockets, h, now_us: 0, mtu, tx_cap, conn: None, nconn: 0, trace,
            checks: 0, polls: 0, frames: 0, short_by_queue: 0, short_by_window: 0, full_mss: 0, fails: vec![],
        }
    }
    fn sock(&mut self) -> &mut tcp::Socket<'static> {
        self.sockets.get_mut::<tcp::Socket>(self.h)
    }
    fn now(&self) -> Instant {
        Instant::from_micros(self.now_us)
    }

    fn peer_frame(&self, lport: u16, seq: u32, ack: Option<u32>, fl: &str, win: u16, mss: Option<u16>, ws: Option<u8>) -> Vec<u8> {
        let repr = TcpRepr {
            src_port: PEER_PORT,
            dst_port: lport,
            control: TcpControl::None,
            seq_number: TcpSeqNumber(seq as i32),
            ack_number: ack.map(|a| TcpSeqNumber(a as i32)),
            window_len: win,
            window_scale: ws,
            max_seg_size: mss,
            sack_permitted: false,
            sack_ranges: [None, None, None],
            timestamp: None,
            payload: &[],
        };
        let src = Ipv4Address::from(PEER);
        let dst = Ipv4Address::from(LOCAL);
        let ipr = Ipv4Repr { src_addr: src, dst_addr: dst, next_header: IpProtocol::Tcp, payload_len: repr.buffer_len(), hop_limit: 64 };
        let mut buf = vec![0u8; ipr.buffer_len() + repr.buffer_len()];
        let caps = ChecksumCapabilities::default();
        ipr.emit(&mut Ipv4Packet::new_unchecked(&mut buf[..]), &caps);
        {
            let mut t = TcpPacket::new_unchecked(&mut buf[ipr.buffer_len()..]);
            repr.emit(&mut t, &src.into(), &dst.into(), &caps);
            t.set_syn(fl.contains('S'));
            t.set_rst(fl.contains('R'));
            t.fill_checksum(&src.into(), &dst.into());
        }
        buf
    }

    /// hand one peer segment to the interface (replies are collected like poll output)
    fn ingress(&mut self, f: Vec<u8>) {
        self.dev.rx.push_back(f);
        self.dev.tx_budget = None;
        let now = self.now();
        let _ = self.iface.poll_ingress_single(now, &mut self.dev, &mut self.sockets);
        self.collect();
    }

    /// drain emitted frames, learn ISN / highest sequence number; returns the frames of this connection
    fn collect(&mut self) -> Vec<Tx> {
        let mut out = vec![];
        for f in self.dev.drain_tx() {
            self.frames += 1;
            let Some(t) = parse_tx(&f) else { continue };
            if let Some(c) = self.conn.as_mut() {
                if t.sp == c.lport {
                    if t.ctl == TcpControl::Syn && c.iss.is_none() {
                        c.iss = Some(t.seq);
                    }
                    if let Some(iss) = c.iss {
                        let rel = t.seq.wrapping_sub(iss) as u64;
                        let sl = t.len as u64 + matches!(t.ctl, TcpControl::Syn | TcpControl::Fin) as u64;
                        if rel < (1 << 31) && t.ctl != TcpControl::Rst {
                            c.max = c.max.max(rel + sl);
                        }
                    }
                    if self.trace {
                        eprintln!("  t={} tx seq=+{} ctl={:?} len={}", self.now_us, c.iss.map(|i| t.seq.wrapping_sub(i)).unwrap_or(0), t.ctl, t.len);
                    }
                    out.push(t);
                }
            }
        }
        self.dev.oversize.clear();
        out
    }

    fn poll_checked(&mut self, what: &str) {
        self.polls += 1;
        // expectations, from the state before the poll
        let st = self.sock().state();
        let q = self.sock().send_queue();
        let exp = match (&self.conn, st) {
            (Some(c), tcp::State::Established | tcp::State::CloseWait) if c.iss.is_some() => {
                let eff = (self.mtu - 40).min(c.remote_mss);
                Some((c.iss.unwrap(), c.una, c.max, c.win_seen, eff))
            }
            _ => None,
        };
        self.dev.tx_budget = Some(FRAME_LIMIT);
        let now = self.now();
        let _ = self.iface.poll(now, &mut self.dev, &mut self.sockets);
        self.dev.tx_budget = None;
        let txs = self.collect();
        let Some((iss, una, max, w, eff)) = exp else { return };
        if w == 0 || q == 0 {
            return;
        }
        let want = eff.min(q).min(w);
        let first = txs.iter().find(|t| t.len > 0 && (t.seq.wrapping_sub(iss) as u64) == una);
        match first {
            Some(t) => {
                self.checks += 1;
                if want == eff {
                    self.full_mss += 1;
                } else if want == q {
                    self.short_by_queue += 1;
                } else {
                    self.short_by_window += 1;
                }
                if t.len < want {
                    self.fails.push(format!(
                        "cubic-window-below-mss :: {} at t={}us: first segment at SND.UNA carries {} octets, but MSS {} / queued {} / peer window {} allow {} (congestion window below one segment)",
                        what, self.now_us, t.len, eff, q, w, want
                    ));
                } else if t.len > want {
                    self.fails.push(format!(
                        "cubic-oracle-mismatch :: {} at t={}us: first segment at SND.UNA carries {} octets > min(MSS {}, queued {}, window {})",
                        what, self.now_us, t.len, eff, q, w
                    ));
                }
            }
            None => {
                // everything acknowledged, data queued, window open: the socket must send now
                if una == max && !txs.iter().any(|t| t.len > 0) {
                    self.checks += 1;
                    self.fails.push(format!(
                        "cubic-window-below-mss :: {} at t={}us: nothing in flight, {} octets queued, peer window {}, but no data segment was sent (congestion window 0)",
                        what, self.now_us, q, w
                    ));
                }
            }
        }
    }

    fn step(&mut self, line: &str) {
        let toks: Vec<&str> = line.split_whitespace().collect();
        if self.trace {
            eprintln!("{}", line);
        }
        match toks[0] {
            "listen" => {
                if self.sock().listen(80).is_ok() {
                    self.nconn += 1;
                    self.conn = Some(self.new_conn(80));
                }
            }
            "connect" => {
                let lport = 49152 + self.nconn;
                let s = self.sockets.get_mut::<tcp::Socket>(self.h);
                let r = s.connect(self.iface.context(), (IpAddress::v4(PEER[0], PEER[1], PEER[2], PEER[3]), PEER_PORT), lport);
                if r.is_ok() {
                    self.nconn += 1;
                    self.conn = Some(self.new_conn(lport));
                }
            }
            "abort" => {
                self.sock().abort();
                self.dev.tx_budget = Some(FRAME_LIMIT);
                let now = self.now();
                let _ = self.iface.poll(now, &mut self.dev, &mut self.sockets);
                self.dev.tx_budget = None;
                self.collect();
                self.conn = None;
            }
            "nagle" => {
                let on = toks[1] != "0";
                self.sock().set_nagle_enabled(on);
            }
            "send" => {
                let n: usize = toks[1].parse().unwrap();
                let cap = self.tx_cap;
                if let Some(c) = self.conn.as_mut() {
                    let n = n.min(cap - c.enq);
                    let data = vec![0x5au8; n];
                    if let Ok(k) = self.sockets.get_mut::<tcp::Socket>(self.h).send_slice(&data) {
                        c.enq += k;
                    }
                }
            }
            "syn" => {
                let mss = kv(&toks, "mss").and_then(|v| v.parse::<u16>().ok());
                let win: usize = kv(&toks, "win").unwrap().parse().unwrap();
                let st = self.sock().state();
                let Some(c) = self.conn.as_mut() else { return };
                if c.synced {
                    return;
                }
                let field = win.min(65535) as u16;
                let (fl_ack, ok) = match st {
                    tcp::State::Listen => (None, true),
                    tcp::State::SynSent => (c.iss.map(|i| i.wrapping_add(1)), c.iss.is_some()),
                    _ => (None, false),
                };
                if !ok {
                    return;
                }
                c.synced = true;
                c.win_field = field;
                c.win_seen = field as usize; // the window of a SYN is not scaled
                c.remote_mss = match mss {
                    Some(0) | None => DEFAULT_MSS,
                    Some(m) => (m as usize).max(MIN_REMOTE_MSS),
                };
                if fl_ack.is_some() {
                    c.una = 1;
                }
                let (lport, seq) = (c.lport, c.peer_isn);
                let f = self.peer_frame(lport, seq, fl_ack, "S", field, mss, Some(PEER_WS));
                self.ingress(f);
            }
            "ack" => {
                let win: usize = kv(&toks, "win").unwrap().parse().unwrap();
                let n = kv(&toks, "n").unwrap();
                let Some(c) = self.conn.as_mut() else { return };
                let Some(iss) = c.iss else { return };
                if !c.synced {
                    return;
                }
                let k = if n == "all" { u64::MAX } else { n.parse().unwrap() };
                c.una = c.una.saturating_add(k).min(c.max);
                let field = (win >> PEER_WS).min(65535) as u16;
                c.win_field = field;
                c.win_seen = (field as usize) << PEER_WS;
                let (lport, seq, ack) = (c.lport, c.peer_isn.wrapping_add(1), iss.wrapping_add(c.una as u32));
                let f = self.peer_frame(lport, seq, Some(ack), "", field, None, None);
                self.ingress(f);
            }
            "dupack" => {
                let k: usize = kv(&toks, "k").unwrap().parse().unwrap();
                let Some(c) = self.conn.as_ref() else { return };
                let Some(iss) = c.iss else { return };
                if !c.synced || c.una == 0 {
                    return;
                }
                let (lport, seq, ack, field) = (c.lport, c.peer_isn.wrapping_add(1), iss.wrapping_add(c.una as u32), c.win_field);
                for _ in 0..k {
                    let f = self.peer_frame(lport, seq, Some(ack), "", field, None, None);
                    self.ingress(f);
                }
            }
            "rst" => {
                let Some(c) = self.conn.as_ref() else { return };
                let Some(iss) = c.iss else { return };
                let seq = if c.synced { c.peer_isn.wrapping_add(1) } else { c.peer_isn };
                let f = self.peer_frame(c.lport, seq, Some(iss.wrapping_add(c.una.max(1) as u32)), "R", 0, None, None);
                self.ingress(f);
                if self.sock().state() == tcp::State::Closed || self.sock().state() == tcp::State::Listen {
                    if self.sock().state() == tcp::State::Listen {
                        self.sock().abort();
                    }
                    self.conn = None;
                }
            }
            "poll" => {
                let dt: i64 = kv(&toks, "dt").unwrap_or("0").parse().unwrap();
                self.now_us += dt.max(0);
                self.poll_checked(line);
            }
            "wait" => {
                let now = self.now();
                if let Some(t) = self.iface.poll_at(now, &self.sockets) {
                    self.now_us = self.now_us.max(t.total_micros());
                }
                self.poll_checked(line);
            }
            x => panic!("bad event {}", x),
        }
    }

    fn new_conn(&self, lport: u16) -> Conn {
        Conn {
            lport, iss: None, una: 0, max: 0, peer_isn: 1000 + 77777 * self.nconn as u32, synced: false,
            win_field: 0, win_seen: 0, remote_mss: DEFAULT_MSS, enq: 0,
        }
    }
}

fn run_case(c: &Case, trace: bool, stats: &mut BTreeMap<String, u64>) -> Vec<String> {
    let ops = c.ops.clone();
    let r = std::panic::catch_unwind(std::panic::AssertUnwindSafe(|| {
        let mut sim = Sim::new(c, trace);
        for op in &ops {
            sim.step(op);
            if sim.fails.len() >= 3 {
                break;
            }
        }
        sim
    }));
    match r {
        Ok(sim) => {
            *stats.entry("checks".into()).or_insert(0) += sim.checks;
            *stats.entry("polls".into()).or_insert(0) += sim.polls;
            *stats.entry("frames".into()).or_insert(0) += sim.frames;
            *stats.entry("conns".into()).or_insert(0) += sim.nconn as u64;
            *stats.entry("check_full_mss".into()).or_insert(0) += sim.full_mss;
            *stats.entry("check_queue_limited".into()).or_insert(0) += sim.short_by_queue;
            *stats.entry("check_window_limited".into()).or_insert(0) += sim.short_by_window;
            sim.fails
        }
        Err(_) => vec!["c03-panic :: the stack panicked while running a cubic script".to_string()],
    }
}

const MSS_CHOICES: [i64; 16] = [-1, 48, 100, 256, 536, 1000, 1024, 1200, 1460, 2048, 2049, 4000, 8960, 16000, 32000, 60000];

fn gen_case(rng: &mut Rng, id: String) -> Case {
    let mtu = *rng.pick(&[1500usize, 1500, 9000, 65535, 65535, 65535]);
    let tx = 262144usize;
    let mut ops: Vec<String> = vec![];
    let nconn = rng.range(1, 4);
    // a case keeps to a "family" of MSS values half of the time so that growth between connections is common
    let grow = rng.chance(1, 2);
    let mut last_mss: i64 = 0;
    for ci in 0..nconn {
        let mut mss = *rng.pick(&MSS_CHOICES);
        if grow && ci > 0 {
            // pick something larger than before
            let bigger: Vec<i64> = MSS_CHOICES.iter().cloned().filter(|m| *m > last_mss.max(536)).collect();
            if !bigger.is_empty() {
                mss = *rng.pick(&bigger);
            }
        }
        last_mss = if mss < 0 { 536 } else { mss };
        let m = last_mss as usize;
        let mss_s = if mss < 0 { "-".to_string() } else { mss.to_string() };
        let win_choices = [m, 2 * m, 3 * m + 17, 8 * m, 65535, 200_000, 1 << 20, 4096.max(m)];
        let win = *rng.pick(&win_choices);
        if rng.chance(1, 8) {
            ops.push(format!("nagle {}", rng.below(2)));
        }
        if rng.chance(3, 5) {
            ops.push("connect".into());
            ops.push("poll dt=0".into());
            for _ in 0..(if rng.chance(1, 2) { rng.range(1, 3) } else { 0 }) {
                ops.push("wait".into()); // SYN retransmission timeout(s)
            }
            ops.push(format!("syn mss={} win={}", mss_s, win));
            ops.push(format!("poll dt={}", rng.range(0, 2000)));
            if rng.chance(1, 2) {
                ops.push(format!("ack n=0 win={}", win)); // window update (now scaled)
            }
        } else {
            ops.push("listen".into());
            ops.push(format!("syn mss={} win={}", mss_s, win));
            ops.push("poll dt=0".into());
            for _ in 0..(if rng.chance(1, 3) { rng.range(1, 2) } else { 0 }) {
                ops.push("wait".into()); // SYN|ACK retransmission timeout(s)
            }
            ops.push(format!("ack n=all win={}", win));
        }
        let steps = rng.range(4, 36);
        let mut cur_win = win;
        for _ in 0..steps {
            match rng.below(100) {
                0..=27 => {
                    let n = match rng.below(4) {
                        0 => rng.range(1, m as i64),
                        1 => rng.range(m as i64, 3 * m as i64),
                        2 => rng.range(3 * m as i64, 12 * m as i64),
                        _ => (m as i64) * rng.range(1, 40),
                    };
                    ops.push(format!("send {}", n.min(60000)));
                }
                28..=50 => ops.push(format!("poll dt={}", *rng.pick(&[0i64, 100, 1000, 5000, 20000, 100000, 700000]))),
                51..=72 => {
                    if rng.chance(2, 3) {
                        ops.push(format!("ack n=all win={}", cur_win));
                    } else {
                        ops.push(format!("ack n={} win={}", rng.range(1, 4 * m as i64), cur_win));
                    }
                    if rng.chance(2, 3) {
                        ops.push(format!("poll dt={}", *rng.pick(&[0i64, 50, 500, 3000])));
                    }
                }
                73..=84 => {
                    ops.push(format!("dupack k={}", rng.range(3, 6)));
                    ops.push("poll dt=0".into());
                }
                85..=93 => ops.push("wait".into()),
                _ => {
                    cur_win = *rng.pick(&win_choices);
                    ops.push(format!("ack n=0 win={}", cur_win));
                }
            }
        }
        if ci + 1 < nconn && rng.chance(1, 3) {
            // end the connection while the controller is still in fast recovery (a small flight, three
            // duplicate ACKs, the fast retransmission, then the connection goes away)
            ops.push(format!("ack n=all win={}", cur_win.max(m)));
            ops.push(format!("send {}", rng.range(1, 3 * m as i64)));
            ops.push("poll dt=10".into());
            ops.push("dupack k=3".into());
            ops.push("poll dt=0".into());
        } else {
            // make sure the connection ends with a checked transmission from an empty flight
            ops.push(format!("ack n=all win={}", cur_win.max(m)));
            ops.push(format!("send {}", 3 * m));
            ops.push("poll dt=10".into());
        }
        if ci + 1 < nconn {
            ops.push(if rng.chance(1, 2) { "rst".into() } else { "abort".into() });
        }
    }
    Case {
        id,
        cfg: vec![("mtu".into(), mtu.to_string()), ("tx".into(), tx.to_string()), ("seed".into(), rng.next().to_string())],
        ops,
    }
}

fn main() {
    if std::env::var("H_CUBIC_LOUD").is_err() {
        quiet_panics();
    }
    let (sub, seed, n, _tier) = args();
    let trace = std::env::args().any(|a| a == "--trace");
    let stdout = std::io::stdout();
    let mut out = std::io::BufWriter::new(stdout.lock());
    match sub.as_str() {
        "gen" => {
            let mut rng = Rng::new(seed);
            for i in 0..n {
                gen_case(&mut rng, format!("c{}-{}", seed, i)).write(&mut out);
            }
        }
        "oracle" => {
            let mut rng = Rng::new(seed);
            let mut stats = BTreeMap::new();
            let mut seen = std::collections::BTreeSet::new();
            let mut cases = 0u64;
            for i in 0..n {
                let c = gen_case(&mut rng, format!("c{}-{}", seed, i));
                cases += 1;
                for f in run_case(&c, false, &mut stats) {
                    let cls = f.split("::").next().unwrap().trim().to_string();
                    if seen.insert(cls) {
                        writeln!(out, "FAILCASE").unwrap();
                        c.write(&mut out);
                        writeln!(out, "FAIL {}", f).unwrap();
                    }
                }
            }
            let mut s = format!("{{\"cases\": {}", cases);
            for (k, v) in &stats {
                s.push_str(&format!(", {}: {}", jstr(k), v));
            }
            s.push('}');
            writeln!(out, "STATS {}", s).unwrap();
        }
        "oracle-replay" => {
            let mut stats = BTreeMap::new();
            for c in stdin_cases() {
                for f in run_case(&c, trace, &mut stats) {
                    writeln!(out, "FAIL {}", f).unwrap();
                }
            }
            if trace {
                eprintln!("{:?}", stats);
            }
        }
        x => panic!("unknown subcommand {}", x),
    }
}
