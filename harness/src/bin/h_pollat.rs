//! Stream `pollat` and oracle `probe` for property C13 (interface-level wake-up schedule).
//!
//! Case ops:
//!   sock <kind>                       add a socket (0 tcp-connect, 1 udp-to-unresolved, 2 dns, 3 dhcp,
//!                                     4 tcp established by a scripted peer, keep-alive switched on then off,
//!                                     5 tcp established by a scripted peer, idle, user timeout 3 s set at its third poll)
//!   poll <ms> pa=<v;v;..> [ra <router> <life_s> <pfx|-> <valid_s>]*
//!        `pa` = the deadline each socket reports on its own (recorded by `gen` from
//!        single-socket interfaces without SLAAC; µs or `n` for none)
//! Observation per poll: `p rs=<#router solicitations sent> pollat=<µs|n> delay=<µs|n>`
//! cfg: slaac=0|1
use smoltcp::iface::{Config, Interface, SocketSet, SocketStorage};
use smoltcp::phy::Medium;
use smoltcp::socket::{dhcpv4, dns, tcp, udp};
use smoltcp::time::{Duration, Instant};
use smoltcp::wire::*;
use std::io::Write;
use svh::dev::QDev;
use svh::*;

const OWN_MAC: [u8; 6] = [0x02, 0, 0, 0, 0, 0x01];
const PEER_MAC: [u8; 6] = [0x02, 0, 0, 0, 0, 0x02];

fn own_ll() -> Ipv6Address {
    Ipv6Address::new(0xfe80, 0, 0, 0, 0x0000, 0x00ff, 0xfe00, 0x0001)
}

struct Node {
    iface: Interface,
    dev: QDev,
    sockets: SocketSet<'static>,
    kinds: Vec<u32>,
    started: Vec<bool>,
    npolls: Vec<u32>,
    dhcp_server: bool,
    dhcp_profile: u64,
    handles: Vec<smoltcp::iface::SocketHandle>,
}

fn mk_node(slaac: bool, seed: u64) -> Node {
    mk_node_mtu(slaac, seed, 1514)
}

/// same node on a device with a smaller MTU (oracle only: IPv4 fragmentation of the fragment probe)
fn mk_node_mtu(slaac: bool, seed: u64, dev_mtu: usize) -> Node {
    let mut dev = QDev::new(Medium::Ethernet, dev_mtu);
    let mut cfg = Config::new(HardwareAddress::Ethernet(EthernetAddress(OWN_MAC)));
    cfg.random_seed = seed;
    cfg.slaac = slaac;
    let mut iface = Interface::new(cfg, &mut dev, Instant::ZERO);
    iface.update_ip_addrs(|a| {
        a.push(IpCidr::new(IpAddress::v4(10, 0, 0, 1), 24)).unwrap();
        a.push(IpCidr::new(IpAddress::Ipv6(own_ll()), 64)).unwrap();
    });
    let storage: Vec<SocketStorage<'static>> = Vec::new();
    Node { iface, dev, sockets: SocketSet::new(storage), kinds: vec![], started: vec![], npolls: vec![], dhcp_server: seed % 3 != 0, dhcp_profile: seed / 3, handles: vec![] }
}

fn add_sock(n: &mut Node, kind: u32, idx: usize) {
    let h = match kind {
        0 | 4 | 5 => {
            let rx = tcp::SocketBuffer::new(vec![0; 1024]);
            let tx = tcp::SocketBuffer::new(vec![0; 1024]);
            n.sockets.add(tcp::Socket::new(rx, tx))
        }
        1 => {
            let rx = udp::PacketBuffer::new(vec![udp::PacketMetadata::EMPTY; 4], vec![0; 512]);
            let tx = udp::PacketBuffer::new(vec![udp::PacketMetadata::EMPTY; 4], vec![0; 512]);
            n.sockets.add(udp::Socket::new(rx, tx))
        }
        2 => {
            let q: Vec<Option<dns::DnsQuery>> = vec![None, None];
            n.sockets.add(dns::Socket::new(&[IpAddress::v4(10, 0, 0, 53)], q))
        }
        _ => n.sockets.add(dhcpv4::Socket::new()),
    };
    n.kinds.push(kind);
    n.started.push(false);
    n.npolls.push(0);
    n.handles.push(h);
    let _ = idx;
}

/// socket `i` starts its activity (first poll after it was added)
fn start_sock(n: &mut Node, i: usize) {
    n.npolls[i] += 1;
    if n.started[i] {
        // second action on the socket's third poll: sockets with several concurrent timers
        if n.npolls[i] == 3 {
            let h = n.handles[i];
            match n.kinds[i] {
                1 => {
                    let s = n.sockets.get_mut::<udp::Socket>(h);
                    let _ = s.send_slice(b"again", (IpAddress::v4(10, 0, 0, 220 + i as u8), 9));
                }
                2 => {
                    let s = n.sockets.get_mut::<dns::Socket>(h);
                    let _ = s.start_query(n.iface.context(), "example.org", DnsQueryType::A);
                }
                4 => {
                    // established by now: switch keep-alive on ...
                    let s = n.sockets.get_mut::<tcp::Socket>(h);
                    s.set_keep_alive(Some(Duration::from_millis(7000)));
                }
                5 => {
                    // established and idle, nothing outstanding: a user timeout without keep-alive (the
                    // socket must either act when it expires or stop scheduling it)
                    let s = n.sockets.get_mut::<tcp::Socket>(h);
                    s.set_timeout(Some(Duration::from_millis(3000)));
                }
                _ => {}
            }
        }
        if n.npolls[i] == 6 && n.kinds[i] == 4 {
            // ... and off again while the connection is idle
            let s = n.sockets.get_mut::<tcp::Socket>(n.handles[i]);
            s.set_keep_alive(None);
        }
        return;
    }
    n.started[i] = true;
    let h = n.handles[i];
    match n.kinds[i] {
        0 => {
            let s = n.sockets.get_mut::<tcp::Socket>(h);
            let _ = s.connect(n.iface.context(), (IpAddress::v4(10, 0, 0, 2), 80 + i as u16), 40000 + i as u16);
        }
        1 => {
            let s = n.sockets.get_mut::<udp::Socket>(h);
            let _ = s.bind(5000 + i as u16);
            let _ = s.send_slice(b"hello", (IpAddress::v4(10, 0, 0, 200 + i as u8), 9));
        }
        2 => {
            let s = n.sockets.get_mut::<dns::Socket>(h);
            let _ = s.start_query(n.iface.context(), "example.com", DnsQueryType::A);
        }
        4 | 5 => {
            let s = n.sockets.get_mut::<tcp::Socket>(h);
            let _ = s.listen(8000 + i as u16);
            n.dev.rx.push_back(tcp_frame(6000 + i as u16, 8000 + i as u16, 1000, None, true));
        }
        _ => {}
    }
}

/// segment from the scripted peer 10.0.0.2 (SYN, or the handshake-completing ACK)
fn tcp_frame(sport: u16, dport: u16, seq: u32, ack: Option<u32>, syn: bool) -> Vec<u8> {
    let src = Ipv4Address::new(10, 0, 0, 2);
    let dst = Ipv4Address::new(10, 0, 0, 1);
    let t = TcpRepr {
        src_port: sport,
        dst_port: dport,
        control: if syn { TcpControl::Syn } else { TcpControl::None },
        seq_number: TcpSeqNumber(seq as i32),
        ack_number: ack.map(|a| TcpSeqNumber(a as i32)),
        window_len: 4096,
        window_scale: None,
        max_seg_size: if syn { Some(1460) } else { None },
        sack_permitted: false,
        sack_ranges: [None, None, None],
        timestamp: None,
        payload: &[],
    };
    let ip = Ipv4Repr { src_addr: src, dst_addr: dst, next_header: IpProtocol::Tcp, payload_len: t.buffer_len(), hop_limit: 64 };
    let eth = EthernetRepr { src_addr: EthernetAddress(PEER_MAC), dst_addr: EthernetAddress(OWN_MAC), ethertype: EthernetProtocol::Ipv4 };
    let mut buf = vec![0u8; 14 + 20 + t.buffer_len()];
    let mut f = EthernetFrame::new_unchecked(&mut buf[..]);
    eth.emit(&mut f);
    let mut p = Ipv4Packet::new_unchecked(f.payload_mut());
    ip.emit(&mut p, &Default::default());
    t.emit(&mut TcpPacket::new_unchecked(p.payload_mut()), &IpAddress::Ipv4(src), &IpAddress::Ipv4(dst), &Default::default());
    buf
}

/// the scripted peer completes handshakes: a SYN-ACK from port 8000+i gets its ACK (delivered at the next poll)
/// scripted DHCP server 10.0.0.2: OFFER for DISCOVER, ACK for REQUEST; lease / T1 / T2 shapes vary with
/// the node's `dhcp_profile` (both timers, none, only T2 below lease/2, only T1, tiny lease)
fn dhcp_react(n: &mut Node, udp_payload: &[u8]) {
    let Ok(pk) = DhcpPacket::new_checked(udp_payload) else { return };
    let Ok(req) = DhcpRepr::parse(&pk) else { return };
    let mt = match req.message_type {
        DhcpMessageType::Discover => DhcpMessageType::Offer,
        DhcpMessageType::Request => DhcpMessageType::Ack,
        _ => return,
    };
    let (lease, t1, t2): (u32, Option<u32>, Option<u32>) = match n.dhcp_profile % 6 {
        0 => (60, None, None),
        1 => (60, Some(20), Some(40)),
        2 => (100, None, Some(20)),
        3 => (100, Some(30), None),
        4 => (6, None, None),
        _ => (40, Some(30), Some(10)),
    };
    let srv = Ipv4Address::new(10, 0, 0, 2);
    let d = DhcpRepr {
        message_type: mt,
        transaction_id: req.transaction_id,
        secs: 0,
        client_hardware_address: EthernetAddress(OWN_MAC),
        client_ip: Ipv4Address::UNSPECIFIED,
        your_ip: Ipv4Address::new(10, 0, 0, 77),
        server_ip: srv,
        router: Some(srv),
        subnet_mask: Some(Ipv4Address::new(255, 255, 255, 0)),
        relay_agent_ip: Ipv4Address::UNSPECIFIED,
        broadcast: false,
        requested_ip: None,
        client_identifier: None,
        server_identifier: Some(srv),
        parameter_request_list: None,
        dns_servers: None,
        max_size: None,
        lease_duration: Some(lease),
        renew_duration: t1,
        rebind_duration: t2,
        additional_options: &[],
    };
    let mut pl = vec![0u8; d.buffer_len()];
    if d.emit(&mut DhcpPacket::new_unchecked(&mut pl[..])).is_err() {
        return;
    }
    let udp = UdpRepr { src_port: 67, dst_port: 68 };
    let dst = Ipv4Address::BROADCAST;
    let ip = Ipv4Repr { src_addr: srv, dst_addr: dst, next_header: IpProtocol::Udp, payload_len: 8 + pl.len(), hop_limit: 64 };
    let eth = EthernetRepr { src_addr: EthernetAddress(PEER_MAC), dst_addr: EthernetAddress::BROADCAST, ethertype: EthernetProtocol::Ipv4 };
    let mut buf = vec![0u8; 14 + 20 + 8 + pl.len()];
    let mut f = EthernetFrame::new_unchecked(&mut buf[..]);
    eth.emit(&mut f);
    let mut p = Ipv4Packet::new_unchecked(f.payload_mut());
    ip.emit(&mut p, &Default::default());
    udp.emit(&mut UdpPacket::new_unchecked(p.payload_mut()), &IpAddress::Ipv4(srv), &IpAddress::Ipv4(dst), pl.len(), |b| b.copy_from_slice(&pl), &Default::default());
    n.dev.rx.push_back(buf);
}

fn peer_react(n: &mut Node, frames: &[Vec<u8>]) {
    for f in frames {
        let Ok(e) = EthernetFrame::new_checked(&f[..]) else { continue };
        if e.ethertype() != EthernetProtocol::Ipv4 {
            continue;
        }
        let Ok(p) = Ipv4Packet::new_checked(e.payload()) else { continue };
        if p.next_header() == IpProtocol::Udp && n.dhcp_server {
            if let Ok(u) = UdpPacket::new_checked(p.payload()) {
                if u.dst_port() == 67 {
                    let pl = u.payload().to_vec();
                    dhcp_react(n, &pl);
                }
            }
            continue;
        }
        if p.next_header() != IpProtocol::Tcp {
            continue;
        }
        let Ok(t) = TcpPacket::new_checked(p.payload()) else { continue };
        if t.syn() && t.ack() && (8000..8010).contains(&t.src_port()) {
            let seq = t.seq_number().0 as u32;
            n.dev.rx.push_back(tcp_frame(t.dst_port(), t.src_port(), 1001, Some(seq.wrapping_add(1)), false));
        }
    }
}

fn arp_reply(ip: Ipv4Address, mac: [u8; 6]) -> Vec<u8> {
    let arp = ArpRepr::EthernetIpv4 {
        operation: ArpOperation::Reply,
        source_hardware_addr: EthernetAddress(mac),
        source_protocol_addr: ip,
        target_hardware_addr: EthernetAddress(OWN_MAC),
        target_protocol_addr: Ipv4Address::new(10, 0, 0, 1),
    };
    let eth = EthernetRepr { src_addr: EthernetAddress(mac), dst_addr: EthernetAddress(OWN_MAC), ethertype: EthernetProtocol::Arp };
    let mut buf = vec![0u8; eth.buffer_len() + arp.buffer_len()];
    let mut f = EthernetFrame::new_unchecked(&mut buf[..]);
    eth.emit(&mut f);
    arp.emit(&mut ArpPacket::new_unchecked(f.payload_mut()));
    buf
}

fn ra_frame(router: u16, life_s: u64, pfx: Option<(u16, u64)>) -> Vec<u8> {
    let src = Ipv6Address::new(0xfe80, 0, 0, 0, 0, 0, 1, router);
    let dst = Ipv6Address::new(0xff02, 0, 0, 0, 0, 0, 0, 1);
    let prefix_info = pfx.map(|(k, valid)| NdiscPrefixInformation {
        prefix_len: 64,
        flags: NdiscPrefixInfoFlags::ON_LINK | NdiscPrefixInfoFlags::ADDRCONF,
        valid_lifetime: Duration::from_secs(valid),
        preferred_lifetime: Duration::from_secs(valid / 2),
        prefix: Ipv6Address::new(0x2001, 0xdb8, k, 0, 0, 0, 0, 0),
    });
    let ndisc = NdiscRepr::RouterAdvert {
        hop_limit: 64,
        flags: NdiscRouterFlags::empty(),
        router_lifetime: Duration::from_secs(life_s),
        reachable_time: Duration::from_millis(0),
        retrans_time: Duration::from_millis(0),
        lladdr: None,
        mtu: None,
        prefix_info,
    };
    let icmp = Icmpv6Repr::Ndisc(ndisc);
    let ip = Ipv6Repr { src_addr: src, dst_addr: dst, next_header: IpProtocol::Icmpv6, payload_len: icmp.buffer_len(), hop_limit: 255 };
    let eth = EthernetRepr {
        src_addr: EthernetAddress([0x02, 0, 0, 0, 1, router as u8]),
        dst_addr: EthernetAddress([0x33, 0x33, 0, 0, 0, 1]),
        ethertype: EthernetProtocol::Ipv6,
    };
    let mut buf = vec![0u8; eth.buffer_len() + ip.buffer_len() + icmp.buffer_len()];
    let mut f = EthernetFrame::new_unchecked(&mut buf[..]);
    eth.emit(&mut f);
    let mut p = Ipv6Packet::new_unchecked(f.payload_mut());
    ip.emit(&mut p);
    icmp.emit(&src, &dst, &mut Icmpv6Packet::new_unchecked(p.payload_mut()), &Default::default());
    buf
}

#[derive(PartialEq, Debug)]
enum FrameKind {
    Rs,
    McastReport, // MLD / IGMP: outside the C13 claim
    Other,
}

fn classify(frame: &[u8]) -> FrameKind {
    let Ok(f) = EthernetFrame::new_checked(frame) else { return FrameKind::Other };
    match f.ethertype() {
        EthernetProtocol::Ipv6 => {
            let Ok(p) = Ipv6Packet::new_checked(f.payload()) else { return FrameKind::Other };
            let mut nh = p.next_header();
            let mut pl = p.payload();
            if nh == IpProtocol::HopByHop && pl.len() >= 8 {
                nh = IpProtocol::from(pl[0]);
                let l = (pl[1] as usize + 1) * 8;
                if pl.len() < l {
                    return FrameKind::Other;
                }
                pl = &pl[l..];
            }
            if nh == IpProtocol::Icmpv6 && !pl.is_empty() {
                return match pl[0] {
                    133 => FrameKind::Rs,
                    130 | 131 | 132 | 143 => FrameKind::McastReport,
                    _ => FrameKind::Other,
                };
            }
            FrameKind::Other
        }
        EthernetProtocol::Ipv4 => {
            let Ok(p) = Ipv4Packet::new_checked(f.payload()) else { return FrameKind::Other };
            if p.next_header() == IpProtocol::Igmp {
                FrameKind::McastReport
            } else {
                FrameKind::Other
            }
        }
        _ => FrameKind::Other,
    }
}

fn fmt_opt(i: Option<Instant>) -> String {
    match i {
        Some(t) => t.total_micros().to_string(),
        None => "n".into(),
    }
}

/// resolve ARP for the peers sockets talk to (not for the "unresolved" UDP targets)
fn prime_arp(n: &mut Node) {
    n.dev.rx.push_back(arp_reply(Ipv4Address::new(10, 0, 0, 2), PEER_MAC));
    n.dev.rx.push_back(arp_reply(Ipv4Address::new(10, 0, 0, 53), [0x02, 0, 0, 0, 0, 0x53]));
}

struct PollOp {
    ms: i64,
    ras: Vec<(u16, u64, Option<(u16, u64)>)>,
}

fn parse_poll(op: &str) -> PollOp {
    let t: Vec<&str> = op.split_whitespace().collect();
    let ms = t[1].parse().unwrap();
    let mut ras = vec![];
    let mut i = 2;
    while i < t.len() {
        if t[i] == "ra" {
            let router = t[i + 1].parse().unwrap();
            let life = t[i + 2].parse().unwrap();
            let pfx = if t[i + 3] == "-" { None } else { Some((t[i + 3].parse().unwrap(), t[i + 4].parse().unwrap())) };
            ras.push((router, life, pfx));
            i += 5;
        } else {
            i += 1;
        }
    }
    PollOp { ms, ras }
}

/// one poll on a node: returns (#RS sent, #other non-multicast-report frames sent, #frames received)
fn do_poll(n: &mut Node, p: &PollOp) -> (usize, usize, usize) {
    // keep the peers resolved: adding a SLAAC address flushes the neighbor cache, which would
    // couple the sockets' schedules through ARP back-off
    prime_arp(n);
    for (r, l, pf) in &p.ras {
        n.dev.rx.push_back(ra_frame(*r, *l, *pf));
    }
    for i in 0..n.kinds.len() {
        start_sock(n, i);
    }
    let nrx = n.dev.rx.len();
    let now = Instant::from_millis(p.ms);
    n.iface.poll(now, &mut n.dev, &mut n.sockets);
    for i in 0..n.kinds.len() {
        if n.kinds[i] == 3 {
            let _ = n.sockets.get_mut::<dhcpv4::Socket>(n.handles[i]).poll();
        }
    }
    let frames = n.dev.drain_tx();
    peer_react(n, &frames);
    let rs = frames.iter().filter(|f| classify(f) == FrameKind::Rs).count();
    let other = frames.iter().filter(|f| classify(f) == FrameKind::Other).count();
    (rs, other, nrx)
}

fn run_case(c: &Case, out: &mut dyn Write, record: bool) -> Vec<String> {
    // returns the (possibly rewritten) op list when `record` (gen) is set
    writeln!(out, "case {}", c.id).ok();
    let slaac = c.get_i("slaac", 1) == 1;
    let seed = c.get_i("rs", 7) as u64;
    let mut main = mk_node(slaac, seed);
    prime_arp(&mut main);
    let mut singles: Vec<Node> = vec![];
    let mut newops = vec![];
    for op in &c.ops {
        let t: Vec<&str> = op.split_whitespace().collect();
        match t[0] {
            "sock" => {
                let k: u32 = t[1].parse().unwrap();
                let idx = main.kinds.len();
                add_sock(&mut main, k, idx);
                if record {
                    let mut s = mk_node(false, seed);
                    prime_arp(&mut s);
                    // same socket index so that ports / targets coincide
                    for _ in 0..idx {
                        s.kinds.push(99);
                        s.started.push(true);
                        s.npolls.push(1000);
                        s.handles.push(main.handles[0]);
                    }
                    add_sock(&mut s, k, idx);
                    singles.push(s);
                }
                newops.push(op.clone());
            }
            "poll" => {
                let p = parse_poll(op);
                let now = Instant::from_millis(p.ms);
                if record {
                    let mut pas = vec![];
                    for s in singles.iter_mut() {
                        // singles: only their own socket is real
                        let k = s.kinds.len() - 1;
                        prime_arp(s);
                        for (r, l, pf) in &p.ras {
                            s.dev.rx.push_back(ra_frame(*r, *l, *pf));
                        }
                        start_sock(s, k);
                        s.iface.poll(now, &mut s.dev, &mut s.sockets);
                        if s.kinds[k] == 3 {
                            let _ = s.sockets.get_mut::<dhcpv4::Socket>(s.handles[k]).poll();
                        }
                        let fr = s.dev.drain_tx();
                        peer_react(s, &fr);
                        pas.push(fmt_opt(s.iface.poll_at(now, &s.sockets)));
                    }
                    let mut o = format!("poll {} pa={}", p.ms, if pas.is_empty() { "-".to_string() } else { pas.join(";") });
                    for (r, l, pf) in &p.ras {
                        match pf {
                            Some((k, v)) => o.push_str(&format!(" ra {} {} {} {}", r, l, k, v)),
                            None => o.push_str(&format!(" ra {} {} - 0", r, l)),
                        }
                    }
                    newops.push(o);
                }
                let (rs, _other, _nrx) = do_poll(&mut main, &p);
                let pa = main.iface.poll_at(now, &main.sockets);
                let pd = main.iface.poll_delay(now, &main.sockets);
                writeln!(
                    out,
                    "p rs={} pollat={} delay={}",
                    rs,
                    fmt_opt(pa),
                    match pd {
                        Some(d) => d.total_micros().to_string(),
                        None => "n".into(),
                    }
                )
                .ok();
            }
            x => panic!("bad op {}", x),
        }
    }
    newops
}

fn gen_case(rng: &mut Rng, id: String) -> Case {
    let slaac = if rng.chance(4, 5) { 1 } else { 0 };
    let nsock = match rng.below(6) {
        0 | 1 => 0,
        2 | 3 => 1,
        4 => 2,
        _ => 3,
    };
    let mut ops = vec![];
    let mut have_dhcp = false;
    for _ in 0..nsock {
        // at most one DHCP client per interface: two clients share the interface's hardware address and the
        // server's broadcasts, so their schedules are not independent (the differential needs independence)
        let mut k = rng.below(6);
        if k == 3 && have_dhcp {
            k = 0;
        }
        have_dhcp |= k == 3;
        ops.push(format!("sock {}", k));
    }
    let mut t: i64 = rng.range(0, 50);
    let n = rng.range(4, 22);
    for _ in 0..n {
        let mut o = format!("poll {}", t);
        if rng.chance(1, 5) {
            let nra = if rng.chance(1, 6) { 2 } else { 1 };
            for _ in 0..nra {
                let router = rng.range(1, 3);
                let life = *rng.pick(&[0u64, 0, 5, 30, 1800]);
                if rng.chance(2, 3) {
                    let k = rng.range(1, 2);
                    let valid = *rng.pick(&[0u64, 3, 10, 60, 3600]);
                    o.push_str(&format!(" ra {} {} {} {}", router, life, k, valid));
                } else {
                    o.push_str(&format!(" ra {} {} - 0", router, life));
                }
            }
        }
        ops.push(o);
        // time steps around the 4 s solicitation interval, socket timers and expiries
        t += *rng.pick(&[0i64, 1, 500, 999, 1000, 1001, 3999, 4000, 4001, 2000, 8000, 10000, 30000, 60000]);
    }
    Case { id, cfg: vec![("slaac".into(), slaac.to_string()), ("rs".into(), rng.below(1000).to_string())], ops }
}

/// Oracle: drive a node only by poll_at and scripted arrivals; probe early polls and spins.
fn probe_case(c: &Case, fails: &mut Vec<String>, stats: &mut std::collections::BTreeMap<String, u64>, rng: &mut Rng) {
    let slaac = c.get_i("slaac", 1) == 1;
    let mut n = mk_node(slaac, c.get_i("rs", 7) as u64);
    prime_arp(&mut n);
    let mut script: Vec<PollOp> = vec![];
    for op in &c.ops {
        let t: Vec<&str> = op.split_whitespace().collect();
        if t[0] == "sock" {
            let idx = n.kinds.len();
            add_sock(&mut n, t[1].parse().unwrap(), idx);
        } else {
            script.push(parse_poll(op));
        }
    }
    let horizon_us: i64 = 120_000_000;
    let mut now_us: i64 = 0;
    let mut si = 0;
    let mut steps = 0;
    let mut same_instant = 0;
    while now_us <= horizon_us && steps < 4000 {
        steps += 1;
        let now = Instant::from_micros(now_us);
        // arrivals scheduled for this instant
        let mut p = PollOp { ms: 0, ras: vec![] };
        while si < script.len() && script[si].ms * 1000 <= now_us {
            p.ras.extend(script[si].ras.iter().cloned());
            si += 1;
        }
        for (r, l, pf) in &p.ras {
            n.dev.rx.push_back(ra_frame(*r, *l, *pf));
        }
        for i in 0..n.kinds.len() {
            start_sock(&mut n, i);
        }
        let nrx = n.dev.rx.len();
        n.iface.poll(now, &mut n.dev, &mut n.sockets);
        for i in 0..n.kinds.len() {
            if n.kinds[i] == 3 {
                let _ = n.sockets.get_mut::<dhcpv4::Socket>(n.handles[i]).poll();
            }
        }
        let frames = n.dev.drain_tx();
        peer_react(&mut n, &frames);
        let ntx = frames.len();
        *stats.entry("polls".into()).or_default() += 1;
        *stats.entry("frames".into()).or_default() += ntx as u64;
        let pa = n.iface.poll_at(now, &n.sockets);
        // no-spin clause
        if nrx == 0 && ntx == 0 {
            *stats.entry("idle_polls".into()).or_default() += 1;
            if let Some(t) = pa {
                if t <= now {
                    fails.push(format!(
                        "c13-spin :: case {} at {}us: idle poll (no rx, no tx) but poll_at = {}us <= now (slaac={})",
                        c.id,
                        now_us,
                        t.total_micros(),
                        slaac
                    ));
                    return;
                }
            }
        }
        // frames produced by the scripted peers in reaction to this poll are arrivals: poll again right away
        if !n.dev.rx.is_empty() {
            now_us += 1;
            continue;
        }
        // next wake-up: min(poll_at, next scripted arrival)
        let next_script = if si < script.len() { Some(script[si].ms * 1000) } else { None };
        let next_pa = pa.map(|t| t.total_micros().max(now_us));
        // early-poll probe strictly between now and the deadline (only when nothing arrives in between)
        let limit = match (next_pa, next_script) {
            (Some(a), Some(b)) => Some(a.min(b)),
            (Some(a), None) => Some(a),
            (None, Some(b)) => Some(b),
            (None, None) => Some(now_us + 5_000_000),
        };
        let lim = limit.unwrap();
        if lim > now_us + 1 && rng.chance(1, 2) {
            let probe_us = match rng.below(3) {
                0 => lim - 1,
                1 => now_us + 1,
                _ => now_us + 1 + (rng.below((lim - now_us - 1) as u64) as i64),
            };
            let pnow = Instant::from_micros(probe_us);
            n.iface.poll(pnow, &mut n.dev, &mut n.sockets);
            let fr = n.dev.drain_tx();
            *stats.entry("probes".into()).or_default() += 1;
            let bad: Vec<&Vec<u8>> = fr.iter().filter(|f| classify(f) != FrameKind::McastReport).collect();
            if !bad.is_empty() && pa.map(|t| t.total_micros() > probe_us).unwrap_or(true) {
                fails.push(format!(
                    "c13-early-poll-transmits :: case {} poll at {}us returned poll_at={} but an extra poll at {}us transmitted {} frame(s) (first: {})",
                    c.id,
                    now_us,
                    fmt_opt(pa),
                    probe_us,
                    bad.len(),
                    hex(&bad[0][..bad[0].len().min(60)])
                ));
                return;
            }
        }
        let next = match (next_pa, next_script) {
            (Some(a), Some(b)) => a.min(b),
            (Some(a), None) => a,
            (None, Some(b)) => b,
            (None, None) => break,
        };
        if next <= now_us {
            same_instant += 1;
            if same_instant > 50 {
                fails.push(format!("c13-spin :: case {} at {}us: more than 50 consecutive polls demanded at the same instant", c.id, now_us));
                return;
            }
        } else {
            same_instant = 0;
        }
        now_us = next.max(now_us);
    }
    *stats.entry("runs".into()).or_default() += 1;
    if rng.chance(1, 3) {
        frag_probe(c, fails, stats, rng);
        lowpan_probe(c, fails, stats, rng);
    }
}

/// UDP fragments (IPv4, protocol 17, to the primed peer 10.0.0.2) among the emitted frames
fn count_udp_frags(frames: &[Vec<u8>]) -> usize {
    frames
        .iter()
        .filter(|f| {
            let Ok(e) = EthernetFrame::new_checked(&f[..]) else { return false };
            if e.ethertype() != EthernetProtocol::Ipv4 {
                return false;
            }
            let Ok(p) = Ipv4Packet::new_checked(e.payload()) else { return false };
            p.next_header() == IpProtocol::Udp && p.dst_addr() == Ipv4Address::new(10, 0, 0, 2)
        })
        .count()
}

/// Pending fragments (the property's quantifier names them): a UDP datagram larger than the IP MTU is sent while
/// the device hands out only 0..2 tx tokens per poll, so that `Interface::poll` returns with fragments left in the
/// fragmenter (a poll emits at most two fragments per datagram anyway: `ipv4_egress` sends one per egress round).
/// Whenever the device accepts frames again and fragments are still pending, a poll would transmit:
/// by the early-poll clause poll_at must then be <= now (`c13-early-poll-transmits` otherwise, shown by an extra
/// poll); poll_delay must agree with poll_at (`c13-poll-delay-inconsistent`); the datagram must be out after
/// finitely many polls at the demanded instants (`c13-spin`); and once everything is out an idle poll must be
/// followed by a later deadline or none (`c13-spin`).
fn frag_probe(c: &Case, fails: &mut Vec<String>, stats: &mut std::collections::BTreeMap<String, u64>, rng: &mut Rng) {
    let slaac = c.get_i("slaac", 1) == 1;
    let ip_mtu = *rng.pick(&[68usize, 100, 296, 576]);
    let mut n = mk_node_mtu(slaac, c.get_i("rs", 7) as u64, 14 + ip_mtu);
    let rx = udp::PacketBuffer::new(vec![udp::PacketMetadata::EMPTY; 2], vec![0; 256]);
    let tx = udp::PacketBuffer::new(vec![udp::PacketMetadata::EMPTY; 2], vec![0; 2048]);
    let h = n.sockets.add(udp::Socket::new(rx, tx));
    let per = (ip_mtu - 20) & !7;
    let len = rng.range((2 * per as i64).min(1200), 1400) as usize;
    let expected = (len + 8 + per - 1) / per;
    let payload: Vec<u8> = (0..len).map(|i| i as u8).collect();
    let mut now_us: i64 = 1_000_000 + rng.below(3_000_000) as i64;
    let mut queued = false;
    let mut sent = 0usize;
    let mut steps = 0;
    *stats.entry("frag_probes".into()).or_default() += 1;
    while steps < 300 {
        steps += 1;
        let now = Instant::from_micros(now_us);
        prime_arp(&mut n);
        if !queued && steps == 2 {
            let s = n.sockets.get_mut::<udp::Socket>(h);
            let _ = s.bind(6000);
            queued = s.send_slice(&payload, (IpAddress::v4(10, 0, 0, 2), 9)).is_ok();
            if !queued {
                return;
            }
        }
        n.dev.tx_budget = match rng.below(8) {
            0 | 1 => Some(0),
            2 | 3 | 4 => Some(1),
            5 => Some(2),
            6 => Some(3),
            _ => None,
        };
        n.iface.poll(now, &mut n.dev, &mut n.sockets);
        let frames = n.dev.drain_tx();
        let nfr = frames.len();
        sent += count_udp_frags(&frames);
        // the device accepts frames again
        n.dev.tx_budget = None;
        let pa = n.iface.poll_at(now, &n.sockets);
        let pd = n.iface.poll_delay(now, &n.sockets);
        let want_pd = pa.map(|t| if t > now { t - now } else { Duration::from_micros(0) });
        if pd != want_pd {
            fails.push(format!("c13-poll-delay-inconsistent :: case {} fragment probe at {}us: poll_at={} but poll_delay={:?}", c.id, now_us, fmt_opt(pa), pd));
            return;
        }
        let pending = queued && sent < expected;
        if pending {
            *stats.entry("frag_pending_polls".into()).or_default() += 1;
            if pa.map(|t| t > now).unwrap_or(true) {
                // the stack asks to sleep although it holds fragments and the device is ready: show that a poll
                // before the returned instant transmits
                let probe_us = now_us + 1;
                if pa.map(|t| t.total_micros() > probe_us).unwrap_or(true) {
                    n.iface.poll(Instant::from_micros(probe_us), &mut n.dev, &mut n.sockets);
                    let fr = n.dev.drain_tx();
                    let bad: Vec<&Vec<u8>> = fr.iter().filter(|f| classify(f) != FrameKind::McastReport).collect();
                    if !bad.is_empty() {
                        fails.push(format!(
                            "c13-early-poll-transmits :: case {} fragment probe: poll at {}us left {} of {} fragments in the fragmenter (device back-pressure) and returned poll_at={}, but an extra poll at {}us on the now ready device transmitted {} frame(s) (first: {})",
                            c.id, now_us, expected - sent, expected, fmt_opt(pa), probe_us, bad.len(), hex(&bad[0][..bad[0].len().min(60)])
                        ));
                        return;
                    }
                    sent += count_udp_frags(&fr);
                }
            }
            now_us = pa.map(|t| t.total_micros()).unwrap_or(now_us + 1_000).max(now_us + 1);
            continue;
        }
        if queued {
            // everything is out: the first idle poll must not demand another poll at the same instant
            if nfr == 0 && n.dev.rx.is_empty() {
                if let Some(t) = pa {
                    if t <= now {
                        fails.push(format!("c13-spin :: case {} fragment probe at {}us: all {} fragments sent, idle poll, but poll_at = {}us <= now", c.id, now_us, expected, t.total_micros()));
                    }
                }
                *stats.entry("frag_probes_completed".into()).or_default() += 1;
                return;
            }
        }
        now_us = pa.map(|t| t.total_micros()).unwrap_or(now_us + 1_000).max(now_us + 1);
    }
    if queued && sent < expected {
        fails.push(format!("c13-spin :: case {} fragment probe: {} of {} fragments still unsent after 300 polls at the demanded instants", c.id, expected - sent, expected));
    }
}

/// Oracle on IEEE 802.15.4 / 6LoWPAN (oracle only: the differential stream is Ethernet): a UDP socket with a datagram
/// for a link-local neighbour that never answers; the interface is driven by poll_at alone for ten seconds.  Neighbour
/// solicitations may leave once per second; in between an idle poll must be followed by a later deadline
/// (`c13-spin`) and a poll just before the reported deadline must transmit nothing (`c13-early-poll-transmits`).
fn lowpan_probe(c: &Case, fails: &mut Vec<String>, stats: &mut std::collections::BTreeMap<String, u64>, rng: &mut Rng) {
    use smoltcp::wire::{Ieee802154Address, Ieee802154Pan};
    let slaac = c.get_i("slaac", 1) == 1;
    let mut dev = QDev::new(Medium::Ieee802154, 127);
    let hw = Ieee802154Address::Extended([0x02, 0, 0, 0, 0, 0, 0, 0x01]);
    let mut cfg = Config::new(HardwareAddress::Ieee802154(hw));
    cfg.random_seed = c.get_i("rs", 7) as u64;
    cfg.pan_id = Some(Ieee802154Pan(0xbeef));
    cfg.slaac = slaac;
    let mut iface = Interface::new(cfg, &mut dev, Instant::ZERO);
    iface.update_ip_addrs(|a| {
        a.push(IpCidr::new(IpAddress::Ipv6(Ipv6Address::new(0xfe80, 0, 0, 0, 0, 0, 0, 1)), 64)).unwrap();
    });
    let storage: Vec<SocketStorage<'static>> = Vec::new();
    let mut sockets = SocketSet::new(storage);
    let rx = udp::PacketBuffer::new(vec![udp::PacketMetadata::EMPTY; 2], vec![0; 256]);
    let tx = udp::PacketBuffer::new(vec![udp::PacketMetadata::EMPTY; 2], vec![0; 256]);
    let h = sockets.add(udp::Socket::new(rx, tx));
    let peer = IpAddress::Ipv6(Ipv6Address::new(0xfe80, 0, 0, 0, 0, 0, 0, 0x99));
    let mut now_us: i64 = rng.below(2_000_000) as i64;
    let end = now_us + 10_000_000;
    let mut steps = 0;
    let mut same_instant = 0;
    *stats.entry("lowpan_probes".into()).or_default() += 1;
    while now_us <= end && steps < 400 {
        steps += 1;
        let now = Instant::from_micros(now_us);
        if steps == 2 {
            let s = sockets.get_mut::<udp::Socket>(h);
            let _ = s.bind(6000);
            let _ = s.send_slice(b"anybody-there?", (peer, 9));
        }
        iface.poll(now, &mut dev, &mut sockets);
        let ntx = dev.drain_tx().len();
        let pa = iface.poll_at(now, &sockets);
        if ntx == 0 {
            if let Some(t) = pa {
                if t <= now {
                    fails.push(format!("c13-spin :: case {} 6LoWPAN probe at {}us: idle poll (no rx, no tx) but poll_at = {}us <= now (slaac={})", c.id, now_us, t.total_micros(), slaac));
                    return;
                }
            }
            same_instant = 0;
        } else {
            same_instant += 1;
            if same_instant > 20 {
                fails.push(format!("c13-spin :: case {} 6LoWPAN probe at {}us: 20 transmitting polls at one instant", c.id, now_us));
                return;
            }
        }
        match pa {
            Some(t) if t > now => {
                // early probe: one microsecond before the deadline nothing may leave
                let early = Instant::from_micros(t.total_micros() - 1);
                if early > now {
                    iface.poll(early, &mut dev, &mut sockets);
                    let n_early = dev.drain_tx().len();
                    if n_early > 0 {
                        fails.push(format!("c13-early-poll-transmits :: case {} 6LoWPAN probe: poll at {}us returned poll_at={}us but a poll at {}us transmitted {} frame(s)", c.id, now_us, t.total_micros(), early.total_micros(), n_early));
                        return;
                    }
                }
                now_us = t.total_micros();
            }
            Some(_) => now_us += 0,
            None => now_us += 1_000_000,
        }
        if pa.map(|t| t <= now).unwrap_or(false) && ntx > 0 {
            // transmitted and wants an immediate poll: allowed, bounded by same_instant
            continue;
        }
    }
}

fn main() {
    quiet_panics();
    let (sub, seed, n, _tier) = args();
    let stdout = std::io::stdout();
    let mut out = std::io::BufWriter::new(stdout.lock());
    match sub.as_str() {
        "gen" => {
            let mut rng = Rng::new(seed);
            let mut sink = std::io::sink();
            for i in 0..n {
                let mut c = gen_case(&mut rng, format!("s{}-{}", seed, i));
                c.ops = run_case(&c, &mut sink, true);
                c.write(&mut out);
            }
        }
        "run" => {
            for c in stdin_cases() {
                run_case(&c, &mut out, false);
            }
        }
        "record" => {
            // rewrite hand-written cases: fill in the per-socket deadlines (pa=...)
            let mut sink = std::io::sink();
            for mut c in stdin_cases() {
                c.ops = run_case(&c, &mut sink, true);
                c.write(&mut out);
            }
        }
        "oracle" | "oracle-replay" => {
            let mut rng = Rng::new(seed ^ 0x5151);
            let mut fails = vec![];
            let mut stats: std::collections::BTreeMap<String, u64> = std::collections::BTreeMap::new();
            let cases: Vec<Case> = if sub == "oracle" {
                (0..n).map(|i| gen_case(&mut rng, format!("o{}-{}", seed, i))).collect()
            } else {
                stdin_cases()
            };
            for c in &cases {
                let before = fails.len();
                let r = std::panic::catch_unwind(std::panic::AssertUnwindSafe(|| {
                    let mut f2 = vec![];
                    let mut s2: std::collections::BTreeMap<String, u64> = std::collections::BTreeMap::new();
                    let mut r2 = rng.clone();
                    probe_case(c, &mut f2, &mut s2, &mut r2);
                    (f2, s2)
                }));
                rng.next();
                match r {
                    Ok((f2, s2)) => {
                        fails.extend(f2);
                        for (k, v) in s2 {
                            *stats.entry(k).or_default() += v;
                        }
                    }
                    Err(_) => fails.push(format!("c13-poll-panicked :: case {}", c.id)),
                }
                if fails.len() > before && sub == "oracle" {
                    writeln!(out, "FAILCASE").ok();
                    c.write(&mut out);
                }
                if fails.len() > 10 {
                    break;
                }
            }
            for f in &fails {
                writeln!(out, "FAIL {}", f).ok();
            }
            let st: Vec<String> = stats.iter().map(|(k, v)| format!("{}:{}", jstr(k), v)).collect();
            writeln!(out, "STATS {{\"cases\":{}{}{}}}", cases.len(), if st.is_empty() { "" } else { "," }, st.join(",")).ok();
        }
        x => panic!("unknown subcommand {}", x),
    }
}
