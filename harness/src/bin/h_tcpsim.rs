//! Stream `tcpsim`: implementation-side failing-input search for the TCP end-to-end properties
//! (C01, C02, C05: two real endpoints over an adversarial link) and the receiver property (C04: one
//! real socket against a scripted adversarial peer).  See harness/src/tcpsim.rs.
//!
//!   h_tcpsim gen <seed> <n> [tier]            print the cases `oracle <seed> <n> [tier]` would run
//!   h_tcpsim oracle <seed> <n> [tier]         all classes (corpus first when seed % 1000 == 0)
//!   h_tcpsim oracle-c01|c02|c05 <seed> <n> [tier]   e2e simulation, report only that property's classes
//!   h_tcpsim oracle-c04 <seed> <n> [tier]     scripted-peer simulation, c04-* classes
//!   h_tcpsim oracle-c10|c13 ...               e2e + rx, only the c10-* / c13-* helper classes
//!   h_tcpsim oracle-replay [--trace] [--only cNN]   cases on stdin
use std::collections::BTreeMap;
use std::io::Write;
use svh::tcpsim::*;
use svh::*;

fn run_case(c: &Case, trace: bool) -> RunOut {
    match c.get("sim") {
        Some("e2e") => run_e2e(&E2eCfg::from_case(c), trace),
        Some("rx") => run_rx_case(c, trace),
        x => panic!("case {}: unknown sim {:?}", c.id, x),
    }
}

fn want(class: &str, only: &Option<String>) -> bool {
    match only {
        None => true,
        Some(p) => class.starts_with(p.as_str()),
    }
}

fn corpus_cases(props: &[&str]) -> Vec<Case> {
    // <root>/harness/target/<profile>/h_tcpsim -> <root>/corpus/Cxx/tcpsim-*.case
    let mut out = vec![];
    let Ok(exe) = std::env::current_exe() else { return out };
    let Some(root) = exe.ancestors().nth(4) else { return out };
    for p in props {
        let dir = root.join("corpus").join(p);
        let Ok(rd) = std::fs::read_dir(&dir) else { continue };
        let mut files: Vec<_> = rd.filter_map(|e| e.ok()).map(|e| e.path()).filter(|p| p.file_name().and_then(|n| n.to_str()).map_or(false, |n| n.starts_with("tcpsim-") && n.ends_with(".case"))).collect();
        files.sort();
        for f in files {
            if let Ok(txt) = std::fs::read_to_string(&f) {
                let mut r = std::io::BufReader::new(txt.as_bytes());
                for mut c in read_cases(&mut r) {
                    c.id = format!("corpus:{}:{}", f.file_name().unwrap().to_string_lossy(), c.id);
                    out.push(c);
                }
            }
        }
    }
    out
}

fn main() {
    if std::env::var("TCPSIM_LOUD").is_err() {
        quiet_panics();
    }
    let a: Vec<String> = std::env::args().collect();
    let (sub, seed, n, tier) = args();
    let stdout = std::io::stdout();
    let mut out = std::io::BufWriter::new(stdout.lock());
    // which simulation(s) and which classes
    // `gen <seed> <n> <tier> <oracle-sub>` prints exactly the cases that oracle sub would run
    let sel = if sub == "gen" { a.get(5).cloned().unwrap_or_else(|| "oracle".into()) } else { sub.clone() };
    let (sims, only, props): (&[&str], Option<String>, &[&str]) = match sel.as_str() {
        "oracle" => (&["e2e", "rx"], None, &["C01", "C02", "C04", "C05"]),
        "oracle-c01" => (&["e2e"], Some("c01-".into()), &["C01"]),
        "oracle-c02" => (&["e2e", "rx"], Some("c02-".into()), &["C02"]),
        "oracle-c05" => (&["e2e", "rx"], Some("c05-".into()), &["C05"]),
        "oracle-c04" => (&["rx"], Some("c04-".into()), &["C04"]),
        "oracle-c10" => (&["e2e", "rx"], Some("c10-".into()), &[]),
        "oracle-c13" => (&["e2e", "rx"], Some("c13-".into()), &[]),
        "oracle-c03" => (&["e2e", "rx"], Some("c03-".into()), &["C03"]),
        _ => (&[], None, &[]),
    };
    match sub.as_str() {
        "gen" | "oracle" | "oracle-c01" | "oracle-c02" | "oracle-c03" | "oracle-c04" | "oracle-c05" | "oracle-c10" | "oracle-c13" => {
            let t0 = std::time::Instant::now();
            let mut rng = Rng::new(seed ^ 0x7C95);
            let mut stats: BTreeMap<String, u64> = BTreeMap::new();
            let mut fails: Vec<(String, String)> = vec![];
            let mut classes: BTreeMap<String, u64> = BTreeMap::new();
            let mut ncases = 0u64;
            let mut todo: Vec<Case> = vec![];
            if sub != "gen" && seed % 1000 == 0 {
                todo.extend(corpus_cases(props).into_iter().filter(|c| sims.contains(&c.get("sim").unwrap_or(""))));
            }
            let ncorpus = todo.len();
            for i in 0..n {
                let sim = sims[i % sims.len()];
                let id = format!("{}{}-{}", &sim[..1], seed, i);
                let c = match sim {
                    "e2e" => gen_e2e(&mut rng, id, &tier).to_case(),
                    _ => gen_rx(&mut rng, id, &tier),
                };
                todo.push(c);
            }
            if sub == "gen" {
                for c in &todo {
                    c.write(&mut out);
                }
                return;
            }
            for c in &todo {
                let r = match catch(std::panic::AssertUnwindSafe(|| run_case(c, false))) {
                    Some(r) => r,
                    None => {
                        let mut r = RunOut::default();
                        r.fail("c03-panic", format!("case {}: the simulation panicked (stack or harness)", c.id));
                        r
                    }
                };
                ncases += 1;
                for (k, v) in &r.stats {
                    *stats.entry(k.clone()).or_default() += v;
                }
                let mine: Vec<&(String, String)> = r.fails.iter().filter(|(cl, _)| want(cl, &only) || cl == "c03-panic").collect();
                for (cl, _) in &r.fails {
                    *classes.entry(cl.clone()).or_default() += 1;
                }
                let maxper: usize = std::env::var("TCPSIM_MAXPER").ok().and_then(|v| v.parse().ok()).unwrap_or(2);
                if !mine.is_empty() && fails.len() < 12 * maxper {
                    // one FAILCASE block per FAIL line so that the check can pair them by index
                    for (cl, d) in mine {
                        if fails.iter().filter(|(c0, _)| c0 == cl).count() >= maxper {
                            continue;
                        }
                        writeln!(out, "FAILCASE").unwrap();
                        // the recorded (explicit) form of the case replays without the generator
                        let rc = r_case(c, &r);
                        rc.write(&mut out);
                        fails.push((cl.clone(), d.clone()));
                    }
                }
            }
            for (cl, d) in &fails {
                writeln!(out, "FAIL {} :: {}", cl, d).unwrap();
            }
            let st: Vec<String> = stats.iter().map(|(k, v)| format!("{}:{}", jstr(k), v)).collect();
            let cl: Vec<String> = classes.iter().map(|(k, v)| format!("{}:{}", jstr(&format!("fail:{}", k)), v)).collect();
            let secs = t0.elapsed().as_secs_f64();
            writeln!(
                out,
                "STATS {{\"cases\":{},\"corpus_cases\":{},\"wall_ms\":{},{}{}{}}}",
                ncases,
                ncorpus,
                (secs * 1000.0) as u64,
                st.join(","),
                if cl.is_empty() { "" } else { "," },
                cl.join(",")
            )
            .unwrap();
        }
        "oracle-replay" => {
            let trace = a.iter().any(|x| x == "--trace");
            let only = a.iter().position(|x| x == "--only").and_then(|i| a.get(i + 1)).map(|s| format!("{}-", s.trim_end_matches('-')));
            for c in stdin_cases() {
                let r = match catch(std::panic::AssertUnwindSafe(|| run_case(&c, trace))) {
                    Some(r) => r,
                    None => {
                        let mut r = RunOut::default();
                        r.fail("c03-panic", format!("case {}: the simulation panicked (stack or harness); rerun with TCPSIM_LOUD=1 for the message", c.id));
                        r
                    }
                };
                for (cl, d) in &r.fails {
                    if want(cl, &only) || cl == "c03-panic" {
                        writeln!(out, "FAIL {} :: {}", cl, d).unwrap();
                    }
                }
                if trace {
                    let st: Vec<String> = r.stats.iter().map(|(k, v)| format!("{}:{}", jstr(k), v)).collect();
                    writeln!(out, "STATS {{{}}}", st.join(",")).unwrap();
                }
            }
        }
        x => panic!("unknown subcommand {}", x),
    }
}

/// the case to print for a failing run: for `rx` the ops recorded while generating in the loop
fn r_case(c: &Case, r: &RunOut) -> Case {
    if c.get("sim") == Some("rx") && c.ops.is_empty() {
        if let Some(ops) = recorded_ops(r) {
            let mut c2 = c.clone();
            c2.ops = ops;
            return c2;
        }
    }
    c.clone()
}
