//! Stream `tcp`: one smoltcp `tcp::Socket` behind a real `Interface` (Medium::Ip, IPv4, one address,
//! svh::dev::QDev).  Properties C17 (projection `^st `), C04, C05, C13 use this stream.
//!
//! Case header:  case <id> rx=<cap> tx=<cap> mtu=<n> cc=<none|reno> ts=<0|1> fill=<byte> seed=<u64> isns=<v,v,...>
//!   rx/tx  socket buffer capacities (storage pre-filled with `fill`)
//!   seed   Config::random_seed; `isns` = the ISNs the interface's generator hands out, in order, learned
//!          by *observation* (a scratch interface with the same seed: connect, poll, read the SYN) - the
//!          model consumes one per successful connect / per SYN accepted in LISTEN.
//!   ts=1   TCP timestamps enabled; the generator returns (now_ms + 1000) mod 2^32.
//! The interface owns TWO addresses, 10.0.0.1/24 and 10.0.0.3/24; peer 10.0.0.2.  Events (times in ms, integers decimal):
//!   listen <port> [a=1|3]        bind to 10.0.0.1 / 10.0.0.3 instead of "any"
//!   connect rp=<port> lp=<port> [ra=4|0|6|60] [la=-|4|0]
//!                                remote address: peer (4, default), 0.0.0.0 (0), fd00::2 (6), :: (60);
//!                                local address: chosen by the interface (-), 10.0.0.1 (4), 0.0.0.0 (0)
//!   send <n> | recv <n> | peek <n> (peek_slice) | peekc <n> (peek) | close | abort
//!   sendf <k> | recvf <k>        the closure API Socket::send(f) / recv(f): f sees ONE contiguous slice and
//!                                takes min(k, slice length) octets; `ret <n> [hash hex] sl=<slice length>'
//!   set timeout=<ms|-> | set keepalive=<ms|-> | set ackdelay=<ms|-> | set nagle=<0|1> | set hoplimit=<n|->
//!   seg t=<ms> [da=1|3] sp=<port> dp=<port> seq=<u32> ack=<u32|-> fl=<subset of SFRP|-> win=<u16> len=<n>
//!       po=<k>|x<k> mss=<v|-> ws=<v|-> sackp=<0|1> ts=<val:ecr|->
//!       one peer segment (valid checksums) handed to Interface::poll_ingress_single; payload byte i is
//!       peer_byte(k+i) = (7(k+i)+3) mod 253, or 255 - that for the inconsistent variant x<k>
//!   poll t=<ms> b=<k|->          Interface::poll with a device that accepts k more frames (- = unlimited;
//!                                if more than 20000 frames come out of one poll: `ret LIVELOCK`, case ends)
//! App bytes are never transmitted in the case: `send n` writes app bytes off.. off+n, byte i = i mod 251,
//! off = number of bytes accepted so far.
//! Observations after every event:
//!   ret ok | ret E<code> | ret <n> | ret <n> <fnv32> <first bytes hex> | ret PANIC   (API calls)
//!   tx sa=<1|3> sp= dp= seq= ack= fl= win= len= mss= ws= sackp= sack= ts= hl= ph=   (every frame emitted, parsed)
//!   st <STATE>   q <send_queue> <recv_queue>
//!   cap <may_send><may_recv><can_send><can_recv><is_listening><is_active><is_open>
//!   pollat <none|now|ms>      (Interface::poll_at at the current time)
use smoltcp::iface::{Config, Interface, SocketHandle, SocketSet};
use smoltcp::phy::{ChecksumCapabilities, Medium};
use smoltcp::socket::tcp;
use smoltcp::time::{Duration, Instant};
use smoltcp::wire::*;
use std::collections::BTreeMap;
use std::io::Write;
use std::sync::atomic::{AtomicU32, Ordering};
use svh::dev::QDev;
use svh::*;

pub const LOCAL: [u8; 4] = [10, 0, 0, 1];
/// second address of the interface (same subnet); `a=3` / `da=3` in the ops
pub const LOCAL2: [u8; 4] = [10, 0, 0, 3];
pub const PEER: [u8; 4] = [10, 0, 0, 2];
const M32: i64 = 1 << 32;
pub const POLL_FRAME_LIMIT: usize = 20000;

static TSVAL: AtomicU32 = AtomicU32::new(0);
fn tsgen() -> u32 {
    TSVAL.load(Ordering::Relaxed)
}

fn peer_byte(k: i64) -> u8 {
    ((7 * k.rem_euclid(253) + 3).rem_euclid(253)) as u8
}
fn app_byte(i: u64) -> u8 {
    (i % 251) as u8
}
fn fnv(b: &[u8]) -> u32 {
    let mut h: u32 = 0x811c9dc5;
    for x in b {
        h ^= *x as u32;
        h = h.wrapping_mul(0x01000193);
    }
    h
}
fn state_name(s: tcp::State) -> &'static str {
    match s {
        tcp::State::Closed => "CLOSED",
        tcp::State::Listen => "LISTEN",
        tcp::State::SynSent => "SYN-SENT",
        tcp::State::SynReceived => "SYN-RECEIVED",
        tcp::State::Established => "ESTABLISHED",
        tcp::State::FinWait1 => "FIN-WAIT-1",
        tcp::State::FinWait2 => "FIN-WAIT-2",
        tcp::State::CloseWait => "CLOSE-WAIT",
        tcp::State::Closing => "CLOSING",
        tcp::State::LastAck => "LAST-ACK",
        tcp::State::TimeWait => "TIME-WAIT",
    }
}

/// key=value tokens of an event line
fn kv<'a>(toks: &[&'a str], k: &str) -> Option<&'a str> {
    toks.iter().find_map(|t| t.strip_prefix(k).and_then(|r| r.strip_prefix('=')))
}
fn opt_i(v: Option<&str>) -> Option<i64> {
    match v {
        None | Some("-") => None,
        Some(x) => Some(x.parse().expect("int")),
    }
}

/// One emitted frame, parsed.
#[derive(Clone, Debug)]
pub struct Tx {
    pub sp: u16,
    pub dp: u16,
    pub seq: u32,
    pub ack: Option<u32>,
    pub ctl: TcpControl,
    pub win: u16,
    pub len: usize,
    pub mss: Option<u16>,
    pub ws: Option<u8>,
    pub sackp: bool,
    pub sack: Vec<(u32, u32)>,
    pub ts: Option<(u32, u32)>,
    pub hl: u8,
    /// last octet of the source address (1 or 3: the interface's two addresses)
    pub sa: u8,
    pub payload: Vec<u8>,
}
impl Tx {
    fn parse(frame: &[u8]) -> std::result::Result<Tx, String> {
        let ip = Ipv4Packet::new_checked(frame).map_err(|_| "ipv4 len")?;
        let ipr = Ipv4Repr::parse(&ip, &ChecksumCapabilities::default()).map_err(|_| "ipv4 parse")?;
        if ipr.next_header != IpProtocol::Tcp {
            return Err("not tcp".into());
        }
        let t = TcpPacket::new_checked(ip.payload()).map_err(|_| "tcp len")?;
        let r = TcpRepr::parse(&t, &ipr.src_addr.into(), &ipr.dst_addr.into(), &ChecksumCapabilities::default())
            .map_err(|_| "tcp parse")?;
        if (ipr.src_addr != Ipv4Address::from(LOCAL) && ipr.src_addr != Ipv4Address::from(LOCAL2)) || ipr.dst_addr != Ipv4Address::from(PEER) {
            return Err(format!("addresses {} -> {}", ipr.src_addr, ipr.dst_addr));
        }
        Ok(Tx {
            sp: r.src_port,
            dp: r.dst_port,
            seq: r.seq_number.0 as u32,
            ack: r.ack_number.map(|a| a.0 as u32),
            ctl: r.control,
            win: r.window_len,
            len: r.payload.len(),
            mss: r.max_seg_size,
            ws: r.window_scale,
            sackp: r.sack_permitted,
            sack: r.sack_ranges.iter().flatten().cloned().collect(),
            ts: r.timestamp.map(|t| (t.tsval, t.tsecr)),
            hl: ipr.hop_limit,
            sa: ipr.src_addr.octets()[3],
            payload: r.payload.to_vec(),
        })
    }
    fn line(&self) -> String {
        let o = |x: Option<String>| x.unwrap_or_else(|| "-".into());
        let fl = match self.ctl {
            TcpControl::None => "-",
            TcpControl::Psh => "P",
            TcpControl::Syn => "S",
            TcpControl::Fin => "F",
            TcpControl::Rst => "R",
        };
        let sack = if self.sack.is_empty() {
            "-".to_string()
        } else {
            self.sack.iter().map(|(l, r)| format!("{}-{}", l, r)).collect::<Vec<_>>().join(";")
        };
        format!(
            "tx sa={} sp={} dp={} seq={} ack={} fl={} win={} len={} mss={} ws={} sackp={} sack={} ts={} hl={} ph={:08x}",
            self.sa,
            self.sp,
            self.dp,
            self.seq,
            o(self.ack.map(|a| a.to_string())),
            fl,
            self.win,
            self.len,
            o(self.mss.map(|a| a.to_string())),
            o(self.ws.map(|a| a.to_string())),
            self.sackp as u8,
            sack,
            o(self.ts.map(|(a, b)| format!("{}:{}", a, b))),
            self.hl,
            fnv(&self.payload)
        )
    }
    fn seg_len(&self) -> u32 {
        self.len as u32 + matches!(self.ctl, TcpControl::Syn | TcpControl::Fin) as u32
    }
}

/// Result of one event on the implementation.
pub struct Step {
    pub lines: Vec<String>,
    pub txs: Vec<Tx>,
    pub ret: String,
    pub data: Vec<u8>,
    pub panicked: bool,
    pub livelock: bool,
}

/// The implementation under test: Interface + QDev + one tcp socket.
pub struct Sim {
    pub iface: Interface,
    pub dev: QDev,
    pub sockets: SocketSet<'static>,
    pub h: SocketHandle,
    pub now_ms: i64,
    pub app_off: u64,
    pub dead: bool,
    pub rx_cap: usize,
    pub tx_cap: usize,
}

#[derive(Clone, Debug)]
pub struct Cfg {
    pub rx: usize,
    pub tx: usize,
    pub mtu: usize,
    pub cc: String,
    pub ts: bool,
    pub fill: u8,
    pub seed: u64,
    pub isns: Vec<u32>,
}
impl Cfg {
    fn from_case(c: &Case) -> Cfg {
        Cfg {
            rx: c.get_i("rx", 64) as usize,
            tx: c.get_i("tx", 64) as usize,
            mtu: c.get_i("mtu", 1500) as usize,
            cc: c.get("cc").unwrap_or("none").to_string(),
            ts: c.get_i("ts", 0) != 0,
            fill: c.get_i("fill", 0) as u8,
            seed: c.get("seed").map(|s| s.parse().unwrap()).unwrap_or(0),
            isns: c
                .get("isns")
                .map(|s| if s == "-" { vec![] } else { s.split(',').map(|x| x.parse().unwrap()).collect() })
                .unwrap_or_default(),
        }
    }
    fn header(&self) -> Vec<(String, String)> {
        vec![
            ("rx".into(), self.rx.to_string()),
            ("tx".into(), self.tx.to_string()),
            ("mtu".into(), self.mtu.to_string()),
            ("cc".into(), self.cc.clone()),
            ("ts".into(), (self.ts as u8).to_string()),
            ("fill".into(), self.fill.to_string()),
            ("seed".into(), self.seed.to_string()),
            (
                "isns".into(),
                if self.isns.is_empty() { "-".into() } else { self.isns.iter().map(|x| x.to_string()).collect::<Vec<_>>().join(",") },
            ),
        ]
    }
}

impl Sim {
    pub fn new(cfg: &Cfg) -> Sim {
        let mut dev = QDev::new(Medium::Ip, cfg.mtu);
        let mut c = Config::new(HardwareAddress::Ip);
        c.random_seed = cfg.seed;
        let mut iface = Interface::new(c, &mut dev, Instant::ZERO);
        iface.update_ip_addrs(|a| {
            a.push(IpCidr::new(IpAddress::v4(LOCAL[0], LOCAL[1], LOCAL[2], LOCAL[3]), 24)).unwrap();
            a.push(IpCidr::new(IpAddress::v4(LOCAL2[0], LOCAL2[1], LOCAL2[2], LOCAL2[3]), 24)).unwrap();
        });
        let mut s = tcp::Socket::new(
            tcp::SocketBuffer::new(vec![cfg.fill; cfg.rx]),
            tcp::SocketBuffer::new(vec![cfg.fill; cfg.tx]),
        );
        s.set_congestion_control(if cfg.cc == "reno" { tcp::CongestionControl::Reno } else { tcp::CongestionControl::None });
        if cfg.ts {
            s.set_tsval_generator(Some(tsgen));
        }
        let mut sockets = SocketSet::new(vec![]);
        let h = sockets.add(s);
        Sim { iface, dev, sockets, h, now_ms: 0, app_off: 0, dead: false, rx_cap: cfg.rx, tx_cap: cfg.tx }
    }

    pub fn sock(&mut self) -> &mut tcp::Socket<'static> {
        self.sockets.get_mut::<tcp::Socket>(self.h)
    }
    pub fn state(&mut self) -> tcp::State {
        self.sock().state()
    }
    fn now(&self) -> Instant {
        Instant::from_millis(self.now_ms)
    }
    fn set_ts(&self) {
        TSVAL.store(((self.now_ms + 1000).rem_euclid(M32)) as u32, Ordering::Relaxed);
    }

    pub fn build_frame(toks: &[&str]) -> Vec<u8> {
        let sp = opt_i(kv(toks, "sp")).unwrap_or(4000) as u16;
        let dp = opt_i(kv(toks, "dp")).unwrap_or(80) as u16;
        let seq = opt_i(kv(toks, "seq")).unwrap_or(0) as u32;
        let ack = opt_i(kv(toks, "ack")).map(|a| a as u32);
        let fl = kv(toks, "fl").unwrap_or("-");
        let win = opt_i(kv(toks, "win")).unwrap_or(0) as u16;
        let len = opt_i(kv(toks, "len")).unwrap_or(0) as usize;
        let po = kv(toks, "po").unwrap_or("0");
        let payload: Vec<u8> = if let Some(k) = po.strip_prefix('x') {
            let k: i64 = k.parse().unwrap();
            (0..len).map(|i| 255 - peer_byte(k + i as i64)).collect()
        } else {
            let k: i64 = po.parse().unwrap();
            (0..len).map(|i| peer_byte(k + i as i64)).collect()
        };
        let ts = match kv(toks, "ts") {
            None | Some("-") => None,
            Some(v) => {
                let (a, b) = v.split_once(':').unwrap();
                Some(TcpTimestampRepr::new(a.parse().unwrap(), b.parse().unwrap()))
            }
        };
        let repr = TcpRepr {
            src_port: sp,
            dst_port: dp,
            control: TcpControl::None,
            seq_number: TcpSeqNumber(seq as i32),
            ack_number: ack.map(|a| TcpSeqNumber(a as i32)),
            window_len: win,
            window_scale: opt_i(kv(toks, "ws")).map(|v| v as u8),
            max_seg_size: opt_i(kv(toks, "mss")).map(|v| v as u16),
            sack_permitted: opt_i(kv(toks, "sackp")).unwrap_or(0) != 0,
            sack_ranges: [None, None, None],
            timestamp: ts,
            payload: &payload,
        };
        let src = Ipv4Address::from(PEER);
        let dst = if kv(toks, "da") == Some("3") { Ipv4Address::from(LOCAL2) } else { Ipv4Address::from(LOCAL) };
        let ipr = Ipv4Repr { src_addr: src, dst_addr: dst, next_header: IpProtocol::Tcp, payload_len: repr.buffer_len(), hop_limit: 64 };
        let mut buf = vec![0u8; ipr.buffer_len() + repr.buffer_len()];
        let caps = ChecksumCapabilities::default();
        ipr.emit(&mut Ipv4Packet::new_unchecked(&mut buf[..]), &caps);
        {
            let mut t = TcpPacket::new_unchecked(&mut buf[ipr.buffer_len()..]);
            repr.emit(&mut t, &src.into(), &dst.into(), &caps);
            t.set_syn(fl.contains('S'));
            t.set_fin(fl.contains('F'));
            t.set_rst(fl.contains('R'));
            t.set_psh(fl.contains('P'));
            t.fill_checksum(&src.into(), &dst.into());
        }
        buf
    }

    fn drain(&mut self, out: &mut Step) {
        for f in self.dev.drain_tx() {
            match Tx::parse(&f) {
                Ok(t) => {
                    out.lines.push(t.line());
                    out.txs.push(t);
                }
                Err(e) => out.lines.push(format!("tx UNPARSABLE {}", e)),
            }
        }
        for o in self.dev.oversize.drain(..) {
            out.lines.push(format!("tx OVERSIZE {}", o));
        }
    }

    fn ret_bytes(out: &mut Step, b: &[u8]) {
        out.ret = format!("{} {:08x} {}", b.len(), fnv(b), hex(&b[..b.len().min(8)]));
        out.data = b.to_vec();
    }

    fn step_inner(&mut self, line: &str, out: &mut Step) {
        let toks: Vec<&str> = line.split_whitespace().collect();
        let dur = |v: Option<&str>| opt_i(v).map(|ms| Duration::from_millis(ms as u64));
        match toks[0] {
            "listen" => {
                let port: u16 = toks[1].parse().unwrap();
                let r = if kv(&toks, "a") == Some("1") {
                    self.sock().listen(IpListenEndpoint { addr: Some(IpAddress::v4(LOCAL[0], LOCAL[1], LOCAL[2], LOCAL[3])), port })
                } else if kv(&toks, "a") == Some("3") {
                    self.sock().listen(IpListenEndpoint { addr: Some(IpAddress::v4(LOCAL2[0], LOCAL2[1], LOCAL2[2], LOCAL2[3])), port })
                } else {
                    self.sock().listen(port)
                };
                out.ret = match r {
                    Ok(()) => "ok".into(),
                    Err(tcp::ListenError::InvalidState) => "E1".into(),
                    Err(tcp::ListenError::Unaddressable) => "E2".into(),
                };
            }
            "connect" => {
                let rp = opt_i(kv(&toks, "rp")).unwrap() as u16;
                let lp = opt_i(kv(&toks, "lp")).unwrap() as u16;
                let s = self.sockets.get_mut::<tcp::Socket>(self.h);
                let ra = match kv(&toks, "ra") {
                    None | Some("4") => IpAddress::v4(PEER[0], PEER[1], PEER[2], PEER[3]),
                    Some("0") => IpAddress::v4(0, 0, 0, 0),
                    Some("6") => IpAddress::v6(0xfd00, 0, 0, 0, 0, 0, 0, 2),
                    Some("60") => IpAddress::v6(0, 0, 0, 0, 0, 0, 0, 0),
                    Some(x) => panic!("bad ra {}", x),
                };
                let la = match kv(&toks, "la") {
                    None | Some("-") => None,
                    Some("4") => Some(IpAddress::v4(LOCAL[0], LOCAL[1], LOCAL[2], LOCAL[3])),
                    Some("0") => Some(IpAddress::v4(0, 0, 0, 0)),
                    Some(x) => panic!("bad la {}", x),
                };
                let r = s.connect(self.iface.context(), (ra, rp), IpListenEndpoint { addr: la, port: lp });
                out.ret = match r {
                    Ok(()) => "ok".into(),
                    Err(tcp::ConnectError::InvalidState) => "E1".into(),
                    Err(tcp::ConnectError::Unaddressable) => "E2".into(),
                };
            }
            "close" => {
                self.sock().close();
                out.ret = "ok".into();
            }
            "abort" => {
                self.sock().abort();
                out.ret = "ok".into();
            }
            "send" => {
                let n: usize = toks[1].parse().unwrap();
                let off = self.app_off;
                let data: Vec<u8> = (0..n as u64).map(|i| app_byte(off + i)).collect();
                match self.sock().send_slice(&data) {
                    Ok(k) => {
                        self.app_off += k as u64;
                        out.ret = k.to_string();
                    }
                    Err(_) => out.ret = "E1".into(),
                }
            }
            "sendf" => {
                // closure API: the callback sees one contiguous slice and fills min(k, slice) octets
                let k: usize = toks[1].parse().unwrap();
                let off = self.app_off;
                let r = self.sock().send(|buf| {
                    let n = k.min(buf.len());
                    for (i, b) in buf[..n].iter_mut().enumerate() {
                        *b = app_byte(off + i as u64);
                    }
                    (n, (n, buf.len()))
                });
                match r {
                    Ok((n, sl)) => {
                        self.app_off += n as u64;
                        out.ret = format!("{} sl={}", n, sl);
                    }
                    Err(_) => out.ret = "E1".into(),
                }
            }
            "recvf" => {
                let k: usize = toks[1].parse().unwrap();
                let r = self.sock().recv(|buf| {
                    let n = k.min(buf.len());
                    (n, (buf[..n].to_vec(), buf.len()))
                });
                match r {
                    Ok((b, sl)) => {
                        Sim::ret_bytes(out, &b);
                        out.ret = format!("{} sl={}", out.ret, sl);
                    }
                    Err(tcp::RecvError::InvalidState) => out.ret = "E1".into(),
                    Err(tcp::RecvError::Finished) => out.ret = "E2".into(),
                }
            }
            "recv" => {
                let n: usize = toks[1].parse().unwrap();
                let mut buf = vec![0u8; n];
                match self.sock().recv_slice(&mut buf) {
                    Ok(k) => Sim::ret_bytes(out, &buf[..k]),
                    Err(tcp::RecvError::InvalidState) => out.ret = "E1".into(),
                    Err(tcp::RecvError::Finished) => out.ret = "E2".into(),
                }
            }
            "peek" => {
                let n: usize = toks[1].parse().unwrap();
                let mut buf = vec![0u8; n];
                match self.sock().peek_slice(&mut buf) {
                    Ok(k) => Sim::ret_bytes(out, &buf[..k]),
                    Err(tcp::RecvError::InvalidState) => out.ret = "E1".into(),
                    Err(tcp::RecvError::Finished) => out.ret = "E2".into(),
                }
            }
            "peekc" => {
                let n: usize = toks[1].parse().unwrap();
                let r = self.sock().peek(n).map(|b| b.to_vec());
                match r {
                    Ok(b) => Sim::ret_bytes(out, &b),
                    Err(tcp::RecvError::InvalidState) => out.ret = "E1".into(),
                    Err(tcp::RecvError::Finished) => out.ret = "E2".into(),
                }
            }
            "set" => {
                out.ret = "ok".into();
                if let Some(v) = kv(&toks, "timeout") {
                    self.sock().set_timeout(dur(Some(v)));
                } else if let Some(v) = kv(&toks, "keepalive") {
                    self.sock().set_keep_alive(dur(Some(v)));
                } else if let Some(v) = kv(&toks, "ackdelay") {
                    self.sock().set_ack_delay(dur(Some(v)));
                } else if let Some(v) = kv(&toks, "nagle") {
                    self.sock().set_nagle_enabled(v != "0");
                } else if let Some(v) = kv(&toks, "hoplimit") {
                    self.sock().set_hop_limit(opt_i(Some(v)).map(|x| x as u8));
                } else {
                    panic!("bad set {}", line);
                }
            }
            "seg" => {
                self.now_ms = opt_i(kv(&toks, "t")).unwrap_or(self.now_ms);
                self.set_ts();
                let f = Sim::build_frame(&toks);
                self.dev.rx.push_back(f);
                self.dev.tx_budget = None;
                let now = self.now();
                let _ = self.iface.poll_ingress_single(now, &mut self.dev, &mut self.sockets);
                self.drain(out);
            }
            "poll" => {
                self.now_ms = opt_i(kv(&toks, "t")).unwrap_or(self.now_ms);
                self.set_ts();
                let b = opt_i(kv(&toks, "b")).map(|b| b as usize);
                // "unlimited" = POLL_FRAME_LIMIT frames: Interface::poll loops until no socket emits, so a
                // socket that always has something to send would never return (reported as LIVELOCK)
                self.dev.tx_budget = Some(b.unwrap_or(POLL_FRAME_LIMIT));
                let now = self.now();
                let _ = self.iface.poll(now, &mut self.dev, &mut self.sockets);
                let exhausted = self.dev.tx_budget == Some(0);
                self.dev.tx_budget = None;
                if b.is_none() && exhausted {
                    self.dev.drain_tx();
                    self.dead = true;
                    out.lines.push("ret LIVELOCK".into());
                    out.livelock = true;
                    return;
                }
                self.drain(out);
            }
            x => panic!("bad event {}", x),
        }
    }

    /// Apply one event; observation lines in `lines`.
    pub fn step(&mut self, line: &str) -> Step {
        let mut out = Step { lines: vec![], txs: vec![], ret: String::new(), data: vec![], panicked: false, livelock: false };
        if self.dead {
            out.lines.push("dead".into());
            return out;
        }
        let r = std::panic::catch_unwind(std::panic::AssertUnwindSafe(|| self.step_inner(line, &mut out)));
        if r.is_err() {
            self.dead = true;
            out.panicked = true;
            out.lines.push("ret PANIC".into());
            return out;
        }
        if out.livelock {
            return out;
        }
        let is_api = !(line.starts_with("seg") || line.starts_with("poll"));
        if is_api {
            out.lines.insert(0, format!("ret {}", out.ret));
        }
        let now = self.now();
        self.set_ts();
        let r = std::panic::catch_unwind(std::panic::AssertUnwindSafe(|| {
            let pa = self.iface.poll_at(now, &self.sockets);
            let s = self.sockets.get_mut::<tcp::Socket>(self.h);
            (
                s.state(),
                s.send_queue(),
                s.recv_queue(),
                [s.may_send(), s.may_recv(), s.can_send(), s.can_recv(), s.is_listening(), s.is_active(), s.is_open()],
                pa,
            )
        }));
        match r {
            Ok((st, sq, rq, caps, pa)) => {
                out.lines.push(format!("st {}", state_name(st)));
                out.lines.push(format!("q {} {}", sq, rq));
                out.lines.push(format!("cap {}", caps.iter().map(|b| if *b { '1' } else { '0' }).collect::<String>()));
                out.lines.push(match pa {
                    None => "pollat none".to_string(),
                    Some(t) if t.total_micros() == 0 => "pollat now".to_string(),
                    Some(t) => {
                        let us = t.total_micros();
                        if us % 1000 == 0 { format!("pollat {}", us / 1000) } else { format!("pollat {}.{:03}", us.div_euclid(1000), us.rem_euclid(1000)) }
                    }
                });
            }
            Err(_) => {
                self.dead = true;
                out.panicked = true;
                out.lines.push("obs PANIC".into());
            }
        }
        out
    }
}

fn run_case(c: &Case, out: &mut dyn Write) {
    writeln!(out, "case {}", c.id).unwrap();
    let cfg = Cfg::from_case(c);
    let mut sim = Sim::new(&cfg);
    for op in &c.ops {
        let st = sim.step(op);
        for l in &st.lines {
            writeln!(out, "{}", l).unwrap();
        }
    }
}

include!("h_tcp_inc/gen.rs");
include!("h_tcp_inc/oracle.rs");

fn main() {
    if std::env::var("H_TCP_LOUD").is_err() {
        quiet_panics();
    }
    let (sub, seed, n, tier) = args();
    let stdout = std::io::stdout();
    let mut out = std::io::BufWriter::new(stdout.lock());
    match sub.as_str() {
        "gen" => {
            let mut rng = Rng::new(seed);
            let mut stats = BTreeMap::new();
            for i in 0..n {
                gen_case(&mut rng, format!("s{}-{}", seed, i), &tier, &mut stats).write(&mut out);
            }
        }
        "run" => {
            for c in stdin_cases() {
                run_case(&c, &mut out);
            }
        }
        "oracle" => oracle_main(seed, n, &tier, &mut out, None),
        "oracle-c04" => oracle_main(seed, n, &tier, &mut out, Some("c04-")),
        "oracle-replay" | "oracle-replay-c04" => {
            let mut fails = vec![];
            let mut stats = BTreeMap::new();
            for c in stdin_cases() {
                oracle_case(&c, &mut fails, &mut stats);
            }
            for f in &fails {
                if sub == "oracle-replay" || keep_class(f, "c04-") {
                    writeln!(out, "FAIL {}", f).unwrap();
                }
            }
        }
        x => panic!("unknown subcommand {}", x),
    }
}
